(* EvalIdxProgram3.v — eval() of a program (EvalIdxProgram.v) end to end: CPython is handed the backtick-free text in which
   every bracket is replaced by its C10 position text, in the namespace helpers < variables < locals; the container's variables
   and every existing dict other than the caller's `builtins=` are unchanged. *)
From Coq Require Import ZArith List Bool String Ascii Lia.
Import ListNotations.
Require Import PyBase EvalIdx EvalIdxFacts EvalIdxWhole EvalIdxLocate EvalIdxProgram EvalIdxProgram2.
Require Fsic.Locate.Locate.
Open Scope string_scope.
Open Scope Z_scope.

Section EvalProgram.
  Variable V : Type.
  Variable gl : list Locate.label -> Locate.label -> outcome Locate.loc.
  Variable ct : list Locate.label -> Locate.label -> bool.
  Variable sp : Locate.span.
  Variable pyeval : string -> ns V -> pyres V.

  Theorem eval_program dh tbl vars locals bi prog ts tail :
    Forall pseg_ok prog -> has_char ch_open tail = false ->
    Forall (fun p => has_char ch_tick (ps_pre p) = false) prog -> has_char ch_tick tail = false ->
    Forall2 (fun p t => ps_out gl ct sp p = Ret t) prog ts ->
    (forall l, bi = Some l -> (l < List.length dh)%nat) ->
    let r := eval_M V (c10_has ct sp) (c10_locate gl sp) pyeval dh tbl vars (program_text prog tail) locals bi in
    exists text,
      snd r = convert V (pyeval text (ns_update V (ns_update V (base_dict V dh tbl bi) vars) (locals_ns V locals))) /\
      has_char ch_tick text = false /\
      (has_char ch_tick (program_text prog tail) = true -> text = program_subst prog ts tail) /\
      (has_char ch_tick (program_text prog tail) = false -> text = program_text prog tail) /\
      snd (fst r) = vars /\
      (forall l', (l' < List.length dh)%nat -> bi <> Some l' -> dict_at V (fst (fst r)) l' = dict_at V dh l').
  Proof.
    intros Hok Hto Hpt Htt HF Hbi r.
    destruct (program_eval_text gl ct sp prog ts tail Hok Hto Hpt Htt HF) as (text & HT & Hnt & H1 & H2).
    pose proof (eval_spec V (c10_has ct sp) (c10_locate gl sp) pyeval dh tbl vars _ locals bi text HT Hbi) as S.
    cbv zeta in S. destruct S as (S1 & S2 & _ & S4).
    exists text. repeat split; assumption.
  Qed.
End EvalProgram.
