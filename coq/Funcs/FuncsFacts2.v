(* FuncsFacts2.v — whole-array closed forms of the helpers (on top of the element-wise specifications of FuncsFacts.v):
   lag / lead as "fill block ++ kept block", diff with d >= length as the constant fill array, diff as
   "fill block ++ element-wise differences". *)
From Coq Require Import ZArith List Bool Lia ZifyBool.
Import ListNotations.
Require Import PyBase Funcs FuncsFacts.
Open Scope Z_scope.

Section FuncsFacts2.
  Variable A : Type.
  Variable sub : A -> A -> A.
  Variable logf : A -> A.

  (* lag(x, p), 0 <= p <= n: p copies of fill, then the first n-p elements *)
  Theorem lag_closed_form (x : list A) (p : nat) (fill : A) :
    (p <= length x)%nat ->
    lag_v A x (Z.of_nat p) fill = repeat fill p ++ firstn (length x - p) x.
  Proof.
    intros Hp. apply (nth_ext _ _ fill fill).
    - unfold lag_v. rewrite shift_length, app_length, repeat_length, firstn_length. lia.
    - intros i Hi. unfold lag_v in Hi. rewrite shift_length in Hi.
      rewrite lag_spec by exact Hi.
      destruct (Nat.ltb i p) eqn:E.
      + apply Nat.ltb_lt in E. rewrite app_nth1 by (rewrite repeat_length; exact E). rewrite nth_repeat.
        replace ((0 <=? Z.of_nat i - Z.of_nat p) && (Z.of_nat i - Z.of_nat p <? Z.of_nat (length x))) with false by lia.
        reflexivity.
      + apply Nat.ltb_ge in E. rewrite app_nth2 by (rewrite repeat_length; exact E). rewrite repeat_length.
        replace ((0 <=? Z.of_nat i - Z.of_nat p) && (Z.of_nat i - Z.of_nat p <? Z.of_nat (length x))) with true by lia.
        rewrite nth_firstn' by lia. f_equal. lia.
  Qed.

  (* lead(x, p), 0 <= p <= n: the last n-p elements, then p copies of fill *)
  Theorem lead_closed_form (x : list A) (p : nat) (fill : A) :
    (p <= length x)%nat ->
    lead_v A x (Z.of_nat p) fill = skipn p x ++ repeat fill p.
  Proof.
    intros Hp. apply (nth_ext _ _ fill fill).
    - unfold lead_v. rewrite shift_length, app_length, repeat_length, skipn_length. lia.
    - intros i Hi. unfold lead_v in Hi. rewrite shift_length in Hi.
      rewrite lead_spec by exact Hi.
      destruct (Nat.ltb i (length x - p)) eqn:E.
      + apply Nat.ltb_lt in E. rewrite app_nth1 by (rewrite skipn_length; exact E).
        replace ((0 <=? Z.of_nat i + Z.of_nat p) && (Z.of_nat i + Z.of_nat p <? Z.of_nat (length x))) with true by lia.
        rewrite nth_skipn'. f_equal. lia.
      + apply Nat.ltb_ge in E. rewrite app_nth2 by (rewrite skipn_length; exact E).
        replace ((0 <=? Z.of_nat i + Z.of_nat p) && (Z.of_nat i + Z.of_nat p <? Z.of_nat (length x))) with false by lia.
        rewrite nth_repeat. reflexivity.
  Qed.

  (* diff(x, d) with d >= n (> 0): nothing to difference, the constant fill array *)
  Theorem diff_out_of_range_is_all_fill (x : list A) (d : Z) (fill : A) :
    0 < d -> Z.of_nat (length x) <= d -> diff_v A sub x d fill = Ret (repeat fill (length x)).
  Proof.
    intros Hd Hn.
    destruct x as [|a x'] eqn:Ex.
    { unfold diff_v. replace (d =? 0) with false by lia. replace (0 <? d) with true by lia. reflexivity. }
    rewrite <- Ex in *. assert (Hpos : (0 < length x)%nat) by (subst x; cbn; lia).
    destruct (diff_spec A sub x d fill fill 0 Hd Hpos) as (r & Hr & HL & _).
    rewrite Hr. f_equal. apply (nth_ext _ _ fill fill).
    - rewrite repeat_length. exact HL.
    - intros i Hi. rewrite HL in Hi.
      destruct (diff_spec A sub x d fill fill i Hd Hi) as (r' & Hr' & _ & Hn').
      rewrite Hr in Hr'. inversion Hr'; subst r'. rewrite Hn'. rewrite nth_repeat.
      replace (Z.of_nat i <? d) with true by lia. reflexivity.
  Qed.

  (* diff(x, d), 0 < d <= n: d copies of fill, then x[i] - x[i-d] *)
  Theorem diff_closed_form (x : list A) (d : nat) (fill : A) :
    (0 < d)%nat -> (d <= length x)%nat ->
    diff_v A sub x (Z.of_nat d) fill = Ret (repeat fill d ++ zip_with A sub (skipn d x) (firstn (length x - d) x)).
  Proof.
    intros Hd Hn.
    assert (HZ : length (zip_with A sub (skipn d x) (firstn (length x - d) x)) = (length x - d)%nat).
    { rewrite zip_with_length; rewrite skipn_length; [reflexivity|]. rewrite firstn_length. lia. }
    destruct x as [|a x'] eqn:Ex; [cbn in Hn; lia|]. rewrite <- Ex in *.
    assert (Hpos : (0 < length x)%nat) by lia.
    destruct (diff_spec A sub x (Z.of_nat d) fill fill 0 ltac:(lia) Hpos) as (r & Hr & HL & _).
    rewrite Hr. f_equal. apply (nth_ext _ _ fill fill).
    - rewrite app_length, repeat_length, HZ. lia.
    - intros i Hi. rewrite HL in Hi.
      destruct (diff_spec A sub x (Z.of_nat d) fill fill i ltac:(lia) Hi) as (r' & Hr' & _ & Hn').
      rewrite Hr in Hr'. inversion Hr'; subst r'. rewrite Hn'.
      destruct (Nat.ltb i d) eqn:E.
      + apply Nat.ltb_lt in E. rewrite app_nth1 by (rewrite repeat_length; exact E). rewrite nth_repeat.
        replace (Z.of_nat i <? Z.of_nat d) with true by lia. reflexivity.
      + apply Nat.ltb_ge in E. rewrite app_nth2 by (rewrite repeat_length; exact E). rewrite repeat_length.
        replace (Z.of_nat i <? Z.of_nat d) with false by lia.
        rewrite zip_with_nth; [| rewrite skipn_length, firstn_length; lia | rewrite skipn_length; lia].
        rewrite nth_skipn'. rewrite nth_firstn' by lia.
        f_equal; f_equal; lia.
  Qed.

  (* dlog inherits both *)
  Corollary dlog_closed_form (x : list A) (d : nat) (fill : A) :
    (0 < d)%nat -> (d <= length x)%nat ->
    dlog_v A sub logf x (Z.of_nat d) fill
    = Ret (repeat fill d ++ zip_with A sub (skipn d (map logf x)) (firstn (length x - d) (map logf x))).
  Proof.
    intros Hd Hn. unfold dlog_v. rewrite diff_closed_form by (rewrite ?map_length; assumption).
    rewrite map_length. reflexivity.
  Qed.
End FuncsFacts2.
