(* FuncsF.v — executable instances of the C16 models and the in-Coq comparisons used by the
   correspondence check (harness/props/C16.py).  Definitions only.
   * helpers over the kernel's binary64 floats (`-` = PrimFloat.sub, `log` = the table of numpy.log values recorded
     on the same run) and over Z (int64 arrays with small values);
   * the text rewriter on concrete spans (used to cross-check the OCaml extraction on a sample). *)
From Coq Require Import PrimFloat FloatOps ZArith List Bool String.
From Coq Require SpecFloat.
Import ListNotations.
Require Import PyBase Funcs FuncsConv EvalIdx.
Open Scope Z_scope.

(* equality on IEEE values, all NaNs identified, +0 and -0 distinguished *)
Definition feqb_bits (x y : float) : bool :=
  match Prim2SF x, Prim2SF y with
  | SpecFloat.S754_zero a, SpecFloat.S754_zero b => Bool.eqb a b
  | SpecFloat.S754_infinity a, SpecFloat.S754_infinity b => Bool.eqb a b
  | SpecFloat.S754_nan, SpecFloat.S754_nan => true
  | SpecFloat.S754_finite a m e, SpecFloat.S754_finite b m' e' => Bool.eqb a b && Pos.eqb m m' && Z.eqb e e'
  | _, _ => false
  end.

Fixpoint leqb {A} (eqb : A -> A -> bool) (a b : list A) : bool :=
  match a, b with
  | [], [] => true
  | x :: a', y :: b' => eqb x y && leqb eqb a' b'
  | _, _ => false
  end.

Definition exn_code (e : exn) : nat :=
  match e with
  | ValueError => 1 | IndexError => 2 | KeyError => 3 | AttributeError => 4 | TypeError => 5
  | NotImplementedError => 6 | OverflowError => 7 | SolutionError _ => 8 | NonConvergenceError => 9
  | ParserError => 10 | SymbolError => 11 | IndentationError => 12 | DimensionError => 13
  | DuplicateNameError => 14 | InitialisationError => 15 | UnboundLocalError => 16 | FortranEngineError => 17
  | OtherError => 18
  end%nat.

Definition oeqb {A} (eqb : A -> A -> bool) (a b : outcome A) : bool :=
  match a, b with
  | Ret x, Ret y => eqb x y
  | Raise e, Raise e' => Nat.eqb (exn_code e) (exn_code e')
  | _, _ => false
  end.

Fixpoint bad_idx {A} (f : A -> bool) (i : nat) (l : list A) : list nat :=
  match l with [] => [] | x :: r => if f x then bad_idx f (S i) r else i :: bad_idx f (S i) r end.

(* numpy.log as recorded on this run: value -> log value (keys compared on bits) *)
Fixpoint log_tab (tab : list (float * float)) (v : float) : float :=
  match tab with
  | [] => nan
  | (k, r) :: t => if feqb_bits k v then r else log_tab t v
  end.

(* ---- helper cases ---- *)
Record hcase (A : Type) := mkH {
  h_f : fname; h_rank : nat; h_x : list A; h_p : Z; h_fill : A;
  h_out : outcome (list A); h_same : bool; h_after : list A }.
Arguments mkH {A}.

Definition check_h {A} (sub : A -> A -> A) (logf : A -> A) (eqb : A -> A -> bool) (c : hcase A) : bool :=
  let o := observe A sub logf (h_f A c) (h_rank A c) (h_x A c) (h_p A c) (h_fill A c) in
  oeqb (leqb eqb) (o_res A o) (h_out A c) && Bool.eqb (o_same A o) (h_same A c) && leqb eqb (o_input_after A o) (h_after A c).

Definition check_hF (tc : list (float * float) * hcase float) : bool :=
  check_h PrimFloat.sub (log_tab (fst tc)) feqb_bits (snd tc).
Definition check_hZ (c : hcase Z) : bool := check_h Z.sub (fun z => z) Z.eqb c.

(* ---- int64 arrays with an arbitrary Python fill value: the cast made explicit (FuncsConv.v) ---- *)
Record ccase := mkCC {
  c_f : fname; c_rank : nat; c_x : list Z; c_p : Z; c_fill : pyfill;
  c_out : outcome (list Z); c_same : bool; c_after : list Z }.
Definition check_hC (c : ccase) : bool :=
  let o := observe_c Z pyfill Z.sub (fun z => z) conv_int64 (c_f c) (c_rank c) (c_x c) (c_p c) (c_fill c) in
  oeqb (leqb Z.eqb) (o_res Z o) (c_out c) && Bool.eqb (o_same Z o) (c_same c) && leqb Z.eqb (o_input_after Z o) (c_after c).

(* ---- text cases (cross-check of the extraction) ---- *)
Record xcase := mkX { x_span : span_model; x_direct : bool; x_expr : string; x_out : outcome string }.
Definition check_x (c : xcase) : bool :=
  oeqb String.eqb ((if x_direct c then rewrite_span else eval_text_span) (x_span c) (x_expr c)) (x_out c).
