(* EvalIdxMixed.v — MIXED brackets: a slice with a backticked label at one end and a plain text at the other, e.g.
   X[`a`:3] or X[1:`b`].  A mixed bracket contains a backtick, so it reaches the callback; since fix 967c56d the callback
   resolves only the items that hold a backticked label and leaves a plain item exactly as written (after str.strip()):
     * a LABEL start is written as its position, a LABEL stop as its position + 1 (inclusive label end);
     * a PLAIN item — an integer, an arithmetic expression, a name, nothing — is copied: it keeps its ordinary Python meaning
       (X[`2001`:3] is X[1:3:], X[`2001`:-1] is X[1:-1:], X[`2001`:n-1] is X[1:n-1:]).
   (Before the fix every item went through int() and every built-in-int stop was incremented: kept finding of round 3.) *)
From Coq Require Import ZArith List Bool String Ascii Lia ZifyBool.
Import ListNotations.
Require Import PyBase EvalIdx EvalIdxFacts.
Open Scope string_scope.
Open Scope Z_scope.

Inductive mpart := MLab (a : string) (l : loc) | MPlain (p : string).      (* MPlain "" = an open end *)

Definition m_text (x : mpart) : string := match x with MLab a _ => bt a | MPlain p => p end.

Section Mixed.
  Variable has : label -> bool.
  Variable locate : label -> outcome loc.
  Notation resolve_group := (resolve_group has locate).

  Definition m_ok (x : mpart) : Prop :=
    match x with
    | MLab a l => has_char ch_tick a = false /\ has_char ch_colon a = false /\ label_resolves has locate a l
    | MPlain p => has_char ch_tick p = false /\ has_char ch_colon p = false
    end.

  (* the text written for an item: a label's start / inclusive stop; a plain item itself *)
  Definition m_val (x : mpart) (is_stop : bool) : string :=
    match x with
    | MLab a l => Z_to_string (snd (if is_stop then bump (stop_of l) else start_of l))
    | MPlain p => strip is_py_space p
    end.

  Lemma m_text_no_colon x : m_ok x -> has_char ch_colon (m_text x) = false.
  Proof.
    destruct x as [a l|p]; cbn [m_ok m_text]; [|intros [_ C]; exact C].
    intros (_ & C & _). exact (proj1 (proj2 (bt_facts a C))).
  Qed.

  Lemma render_item_m x is_stop : m_ok x -> render_item has locate (strip is_py_space (m_text x)) is_stop = Ret (m_val x is_stop).
  Proof.
    destruct x as [a l|p]; cbn [m_ok m_text m_val].
    - intros (T & C & R). destruct (bt_facts a C) as (B1 & _ & _ & B4). rewrite B4.
      rewrite (render_item_tick has locate (bt a) is_stop B1).
      exact (render_part_bt has locate a l is_stop T C R).
    - intros [T _]. exact (render_item_stripped_plain has locate p is_stop T).
  Qed.

  Theorem mixed_slice_rewrite x y :
    m_ok x -> m_ok y ->
    resolve_group (m_text x ++ String ch_colon (m_text y)) = Ret ("[" ++ m_val x false ++ ":" ++ m_val y true ++ ":" ++ "" ++ "]").
  Proof.
    intros Hx Hy. rewrite (resolve_group_slice2 has locate _ _ (m_text_no_colon x Hx) (m_text_no_colon y Hy)).
    rewrite (render_item_m x false Hx), (render_item_m y true Hy). reflexivity.
  Qed.

  Theorem mixed_slice_step_rewrite x y ps :
    m_ok x -> m_ok y -> has_char ch_colon ps = false ->
    resolve_group (m_text x ++ String ch_colon (m_text y ++ String ch_colon ps)) =
      Ret ("[" ++ m_val x false ++ ":" ++ m_val y true ++ ":" ++ strip is_py_space ps ++ "]").
  Proof.
    intros Hx Hy Hs. rewrite (resolve_group_slice3 has locate _ _ _ (m_text_no_colon x Hx) (m_text_no_colon y Hy) Hs).
    rewrite (render_item_m x false Hx), (render_item_m y true Hy). reflexivity.
  Qed.

  (* spelled out: label start, integer stop — the integer keeps its Python meaning (exclusive stop) *)
  Corollary label_start_int_stop a pa (z : Z) (n : nat) :
    has_char ch_tick a = false -> has_char ch_colon a = false -> label_resolves has locate a (LocI PyInt pa) ->
    exists inner,
      resolve_group (bt a ++ String ch_colon (Z_to_string z)) = Ret ("[" ++ inner ++ "]") /\
      index_sem n inner = Some (py_slice_positions n (Some pa) (Some z) 1).
  Proof.
    intros T C R. exists (ropt (Some pa) ++ String ch_colon (ropt (Some z) ++ String ch_colon (ropt None))). split.
    - pose proof (mixed_slice_rewrite (MLab a (LocI PyInt pa)) (MPlain (Z_to_string z))) as H.
      cbn [m_text m_val m_ok start_of snd] in H. rewrite strip_Z_to_string in H.
      rewrite inner_assoc. apply H; [repeat split; assumption|].
      destruct (numeric_no_special _ (Z_to_string_numeric z)) as (Cz & Tz & _ & _). split; assumption.
    - rewrite index_sem_slice3 by apply ropt_no_colon. rewrite slice_sem_ropt. reflexivity.
  Qed.

  (* integer start, label stop — the start as written, the stop at the label's position inclusive *)
  Corollary int_start_label_stop (z : Z) b pb (n : nat) :
    has_char ch_tick b = false -> has_char ch_colon b = false -> label_resolves has locate b (LocI PyInt pb) ->
    exists inner,
      resolve_group (Z_to_string z ++ String ch_colon (bt b)) = Ret ("[" ++ inner ++ "]") /\
      index_sem n inner = Some (py_slice_positions n (Some z) (Some (pb + 1)) 1).
  Proof.
    intros T C R. exists (ropt (Some z) ++ String ch_colon (ropt (Some (pb + 1)) ++ String ch_colon (ropt None))). split.
    - pose proof (mixed_slice_rewrite (MPlain (Z_to_string z)) (MLab b (LocI PyInt pb))) as H.
      cbn [m_text m_val m_ok stop_of bump snd] in H. rewrite strip_Z_to_string in H.
      rewrite inner_assoc. apply H; [|repeat split; assumption].
      destruct (numeric_no_special _ (Z_to_string_numeric z)) as (Cz & Tz & _ & _). split; assumption.
    - rewrite index_sem_slice3 by apply ropt_no_colon. rewrite slice_sem_ropt. reflexivity.
  Qed.

  (* a plain item that is no integer literal (2-1, a name, ...) is copied as well — no ValueError any more *)
  Corollary mixed_slice_plain_item_verbatim a l p :
    has_char ch_tick a = false -> has_char ch_colon a = false -> label_resolves has locate a l ->
    has_char ch_tick p = false -> has_char ch_colon p = false ->
    resolve_group (bt a ++ String ch_colon p) =
      Ret ("[" ++ Z_to_string (snd (start_of l)) ++ ":" ++ strip is_py_space p ++ ":" ++ "" ++ "]").
  Proof.
    intros T C R Tp Cp. pose proof (mixed_slice_rewrite (MLab a l) (MPlain p)) as H.
    cbn [m_text m_val m_ok] in H. apply H; repeat split; assumption.
  Qed.
End Mixed.

(* the general two-label form as one lemma (start of the first location; stop of the second, incremented exactly when it is a
   built-in int) *)
Lemma label_slice_rewrite_any_loc (has : label -> bool) (locate : label -> outcome loc) (a b : string) (la lb : loc) :
  has_char ch_tick a = false -> has_char ch_colon a = false -> label_resolves has locate a la ->
  has_char ch_tick b = false -> has_char ch_colon b = false -> label_resolves has locate b lb ->
  resolve_group has locate (bt a ++ String ch_colon (bt b)) =
    Ret ("[" ++ Z_to_string (snd (start_of la)) ++ ":" ++ Z_to_string (snd (bump (stop_of lb))) ++ ":" ++ "" ++ "]").
Proof.
  intros Ta Ca Ra Tb Cb Rb.
  exact (label_slice_rewrite_loc has locate (LP a la) (LP b lb) (conj Ta (conj Ca Ra)) (conj Tb (conj Cb Rb))).
Qed.

(* fix 967c56d at work (the round-3 finding mixed-slice-integer-end, repaired): the integer end keeps its Python meaning *)
Example mixed_slice_integer_end_keeps_its_meaning :
  let sp := SpanSeq [LInt 2000; LInt 2001; LInt 2002; LInt 2003; LInt 2004] in
  eval_text_span sp "X[`2001`:3]" = Ret "X[1:3:]" /\ index_sem 5 "1:3:" = index_sem 5 "1:3" /\
  eval_text_span sp "X[`2001`:-1]" = Ret "X[1:-1:]" /\ index_sem 5 "1:-1:" = Some [1; 2; 3]%nat /\
  eval_text_span sp "X[`2001`:2-1]" = Ret "X[1:2-1:]" /\
  eval_text_span sp "X[ 1 : `2003` ]" = Ret "X[1:4:]".
Proof. repeat split; vm_compute; reflexivity. Qed.
