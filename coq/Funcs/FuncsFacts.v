(* FuncsFacts.v — proofs about the model of fsic/functions.py (Funcs.v). *)
From Coq Require Import ZArith List Bool Lia ZifyBool.
Import ListNotations.
Require Import PyBase Funcs.
Open Scope Z_scope.

(* ------------------------------------------------------------------ generic list facts *)
Section ListFacts.
  Context {A : Type}.

  Lemma fold_upd_length (v : A) (ps : list nat) (x : list A) :
    length (fold_left (fun l i => upd i v l) ps x) = length x.
  Proof. revert x; induction ps as [|p ps IH]; intros x; cbn [fold_left]; [reflexivity|]. rewrite IH. apply upd_length. Qed.

  Lemma fold_upd_nth (v d : A) (ps : list nat) (x : list A) (i : nat) :
    (i < length x)%nat ->
    nth i (fold_left (fun l j => upd j v l) ps x) d = if existsb (Nat.eqb i) ps then v else nth i x d.
  Proof.
    revert x; induction ps as [|p ps IH]; intros x Hi; cbn [fold_left existsb]; [reflexivity|].
    rewrite IH by (rewrite upd_length; exact Hi).
    destruct (Nat.eqb i p) eqn:E.
    - apply Nat.eqb_eq in E; subst p. cbn [orb].
      destruct (existsb (Nat.eqb i) ps); [reflexivity|]. apply nth_upd_eq; exact Hi.
    - apply Nat.eqb_neq in E. cbn [orb].
      destruct (existsb (Nat.eqb i) ps); [reflexivity|]. apply nth_upd_neq; congruence.
  Qed.

  Lemma nth_skipn' (k i : nat) (x : list A) (d : A) : nth i (skipn k x) d = nth (k + i) x d.
  Proof.
    revert x; induction k as [|k IH]; intros x; [reflexivity|].
    destruct x as [|a x]; cbn [skipn]; [destruct i; reflexivity|]. rewrite IH. reflexivity.
  Qed.

  Lemma nth_firstn' (k i : nat) (x : list A) (d : A) : (i < k)%nat -> nth i (firstn k x) d = nth i x d.
  Proof.
    revert i x; induction k as [|k IH]; intros i x H; [lia|].
    destruct x as [|a x]; [destruct i; reflexivity|]. destruct i as [|i]; [reflexivity|].
    cbn [firstn nth]. apply IH. lia.
  Qed.
End ListFacts.

(* positions of a step-1 slice: the integers a, a+1, ..., b-1 *)
Lemma range_from_step1 (fuel : nat) (a b : Z) (i : nat) :
  0 <= a -> b - a <= Z.of_nat fuel ->
  existsb (Nat.eqb i) (range_from fuel a 1 b) = (a <=? Z.of_nat i) && (Z.of_nat i <? b).
Proof.
  revert a; induction fuel as [|f IH]; intros a Ha Hf; cbn [range_from existsb].
  - lia.
  - destruct (a <? b) eqn:E; cbn [existsb].
    + rewrite IH by lia. destruct (Nat.eqb i (Z.to_nat a)) eqn:E2.
      * apply Nat.eqb_eq in E2. lia.
      * apply Nat.eqb_neq in E2. lia.
    + lia.
Qed.

Lemma slice_bounds_range (n : nat) (start stop : option Z) :
  let '(a, b) := py_slice_bounds n start stop in 0 <= a <= Z.of_nat n /\ 0 <= b <= Z.of_nat n.
Proof.
  unfold py_slice_bounds, clip. destruct start as [s|], stop as [t|]; repeat split;
    repeat match goal with |- context [if ?c then _ else _] => destruct c eqn:? end; lia.
Qed.

Section FuncsFacts.
  Variable A : Type.
  Variable sub : A -> A -> A.
  Variable logf : A -> A.

  Notation roll := (roll A).
  Notation fill_slice := (fill_slice A).
  Notation shift_v := (shift_v A).
  Notation lag_v := (lag_v A).
  Notation lead_v := (lead_v A).
  Notation diff_v := (diff_v A sub).
  Notation dlog_v := (dlog_v A sub logf).
  Notation zip_with := (zip_with A).
  Notation shift_H := (shift_H A).
  Notation lag_H := (lag_H A).
  Notation lead_H := (lead_H A).
  Notation diff_H := (diff_H A sub).
  Notation dlog_H := (dlog_H A sub logf).
  Notation data_at := (data_at A).
  Notation store_slice := (store_slice A).
  Notation heap := (heap A).

  (* ---------------- lengths ---------------- *)
  Lemma roll_length x p : length (roll x p) = length x.
  Proof.
    unfold roll. rewrite app_length, skipn_length, firstn_length. lia.
  Qed.

  Lemma fill_slice_length x a b v : length (fill_slice x a b v) = length x.
  Proof. unfold Funcs.fill_slice. apply fold_upd_length. Qed.

  Lemma shift_length x p fill : length (shift_v x p fill) = length x.
  Proof.
    unfold Funcs.shift_v. destruct (p =? 0); [reflexivity|].
    destruct (0 <? p); rewrite fill_slice_length; apply roll_length.
  Qed.

  Lemma zip_with_length f a b : length a = length b -> length (zip_with f a b) = length a.
  Proof. revert b; induction a as [|x a IH]; intros [|y b] H; cbn in *; try lia. f_equal. apply IH. lia. Qed.

  Lemma zip_with_nth f a b i d : length a = length b -> (i < length a)%nat ->
    nth i (zip_with f a b) d = f (nth i a d) (nth i b d).
  Proof.
    revert b i; induction a as [|x a IH]; intros [|y b] i H Hi; cbn in *; try lia.
    destruct i as [|i]; [reflexivity|]. apply IH; lia.
  Qed.

  (* ---------------- a[start:stop] = v ---------------- *)
  Lemma fill_slice_nth x start stop v d i :
    (i < length x)%nat ->
    nth i (fill_slice x start stop v) d =
      (let '(a, b) := py_slice_bounds (length x) start stop in
       if (a <=? Z.of_nat i) && (Z.of_nat i <? b) then v else nth i x d).
  Proof.
    intros Hi. unfold Funcs.fill_slice, py_slice_positions.
    pose proof (slice_bounds_range (length x) start stop) as HB.
    destruct (py_slice_bounds (length x) start stop) as [a b].
    rewrite fold_upd_nth by exact Hi.
    rewrite range_from_step1 by lia. reflexivity.
  Qed.

  (* ---------------- numpy.roll ---------------- *)
  Lemma roll_nth_raw x p d i :
    (i < length x)%nat ->
    let n := Z.of_nat (length x) in
    let off := p mod n in
    nth i (roll x p) d =
      if Z.of_nat i <? off then nth (Z.to_nat (Z.of_nat i + n - off)) x d else nth (Z.to_nat (Z.of_nat i - off)) x d.
  Proof.
    intros Hi n off. unfold Funcs.roll. fold n.
    replace (n =? 0) with false by lia. fold off.
    assert (Hoff : 0 <= off < n) by (apply Z.mod_pos_bound; lia).
    destruct (Z.of_nat i <? off) eqn:E.
    - rewrite app_nth1 by (rewrite skipn_length; lia).
      rewrite nth_skipn'. f_equal. lia.
    - rewrite app_nth2 by (rewrite skipn_length; lia).
      rewrite skipn_length.
      rewrite nth_firstn' by lia.
      f_equal. lia.
  Qed.

  (* np.roll is a rotation: result[i] = x[(i - p) mod n] *)
  Lemma roll_nth x p d i :
    (i < length x)%nat ->
    nth i (roll x p) d = nth (Z.to_nat ((Z.of_nat i - p) mod Z.of_nat (length x))) x d.
  Proof.
    intros Hi. rewrite roll_nth_raw by exact Hi. cbv zeta.
    set (n := Z.of_nat (length x)). set (off := p mod n).
    assert (Hn : 0 < n) by lia.
    assert (Hoff : 0 <= off < n) by (apply Z.mod_pos_bound; lia).
    assert (Hp : p = n * (p / n) + off) by (apply Z.div_mod; lia).
    destruct (Z.of_nat i <? off) eqn:E; f_equal; f_equal.
    - apply (Z.mod_unique _ _ (- (p / n) - 1)); lia.
    - apply (Z.mod_unique _ _ (- (p / n))); lia.
  Qed.

  (* ---------------- lag_spec: for ALL lengths, ALL integer shifts (|p| may exceed the length) ---------------- *)
  Lemma roll_in_range x p d i :
    (i < length x)%nat -> 0 <= Z.of_nat i - p < Z.of_nat (length x) ->
    nth i (roll x p) d = nth (Z.to_nat (Z.of_nat i - p)) x d.
  Proof.
    intros Hi Hr. rewrite roll_nth by exact Hi. f_equal. f_equal. apply Z.mod_small. exact Hr.
  Qed.

  Theorem shift_spec x p fill d i :
    (i < length x)%nat ->
    nth i (shift_v x p fill) d =
      if (0 <=? Z.of_nat i - p) && (Z.of_nat i - p <? Z.of_nat (length x))
      then nth (Z.to_nat (Z.of_nat i - p)) x d else fill.
  Proof.
    intros Hi. unfold Funcs.shift_v.
    destruct (p =? 0) eqn:E0.
    { assert (p = 0) by lia; subst p.
      replace ((0 <=? Z.of_nat i - 0) && (Z.of_nat i - 0 <? Z.of_nat (length x))) with true by lia.
      f_equal. lia. }
    pose proof (roll_in_range x p d i Hi) as HR.
    destruct (0 <? p) eqn:Ep.
    - (* p > 0: shifted[:p] = fill *)
      rewrite fill_slice_nth by (rewrite roll_length; exact Hi).
      rewrite roll_length. cbn [py_slice_bounds]. unfold clip.
      replace (p <? 0) with false by lia.
      destruct (Z.of_nat (length x) <? p) eqn:Enp;
        match goal with |- (if ?c then _ else _) = (if ?c' then _ else _) => destruct c eqn:E1; destruct c' eqn:E2 end;
        try reflexivity; try lia; try (apply HR; lia).
    - (* p < 0: shifted[p:] = fill *)
      rewrite fill_slice_nth by (rewrite roll_length; exact Hi).
      rewrite roll_length. cbn [py_slice_bounds]. unfold clip.
      replace (p <? 0) with true by lia.
      destruct (p + Z.of_nat (length x) <? 0) eqn:Epn;
        match goal with |- (if ?c then _ else _) = (if ?c' then _ else _) => destruct c eqn:E1; destruct c' eqn:E2 end;
        try reflexivity; try lia; try (apply HR; lia).
  Qed.

  Theorem lag_spec x p fill d i :
    (i < length x)%nat ->
    nth i (lag_v x p fill) d =
      if (0 <=? Z.of_nat i - p) && (Z.of_nat i - p <? Z.of_nat (length x))
      then nth (Z.to_nat (Z.of_nat i - p)) x d else fill.
  Proof. exact (shift_spec x p fill d i). Qed.

  Theorem lead_eq_lag_neg x p fill : lead_v x p fill = lag_v x (- p) fill.
  Proof. reflexivity. Qed.

  (* the same, spelled out: lead(x,p)[i] = x[i+p] inside, fill outside *)
  Theorem lead_spec x p fill d i :
    (i < length x)%nat ->
    nth i (lead_v x p fill) d =
      if (0 <=? Z.of_nat i + p) && (Z.of_nat i + p <? Z.of_nat (length x))
      then nth (Z.to_nat (Z.of_nat i + p)) x d else fill.
  Proof.
    intros Hi. unfold Funcs.lead_v. rewrite shift_spec by exact Hi.
    replace (Z.of_nat i - - p) with (Z.of_nat i + p) by lia. reflexivity.
  Qed.

  (* whole-array reading: an out-of-range shift yields the constant fill array, p = 0 the input *)
  Corollary lag_all_fill x p fill :
    Z.of_nat (length x) <= Z.abs p -> lag_v x p fill = repeat fill (length x).
  Proof.
    intros Hp. apply (nth_ext _ _ fill fill).
    - unfold Funcs.lag_v. rewrite shift_length, repeat_length. reflexivity.
    - intros i Hi. unfold Funcs.lag_v in *. rewrite shift_length in Hi. rewrite shift_spec by exact Hi.
      rewrite nth_repeat.
      destruct ((0 <=? Z.of_nat i - p) && (Z.of_nat i - p <? Z.of_nat (length x))) eqn:E; [lia|reflexivity].
  Qed.

  Lemma lag_zero x fill : lag_v x 0 fill = x.
  Proof. reflexivity. Qed.

  (* ---------------- diff ---------------- *)
  Theorem diff_spec x d0 fill dflt i :
    0 < d0 -> (i < length x)%nat ->
    exists r, diff_v x d0 fill = Ret r /\ length r = length x /\
      nth i r dflt = if Z.of_nat i <? d0 then fill
                     else sub (nth i x dflt) (nth (Z.to_nat (Z.of_nat i - d0)) x dflt).
  Proof.
    intros Hd Hi. unfold Funcs.diff_v.
    replace (d0 =? 0) with false by lia. replace (0 <? d0) with true by lia.
    eexists; split; [reflexivity|].
    assert (HL : length (zip_with sub x (lag_v x d0 fill)) = length x).
    { apply zip_with_length. unfold Funcs.lag_v. rewrite shift_length. reflexivity. }
    split; [rewrite fill_slice_length; exact HL|].
    rewrite fill_slice_nth by (rewrite HL; exact Hi). rewrite HL.
    cbn [py_slice_bounds]. unfold clip. replace (d0 <? 0) with false by lia.
    assert (HV : (Z.of_nat i <? d0) = false ->
                 nth i (zip_with sub x (lag_v x d0 fill)) dflt = sub (nth i x dflt) (nth (Z.to_nat (Z.of_nat i - d0)) x dflt)).
    { intros Eid. rewrite zip_with_nth; [| unfold Funcs.lag_v; rewrite shift_length; reflexivity | exact Hi].
      f_equal. unfold Funcs.lag_v. rewrite shift_spec by exact Hi.
      replace ((0 <=? Z.of_nat i - d0) && (Z.of_nat i - d0 <? Z.of_nat (length x))) with true by lia. reflexivity. }
    destruct (Z.of_nat (length x) <? d0) eqn:End;
      match goal with |- (if ?c then _ else _) = (if ?c' then _ else _) => destruct c eqn:E1; destruct c' eqn:E2 end;
      try reflexivity; try lia; try (apply HV; lia).
  Qed.

  Theorem diff_zero_is_identity x fill : diff_v x 0 fill = Ret x.
  Proof. reflexivity. Qed.

  Theorem diff_negative_not_implemented x d0 fill : d0 < 0 -> diff_v x d0 fill = Raise NotImplementedError.
  Proof. intros H. unfold Funcs.diff_v. replace (d0 =? 0) with false by lia. replace (0 <? d0) with false by lia. reflexivity. Qed.

  Theorem diff_length x d0 fill r : diff_v x d0 fill = Ret r -> length r = length x.
  Proof.
    unfold Funcs.diff_v. destruct (d0 =? 0); [intros H; inversion H; reflexivity|].
    destruct (0 <? d0); [|discriminate]. intros H; inversion H; subst; clear H.
    rewrite fill_slice_length. apply zip_with_length. unfold Funcs.lag_v. rewrite shift_length. reflexivity.
  Qed.

  (* ---------------- dlog ---------------- *)
  Theorem dlog_eq_diff_log x d0 fill : dlog_v x d0 fill = diff_v (map logf x) d0 fill.
  Proof. reflexivity. Qed.

  Theorem dlog_spec x d0 fill dflt i :
    0 < d0 -> (i < length x)%nat ->
    exists r, dlog_v x d0 fill = Ret r /\ length r = length x /\
      nth i r (logf dflt) = if Z.of_nat i <? d0 then fill
                     else sub (logf (nth i x dflt)) (logf (nth (Z.to_nat (Z.of_nat i - d0)) x dflt)).
  Proof.
    intros Hd Hi. unfold Funcs.dlog_v.
    destruct (diff_spec (map logf x) d0 fill (logf dflt) i Hd) as (r & Hr & HL & Hn).
    { rewrite map_length; exact Hi. }
    exists r. split; [exact Hr|]. rewrite map_length in HL. split; [exact HL|].
    rewrite Hn. rewrite !map_nth. reflexivity.
  Qed.

  Theorem dlog_zero_is_log x fill : dlog_v x 0 fill = Ret (map logf x).
  Proof. reflexivity. Qed.

  (* ---------------- object level: which array is returned, which arrays are written ---------------- *)
  Definition preserved (h h' : heap) : Prop :=
    (length h <= length h')%nat /\ forall l, (l < length h)%nat -> nth_error h' l = nth_error h l.

  Lemma preserved_refl h : preserved h h.
  Proof. split; [lia|auto]. Qed.

  Lemma preserved_trans h1 h2 h3 : preserved h1 h2 -> preserved h2 h3 -> preserved h1 h3.
  Proof. intros [L1 P1] [L2 P2]. split; [lia|]. intros l Hl. rewrite P2 by lia. apply P1; exact Hl. Qed.

  Lemma preserved_alloc h a : preserved h (h ++ [a]).
  Proof. split; [rewrite app_length; cbn; lia|]. intros l Hl. apply nth_error_app1; exact Hl. Qed.

  Lemma store_fresh_preserved h a start stop v :
    preserved h (store_slice (h ++ [a]) (length h) start stop v).
  Proof.
    unfold Funcs.store_slice. rewrite nth_error_app2 by lia. rewrite Nat.sub_diag. cbn [nth_error].
    split; [rewrite upd_length, app_length; cbn; lia|].
    intros l Hl. rewrite nth_error_upd_neq by lia. apply nth_error_app1; exact Hl.
  Qed.

  Lemma store_fresh_data h a start stop v :
    nth_error (store_slice (h ++ [a]) (length h) start stop v) (length h)
    = Some (mkArr (rank a) (fill_slice (data a) start stop v)).
  Proof.
    unfold Funcs.store_slice. rewrite nth_error_app2 by lia. rewrite Nat.sub_diag. cbn [nth_error].
    apply nth_error_upd_eq. rewrite app_length; cbn; lia.
  Qed.

  Lemma store_fresh_length h a start stop v :
    length (store_slice (h ++ [a]) (length h) start stop v) = S (length h).
  Proof.
    unfold Funcs.store_slice. rewrite nth_error_app2 by lia. rewrite Nat.sub_diag. cbn [nth_error].
    rewrite upd_length, app_length. cbn. lia.
  Qed.

  (* shift on a rank-1 array object: value = shift_v; no existing object (the argument included) is written;
     p = 0 returns the argument object itself and allocates nothing, p <> 0 returns a fresh object *)
  Theorem shift_H_sound h lx x p fill :
    nth_error h lx = Some (mkArr 1 x) ->
    exists h' l', shift_H h lx p fill = (h', Ret l') /\
      preserved h h' /\
      nth_error h' l' = Some (mkArr 1 (shift_v x p fill)) /\
      (p = 0 -> l' = lx /\ h' = h) /\
      (p <> 0 -> l' = length h /\ length h' = S (length h)).
  Proof.
    intros Hx. unfold Funcs.shift_H. rewrite Hx. cbn [rank data Nat.eqb negb].
    unfold Funcs.shift_v.
    destruct (p =? 0) eqn:E0.
    - exists h, lx. split; [reflexivity|]. split; [apply preserved_refl|]. split; [exact Hx|].
      split; [intros _; split; reflexivity|intros Hne; lia].
    - destruct (0 <? p) eqn:Ep; eexists; eexists; (split; [reflexivity|]);
        (split; [apply store_fresh_preserved|]); (split; [apply store_fresh_data|]);
        (split; [lia|]); intros _; (split; [reflexivity|apply store_fresh_length]).
  Qed.

  Theorem shift_H_rank h lx a p fill :
    nth_error h lx = Some a -> rank a <> 1%nat -> shift_H h lx p fill = (h, Raise NotImplementedError).
  Proof.
    intros Hx Hr. unfold Funcs.shift_H. rewrite Hx.
    destruct (Nat.eqb (rank a) 1) eqn:E; [apply Nat.eqb_eq in E; contradiction|reflexivity].
  Qed.

  Theorem lead_H_eq_lag_H_neg h lx p fill : lead_H h lx p fill = lag_H h lx (- p) fill.
  Proof. reflexivity. Qed.

  Theorem diff_H_sound h lx x d0 fill :
    nth_error h lx = Some (mkArr 1 x) -> 0 <= d0 ->
    exists h' l' r, diff_H h lx d0 fill = (h', Ret l') /\ diff_v x d0 fill = Ret r /\
      preserved h h' /\
      nth_error h' l' = Some (mkArr 1 r) /\
      (d0 = 0 -> l' = lx /\ h' = h) /\
      (d0 <> 0 -> (length h <= l')%nat).
  Proof.
    intros Hx Hd. unfold Funcs.diff_H. rewrite Hx. cbn [rank data Nat.eqb negb].
    unfold Funcs.diff_v.
    destruct (d0 =? 0) eqn:E0.
    - exists h, lx, x. split; [reflexivity|]. split; [reflexivity|]. split; [apply preserved_refl|]. split; [exact Hx|].
      split; [intros _; split; reflexivity|intros Hne; lia].
    - replace (0 <? d0) with true by lia.
      destruct (shift_H_sound h lx x d0 fill Hx) as (h1 & ll & Hs & Hp1 & Hl1 & _ & Hfresh).
      unfold Funcs.lag_H. rewrite Hs.
      destruct Hfresh as [Hll Hlen]; [lia|].
      assert (Hx1 : nth_error h1 lx = Some (mkArr 1 x)).
      { destruct Hp1 as [_ P]. rewrite P; [exact Hx|]. apply nth_error_Some. rewrite Hx. discriminate. }
      unfold Funcs.data_at. rewrite Hx1, Hl1. cbn [data].
      eexists; eexists; eexists. split; [reflexivity|]. split; [reflexivity|].
      split; [eapply preserved_trans; [exact Hp1|apply store_fresh_preserved]|].
      split; [rewrite store_fresh_data; reflexivity|].
      split; [lia|]. intros _. lia.
  Qed.

  Theorem diff_H_negative h lx x d0 fill :
    nth_error h lx = Some (mkArr 1 x) -> d0 < 0 -> diff_H h lx d0 fill = (h, Raise NotImplementedError).
  Proof.
    intros Hx Hd. unfold Funcs.diff_H. rewrite Hx. cbn [rank Nat.eqb negb].
    replace (d0 =? 0) with false by lia. replace (0 <? d0) with false by lia. reflexivity.
  Qed.

  Theorem diff_H_rank h lx a d0 fill :
    nth_error h lx = Some a -> rank a <> 1%nat -> diff_H h lx d0 fill = (h, Raise NotImplementedError).
  Proof.
    intros Hx Hr. unfold Funcs.diff_H. rewrite Hx.
    destruct (Nat.eqb (rank a) 1) eqn:E; [apply Nat.eqb_eq in E; contradiction|reflexivity].
  Qed.

  (* dlog always works on the fresh array log(x); the argument object is never returned and never written *)
  Theorem dlog_H_sound h lx x d0 fill :
    nth_error h lx = Some (mkArr 1 x) -> 0 <= d0 ->
    exists h' l' r, dlog_H h lx d0 fill = (h', Ret l') /\ dlog_v x d0 fill = Ret r /\
      preserved h h' /\
      nth_error h' l' = Some (mkArr 1 r) /\
      (length h <= l')%nat.
  Proof.
    intros Hx Hd. unfold Funcs.dlog_H, Funcs.dlog_v. rewrite Hx. cbn [rank data].
    destruct (diff_H_sound (h ++ [mkArr 1 (map logf x)]) (length h) (map logf x) d0 fill) as (h' & l' & r & H1 & H2 & H3 & H4 & H5 & H6).
    { rewrite nth_error_app2 by lia. rewrite Nat.sub_diag. reflexivity. }
    { exact Hd. }
    exists h', l', r. split; [exact H1|]. split; [exact H2|].
    split; [eapply preserved_trans; [apply preserved_alloc|exact H3]|].
    split; [exact H4|].
    destruct (Z.eq_dec d0 0) as [E|E].
    - destruct (H5 E) as [-> _]. lia.
    - specialize (H6 E). rewrite app_length in H6. cbn in H6. lia.
  Qed.

  (* every call, every outcome: objects that existed before the call are bit-for-bit what they were *)
  Theorem helpers_never_modify_existing_arrays f h lx p fill :
    preserved h (fst (call_H A sub logf f h lx p fill)).
  Proof.
    assert (S : forall h lx p, preserved h (fst (shift_H h lx p fill))).
    { intros h0 l0 p0. unfold Funcs.shift_H. destruct (nth_error h0 l0) as [a|]; [|apply preserved_refl].
      destruct (negb (Nat.eqb (rank a) 1)); [apply preserved_refl|].
      destruct (p0 =? 0); [apply preserved_refl|].
      destruct (0 <? p0); cbn [fst]; apply store_fresh_preserved. }
    assert (D : forall h lx p, preserved h (fst (diff_H h lx p fill))).
    { intros h0 l0 p0. unfold Funcs.diff_H. destruct (nth_error h0 l0) as [a|]; [|apply preserved_refl].
      destruct (negb (Nat.eqb (rank a) 1)); [apply preserved_refl|].
      destruct (p0 =? 0); [apply preserved_refl|].
      destruct (0 <? p0); [|apply preserved_refl].
      unfold Funcs.lag_H. pose proof (S h0 l0 p0) as P. destruct (shift_H h0 l0 p0 fill) as [h1 [ll|e]]; cbn [fst] in *.
      - eapply preserved_trans; [exact P|apply store_fresh_preserved].
      - exact P. }
    destruct f; cbn [call_H].
    - apply S.
    - apply S.
    - apply D.
    - unfold Funcs.dlog_H. destruct (nth_error h lx) as [a|]; [|apply preserved_refl].
      eapply preserved_trans; [apply preserved_alloc|apply D].
  Qed.
End FuncsFacts.
