(* EvalIdxExamples.v — concrete instances of the eval()/index-rewriting model: non-vacuity of the hypotheses
   of EvalIdxFacts.v and the witnesses of the refutation theorems for finding #15. *)
From Coq Require Import ZArith List Bool String Ascii Lia.
Import ListNotations.
Require Import PyBase EvalIdx EvalIdxFacts.
Require Fsic.Gen.Generated.
Open Scope string_scope.
Open Scope Z_scope.

Definition sp_years : span_model := SpanSeq [LInt 2000; LInt 2001; LInt 2002; LInt 2003; LInt 2004].   (* range(2000, 2005) *)
Definition sp_str : span_model := SpanSeq [LStr "a"; LStr "b"; LStr "c"; LStr "d"].
Definition sp_np (k : ikind) : span_model := SpanArr [LStr "a"; LStr "b"; LStr "c"; LStr "d"] k.       (* np.array(['a','b','c','d']) *)
(* quarterly PeriodIndex 2000Q1..2002Q4: the year 2001 is located as slice(4, 8) with numpy.int64 bounds *)
Definition sp_quarters : span_model :=
  SpanTable [(LStr "2001", (true, Ret (LocS NpInt 4 NpInt 8))); (LStr "2001Q2", (true, Ret (LocI PyInt 5)));
             (LStr "2002Q3", (true, Ret (LocI PyInt 10)))].

(* ---- the way labels resolve: as written (string spans) or after the int() cast (integer labels) ---- *)
Example ex_resolves_str : label_resolves (span_has sp_str) (span_locate sp_str) "b" (LocI PyInt 1).
Proof. left. split; reflexivity. Qed.
Example ex_resolves_int : label_resolves (span_has sp_years) (span_locate sp_years) "2001" (LocI PyInt 1).
Proof. right. split; [reflexivity|]. exists 2001. repeat split; reflexivity. Qed.
Example ex_missing : label_missing (span_has sp_years) "2010" /\ label_missing (span_has sp_str) "e".
Proof. split; (split; [reflexivity|]); [right; exists 2010; split; reflexivity|left; reflexivity]. Qed.
Example ex_label_text_ok : has_char ch_tick "2001" = false /\ has_char ch_colon "2001" = false.
Proof. split; reflexivity. Qed.

(* ---- label rewriting on concrete expressions ---- *)
Example ex_label_index : eval_text_span sp_years "X[`2001`]" = Ret "X[1]".
Proof. vm_compute. reflexivity. Qed.
Example ex_label_slice : eval_text_span sp_years "X[`2001`:`2003`]" = Ret "X[1:4:]" /\ index_sem 5 "1:4:" = Some [1; 2; 3]%nat.
Proof. split; vm_compute; reflexivity. Qed.
Example ex_label_slice_step : eval_text_span sp_years "X[ `2000` : `2004` : 2 ]" = Ret "X[0:5:2]" /\ index_sem 5 "0:5:2" = Some [0; 2; 4]%nat.
Proof. split; vm_compute; reflexivity. Qed.
Example ex_label_open_ends : eval_text_span sp_str "X[:`c`] + X[`b`:]" = Ret "X[:3:] + X[1::]".
Proof. vm_compute. reflexivity. Qed.
Example ex_label_missing : eval_text_span sp_str "X[`e`]" = Raise KeyError /\ eval_text_span sp_years "X[`2001`:`2010`]" = Raise KeyError.
Proof. split; vm_compute; reflexivity. Qed.
(* NumPy-array span: since fix a094259 the fallback lookup returns a built-in int, so the stop is inclusive;
   with numpy.int64 (the behaviour before the fix, finding #23) it would be exclusive *)
Example ex_numpy_span_inclusive : eval_text_span (sp_np PyInt) "X[`b`:`d`]" = Ret "X[1:4:]".
Proof. vm_compute. reflexivity. Qed.
Example ex_numpy_int64_stop_would_be_exclusive : eval_text_span (sp_np NpInt) "X[`b`:`d`]" = Ret "X[1:3:]".
Proof. vm_compute. reflexivity. Qed.
(* pandas: a slice-valued location is used as is (its numpy.int64 stop is NOT incremented) *)
Example ex_period_partial :
  eval_text_span sp_quarters "X[`2001`]" = Ret "X[slice(np.int64(4), np.int64(8), None)]" /\
  eval_text_span sp_quarters "X[`2001Q2`:`2001`]" = Ret "X[5:8:]" /\
  eval_text_span sp_quarters "X[`2001`:`2002Q3`:3]" = Ret "X[4:11:3]".
Proof. repeat split; vm_compute; reflexivity. Qed.

(* ---- since fix 24bdfbd (finding #15 repaired): a bracket without a backtick is left exactly as written, whatever else the
        expression contains; only brackets containing a backtick go through the callback ---- *)
Example ex_positional_slice_untouched : eval_text_span sp_years "X[1:3] + Y[`2001`]" = Ret "X[1:3] + Y[1]".
Proof. vm_compute. reflexivity. Qed.
Example ex_positional_open_slice_untouched : eval_text_span sp_years "X[:-1] + Y[`2001`:`2004`]" = Ret "X[:-1] + Y[1:5:]".
Proof. vm_compute. reflexivity. Qed.
Example ex_positional_arith_untouched : eval_text_span sp_years "X[a-1] + Y[`2001`]" = Ret "X[a-1] + Y[1]".
Proof. vm_compute. reflexivity. Qed.
Example ex_list_literal_untouched : eval_text_span sp_years "[1, 2][0] + Y[`2001`]" = Ret "[1, 2][0] + Y[1]".
Proof. vm_compute. reflexivity. Qed.
(* spelling and inner whitespace are kept too (before the fix: canonical decimal) *)
Example ex_positional_spelling_kept : eval_text_span sp_years "X[ -1 ] + X[+2] + X[1:] + X[007] + Y[`2001`]" = Ret "X[ -1 ] + X[+2] + X[1:] + X[007] + Y[1]".
Proof. vm_compute. reflexivity. Qed.
(* a nested positional subscript next to a label bracket *)
Example ex_nested_positional_untouched : eval_text_span sp_years "X[N[1]] + Y[`2001`]" = Ret "X[N[1]] + Y[1]".
Proof. vm_compute. reflexivity. Qed.

(* ---- mixed brackets (a label and a plain item in one slice) reach the callback; since fix 967c56d the plain item is left as
        written and only a label's stop is made inclusive ---- *)
Example ex_mixed_label_start_int_stop : eval_text_span sp_years "X[`2001`:3]" = Ret "X[1:3:]" /\ index_sem 5 "1:3:" = Some [1; 2]%nat.
Proof. split; vm_compute; reflexivity. Qed.
Example ex_mixed_int_start_label_stop : eval_text_span sp_years "X[1:`2003`]" = Ret "X[1:4:]".
Proof. vm_compute. reflexivity. Qed.
Example ex_mixed_non_literal : eval_text_span sp_years "X[`2001`:2-1]" = Ret "X[1:2-1:]".
Proof. vm_compute. reflexivity. Qed.

(* ---- kept finding (label-not-alone-in-its-bracket): the regular expression ends a bracket at the FIRST closing bracket and
        takes everything before it as one item, so a label inside a nested subscript, in parentheses or in a tuple is not
        found (KeyError), and a label slice broken across lines is not matched at all (the backticks stay: SyntaxError) ---- *)
Theorem label_in_nested_bracket_refuted :
  exists (sp : span_model) (a : string) (p : Z),
    span_has sp (LInt 2001) = true /\ span_locate sp (LInt 2001) = Ret (LocI PyInt p) /\ a = "2001" /\
    eval_text_span sp ("X[N[`" ++ a ++ "`]]") = Raise KeyError /\
    eval_text_span sp ("X[(`" ++ a ++ "`)]") = Raise KeyError /\
    eval_text_span sp ("X[`" ++ a ++ "`]") = Ret "X[1]".
Proof. exists sp_years, "2001", 1. repeat split; vm_compute; reflexivity. Qed.

Theorem label_slice_across_lines_refuted :
  exists (sp : span_model) (e : string),
    e = "(X[`2001`:" ++ String ch_nl "`2003`])" /\ eval_text_span sp e = Ret e /\ has_char ch_tick e = true /\
    eval_text_span sp "(X[`2001`:`2003`])" = Ret "(X[1:4:])".
Proof. exists sp_years, ("(X[`2001`:" ++ String ch_nl "`2003`])"). repeat split; vm_compute; reflexivity. Qed.

(* newlines around a label (not inside the slice) are whitespace to the regular expression *)
Example ex_label_on_its_own_line : eval_text_span sp_years ("(X[" ++ String ch_nl "`2001`" ++ String ch_nl "])") = Ret "(X[1])".
Proof. vm_compute. reflexivity. Qed.

(* ---- the shape hypotheses of rewrite_bracket are satisfiable ---- *)
Example ex_wf_group : wf_group "`2001`:`2003`" = true /\ wf_group "1:3" = true /\ wf_group "a b" = true /\
                      wf_group " x" = false /\ wf_group "x " = false /\ wf_group "" = false /\ wf_group "a]b" = false.
Proof. repeat split; vm_compute; reflexivity. Qed.
Example ex_ws : str_all is_re_space "  " = true /\ str_all is_re_space "" = true.
Proof. split; vm_compute; reflexivity. Qed.

(* ---- malformed brackets ---- *)
(* `[]` / `[ ]`: no group, no backtick: copied (before the fix: AttributeError from None.split) *)
Example ex_empty_bracket : eval_text_span sp_str "X[]`" = Ret "X[]`" /\ eval_text_span sp_str "X[ ]`" = Ret "X[ ]`".
Proof. split; vm_compute; reflexivity. Qed.
Example ex_empty_bracket_swallows : eval_text_span sp_str "X[]+Y[`a`]" = Raise KeyError.     (* group(1) = "]+Y[`a`" *)
Proof. vm_compute. reflexivity. Qed.
Example ex_too_many : eval_text_span sp_str "X[`a`:1:1:1]" = Raise ValueError.
Proof. vm_compute. reflexivity. Qed.

(* ---- int() and str() ---- *)
Example ex_parse_pyint :
  map parse_pyint ["12"; " 12 "; "+12"; "-0"; "007"; "1_000"; "1__0"; "_1"; "1_"; ""; "-"; "1.0"; "0x1"; "1 2"; "--1"]
  = [Some 12; Some 12; Some 12; Some 0; Some 7; Some 1000; None; None; None; None; None; None; None; None; None].
Proof. vm_compute. reflexivity. Qed.
Example ex_Z_to_string : map Z_to_string [0; 7; -7; 120; -1001] = ["0"; "7"; "-7"; "120"; "-1001"].
Proof. vm_compute. reflexivity. Qed.

(* ---- eval(): namespace ---- *)
(* the helper table of the model is the one the working tree declares (regenerated constant) *)
Example helper_table_matches_source : Generated.builtin_helper_names = ["diff"; "dlog"; "exp"; "lag"; "lead"; "log"].
Proof. reflexivity. Qed.

Definition vals_of (r : (dheap string * ns string) * eres string) : eres string := snd r.

Example ex_ns_helper : vals_of (ns_case Generated.builtin_helper_names ["np"; "abs"] ["X"] None None "lag") = EVal "T:lag".
Proof. vm_compute. reflexivity. Qed.
Example ex_ns_variable_shadows_helper : vals_of (ns_case Generated.builtin_helper_names ["np"; "abs"] ["X"; "lag"] None None "lag") = EVal "V:lag".
Proof. vm_compute. reflexivity. Qed.
Example ex_ns_local_shadows_variable : vals_of (ns_case Generated.builtin_helper_names ["np"; "abs"] ["X"; "lag"] (Some ["lag"]) None "lag") = EVal "L:lag".
Proof. vm_compute. reflexivity. Qed.
Example ex_ns_undefined : vals_of (ns_case Generated.builtin_helper_names ["np"; "abs"] ["X"] (Some ["Y"]) None "Z") = EAttributeError "Z".
Proof. vm_compute. reflexivity. Qed.
Example ex_ns_builtins_disabled : vals_of (ns_case Generated.builtin_helper_names ["np"; "abs"] ["X"] None (Some []) "lag") = EAttributeError "lag".
Proof. vm_compute. reflexivity. Qed.

(* the package table (dict 0) is never written; a dict passed as `builtins=` (dict 1) is updated in place *)
Example ex_ns_heap :
  fst (ns_case ["lag"; "log"] ["np"; "abs"] ["X"] (Some ["k"]) None "X")
    = ([[("lag", "T:lag"); ("log", "T:log")];
        [("lag", "T:lag"); ("log", "T:log"); ("X", "V:X"); ("k", "L:k")]], [("X", "V:X")]) /\
  fst (ns_case ["lag"; "log"] ["np"; "abs"] ["X"] (Some ["k"]) (Some ["lag"; "mine"]) "X")
    = ([[("lag", "T:lag"); ("log", "T:log")];
        [("lag", "B:lag"); ("mine", "B:mine"); ("X", "V:X"); ("k", "L:k")]], [("X", "V:X")]).
Proof. split; vm_compute; reflexivity. Qed.

(* passing the package table itself as `builtins=` is the one way eval() writes to it (excluded by eval_pure's premise) *)
Example ex_ns_table_passed_as_builtins_is_polluted :
  let tbl := tagged "T" ["lag"] in
  fst (fst (eval_M string (fun _ => false) (fun _ => Raise KeyError) name_lookup [tbl] 0%nat (tagged "V" ["X"]) "X" None (Some 0%nat)))
  = [[("lag", "T:lag"); ("X", "V:X")]].
Proof. vm_compute. reflexivity. Qed.

(* the premises of eval_spec / eval_pure are satisfiable *)
Example ex_eval_premises :
  let dh := [tagged "T" ["lag"]; tagged "B" ["mine"]] in
  (0 < List.length dh)%nat /\ Some 1%nat <> Some 0%nat /\ (forall l, Some 1%nat = Some l -> (l < List.length dh)%nat) /\
  eval_text (fun _ => false) (fun _ => Raise KeyError) "X" = Ret "X".
Proof. cbv zeta. repeat split; try discriminate; try (cbn; lia). intros l H; inversion H; subst; cbn; lia. Qed.

(* ---- kept finding (module-global-visible): eval() passes globals=None, so a name that is neither a local, a variable nor a
        helper but IS a global of fsic/core/containers.py (or a Python builtin) evaluates to that object instead of raising
        AttributeError naming it ---- *)
Theorem undefined_name_leak_refuted :
  exists (tbl outer vars : list string) (name : string),
    existsb (String.eqb name) tbl = false /\ existsb (String.eqb name) vars = false /\
    snd (ns_case tbl outer vars None None name) <> EAttributeError name /\
    snd (ns_case tbl outer vars None None name) = EVal ("G:" ++ name).
Proof.
  exists Generated.builtin_helper_names, ["np"; "copy"; "abs"], ["X"], "np".
  repeat split; try (vm_compute; reflexivity). vm_compute. discriminate.
Qed.

(* a name that is nowhere — not even in the module globals / Python builtins — is reported as AttributeError naming it *)
Example ex_ns_undefined_with_outer : vals_of (ns_case Generated.builtin_helper_names ["np"; "abs"] ["X"] None None "nope") = EAttributeError "nope".
Proof. vm_compute. reflexivity. Qed.

(* ---- kept finding (names-invisible-in-nested-scopes): eval() hands the assembled namespace to CPython as LOCALS; a free name of a
        nested scope of the expression (lambda, generator expression) is resolved by CPython in the GLOBALS only.  CPython's scoping
        is outside the model (pyeval is abstract); the witness instantiates pyeval with that rule for a bare name standing for
        such a free occurrence: a DEFINED name — a variable, a helper, a caller local — is reported as undefined ---- *)
Definition name_lookup_in_nested_scope (outer : ns string) (text : string) (d : ns string) : pyres string :=
  match ns_get string outer text with Some v => PVal v | None => PNameError text end.

Theorem defined_name_in_nested_scope_refuted :
  exists (tbl vars : list string) (locals : list string) (name : string),
    existsb (String.eqb name) vars = true /\
    snd (eval_M string (fun _ => false) (fun _ => Raise KeyError) (name_lookup_in_nested_scope (tagged "G" ["np"; "abs"]))
                [tagged "T" tbl] 0%nat (tagged "V" vars) name (Some (tagged "L" locals)) None) = EAttributeError name /\
    snd (eval_M string (fun _ => false) (fun _ => Raise KeyError) (name_lookup_in_nested_scope (tagged "G" ["np"; "abs"]))
                [tagged "T" tbl] 0%nat (tagged "V" vars) "lag" (Some (tagged "L" locals)) None) = EAttributeError "lag" /\
    snd (eval_M string (fun _ => false) (fun _ => Raise KeyError) (name_lookup_in_nested_scope (tagged "G" ["np"; "abs"]))
                [tagged "T" tbl] 0%nat (tagged "V" vars) "k" (Some (tagged "L" locals)) None) = EAttributeError "k" /\
    existsb (String.eqb "lag") tbl = true /\ existsb (String.eqb "k") locals = true.
Proof. exists Generated.builtin_helper_names, ["X"], ["k"], "X". repeat split; vm_compute; reflexivity. Qed.
