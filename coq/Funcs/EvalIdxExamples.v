(* EvalIdxExamples.v — concrete instances of the eval()/index-rewriting model: non-vacuity of the hypotheses
   of EvalIdxFacts.v and the witnesses of the refutation theorems for finding #15. *)
From Coq Require Import ZArith List Bool String Ascii Lia.
Import ListNotations.
Require Import PyBase EvalIdx EvalIdxFacts.
Require Fsic.Gen.Generated.
Open Scope string_scope.
Open Scope Z_scope.

Definition sp_years : span_model := SpanSeq [LInt 2000; LInt 2001; LInt 2002; LInt 2003; LInt 2004].   (* range(2000, 2005) *)
Definition sp_str : span_model := SpanSeq [LStr "a"; LStr "b"; LStr "c"; LStr "d"].
Definition sp_np (k : ikind) : span_model := SpanArr [LStr "a"; LStr "b"; LStr "c"; LStr "d"] k.       (* np.array(['a','b','c','d']) *)
(* quarterly PeriodIndex 2000Q1..2002Q4: the year 2001 is located as slice(4, 8) with numpy.int64 bounds *)
Definition sp_quarters : span_model :=
  SpanTable [(LStr "2001", (true, Ret (LocS NpInt 4 NpInt 8))); (LStr "2001Q2", (true, Ret (LocI PyInt 5)));
             (LStr "2002Q3", (true, Ret (LocI PyInt 10)))].

(* ---- the way labels resolve: as written (string spans) or after the int() cast (integer labels) ---- *)
Example ex_resolves_str : label_resolves (span_has sp_str) (span_locate sp_str) "b" (LocI PyInt 1).
Proof. left. split; reflexivity. Qed.
Example ex_resolves_int : label_resolves (span_has sp_years) (span_locate sp_years) "2001" (LocI PyInt 1).
Proof. right. split; [reflexivity|]. exists 2001. repeat split; reflexivity. Qed.
Example ex_missing : label_missing (span_has sp_years) "2010" /\ label_missing (span_has sp_str) "e".
Proof. split; (split; [reflexivity|]); [right; exists 2010; split; reflexivity|left; reflexivity]. Qed.
Example ex_label_text_ok : has_char ch_tick "2001" = false /\ has_char ch_colon "2001" = false.
Proof. split; reflexivity. Qed.

(* ---- label rewriting on concrete expressions ---- *)
Example ex_label_index : eval_text_span sp_years "X[`2001`]" = Ret "X[1]".
Proof. vm_compute. reflexivity. Qed.
Example ex_label_slice : eval_text_span sp_years "X[`2001`:`2003`]" = Ret "X[1:4:]" /\ index_sem 5 "1:4:" = Some [1; 2; 3]%nat.
Proof. split; vm_compute; reflexivity. Qed.
Example ex_label_slice_step : eval_text_span sp_years "X[ `2000` : `2004` : 2 ]" = Ret "X[0:5:2]" /\ index_sem 5 "0:5:2" = Some [0; 2; 4]%nat.
Proof. split; vm_compute; reflexivity. Qed.
Example ex_label_open_ends : eval_text_span sp_str "X[:`c`] + X[`b`:]" = Ret "X[:3:] + X[1::]".
Proof. vm_compute. reflexivity. Qed.
Example ex_label_missing : eval_text_span sp_str "X[`e`]" = Raise KeyError /\ eval_text_span sp_years "X[`2001`:`2010`]" = Raise KeyError.
Proof. split; vm_compute; reflexivity. Qed.
(* NumPy-array span: since fix a094259 the fallback lookup returns a built-in int, so the stop is inclusive;
   with numpy.int64 (the behaviour before the fix, finding #23) it would be exclusive *)
Example ex_numpy_span_inclusive : eval_text_span (sp_np PyInt) "X[`b`:`d`]" = Ret "X[1:4:]".
Proof. vm_compute. reflexivity. Qed.
Example ex_numpy_int64_stop_would_be_exclusive : eval_text_span (sp_np NpInt) "X[`b`:`d`]" = Ret "X[1:3:]".
Proof. vm_compute. reflexivity. Qed.
(* pandas: a slice-valued location is used as is (its numpy.int64 stop is NOT incremented) *)
Example ex_period_partial :
  eval_text_span sp_quarters "X[`2001`]" = Ret "X[slice(np.int64(4), np.int64(8), None)]" /\
  eval_text_span sp_quarters "X[`2001Q2`:`2001`]" = Ret "X[5:8:]" /\
  eval_text_span sp_quarters "X[`2001`:`2002Q3`:3]" = Ret "X[4:11:3]".
Proof. repeat split; vm_compute; reflexivity. Qed.

(* ---- finding #15: with a backtick anywhere in the expression EVERY bracket goes through the callback ---- *)
Example ex_positional_slice_shifted : eval_text_span sp_years "X[1:3] + Y[`2001`]" = Ret "X[1:4:] + Y[1]".
Proof. vm_compute. reflexivity. Qed.
Example ex_positional_slice_emptied : eval_text_span sp_years "X[:-1] + Y[`2001`]" = Ret "X[:0:] + Y[1]".
Proof. vm_compute. reflexivity. Qed.
Example ex_positional_arith_rejected : eval_text_span sp_years "X[a-1] + Y[`2001`]" = Raise ValueError.
Proof. vm_compute. reflexivity. Qed.
Example ex_list_literal_rejected : eval_text_span sp_years "[1, 2][0] + Y[`2001`]" = Raise ValueError.
Proof. vm_compute. reflexivity. Qed.
(* ... whereas the same positional brackets are left alone when no backtick occurs *)
Example ex_positional_untouched_without_backtick :
  eval_text_span sp_years "X[1:3] + X[:-1] + X[a-1] + [1, 2][0]" = Ret "X[1:3] + X[:-1] + X[a-1] + [1, 2][0]".
Proof. vm_compute. reflexivity. Qed.
(* plain integer indexes and open-stop slices survive (in canonical spelling) *)
Example ex_positional_index_survives : eval_text_span sp_years "X[ -1 ] + X[+2] + X[1:] + Y[`2001`]" = Ret "X[-1] + X[2] + X[1::] + Y[1]".
Proof. vm_compute. reflexivity. Qed.

(* the statement "purely positional slices keep their ordinary Python meaning wherever they appear" is false of the
   callback: for EVERY span (any has / locate) the positional contents 1:3 and :-1 are rewritten to subscripts that
   select other positions of a length-5 series *)
Theorem positional_rewritten_refuted :
  exists (n : nat) (g1 g2 : string),
    has_char ch_tick g1 = false /\ has_char ch_tick g2 = false /\
    forall has locate,
      (exists g1', resolve_group has locate g1 = Ret ("[" ++ g1' ++ "]") /\ index_sem n g1' <> index_sem n g1) /\
      (exists g2', resolve_group has locate g2 = Ret ("[" ++ g2' ++ "]") /\ index_sem n g2' <> index_sem n g2).
Proof.
  exists 5%nat, "1:3", ":-1". split; [reflexivity|]. split; [reflexivity|]. intros has locate. split.
  - exists "1:4:". split; [reflexivity|]. vm_compute. discriminate.
  - exists ":0:". split; [reflexivity|]. vm_compute. discriminate.
Qed.

(* the same at expression level, through eval's first step *)
Theorem positional_rewritten_in_expression_refuted :
  exists (sp : span_model) (e e' : string),
    eval_text_span sp e = Ret e' /\ e' <> e /\
    (* the only backticked bracket is the last one; the first, purely positional, bracket changed its meaning *)
    e = "X[1:3] + Y[`2001`]" /\ e' = "X[1:4:] + Y[1]" /\ index_sem 5 "1:3" = Some [1; 2]%nat /\ index_sem 5 "1:4:" = Some [1; 2; 3]%nat.
Proof.
  exists sp_years, "X[1:3] + Y[`2001`]", "X[1:4:] + Y[1]".
  split; [vm_compute; reflexivity|]. split; [discriminate|]. repeat split; vm_compute; reflexivity.
Qed.

(* ---- the shape hypotheses of rewrite_bracket are satisfiable ---- *)
Example ex_wf_group : wf_group "`2001`:`2003`" = true /\ wf_group "1:3" = true /\ wf_group "a b" = true /\
                      wf_group " x" = false /\ wf_group "x " = false /\ wf_group "" = false /\ wf_group "a]b" = false.
Proof. repeat split; vm_compute; reflexivity. Qed.
Example ex_ws : str_all is_re_space "  " = true /\ str_all is_re_space "" = true.
Proof. split; vm_compute; reflexivity. Qed.

(* ---- malformed brackets ---- *)
Example ex_empty_bracket : eval_text_span sp_str "X[]`" = Raise AttributeError /\ eval_text_span sp_str "X[ ]`" = Raise AttributeError.
Proof. split; vm_compute; reflexivity. Qed.
Example ex_empty_bracket_swallows : eval_text_span sp_str "X[]+Y[`a`]" = Raise KeyError.     (* group(1) = "]+Y[`a`" *)
Proof. vm_compute. reflexivity. Qed.
Example ex_too_many : eval_text_span sp_str "X[`a`:1:1:1]" = Raise ValueError.
Proof. vm_compute. reflexivity. Qed.

(* ---- int() and str() ---- *)
Example ex_parse_pyint :
  map parse_pyint ["12"; " 12 "; "+12"; "-0"; "007"; "1_000"; "1__0"; "_1"; "1_"; ""; "-"; "1.0"; "0x1"; "1 2"; "--1"]
  = [Some 12; Some 12; Some 12; Some 0; Some 7; Some 1000; None; None; None; None; None; None; None; None; None].
Proof. vm_compute. reflexivity. Qed.
Example ex_Z_to_string : map Z_to_string [0; 7; -7; 120; -1001] = ["0"; "7"; "-7"; "120"; "-1001"].
Proof. vm_compute. reflexivity. Qed.

(* ---- eval(): namespace ---- *)
(* the helper table of the model is the one the working tree declares (regenerated constant) *)
Example helper_table_matches_source : Generated.builtin_helper_names = ["diff"; "dlog"; "exp"; "lag"; "lead"; "log"].
Proof. reflexivity. Qed.

Definition vals_of (r : (dheap string * ns string) * eres string) : eres string := snd r.

Example ex_ns_helper : vals_of (ns_case Generated.builtin_helper_names ["np"; "abs"] ["X"] None None "lag") = EVal "T:lag".
Proof. vm_compute. reflexivity. Qed.
Example ex_ns_variable_shadows_helper : vals_of (ns_case Generated.builtin_helper_names ["np"; "abs"] ["X"; "lag"] None None "lag") = EVal "V:lag".
Proof. vm_compute. reflexivity. Qed.
Example ex_ns_local_shadows_variable : vals_of (ns_case Generated.builtin_helper_names ["np"; "abs"] ["X"; "lag"] (Some ["lag"]) None "lag") = EVal "L:lag".
Proof. vm_compute. reflexivity. Qed.
Example ex_ns_undefined : vals_of (ns_case Generated.builtin_helper_names ["np"; "abs"] ["X"] (Some ["Y"]) None "Z") = EAttributeError "Z".
Proof. vm_compute. reflexivity. Qed.
Example ex_ns_builtins_disabled : vals_of (ns_case Generated.builtin_helper_names ["np"; "abs"] ["X"] None (Some []) "lag") = EAttributeError "lag".
Proof. vm_compute. reflexivity. Qed.

(* the package table (dict 0) is never written; a dict passed as `builtins=` (dict 1) is updated in place *)
Example ex_ns_heap :
  fst (ns_case ["lag"; "log"] ["np"; "abs"] ["X"] (Some ["k"]) None "X")
    = ([[("lag", "T:lag"); ("log", "T:log")];
        [("lag", "T:lag"); ("log", "T:log"); ("X", "V:X"); ("k", "L:k")]], [("X", "V:X")]) /\
  fst (ns_case ["lag"; "log"] ["np"; "abs"] ["X"] (Some ["k"]) (Some ["lag"; "mine"]) "X")
    = ([[("lag", "T:lag"); ("log", "T:log")];
        [("lag", "B:lag"); ("mine", "B:mine"); ("X", "V:X"); ("k", "L:k")]], [("X", "V:X")]).
Proof. split; vm_compute; reflexivity. Qed.

(* passing the package table itself as `builtins=` is the one way eval() writes to it (excluded by eval_pure's premise) *)
Example ex_ns_table_passed_as_builtins_is_polluted :
  let tbl := tagged "T" ["lag"] in
  fst (fst (eval_M string (fun _ => false) (fun _ => Raise KeyError) name_lookup [tbl] 0%nat (tagged "V" ["X"]) "X" None (Some 0%nat)))
  = [[("lag", "T:lag"); ("X", "V:X")]].
Proof. vm_compute. reflexivity. Qed.

(* the premises of eval_spec / eval_pure are satisfiable *)
Example ex_eval_premises :
  let dh := [tagged "T" ["lag"]; tagged "B" ["mine"]] in
  (0 < List.length dh)%nat /\ Some 1%nat <> Some 0%nat /\ (forall l, Some 1%nat = Some l -> (l < List.length dh)%nat) /\
  eval_text (fun _ => false) (fun _ => Raise KeyError) "X" = Ret "X".
Proof. cbv zeta. repeat split; try discriminate; try (cbn; lia). intros l H; inversion H; subst; cbn; lia. Qed.

(* ---- kept finding (module-global-visible): eval() passes globals=None, so a name that is neither a local, a variable nor a
        helper but IS a global of fsic/core/containers.py (or a Python builtin) evaluates to that object instead of raising
        AttributeError naming it ---- *)
Theorem undefined_name_leak_refuted :
  exists (tbl outer vars : list string) (name : string),
    existsb (String.eqb name) tbl = false /\ existsb (String.eqb name) vars = false /\
    snd (ns_case tbl outer vars None None name) <> EAttributeError name /\
    snd (ns_case tbl outer vars None None name) = EVal ("G:" ++ name).
Proof.
  exists Generated.builtin_helper_names, ["np"; "copy"; "abs"], ["X"], "np".
  repeat split; try (vm_compute; reflexivity). vm_compute. discriminate.
Qed.

(* a name that is nowhere — not even in the module globals / Python builtins — is reported as AttributeError naming it *)
Example ex_ns_undefined_with_outer : vals_of (ns_case Generated.builtin_helper_names ["np"; "abs"] ["X"] None None "nope") = EAttributeError "nope".
Proof. vm_compute. reflexivity. Qed.
