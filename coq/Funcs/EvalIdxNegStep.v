(* EvalIdxNegStep.v — label slices with a NEGATIVE step.
   The callback writes  [start : stop+1 : step]  whatever the sign of the step (the step text is passed through un-parsed, and
   `isinstance(stop, int): stop += 1` does not look at it) — the same bounds label indexing computes (C10's _resolve_period_slice
   also adds 1 to the stop regardless of the step), so eval() and label indexing AGREE; but with a negative step Python walks DOWN
   from start and stops BEFORE stop+1: the slice X[`b`:`a`:-1] misses the periods a and a+1 — it is not the inclusive label slice
   b, b-1, ..., a (what pandas' .loc['b':'a':-1] gives).  Kept finding label-slice-negative-step.
   Definitions (Python's slice semantics for a negative step, `index_sem_any`) and proofs. *)
From Coq Require Import ZArith List Bool String Ascii Lia ZifyBool.
Import ListNotations.
Require Import PyBase EvalIdx EvalIdxFacts.
Open Scope string_scope.
Open Scope Z_scope.

(* PySlice_AdjustIndices for step < 0 *)
Definition clip_down (n i : Z) : Z :=
  if i <? 0 then (if i + n <? 0 then -1 else i + n) else if n <=? i then n - 1 else i.

Fixpoint range_down (fuel : nat) (a s stop : Z) : list nat :=
  match fuel with
  | O => []
  | S f => if stop <? a then Z.to_nat a :: range_down f (a + s) s stop else []
  end.

Definition py_slice_neg (n : nat) (start stop : option Z) (s : Z) : list nat :=
  let N := Z.of_nat n in
  let a := match start with None => N - 1 | Some i => clip_down N i end in
  let b := match stop with None => -1 | Some i => clip_down N i end in
  range_down n a s b.

(* Python's reading of an integer-literal slice, either sign of the step (step 0: ValueError -> None) *)
Definition slice_sem_any (n : nat) (a b c : string) : option (list nat) :=
  match opt_int a, opt_int b, opt_int c with
  | Some oa, Some ob, Some oc =>
      let st := match oc with None => 1 | Some s => s end in
      if 0 <? st then Some (py_slice_positions n oa ob st)
      else if st <? 0 then Some (py_slice_neg n oa ob st) else None
  | _, _, _ => None
  end.

Definition index_sem_any (n : nat) (inner : string) : option (list nat) :=
  match split_on ch_colon inner with
  | [i] => match parse_pyint i with
           | Some z => option_map (fun p => [p]) (py_pos n z)
           | None => None
           end
  | [a; b] => slice_sem_any n a b ""
  | [a; b; c] => slice_sem_any n a b c
  | _ => None
  end.

(* it extends index_sem *)
Theorem index_sem_any_extends n inner l : index_sem n inner = Some l -> index_sem_any n inner = Some l.
Proof.
  unfold index_sem, index_sem_any.
  assert (S : forall a b c, slice_sem n a b c = Some l -> slice_sem_any n a b c = Some l).
  { intros a b c. unfold slice_sem, slice_sem_any. destruct (opt_int a), (opt_int b), (opt_int c); try discriminate.
    destruct (0 <? _); [exact id|discriminate]. }
  destruct (split_on ch_colon inner) as [|x [|y [|z [|w r]]]]; try discriminate; try exact id; apply S.
Qed.

Lemma slice_sem_any_ropt_neg n oa ob s : s < 0 ->
  slice_sem_any n (ropt oa) (ropt ob) (ropt (Some s)) = Some (py_slice_neg n oa ob s).
Proof.
  intros Hs. unfold slice_sem_any. rewrite !opt_int_ropt.
  replace (0 <? s) with false by lia. replace (s <? 0) with true by lia. reflexivity.
Qed.

(* the positions a downward walk visits *)
Lemma range_down_in fuel : forall a s b q, s < 0 -> -1 <= b -> a - b <= Z.of_nat fuel ->
  (In q (range_down fuel a s b) <-> exists i : nat, Z.of_nat q = a + Z.of_nat i * s /\ b < Z.of_nat q).
Proof.
  induction fuel as [|f IH]; intros a s b q Hs Hb Hf; cbn [range_down].
  - split; [contradiction|]. intros (i & E & L). nia.
  - destruct (b <? a) eqn:E.
    + cbn [In]. rewrite IH by lia. split.
      * intros [H|(i & Hi & L)].
        -- exists 0%nat. subst q. split; lia.
        -- exists (S i). split; nia.
      * intros (i & Hi & L). destruct i as [|i].
        -- left. lia.
        -- right. exists i. split; nia.
    + split; [contradiction|]. intros (i & Hi & L). nia.
Qed.

Section NegStep.
  Variable has : label -> bool.
  Variable locate : label -> outcome loc.
  Notation resolve_group := (resolve_group has locate).
  Notation label_resolves := (label_resolves has locate).

  (* what the callback writes for X[`a`:`b`:s], ANY integer s (the step is not looked at) *)
  Theorem label_slice_any_step_text a b pa pb s :
    has_char ch_tick a = false -> has_char ch_colon a = false -> label_resolves a (LocI PyInt pa) ->
    has_char ch_tick b = false -> has_char ch_colon b = false -> label_resolves b (LocI PyInt pb) ->
    resolve_group (bt a ++ String ch_colon (bt b ++ String ch_colon (Z_to_string s)))
    = Ret ("[" ++ (ropt (Some pa) ++ String ch_colon (ropt (Some (pb + 1)) ++ String ch_colon (ropt (Some s)))) ++ "]").
  Proof.
    intros Ta Ca Ra Tb Cb Rb.
    pose proof (label_slice_step_rewrite_loc has locate (LP a _) (LP b _) (Z_to_string s) (conj Ta (conj Ca Ra)) (conj Tb (conj Cb Rb))
                  (ropt_no_colon (Some s))) as H.
    rewrite strip_Z_to_string in H. rewrite inner_assoc. exact H.
  Qed.

  (* with s < 0 Python reads it as: from pa downwards, stopping BEFORE pb + 1 *)
  Theorem label_slice_neg_step_positions a b (pa pb : nat) s n q :
    has_char ch_tick a = false -> has_char ch_colon a = false -> label_resolves a (LocI PyInt (Z.of_nat pa)) ->
    has_char ch_tick b = false -> has_char ch_colon b = false -> label_resolves b (LocI PyInt (Z.of_nat pb)) ->
    s < 0 -> (pa < n)%nat -> (pb < n)%nat ->
    exists inner,
      resolve_group (bt a ++ String ch_colon (bt b ++ String ch_colon (Z_to_string s))) = Ret ("[" ++ inner ++ "]") /\
      exists sel, index_sem_any n inner = Some sel /\
        (In q sel <-> exists i : nat, Z.of_nat q = Z.of_nat pa + Z.of_nat i * s /\ Z.of_nat pb + 1 < Z.of_nat q).
  Proof.
    intros Ta Ca Ra Tb Cb Rb Hs Ha Hb.
    exists (ropt (Some (Z.of_nat pa)) ++ String ch_colon (ropt (Some (Z.of_nat pb + 1)) ++ String ch_colon (ropt (Some s)))).
    split; [exact (label_slice_any_step_text a b _ _ s Ta Ca Ra Tb Cb Rb)|].
    exists (py_slice_neg n (Some (Z.of_nat pa)) (Some (Z.of_nat pb + 1)) s). split.
    - unfold index_sem_any. rewrite split_on_app by apply ropt_no_colon. rewrite split_on_app by apply ropt_no_colon.
      rewrite split_on_none by apply ropt_no_colon. apply slice_sem_any_ropt_neg; exact Hs.
    - unfold py_slice_neg, clip_down.
      replace (Z.of_nat pa <? 0) with false by lia. replace (Z.of_nat n <=? Z.of_nat pa) with false by lia.
      replace (Z.of_nat pb + 1 <? 0) with false by lia.
      destruct (Z.of_nat n <=? Z.of_nat pb + 1) eqn:E.
      + rewrite range_down_in by lia. split; intros (i & Hi & L); exists i; split; lia.
      + rewrite range_down_in by lia. reflexivity.
  Qed.
End NegStep.

(* kept finding: X[`2003`:`2001`:-1] on range(2000, 2005) selects the single period 2003 (positions [3]) — the inclusive label
   slice 2003, 2002, 2001 is positions [3; 2; 1] *)
Theorem label_slice_negative_step_refuted :
  exists (sp : span_model) (e e' inner : string),
    e = "X[`2003`:`2001`:-1]" /\ eval_text_span sp e = Ret e' /\ e' = "X[" ++ inner ++ "]" /\ inner = "3:2:-1" /\
    index_sem_any 5 inner = Some [3]%nat /\
    index_sem_any 5 "3:0:-1" = Some [3; 2; 1]%nat.
Proof.
  exists (SpanSeq [LInt 2000; LInt 2001; LInt 2002; LInt 2003; LInt 2004]), "X[`2003`:`2001`:-1]", "X[3:2:-1]", "3:2:-1".
  repeat split; vm_compute; reflexivity.
Qed.

Example ex_neg_step_sem :
  index_sem_any 5 "::-1" = Some [4; 3; 2; 1; 0]%nat /\ index_sem_any 5 "3::-2" = Some [3; 1]%nat /\
  index_sem_any 5 ":1:-1" = Some [4; 3; 2]%nat /\ index_sem_any 5 "-1:-6:-1" = Some [4; 3; 2; 1; 0]%nat /\
  index_sem_any 5 "1:3:-1" = Some [] /\ index_sem_any 5 "1:3:0" = None /\ index_sem_any 5 "1:3" = Some [1; 2]%nat.
Proof. repeat split; vm_compute; reflexivity. Qed.
