(* EvalIdxWhole.v — facts about the rewriter on WHOLE expressions (EvalIdx.v), on top of EvalIdxFacts.v:
   * an expression cut into "text without an opening bracket" / "well-formed bracket" segments is rewritten bracket by
     bracket, left to right, the first failing bracket aborting (any number of brackets, any texts between them);
   * which exceptions the rewriter can raise at all (every string);
   * whitespace padding inside a bracket (around the index, around each slice item) never changes the result;
   * a backticked label inside an arbitrary expression is replaced by the position label indexing gives (guards: the label
     has no backtick, colon, closing bracket or newline — see label_with_colon_refuted in EvalIdxWholeExamples.v);
   * eval() of such an expression = CPython's evaluation of the substituted text. *)
From Coq Require Import ZArith List Bool String Ascii Lia ZifyBool.
Import ListNotations.
Require Import PyBase EvalIdx EvalIdxFacts.
Open Scope string_scope.
Open Scope Z_scope.

(* ================================================================== strip ignores padding *)
Lemma rstrip_all f s ws : str_all f ws = true -> rstrip f (s ++ ws) = rstrip f s.
Proof.
  revert s. induction ws as [|c r IH]; intros s H.
  - rewrite sapp_nil_r. reflexivity.
  - cbn [str_all] in H. apply andb_true_iff in H as [H1 H2].
    replace (s ++ String c r) with ((s ++ String c "") ++ r) by (rewrite sapp_assoc; reflexivity).
    rewrite IH by exact H2. apply rstrip_snoc_f; exact H1.
Qed.

Lemma lstrip_app_head f s a r w : lstrip f s = String a r -> f a = false -> lstrip f (s ++ w) = String a r ++ w.
Proof.
  induction s as [|c s IH]; cbn [lstrip append]; [discriminate|].
  destruct (f c) eqn:E.
  - intros H Fa. apply IH; assumption.
  - intros H Fa. inversion H; subst. reflexivity.
Qed.

Lemma lstrip_all_empty f s : str_all f s = true -> lstrip f s = "".
Proof.
  induction s as [|c s IH]; cbn [lstrip str_all]; [reflexivity|].
  intros E. apply andb_true_iff in E as [E1 E2]. rewrite E1. apply IH; exact E2.
Qed.

Lemma lstrip_empty_all f s : lstrip f s = "" -> str_all f s = true.
Proof.
  induction s as [|c s IH]; cbn [lstrip str_all]; [reflexivity|].
  destruct (f c); [exact IH|discriminate].
Qed.

Theorem strip_pad f w1 s w2 : str_all f w1 = true -> str_all f w2 = true -> strip f (w1 ++ s ++ w2) = strip f s.
Proof.
  intros H1 H2. unfold strip. rewrite lstrip_all by exact H1.
  destruct (lstrip_shape f s) as [E|(a & r & E & Fa)].
  - rewrite E.
    assert (HA : str_all f (s ++ w2) = true) by (rewrite str_all_app, (lstrip_empty_all f s E), H2; reflexivity).
    rewrite (lstrip_all_empty f _ HA). reflexivity.
  - rewrite (lstrip_app_head f s a r w2 E Fa), E. apply rstrip_all; exact H2.
Qed.

Lemma py_space_no_special ws : str_all is_py_space ws = true -> has_char ch_colon ws = false /\ has_char ch_tick ws = false.
Proof.
  intros H. split; apply (no_char_of_all is_py_space); try exact H; vm_compute; reflexivity.
Qed.

Lemma no_colon_pad w1 p w2 :
  str_all is_py_space w1 = true -> str_all is_py_space w2 = true -> has_char ch_colon p = false ->
  has_char ch_colon (w1 ++ p ++ w2) = false.
Proof.
  intros H1 H2 Hp. destruct (py_space_no_special w1 H1) as [C1 _]. destruct (py_space_no_special w2 H2) as [C2 _].
  rewrite !has_char_app, C1, C2, Hp. reflexivity.
Qed.

Lemma omap_raise {A B} (f : A -> B) (o : outcome A) e : omap f o = Raise e -> o = Raise e.
Proof. destruct o; cbn; [discriminate|]. intros H; inversion H; reflexivity. Qed.

(* the shape of a backticked label that the bracket expression carries whole *)
Lemma wf_tail_snoc_tick a : has_char ch_close a = false -> has_char ch_nl a = false -> wf_tail (a ++ String ch_tick "") = true.
Proof.
  induction a as [|c r IH]; cbn [append has_char]; intros H1 H2.
  - vm_compute. reflexivity.
  - apply orb_false_iff in H1 as [A1 A2]. apply orb_false_iff in H2 as [B1 B2].
    cbn [wf_tail]. rewrite A1, B1. cbn [negb andb]. specialize (IH A2 B2).
    destruct (r ++ String ch_tick "") eqn:E; [destruct r; discriminate|]. exact IH.
Qed.

Lemma wf_group_bt a : has_char ch_close a = false -> has_char ch_nl a = false -> wf_group (bt a) = true.
Proof.
  intros H1 H2. unfold bt, wf_group.
  replace (is_re_space ch_tick) with false by (vm_compute; reflexivity). cbn [negb andb].
  cbn [wf_tail]. replace (Ascii.eqb ch_tick ch_close) with false by reflexivity.
  replace (Ascii.eqb ch_tick ch_nl) with false by reflexivity. cbn [negb andb].
  pose proof (wf_tail_snoc_tick a H1 H2) as W.
  destruct (a ++ String ch_tick "") eqn:E; [destruct a; discriminate|]. exact W.
Qed.

(* ================================================================== expressions as segments *)
(* one segment = text without an opening bracket, then a bracket `[ ws1 g ws2 ]` *)
Record seg := mkSeg { sg_pre : string; sg_ws1 : string; sg_g : string; sg_ws2 : string }.

Definition seg_ok (s : seg) : bool :=
  negb (has_char ch_open (sg_pre s)) && str_all is_re_space (sg_ws1 s) && wf_group (sg_g s) && str_all is_re_space (sg_ws2 s).

Fixpoint expr_text (segs : list seg) (tail : string) : string :=
  match segs with
  | [] => tail
  | s :: r => sg_pre s ++ String ch_open (sg_ws1 s ++ sg_g s ++ sg_ws2 s ++ String ch_close (expr_text r tail))
  end.

(* the bracket of a segment as written *)
Definition seg_bracket (s : seg) : string := String ch_open (sg_ws1 s ++ sg_g s ++ sg_ws2 s ++ String ch_close "").

(* the expression with every bracket replaced by the corresponding text *)
Fixpoint expr_subst (segs : list seg) (ts : list string) (tail : string) : string :=
  match segs, ts with
  | s :: r, t :: ts' => sg_pre s ++ t ++ expr_subst r ts' tail
  | _, _ => tail
  end.

(* ================================================================== EVERY string: the matches of the regular expression *)
(* a string cut at the matches of \[\s*(.+?)?\s*\] , left to right, non-overlapping (what re.sub iterates over) *)
Inductive piece :=
| PLit (c : ascii)                 (* a character outside every match *)
| PBr (m g : string)               (* a match: m = group(0), g = group(1) *)
| PBrNone (m : string).            (* a match `[ws]` without group *)

Definition piece_src (p : piece) : string :=
  match p with PLit c => String c "" | PBr m _ => m | PBrNone m => m end.

Fixpoint scan_f (fuel : nat) (s : string) : list piece :=
  match fuel with
  | O => []
  | S f =>
      match s with
      | "" => []
      | String c r =>
          if Ascii.eqb c ch_open then
            match match_bracket r with
            | BGroup g rest => PBr (matched_text r rest) g :: scan_f f rest
            | BNoGroup rest => PBrNone (matched_text r rest) :: scan_f f rest
            | BNoMatch => PLit c :: scan_f f r
            end
          else PLit c :: scan_f f r
      end
  end.
Definition scan (s : string) : list piece := scan_f (S (String.length s)) s.

Fixpoint sconcat (l : list string) : string := match l with [] => "" | x :: r => x ++ sconcat r end.

(* the pieces partition the string *)
Lemma scan_f_partitions fuel : forall s, (String.length s < fuel)%nat -> sconcat (map piece_src (scan_f fuel s)) = s.
Proof.
  induction fuel as [|f IH]; intros s L; [lia|].
  destruct s as [|c r]; [reflexivity|]. cbn [String.length] in L. cbn [scan_f].
  destruct (Ascii.eqb c ch_open) eqn:Eo.
  - apply Ascii.eqb_eq in Eo; subst c. destruct (match_bracket r) as [g rest|rest|] eqn:M; cbn [map sconcat piece_src].
    + pose proof (match_bracket_len _ _ _ M). rewrite IH by lia.
      destruct (match_bracket_group_shape r g rest M) as (ws1 & ws2 & Er & _ & _).
      apply (matched_text_rest r rest (ws1 ++ g ++ ws2 ++ String ch_close "")). rewrite Er at 1. rewrite !sapp_assoc. reflexivity.
    + pose proof (match_bracket_nogroup_len _ _ M). rewrite IH by lia.
      destruct (match_bracket_nogroup_shape r rest M) as (ws & Er & _).
      apply (matched_text_rest r rest (ws ++ String ch_close "")). rewrite Er at 1. rewrite sapp_assoc. reflexivity.
    + rewrite IH by lia. reflexivity.
  - cbn [map sconcat piece_src]. rewrite IH by lia. reflexivity.
Qed.

Theorem scan_partitions s : sconcat (map piece_src (scan s)) = s.
Proof. apply scan_f_partitions. lia. Qed.

(* every match has the shape `[` ws1 g ws2 `]` resp. `[` ws `]` *)
Lemma scan_f_shapes fuel : forall s, Forall (fun p => match p with
    | PLit _ => True
    | PBr m g => exists ws1 ws2, m = String ch_open (ws1 ++ g ++ ws2 ++ String ch_close "") /\
                                 str_all is_re_space ws1 = true /\ str_all is_re_space ws2 = true /\
                                 has_char ch_tick m = has_char ch_tick g
    | PBrNone m => has_char ch_tick m = false
    end) (scan_f fuel s).
Proof.
  induction fuel as [|f IH]; intros s; [constructor|].
  destruct s as [|c r]; [constructor|]. cbn [scan_f].
  destruct (Ascii.eqb c ch_open).
  - destruct (match_bracket r) as [g rest|rest|] eqn:M; constructor; try apply IH; try exact I.
    + destruct (matched_text_group r g rest M) as (ws1 & ws2 & A & B & C & D). exists ws1, ws2. repeat split; assumption.
    + destruct (matched_text_nogroup r rest M) as (ws & _ & _ & HT). exact HT.
  - constructor; [exact I|apply IH].
Qed.

Section Whole.
  Variable has : label -> bool.
  Variable locate : label -> outcome loc.
  Notation resolve_index := (resolve_index has locate).
  Notation render_part := (render_part has locate).
  Notation resolve_group := (resolve_group has locate).
  Notation rewrite_f := (rewrite_f has locate).
  Notation rewrite := (rewrite has locate).
  Notation eval_text := (eval_text has locate).
  Notation label_resolves := (label_resolves has locate).

  (* ---------------- padding inside a bracket ---------------- *)
  Lemma resolve_index_pad w1 p w2 :
    str_all is_py_space w1 = true -> str_all is_py_space w2 = true -> resolve_index (w1 ++ p ++ w2) = resolve_index p.
  Proof.
    intros H1 H2. destruct (py_space_no_special w1 H1) as [_ T1]. destruct (py_space_no_special w2 H2) as [_ T2].
    unfold EvalIdx.resolve_index. rewrite !has_char_app, T1, T2, orb_false_r. cbn [orb].
    rewrite (strip_pad is_py_space w1 p w2 H1 H2). reflexivity.
  Qed.

  Theorem resolve_group_pad1 w1 p w2 :
    str_all is_py_space w1 = true -> str_all is_py_space w2 = true -> has_char ch_colon p = false ->
    resolve_group (w1 ++ p ++ w2) = resolve_group p.
  Proof.
    intros H1 H2 Hp.
    rewrite (resolve_group_single has locate _ (no_colon_pad w1 p w2 H1 H2 Hp)).
    rewrite (resolve_group_single has locate _ Hp).
    rewrite resolve_index_pad by assumption. reflexivity.
  Qed.

  Theorem resolve_group_pad2 w1 pa w2 w3 pb w4 :
    str_all is_py_space w1 = true -> str_all is_py_space w2 = true ->
    str_all is_py_space w3 = true -> str_all is_py_space w4 = true ->
    has_char ch_colon pa = false -> has_char ch_colon pb = false ->
    resolve_group ((w1 ++ pa ++ w2) ++ String ch_colon (w3 ++ pb ++ w4)) = resolve_group (pa ++ String ch_colon pb).
  Proof.
    intros H1 H2 H3 H4 Ha Hb.
    rewrite (resolve_group_slice2 has locate _ _ (no_colon_pad w1 pa w2 H1 H2 Ha) (no_colon_pad w3 pb w4 H3 H4 Hb)).
    rewrite (resolve_group_slice2 has locate _ _ Ha Hb).
    rewrite !strip_pad by assumption. reflexivity.
  Qed.

  Theorem resolve_group_pad3 w1 pa w2 w3 pb w4 w5 ps w6 :
    str_all is_py_space w1 = true -> str_all is_py_space w2 = true ->
    str_all is_py_space w3 = true -> str_all is_py_space w4 = true ->
    str_all is_py_space w5 = true -> str_all is_py_space w6 = true ->
    has_char ch_colon pa = false -> has_char ch_colon pb = false -> has_char ch_colon ps = false ->
    resolve_group ((w1 ++ pa ++ w2) ++ String ch_colon ((w3 ++ pb ++ w4) ++ String ch_colon (w5 ++ ps ++ w6)))
    = resolve_group (pa ++ String ch_colon (pb ++ String ch_colon ps)).
  Proof.
    intros H1 H2 H3 H4 H5 H6 Ha Hb Hs.
    rewrite (resolve_group_slice3 has locate _ _ _ (no_colon_pad w1 pa w2 H1 H2 Ha) (no_colon_pad w3 pb w4 H3 H4 Hb)
               (no_colon_pad w5 ps w6 H5 H6 Hs)).
    rewrite (resolve_group_slice3 has locate _ _ _ Ha Hb Hs).
    rewrite !strip_pad by assumption. reflexivity.
  Qed.

  (* ---------------- the whole expression, bracket by bracket ---------------- *)
  (* what a bracket becomes: with a backtick, the callback's text; without one, itself — verbatim (fix 24bdfbd) *)
  Definition seg_out (s : seg) : outcome string :=
    if has_char ch_tick (sg_g s) then resolve_group (sg_g s)
    else Ret (seg_bracket s).

  Fixpoint expr_rewritten (segs : list seg) (tail : string) : outcome string :=
    match segs with
    | [] => Ret tail
    | s :: r => match seg_out s with
                | Raise e => Raise e
                | Ret t => omap (fun u => sg_pre s ++ t ++ u) (expr_rewritten r tail)
                end
    end.

  Theorem rewrite_whole segs tail :
    forallb seg_ok segs = true -> has_char ch_open tail = false ->
    rewrite (expr_text segs tail) = expr_rewritten segs tail.
  Proof.
    intros Hs Ht. induction segs as [|s r IH]; cbn [expr_text expr_rewritten].
    - apply rewrite_no_bracket; exact Ht.
    - cbn [forallb] in Hs. apply andb_true_iff in Hs as [Hs Hr].
      unfold seg_ok in Hs. apply andb_true_iff in Hs as [Hs H4]. apply andb_true_iff in Hs as [Hs H3].
      apply andb_true_iff in Hs as [H1 H2]. apply negb_true_iff in H1.
      rewrite (rewrite_prefix has locate _ _ H1). unfold seg_out.
      destruct (has_char ch_tick (sg_g s)) eqn:HT.
      + rewrite (rewrite_bracket has locate _ _ _ _ H2 H3 H4 HT).
        rewrite (IH Hr). destruct (resolve_group (sg_g s)) as [t|e]; [|reflexivity].
        cbn [omap]. rewrite omap_omap. reflexivity.
      + rewrite (rewrite_bracket_verbatim has locate _ _ _ _ H2 H3 H4 HT).
        rewrite (IH Hr). rewrite omap_omap. reflexivity.
  Qed.

  (* every bracket resolves: the text with every bracket replaced, everything else verbatim *)
  Theorem rewrite_whole_ok segs ts tail :
    forallb seg_ok segs = true -> has_char ch_open tail = false ->
    Forall2 (fun s t => seg_out s = Ret t) segs ts ->
    rewrite (expr_text segs tail) = Ret (expr_subst segs ts tail).
  Proof.
    intros Hs Ht HF. rewrite rewrite_whole by assumption. clear Hs.
    induction HF as [|s t r ts' Hst HF IH]; cbn [expr_rewritten expr_subst]; [reflexivity|].
    rewrite Hst, IH. reflexivity.
  Qed.

  (* the first bracket (from the left) whose callback raises decides the outcome; nothing after it matters *)
  Theorem rewrite_whole_first_error segs1 ts s segs2 tail e :
    forallb seg_ok (segs1 ++ s :: segs2) = true -> has_char ch_open tail = false ->
    Forall2 (fun s t => seg_out s = Ret t) segs1 ts ->
    seg_out s = Raise e ->
    rewrite (expr_text (segs1 ++ s :: segs2) tail) = Raise e.
  Proof.
    intros Hs Ht HF He. rewrite rewrite_whole by assumption. clear Hs.
    induction HF as [|s1 t r ts' Hst HF IH]; cbn [app expr_rewritten].
    - rewrite He. reflexivity.
    - rewrite Hst, IH. reflexivity.
  Qed.

  (* ---------------- which exceptions can come out of the rewriter: EVERY string ---------------- *)
  Definition rewrite_exn_ok (e : exn) : Prop :=
    e = ValueError \/ e = KeyError \/ exists l, locate l = Raise e.

  Lemma resolve_index_exn p e : resolve_index p = Raise e -> e = ValueError \/ e = KeyError \/ exists l, locate l = Raise e.
  Proof.
    unfold EvalIdx.resolve_index. destruct (negb (has_char ch_tick p)).
    - destruct (parse_pyint _); intros H; inversion H; auto.
    - destruct (has (LStr _)); [intros H; right; right; eauto|].
      destruct (parse_int_raw _) as [z|]; [|intros H; inversion H; auto].
      destruct (has (LInt z)); [intros H; right; right; eauto|intros H; inversion H; auto].
  Qed.

  Lemma render_part_exn p b e : render_part p b = Raise e -> e = ValueError \/ e = KeyError \/ exists l, locate l = Raise e.
  Proof.
    unfold EvalIdx.render_part. destruct (String.eqb p ""); [discriminate|].
    destruct (resolve_index p) as [l|e'] eqn:E; [discriminate|].
    intros H; inversion H; subst. exact (resolve_index_exn p e E).
  Qed.

  Lemma render_item_exn p b e : render_item has locate p b = Raise e -> e = ValueError \/ e = KeyError \/ exists l, locate l = Raise e.
  Proof. unfold EvalIdx.render_item. destruct (has_char ch_tick p); [apply render_part_exn|discriminate]. Qed.

  Lemma resolve_group_exn g e : resolve_group g = Raise e -> e = ValueError \/ e = KeyError \/ exists l, locate l = Raise e.
  Proof.
    unfold EvalIdx.resolve_group. destruct (Nat.ltb 3 _); [intros H; inversion H; auto|].
    destruct (split_on ch_colon g) as [|p1 [|p2 step]].
    - intros H; inversion H; auto.
    - destruct (resolve_index p1) as [l|e'] eqn:E; cbn [omap]; [discriminate|].
      intros H; inversion H; subst. exact (resolve_index_exn p1 e E).
    - destruct (render_item has locate (strip is_py_space p1) false) as [a|e1] eqn:E1.
      + destruct (render_item has locate (strip is_py_space p2) true) as [b|e2] eqn:E2.
        * destruct (map (strip is_py_space) step) as [|st [|st2 more]]; try discriminate.
          intros H; inversion H; auto.
        * intros H; inversion H; subst. exact (render_item_exn _ _ e E2).
      + intros H; inversion H; subst. exact (render_item_exn _ _ e E1).
  Qed.

  Lemma rewrite_f_exn fuel : forall s e, rewrite_f fuel s = Raise e -> rewrite_exn_ok e.
  Proof.
    induction fuel as [|f IH]; intros s e; [discriminate|].
    destruct s as [|c r]; [discriminate|].
    rewrite (rewrite_f_step has locate f c r).
    destruct (Ascii.eqb c ch_open).
    - destruct (match_bracket r) as [g rest|rest|] eqn:M.
      + destruct (negb (has_char ch_tick (matched_text r rest))).
        * intros H. apply omap_raise in H. exact (IH _ _ H).
        * destruct (resolve_group g) as [t|e'] eqn:E.
          -- intros H. apply omap_raise in H. exact (IH _ _ H).
          -- intros H; inversion H; subst. exact (resolve_group_exn g e E).
      + destruct (matched_text_nogroup r rest M) as (ws & _ & _ & HT). rewrite HT. cbn [negb].
        intros H. apply omap_raise in H. exact (IH _ _ H).
      + intros H. apply omap_raise in H. exact (IH _ _ H).
    - intros H. apply omap_raise in H. exact (IH _ _ H).
  Qed.

  Theorem rewrite_exceptions s e : rewrite s = Raise e -> rewrite_exn_ok e.
  Proof. unfold EvalIdx.rewrite. apply rewrite_f_exn. Qed.

  (* ---------------- EVERY string: the rewriter = per-piece action on the matches ---------------- *)
  (* what each piece becomes: only a match whose text contains a backtick goes through the callback *)
  Definition piece_out (p : piece) : outcome string :=
    match p with
    | PLit c => Ret (String c "")
    | PBr m g => if has_char ch_tick m then resolve_group g else Ret m
    | PBrNone m => Ret m
    end.

  Fixpoint assemble (ps : list piece) : outcome string :=
    match ps with
    | [] => Ret ""
    | p :: r => match piece_out p with
                | Raise e => Raise e
                | Ret t => omap (fun u => t ++ u) (assemble r)
                end
    end.

  Lemma rewrite_f_assemble fuel : forall s, (String.length s < fuel)%nat -> rewrite_f fuel s = assemble (scan_f fuel s).
  Proof.
    induction fuel as [|f IH]; intros s L; [lia|].
    destruct s as [|c r]; [reflexivity|]. cbn [String.length] in L. rewrite (rewrite_f_step has locate f c r). cbn [scan_f].
    destruct (Ascii.eqb c ch_open).
    - destruct (match_bracket r) as [g rest|rest|] eqn:M; cbn [assemble piece_out].
      + pose proof (match_bracket_len _ _ _ M). rewrite IH by lia.
        destruct (has_char ch_tick (matched_text r rest)); cbn [negb]; reflexivity.
      + pose proof (match_bracket_nogroup_len _ _ M).
        destruct (matched_text_nogroup r rest M) as (ws & _ & _ & HT). rewrite HT. cbn [negb]. rewrite IH by lia. reflexivity.
      + rewrite IH by lia. reflexivity.
    - cbn [assemble piece_out]. rewrite IH by lia. reflexivity.
  Qed.

  (* index_re.sub(resolve_indexes, s), for EVERY string s: cut s at the matches; copy everything; replace exactly the matches
     that contain a backtick by the callback's text (the leftmost failing one raising) *)
  Theorem rewrite_is_assemble s : rewrite s = assemble (scan s).
  Proof. unfold EvalIdx.rewrite, scan. apply rewrite_f_assemble. lia. Qed.

  (* whenever the rewriter succeeds, its output is the concatenation of the per-piece outputs ... *)
  Lemma assemble_ret ps t : assemble ps = Ret t ->
    exists ts, Forall2 (fun p u => piece_out p = Ret u) ps ts /\ t = sconcat ts.
  Proof.
    revert t; induction ps as [|p r IH]; intros t; cbn [assemble].
    - intros H; inversion H. exists []. split; [constructor|reflexivity].
    - destruct (piece_out p) as [u|e] eqn:E; [|discriminate].
      destruct (assemble r) as [t'|e'] eqn:A; cbn [omap]; [|discriminate].
      intros H; inversion H; subst t. destruct (IH t' eq_refl) as (ts & F & ->).
      exists (u :: ts). split; [constructor; assumption|reflexivity].
  Qed.

  (* ... in which every piece without a backtick — every character outside the matches and EVERY BRACKET WITHOUT A BACKTICK,
     whatever else the expression contains — stands verbatim: positional_untouched at full strength *)
  Theorem rewrite_pieces s t :
    rewrite s = Ret t ->
    exists ts, Forall2 (fun p u => piece_out p = Ret u) (scan s) ts /\ t = sconcat ts /\
               Forall2 (fun p u => has_char ch_tick (piece_src p) = false -> u = piece_src p) (scan s) ts.
  Proof.
    rewrite rewrite_is_assemble. intros H. destruct (assemble_ret _ _ H) as (ts & F & E).
    exists ts. split; [exact F|]. split; [exact E|].
    clear H E. induction F as [|p u r ts' Hpu F IH]; constructor; [|exact IH].
    intros HT. destruct p as [c|m g|m]; cbn [piece_out piece_src] in *.
    - inversion Hpu; reflexivity.
    - rewrite HT in Hpu. inversion Hpu; reflexivity.
    - inversion Hpu; reflexivity.
  Qed.

  (* eval()'s test "is there a backtick at all" is no longer what protects positional brackets: the rewriter alone would do *)
  Theorem eval_text_is_rewrite s : eval_text s = rewrite s.
  Proof.
    unfold EvalIdx.eval_text. destruct (has_char ch_tick s) eqn:E; [reflexivity|].
    symmetry. apply rewrite_no_tick_identity. exact E.
  Qed.

  Corollary eval_text_exceptions s e : eval_text s = Raise e -> rewrite_exn_ok e.
  Proof. unfold EvalIdx.eval_text. destruct (has_char ch_tick s); [apply rewrite_exceptions|discriminate]. Qed.

  (* ---------------- a backticked label anywhere in an expression ---------------- *)
  Theorem label_index_in_expression pre ws1 a ws2 post l :
    has_char ch_open pre = false -> str_all is_re_space ws1 = true -> str_all is_re_space ws2 = true ->
    has_char ch_tick a = false -> has_char ch_colon a = false -> has_char ch_close a = false -> has_char ch_nl a = false ->
    label_resolves a l ->
    rewrite (pre ++ String ch_open (ws1 ++ bt a ++ ws2 ++ String ch_close post))
    = omap (fun u => pre ++ ("[" ++ str_loc l ++ "]") ++ u) (rewrite post).
  Proof.
    intros Hpre H1 H2 Ht Hc Hcl Hnl R.
    rewrite (rewrite_prefix has locate _ _ Hpre).
    rewrite (rewrite_bracket has locate _ _ _ _ H1 (wf_group_bt a Hcl Hnl) H2 (proj1 (bt_facts a Hc))).
    rewrite (label_index_rewrite_loc has locate a l Ht Hc R).
    rewrite omap_omap. reflexivity.
  Qed.

  Theorem label_missing_in_expression pre ws1 a ws2 post :
    has_char ch_open pre = false -> str_all is_re_space ws1 = true -> str_all is_re_space ws2 = true ->
    has_char ch_tick a = false -> has_char ch_colon a = false -> has_char ch_close a = false -> has_char ch_nl a = false ->
    label_missing has a ->
    rewrite (pre ++ String ch_open (ws1 ++ bt a ++ ws2 ++ String ch_close post)) = Raise KeyError.
  Proof.
    intros Hpre H1 H2 Ht Hc Hcl Hnl M.
    rewrite (rewrite_prefix has locate _ _ Hpre).
    rewrite (rewrite_bracket has locate _ _ _ _ H1 (wf_group_bt a Hcl Hnl) H2 (proj1 (bt_facts a Hc))).
    rewrite (label_missing_KeyError has locate a Ht Hc M). reflexivity.
  Qed.
End Whole.

(* ================================================================== eval() of a whole expression *)
Section WholeEval.
  Variable V : Type.
  Variable has : label -> bool.
  Variable locate : label -> outcome loc.
  Variable pyeval : string -> ns V -> pyres V.

  (* an expression with a backtick, all of whose brackets resolve: CPython evaluates the substituted text in the namespace
     helpers < variables < locals; the container is untouched *)
  Theorem eval_whole_expression dh tbl vars locals bi segs ts tail :
    forallb seg_ok segs = true -> has_char ch_open tail = false ->
    has_char ch_tick (expr_text segs tail) = true ->
    Forall2 (fun s t => seg_out has locate s = Ret t) segs ts ->
    (forall l, bi = Some l -> (l < List.length dh)%nat) ->
    snd (eval_M V has locate pyeval dh tbl vars (expr_text segs tail) locals bi)
      = convert V (pyeval (expr_subst segs ts tail)
                          (ns_update V (ns_update V (base_dict V dh tbl bi) vars) (locals_ns V locals))) /\
    snd (fst (eval_M V has locate pyeval dh tbl vars (expr_text segs tail) locals bi)) = vars.
  Proof.
    intros Hs Ht Hb HF Hbi.
    assert (HT : eval_text has locate (expr_text segs tail) = Ret (expr_subst segs ts tail)).
    { rewrite (eval_text_backtick has locate _ Hb). apply rewrite_whole_ok; assumption. }
    pose proof (eval_spec V has locate pyeval dh tbl vars _ locals bi _ HT Hbi) as H. cbv zeta in H.
    destruct H as (H1 & H2 & _). split; assumption.
  Qed.

  (* the first failing bracket is what eval() raises; no dict is created or touched *)
  Theorem eval_whole_expression_error dh tbl vars locals bi segs1 ts s segs2 tail e :
    forallb seg_ok (segs1 ++ s :: segs2) = true -> has_char ch_open tail = false ->
    has_char ch_tick (expr_text (segs1 ++ s :: segs2) tail) = true ->
    Forall2 (fun s t => seg_out has locate s = Ret t) segs1 ts ->
    seg_out has locate s = Raise e ->
    eval_M V has locate pyeval dh tbl vars (expr_text (segs1 ++ s :: segs2) tail) locals bi = ((dh, vars), ERaise e).
  Proof.
    intros Hs Ht Hb HF He. apply eval_rewrite_error.
    rewrite (eval_text_backtick has locate _ Hb). eapply rewrite_whole_first_error; eassumption.
  Qed.

  (* EVERY expression: the text CPython evaluates is the concatenation of the per-piece outputs of the expression's pieces, in
     which every piece without a backtick — every positional bracket, wherever it stands — is the piece itself *)
  Theorem eval_positional_brackets_untouched dh tbl vars locals bi expr text :
    eval_text has locate expr = Ret text ->
    (forall l, bi = Some l -> (l < List.length dh)%nat) ->
    snd (eval_M V has locate pyeval dh tbl vars expr locals bi)
      = convert V (pyeval text (ns_update V (ns_update V (base_dict V dh tbl bi) vars) (locals_ns V locals))) /\
    exists ts, Forall2 (fun p u => piece_out has locate p = Ret u) (scan expr) ts /\ text = sconcat ts /\
               Forall2 (fun p u => has_char ch_tick (piece_src p) = false -> u = piece_src p) (scan expr) ts.
  Proof.
    intros HT Hbi. split.
    - pose proof (eval_spec V has locate pyeval dh tbl vars expr locals bi text HT Hbi) as S. cbv zeta in S. exact (proj1 S).
    - apply rewrite_pieces. rewrite <- eval_text_is_rewrite. exact HT.
  Qed.
End WholeEval.
