(* EvalIdxProgram.v — expressions as PROGRAMS over typed brackets, on a span of the C10 model (Locate/Locate.v):
   every bracket of the expression is one of
     [`a`]            a backticked label                      [`a`:`b`(:s)]   a label slice, one end possibly open
     [g]              ANY bracket without a backtick (index, slice with or without stop, arithmetic, tuple, ...)
   (labels with colon / closing bracket / edge backtick and labels that do not stand alone in their bracket are the kept label
   findings; mixed brackets are in EvalIdxMixed.v).  For such programs, of any length:
   * the rewriter replaces each LABEL bracket by `b_dst` — the position / bounds the C10 model computes —, copies every bracket
     without a backtick verbatim (inner whitespace included: fix 24bdfbd) and copies everything else (program_rewrite);
   * the subscript written for a label bracket selects what label indexing selects (bracket_meaning). *)
From Coq Require Import ZArith List Bool String Ascii Lia ZifyBool.
Import ListNotations.
Require Import PyBase EvalIdx EvalIdxFacts EvalIdxWhole EvalIdxLocate.
Require Fsic.Locate.Locate.
Open Scope string_scope.
Open Scope Z_scope.

(* ================================================================== wf_group by parts *)
Definition first_ok (s : string) : bool := match s with "" => false | String c _ => negb (is_re_space c) end.
Fixpoint last_ok (s : string) : bool :=
  match s with
  | "" => false
  | String c r => match r with "" => negb (is_re_space c) | _ => last_ok r end
  end.
Definition inner_ok (s : string) : bool := negb (has_char ch_close s) && negb (has_char ch_nl s).

Lemma has_char_cons x c r : has_char x (String c r) = Ascii.eqb c x || has_char x r.
Proof. reflexivity. Qed.

Lemma wf_tail_parts s : wf_tail s = last_ok s && inner_ok s.
Proof.
  induction s as [|c r IH]; [reflexivity|].
  destruct r as [|c' r'].
  - cbn [wf_tail last_ok]. unfold inner_ok. rewrite !has_char_cons. cbn [has_char].
    destruct (Ascii.eqb c ch_close), (Ascii.eqb c ch_nl), (is_re_space c); reflexivity.
  - change (wf_tail (String c (String c' r'))) with
      (negb (Ascii.eqb c ch_close) && negb (Ascii.eqb c ch_nl) && wf_tail (String c' r')).
    change (last_ok (String c (String c' r'))) with (last_ok (String c' r')).
    rewrite IH. unfold inner_ok. rewrite (has_char_cons ch_close c), (has_char_cons ch_nl c).
    destruct (Ascii.eqb c ch_close), (Ascii.eqb c ch_nl), (last_ok (String c' r')),
      (has_char ch_close (String c' r')), (has_char ch_nl (String c' r')); reflexivity.
Qed.

Lemma wf_group_parts s : wf_group s = first_ok s && last_ok s && inner_ok s.
Proof.
  destruct s as [|c r]; [reflexivity|]. unfold wf_group. rewrite wf_tail_parts. cbn [first_ok].
  rewrite andb_assoc. reflexivity.
Qed.

Lemma first_ok_app x y : first_ok x = true -> first_ok (x ++ y) = true.
Proof. destruct x; [discriminate|]. intros H; exact H. Qed.

Lemma last_ok_app x y : last_ok y = true -> last_ok (x ++ y) = true.
Proof.
  intros H. induction x as [|c r IH]; [exact H|].
  cbn [append last_ok]. destruct (r ++ y) eqn:E; [|exact IH].
  destruct r; cbn in E; [subst y; discriminate|discriminate].
Qed.

Lemma inner_ok_app x y : inner_ok (x ++ y) = inner_ok x && inner_ok y.
Proof.
  unfold inner_ok. rewrite !has_char_app.
  destruct (has_char ch_close x), (has_char ch_close y), (has_char ch_nl x), (has_char ch_nl y); reflexivity.
Qed.

Lemma wf_group_cat x y :
  first_ok x = true -> inner_ok x = true -> last_ok y = true -> inner_ok y = true -> wf_group (x ++ y) = true.
Proof.
  intros F Ix L Iy. rewrite wf_group_parts, (first_ok_app x y F), (last_ok_app x y L), inner_ok_app, Ix, Iy. reflexivity.
Qed.

Lemma wf_group_whole x : first_ok x = true -> last_ok x = true -> inner_ok x = true -> wf_group x = true.
Proof. intros F L I. rewrite wf_group_parts, F, L, I. reflexivity. Qed.

(* ---- the atoms ---- *)
Lemma re_py_space c : is_re_space c = is_py_space c.
Proof. reflexivity. Qed.

Lemma numeric_not_nl c : numeric_char c = true -> Ascii.eqb c ch_nl = false.
Proof.
  revert c. assert (H : forall c, (negb (numeric_char c) || negb (Ascii.eqb c ch_nl)) = true).
  { apply ascii_sweep. vm_compute. reflexivity. }
  intros c Hc. specialize (H c). rewrite Hc in H. cbn in H. apply negb_true_iff in H. exact H.
Qed.

Lemma numeric_last_ok c r : str_all numeric_char (String c r) = true -> last_ok (String c r) = true.
Proof.
  revert c; induction r as [|c' r' IH]; intros c H; cbn [str_all] in H; apply andb_true_iff in H as [H1 H2].
  - cbn [last_ok]. rewrite re_py_space, (numeric_not_space c H1). reflexivity.
  - change (last_ok (String c (String c' r'))) with (last_ok (String c' r')). apply IH. exact H2.
Qed.

Lemma numeric_parts s : s <> "" -> str_all numeric_char s = true -> first_ok s = true /\ last_ok s = true /\ inner_ok s = true.
Proof.
  intros NE H. destruct s as [|c r]; [congruence|]. split; [|split].
  - cbn [str_all] in H. apply andb_true_iff in H as [H _].
    cbn [first_ok]. rewrite re_py_space, (numeric_not_space c H). reflexivity.
  - apply numeric_last_ok; exact H.
  - unfold inner_ok. destruct (numeric_no_special _ H) as (_ & _ & C & _). rewrite C. cbn [negb andb].
    apply negb_true_iff. rewrite has_char_all. apply negb_false_iff. apply (str_all_impl numeric_char); [|exact H].
    intros c0 Hc. apply negb_true_iff. exact (numeric_not_nl c0 Hc).
Qed.

Lemma Z_to_string_parts z : first_ok (Z_to_string z) = true /\ last_ok (Z_to_string z) = true /\ inner_ok (Z_to_string z) = true.
Proof. apply numeric_parts; [apply Z_to_string_nonempty|apply Z_to_string_numeric]. Qed.

Lemma bt_parts a : has_char ch_close a = false -> has_char ch_nl a = false ->
  first_ok (bt a) = true /\ last_ok (bt a) = true /\ inner_ok (bt a) = true.
Proof.
  intros H1 H2. unfold bt. split; [vm_compute; reflexivity|]. split.
  - change (String ch_tick (a ++ String ch_tick "")) with ((String ch_tick a) ++ String ch_tick "").
    apply last_ok_app. vm_compute. reflexivity.
  - change (String ch_tick (a ++ String ch_tick "")) with ((String ch_tick "") ++ (a ++ String ch_tick "")).
    rewrite !inner_ok_app. unfold inner_ok at 2. rewrite H1, H2. reflexivity.
Qed.

Lemma colon_parts : first_ok ":" = true /\ last_ok ":" = true /\ inner_ok ":" = true.
Proof. repeat split; vm_compute; reflexivity. Qed.

Lemma ropt_no_tick o : has_char ch_tick (ropt o) = false.
Proof.
  destruct o as [z|]; [|reflexivity]. cbn [ropt].
  destruct (numeric_no_special _ (Z_to_string_numeric z)) as (_ & T & _ & _). exact T.
Qed.

(* ================================================================== typed brackets *)
Inductive bracket :=
| BLabel (a : string)                                       (* [`a`] *)
| BLabelSlice (oa ob : option string) (st : option Z)       (* [`a`:`b`] / [`a`:`b`:s], None = open end (not both) *)
| BPlain (g : string).                                      (* [g], g without a backtick: anything *)

Definition lab_ok (a : string) : Prop :=
  has_char ch_tick a = false /\ has_char ch_colon a = false /\ has_char ch_close a = false /\ has_char ch_nl a = false.
Definition olab_ok (o : option string) : Prop := match o with None => True | Some a => lab_ok a end.
Definition st_ok (st : option Z) : Prop := match st with None => True | Some s => 0 < s end.
Definition b_ok (b : bracket) : Prop :=
  match b with
  | BLabel a => lab_ok a
  | BLabelSlice oa ob st => olab_ok oa /\ olab_ok ob /\ st_ok st /\ (oa <> None \/ ob <> None)
  | BPlain g => has_char ch_tick g = false /\ wf_group g = true
  end.
Definition is_label_bracket (b : bracket) : bool := match b with BPlain _ => false | _ => true end.

(* the text between the brackets, as the user writes it *)
Definition b_src (b : bracket) : string :=
  match b with
  | BLabel a => bt a
  | BLabelSlice oa ob None => otext oa ++ String ch_colon (otext ob)
  | BLabelSlice oa ob (Some s) => otext oa ++ String ch_colon (otext ob ++ String ch_colon (Z_to_string s))
  | BPlain g => g
  end.

Lemma olab_opt_ok o : olab_ok o -> opt_ok o.
Proof. destruct o as [a|]; [|exact id]. intros (T & C & _). split; assumption. Qed.

Lemma otext_parts o : olab_ok o -> o <> None ->
  first_ok (otext o) = true /\ last_ok (otext o) = true /\ inner_ok (otext o) = true.
Proof. destruct o as [a|]; [|congruence]. intros (_ & _ & C & N) _. exact (bt_parts a C N). Qed.

Lemma otext_inner o : olab_ok o -> inner_ok (otext o) = true.
Proof. destruct o as [a|]; [|reflexivity]. intros (_ & _ & C & N). exact (proj2 (proj2 (bt_parts a C N))). Qed.

Theorem b_src_wf b : b_ok b -> wf_group (b_src b) = true.
Proof.
  destruct colon_parts as (CF & CL & CI).
  destruct b as [a|oa ob st|g]; cbn [b_ok b_src].
  - intros (_ & _ & C & N). destruct (bt_parts a C N) as (F & L & I). apply wf_group_whole; assumption.
  - intros (Oa & Ob & St & _).
    pose proof (otext_inner oa Oa) as Ia. pose proof (otext_inner ob Ob) as Ib.
    assert (Hfirst : forall rest, first_ok (otext oa ++ String ch_colon rest) = true).
    { intros rest. destruct oa as [a|]; [|reflexivity]. apply first_ok_app.
      exact (proj1 (otext_parts (Some a) Oa ltac:(discriminate))). }
    assert (Hinner : forall rest, inner_ok rest = true -> inner_ok (otext oa ++ String ch_colon rest) = true).
    { intros rest Ir. rewrite inner_ok_app, Ia. change (String ch_colon rest) with (":" ++ rest).
      rewrite inner_ok_app, CI, Ir. reflexivity. }
    assert (Hlast_ob : last_ok (String ch_colon (otext ob)) = true).
    { destruct ob as [b|]; [|exact CL]. change (String ch_colon (otext (Some b))) with (":" ++ otext (Some b)).
      apply last_ok_app. exact (proj1 (proj2 (otext_parts (Some b) Ob ltac:(discriminate)))). }
    destruct st as [s|].
    + destruct (Z_to_string_parts s) as (ZF & ZL & ZI).
      apply wf_group_whole.
      * apply Hfirst.
      * apply last_ok_app.
        apply (last_ok_app (String ch_colon (otext ob ++ ":")) (Z_to_string s)) in ZL.
        replace (String ch_colon (otext ob ++ String ch_colon (Z_to_string s)))
          with (String ch_colon (otext ob ++ ":") ++ Z_to_string s); [exact ZL|].
        cbn [append]. rewrite sapp_assoc. reflexivity.
      * apply Hinner. rewrite inner_ok_app, Ib. change (String ch_colon (Z_to_string s)) with (":" ++ Z_to_string s).
        rewrite inner_ok_app, CI, ZI. reflexivity.
    + apply wf_group_whole.
      * apply Hfirst.
      * apply last_ok_app. exact Hlast_ob.
      * apply Hinner. exact Ib.
  - intros [_ W]. exact W.
Qed.

(* a label bracket contains a backtick, a plain one does not: which branch of the fixed callback is taken *)
Lemma b_src_tick b : b_ok b -> has_char ch_tick (b_src b) = is_label_bracket b.
Proof.
  destruct b as [a|oa ob st|g]; cbn [b_ok b_src is_label_bracket].
  - intros _. reflexivity.
  - intros (_ & _ & _ & NE).
    assert (H : has_char ch_tick (otext oa) || has_char ch_tick (otext ob) = true).
    { destruct oa as [a|], ob as [b|]; try reflexivity; destruct NE; congruence. }
    destruct st as [s|]; rewrite has_char_app; cbn [has_char]; rewrite ?has_char_app;
      replace (Ascii.eqb ch_colon ch_tick) with false by reflexivity; cbn [orb];
      destruct (has_char ch_tick (otext oa)); cbn [orb] in *; try reflexivity; rewrite H; reflexivity.
  - intros [T _]. exact T.
Qed.

(* ================================================================== what each bracket becomes, on a span of the C10 model *)
Section Program.
  Variable gl : list Locate.label -> Locate.label -> outcome Locate.loc.
  Variable ct : list Locate.label -> Locate.label -> bool.
  Variable sp : Locate.span.
  Notation resolve_group := (resolve_group (c10_has ct sp) (c10_locate gl sp)).
  Notation rewrite := (rewrite (c10_has ct sp) (c10_locate gl sp)).
  Notation resolve_bt := (Locate.resolve_bt gl ct sp).

  (* the text written between the brackets of a LABEL bracket: through C10's lookup / C10's eval_slice_bounds *)
  Definition b_inner (b : bracket) : outcome string :=
    match b with
    | BLabel a => omap (fun l => str_loc (tr_loc l)) (resolve_bt (a, parse_int_raw a))
    | BLabelSlice oa ob st =>
        omap (fun ab => ropt (fst ab) ++ String ch_colon (ropt (snd ab) ++ String ch_colon (ropt st)))
             (Locate.eval_slice_bounds resolve_bt (okey oa) (okey ob))
    | BPlain g => Ret g
    end.
  Definition b_dst (b : bracket) : outcome string := omap (fun i => "[" ++ i ++ "]") (b_inner b).

  (* the callback on a label bracket *)
  Theorem bracket_resolves b : b_ok b -> is_label_bracket b = true -> resolve_group (b_src b) = b_dst b.
  Proof.
    unfold b_dst. destruct b as [a|oa ob st|g]; cbn [b_ok b_src b_inner is_label_bracket]; try discriminate.
    - intros (T & C & _) _. destruct (bt_facts a C) as (B1 & B2 & B3 & B4).
      rewrite (resolve_group_single _ _ _ B2), (resolve_index_is_resolve_bt gl ct sp a T C).
      destruct (resolve_bt (a, parse_int_raw a)); reflexivity.
    - intros (Oa & Ob & St & _) _. apply olab_opt_ok in Oa. apply olab_opt_ok in Ob.
      destruct st as [s|].
      + rewrite (label_slice_step_text_is_C10_bounds gl ct sp oa ob (Z_to_string s) Oa Ob (ropt_no_colon (Some s))).
        rewrite strip_Z_to_string.
        destruct (Locate.eval_slice_bounds resolve_bt (okey oa) (okey ob)) as [[x y]|e]; cbn [omap fst snd]; [|reflexivity].
        unfold bounds_text. cbn [fst snd ropt]. rewrite inner_assoc. reflexivity.
      + rewrite (label_slice_text_is_C10_bounds gl ct sp oa ob Oa Ob).
        destruct (Locate.eval_slice_bounds resolve_bt (okey oa) (okey ob)) as [[x y]|e]; cbn [omap fst snd]; [|reflexivity].
        unfold bounds_text. cbn [fst snd ropt]. rewrite inner_assoc. reflexivity.
  Qed.

  (* ---- what the subscript written for a label bracket selects ---- *)
  Definition b_plain (b : bracket) : Prop :=
    match b with
    | BLabel a => forall x y, resolve_bt (a, parse_int_raw a) <> Ret (Locate.LSlice x y)   (* not a slice-valued pandas location *)
    | _ => True
    end.

  Definition b_positions (n : nat) (b : bracket) : option (list nat) :=
    match b with
    | BLabel a => match resolve_bt (a, parse_int_raw a) with
                  | Ret (Locate.LPos i _) => option_map (fun p => [p]) (py_pos n i)      (* the position C10 locates *)
                  | _ => None
                  end
    | BLabelSlice oa ob st => match Locate.eval_slice_bounds resolve_bt (okey oa) (okey ob) with
                              | Ret (a', b') => Some (py_slice_positions n a' b' (step_of st))   (* C10's bounds *)
                              | Raise _ => None
                              end
    | BPlain _ => None                                       (* copied verbatim: Python reads what the user wrote *)
    end.

  Lemma step_ok st : st_ok st -> (0 <? step_of st) = true.
  Proof. destruct st as [s|]; cbn [st_ok step_of]; lia. Qed.

  Theorem bracket_meaning n b inner :
    b_ok b -> is_label_bracket b = true -> b_plain b -> b_inner b = Ret inner -> index_sem n inner = b_positions n b.
  Proof.
    destruct b as [a|oa ob st|g]; cbn [b_ok b_plain b_inner b_positions is_label_bracket]; try discriminate.
    - intros _ _ P. destruct (resolve_bt (a, parse_int_raw a)) as [[i fl|x y]|e]; cbn [omap]; try discriminate.
      + intros H; inversion H; subst inner. destruct fl; cbn [tr_loc str_loc]; apply index_sem_single.
      + exfalso. exact (P x y eq_refl).
    - intros (_ & _ & St & _) _ _.
      destruct (Locate.eval_slice_bounds resolve_bt (okey oa) (okey ob)) as [[x y]|e]; cbn [omap fst snd]; [|discriminate].
      intros H; inversion H; subst inner.
      rewrite index_sem_slice3 by apply ropt_no_colon. rewrite slice_sem_ropt, (step_ok st St). reflexivity.
  Qed.

  (* ================================================================ programs *)
  Record pseg := mkPSeg { ps_pre : string; ps_ws1 : string; ps_b : bracket; ps_ws2 : string }.
  Definition to_seg (p : pseg) : seg := mkSeg (ps_pre p) (ps_ws1 p) (b_src (ps_b p)) (ps_ws2 p).
  Definition pseg_ok (p : pseg) : Prop :=
    has_char ch_open (ps_pre p) = false /\ str_all is_re_space (ps_ws1 p) = true /\ str_all is_re_space (ps_ws2 p) = true /\ b_ok (ps_b p).

  (* what the bracket of a program segment becomes: a label bracket its C10 text, any other bracket ITSELF *)
  Definition ps_out (p : pseg) : outcome string :=
    if is_label_bracket (ps_b p) then b_dst (ps_b p) else Ret (seg_bracket (to_seg p)).

  Lemma seg_out_ps p : pseg_ok p -> seg_out (c10_has ct sp) (c10_locate gl sp) (to_seg p) = ps_out p.
  Proof.
    intros (_ & _ & _ & Hb). unfold seg_out, ps_out. cbn [to_seg sg_g]. rewrite (b_src_tick _ Hb).
    destruct (is_label_bracket (ps_b p)) eqn:E; [|reflexivity]. exact (bracket_resolves _ Hb E).
  Qed.

  (* every bracket without a backtick comes out verbatim *)
  Theorem plain_bracket_verbatim p : is_label_bracket (ps_b p) = false -> ps_out p = Ret (seg_bracket (to_seg p)).
  Proof. intros E. unfold ps_out. rewrite E. reflexivity. Qed.

  Definition program_text (prog : list pseg) (tail : string) : string := expr_text (map to_seg prog) tail.
  Definition program_subst (prog : list pseg) (ts : list string) (tail : string) : string := expr_subst (map to_seg prog) ts tail.

  Lemma program_segs_ok prog : Forall pseg_ok prog -> forallb seg_ok (map to_seg prog) = true.
  Proof.
    induction 1 as [|p r (H1 & H2 & H3 & H4) _ IH]; [reflexivity|].
    cbn [map forallb]. rewrite IH, andb_true_r. unfold seg_ok, to_seg. cbn [sg_pre sg_ws1 sg_g sg_ws2].
    rewrite H1, H2, H3, (b_src_wf _ H4). reflexivity.
  Qed.

  Lemma program_outs prog ts : Forall pseg_ok prog -> Forall2 (fun p t => ps_out p = Ret t) prog ts ->
    Forall2 (fun s t => seg_out (c10_has ct sp) (c10_locate gl sp) s = Ret t) (map to_seg prog) ts.
  Proof.
    intros Hok HF. induction HF as [|p t r ts' Hpt HF IH]; cbn [map]; constructor.
    - inversion Hok as [|? ? Hp ?]; subst. rewrite (seg_out_ps p Hp). exact Hpt.
    - apply IH. inversion Hok; assumption.
  Qed.

  (* the whole expression: label brackets replaced by their C10 text, every other bracket and all other text verbatim *)
  Theorem program_rewrite prog ts tail :
    Forall pseg_ok prog -> has_char ch_open tail = false ->
    Forall2 (fun p t => ps_out p = Ret t) prog ts ->
    rewrite (program_text prog tail) = Ret (program_subst prog ts tail).
  Proof.
    intros Hok Ht HF. unfold program_text, program_subst.
    apply (rewrite_whole_ok (c10_has ct sp) (c10_locate gl sp)); [apply program_segs_ok; exact Hok|exact Ht|].
    apply program_outs; assumption.
  Qed.

  (* the leftmost LABEL bracket whose lookup fails decides the exception (a bracket without a backtick never raises) *)
  Theorem program_first_error prog1 ts p prog2 tail e :
    Forall pseg_ok (prog1 ++ p :: prog2) -> has_char ch_open tail = false ->
    Forall2 (fun p t => ps_out p = Ret t) prog1 ts ->
    ps_out p = Raise e ->
    rewrite (program_text (prog1 ++ p :: prog2) tail) = Raise e.
  Proof.
    intros Hok Ht HF He. unfold program_text. rewrite map_app. cbn [map].
    apply (rewrite_whole_first_error (c10_has ct sp) (c10_locate gl sp) (map to_seg prog1) ts (to_seg p) (map to_seg prog2) tail e).
    - change (to_seg p :: map to_seg prog2) with (map to_seg (p :: prog2)).
      rewrite <- (map_app to_seg prog1 (p :: prog2)). apply program_segs_ok; exact Hok.
    - exact Ht.
    - apply Forall_app in Hok as [Hok1 _]. apply program_outs; assumption.
    - apply Forall_app in Hok as [_ Hok2]. inversion Hok2 as [|? ? Hp ?]; subst.
      rewrite (seg_out_ps p Hp). exact He.
  Qed.
End Program.
