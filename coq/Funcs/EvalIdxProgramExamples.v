(* EvalIdxProgramExamples.v — an instance of the program theorems of EvalIdxProgram.v (all hypotheses met on a non-trivial
   four-bracket expression over range(2000, 2005)) and of the first-error theorem. *)
From Coq Require Import ZArith List Bool String Ascii Lia.
Import ListNotations.
Require Import PyBase EvalIdx EvalIdxFacts EvalIdxWhole EvalIdxLocate EvalIdxLocateExamples EvalIdxProgram.
Require Fsic.Locate.Locate.
Open Scope string_scope.
Open Scope Z_scope.

Definition ex_prog : list pseg :=
  [mkPSeg "lag(X" "" (BLabelSlice (Some "2001") (Some "2003") None) "";
   mkPSeg ", 1) + Y" " " (BLabel "2004") " ";
   mkPSeg " * Z" " " (BPlain "a-1") "";
   mkPSeg " - X" "" (BPlain "1:3") ""].

Example ex_prog_text : program_text ex_prog " - 1" = "lag(X[`2001`:`2003`], 1) + Y[ `2004` ] * Z[ a-1] - X[1:3] - 1".
Proof. vm_compute. reflexivity. Qed.

Example ex_prog_ok : Forall pseg_ok ex_prog /\ has_char ch_open " - 1" = false.
Proof.
  split; [|reflexivity]. unfold ex_prog.
  repeat (apply Forall_cons; [|]); try apply Forall_nil; unfold pseg_ok;
    cbn [ps_pre ps_ws1 ps_ws2 ps_b b_ok olab_ok st_ok lab_ok];
    repeat split; try exact I; try (left; discriminate); vm_compute; reflexivity.
Qed.

Example ex_prog_dst :
  Forall2 (fun p t => ps_out ex_gl ex_ct ex_sp_range p = Ret t) ex_prog ["[1:4:]"; "[4]"; "[ a-1]"; "[1:3]"].
Proof. repeat constructor. Qed.

Example ex_prog_rewritten :
  rewrite (c10_has ex_ct ex_sp_range) (c10_locate ex_gl ex_sp_range) (program_text ex_prog " - 1")
  = Ret "lag(X[1:4:], 1) + Y[4] * Z[ a-1] - X[1:3] - 1".
Proof.
  rewrite (program_rewrite ex_gl ex_ct ex_sp_range ex_prog ["[1:4:]"; "[4]"; "[ a-1]"; "[1:3]"] " - 1"
             (proj1 ex_prog_ok) (proj2 ex_prog_ok) ex_prog_dst).
  vm_compute. reflexivity.
Qed.

Example ex_prog_positions :
  map (b_positions ex_gl ex_ct ex_sp_range 5) (map ps_b ex_prog)
  = [Some [1; 2; 3]%nat; Some [4]%nat; None; None].
Proof. vm_compute. reflexivity. Qed.

Example ex_prog_plain : Forall (fun p => b_plain ex_gl ex_ct ex_sp_range (ps_b p)) ex_prog.
Proof. repeat constructor; cbn; try exact I. intros x y. vm_compute. discriminate. Qed.

(* a label that is not in the span: KeyError, although a later bracket is fine *)
Example ex_prog_first_error :
  b_dst ex_gl ex_ct ex_sp_range (BLabel "1999") = Raise KeyError /\
  rewrite (c10_has ex_ct ex_sp_range) (c10_locate ex_gl ex_sp_range)
    (program_text [mkPSeg "X" "" (BPlain "1") ""; mkPSeg " + Y" "" (BLabel "1999") ""; mkPSeg " + Z" "" (BLabel "2000") ""] "")
  = Raise KeyError.
Proof. split; vm_compute; reflexivity. Qed.
