(* EvalIdxLocateExamples.v — the hypotheses of the chain theorem of EvalIdxLocate.v are satisfiable: a range span with
   integer labels (texts go through the int() fallback) and a list span with str labels. *)
From Coq Require Import ZArith List Bool String Ascii Lia.
Import ListNotations.
Require Import PyBase EvalIdx EvalIdxFacts EvalIdxLocate.
Require Fsic.Locate.Locate Fsic.Locate.LocateFacts.
Open Scope string_scope.
Open Scope Z_scope.

Definition ex_gl : list Locate.label -> Locate.label -> outcome Locate.loc := fun _ _ => Raise KeyError.
Definition ex_ct : list Locate.label -> Locate.label -> bool := fun _ _ => false.
Definition ex_series : Locate.series Z := Locate.mkSeries Locate.DFloat 1 [10; 11; 12; 13; 14].
Definition ex_st (sp : Locate.span) : Locate.cstate Z := Locate.mkC sp 0 [("X", ex_series)] [] false.
Definition ex_sp_range : Locate.span := Locate.SRange 2000 1 5.
Definition ex_sp_list : Locate.span := Locate.SList [Locate.LStr "a"; Locate.LStr "b"; Locate.LStr "c"; Locate.LStr "d"; Locate.LStr "e"].

Lemma ex_range_ints x i fl : Locate.locate ex_gl ex_sp_range x = Ret (Locate.LPos i fl) -> fl = true.
Proof.
  unfold ex_sp_range. rewrite LocateFacts.locate_SRange. cbn [Locate.call_method].
  destruct (Locate.range_index 2000 1 5 x); cbn [Locate.to_KeyError]; intros H; inversion H; reflexivity.
Qed.

Lemma ex_list_ints x i fl : Locate.locate ex_gl ex_sp_list x = Ret (Locate.LPos i fl) -> fl = true.
Proof.
  unfold ex_sp_list. rewrite LocateFacts.locate_SList. cbn [Locate.call_method].
  destruct (Locate.index_from 0 x _); cbn [Locate.to_KeyError]; intros H; inversion H; reflexivity.
Qed.

(* eval('X[`2001`:`2003`:2]') on range(2000, 2005): the texts name the int labels 2001 / 2003 *)
Example ex_chain_range :
  exists inner ps,
    resolve_group (c10_has ex_ct ex_sp_range) (c10_locate ex_gl ex_sp_range) "`2001`:`2003`:2" = Ret ("[" ++ inner ++ "]") /\
    index_sem 5 inner = Some ps /\
    Locate.get_item_with (Locate.locate ex_gl ex_sp_range) (ex_st ex_sp_range) "X"
      (Locate.KSlice (Some (Locate.LInt 2001)) (Some (Locate.LInt 2003)) (Some 2)) = Ret (Locate.RArr (Locate.gather [10; 11; 12; 13; 14] ps)).
Proof.
  apply (eval_label_slice_selects_what_label_indexing_selects Z ex_gl ex_ct (ex_st ex_sp_range) "X" ex_series
           (Some "2001") (Some "2003") (Some (Locate.LInt 2001)) (Some (Locate.LInt 2003)) 2 1 3).
  - apply (LocateFacts.locate_range_spec ex_gl 2000 1 5). discriminate.
  - reflexivity.
  - reflexivity.
  - exact ex_range_ints.
  - vm_compute. repeat constructor; cbn; intuition discriminate.
  - reflexivity.
  - reflexivity.
  - lia.
  - split; reflexivity.
  - split; reflexivity.
  - exists (LInt 2001). split; [|reflexivity]. right. split; [reflexivity|]. exists 2001. repeat split; reflexivity.
  - exists (LInt 2003). split; [|reflexivity]. right. split; [reflexivity|]. exists 2003. repeat split; reflexivity.
Qed.

(* eval('X[`b`::1]') on ['a'..'e']: open stop *)
Example ex_chain_list_open_stop :
  exists inner ps,
    resolve_group (c10_has ex_ct ex_sp_list) (c10_locate ex_gl ex_sp_list) "`b`::1" = Ret ("[" ++ inner ++ "]") /\
    index_sem 5 inner = Some ps /\
    Locate.get_item_with (Locate.locate ex_gl ex_sp_list) (ex_st ex_sp_list) "X"
      (Locate.KSlice (Some (Locate.LStr "b")) None (Some 1)) = Ret (Locate.RArr (Locate.gather [10; 11; 12; 13; 14] ps)).
Proof.
  apply (eval_label_slice_selects_what_label_indexing_selects Z ex_gl ex_ct (ex_st ex_sp_list) "X" ex_series
           (Some "b") None (Some (Locate.LStr "b")) None 1 1 4).
  - apply (LocateFacts.locate_list_spec ex_gl).
  - reflexivity.
  - reflexivity.
  - exact ex_list_ints.
  - vm_compute. repeat constructor; cbn; intuition discriminate.
  - reflexivity.
  - reflexivity.
  - lia.
  - split; reflexivity.
  - exact I.
  - exists (LStr "b"). split; [|reflexivity]. left. split; reflexivity.
  - exact I.
Qed.

(* the equation between outcomes also covers failures: a missing stop label is KeyError on both sides *)
Example ex_bounds_error :
  resolve_group (c10_has ex_ct ex_sp_list) (c10_locate ex_gl ex_sp_list) "`b`:`zz`" = Raise KeyError /\
  Locate.eval_slice_bounds (Locate.resolve_bt ex_gl ex_ct ex_sp_list) (okey (Some "b")) (okey (Some "zz")) = Raise KeyError.
Proof. split; vm_compute; reflexivity. Qed.
