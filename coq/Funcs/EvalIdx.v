(* EvalIdx.v — model of VectorContainer._resolve_expression_indexes and VectorContainer.eval
   (fsic/core/containers.py).  Definitions only, total, executable.

   * `rewrite`      = index_re.sub(resolve_indexes, expression) with index_re = \[\s*(.+?)?\s*\]
                      as a total function on Latin-1 strings (first exception aborts, left to right); a match whose text
                      contains no backtick is returned unchanged (fix 24bdfbd);
   * `resolve_group`= the callback `resolve_indexes` (split on ':', backticked items through the span and +1 on a label's
                      Python-int stop, plain items and the step kept verbatim — fix 967c56d);
   * `eval_M`       = eval(): rewriting only if a backtick occurs, namespace assembly
                      (helper table < container variables < caller locals; deep copy of the package table unless the
                      caller passes `builtins=`), NameError -> AttributeError naming the name.
   External behaviour is a Section variable: `has` (`period in self.span`), `locate`
   (`self._locate_period_in_span`, C10's business), `pyeval` (CPython's eval of the final text). *)
From Coq Require Import ZArith List Bool String Ascii Decimal DecimalString.
Import ListNotations.
Require Import PyBase.
Require Fsic.Gen.Generated.
Open Scope string_scope.
Open Scope Z_scope.

(* ------------------------------------------------------------------ characters and strings *)
Definition code_in (codes : list nat) (c : ascii) : bool := existsb (Nat.eqb (nat_of_ascii c)) codes.
Definition is_re_space : ascii -> bool := code_in Generated.re_space_codes.     (* `\s` of the running re *)
Definition is_py_space : ascii -> bool := code_in Generated.str_strip_codes.    (* str.strip() / int() whitespace *)

Definition ch_open : ascii := "["%char.
Definition ch_close : ascii := "]"%char.
Definition ch_colon : ascii := ":"%char.
Definition ch_tick : ascii := "`"%char.
Definition ch_nl : ascii := "010"%char.

Fixpoint has_char (c : ascii) (s : string) : bool :=
  match s with "" => false | String a r => Ascii.eqb a c || has_char c r end.

Fixpoint lstrip (f : ascii -> bool) (s : string) : string :=
  match s with "" => "" | String a r => if f a then lstrip f r else s end.
Fixpoint rstrip (f : ascii -> bool) (s : string) : string :=
  match s with
  | "" => ""
  | String a r => match rstrip f r with
                  | "" => if f a then "" else String a ""
                  | r' => String a r'
                  end
  end.
Definition strip (f : ascii -> bool) (s : string) : string := rstrip f (lstrip f s).

(* str.split(c) : never empty *)
Fixpoint split_on (c : ascii) (s : string) : list string :=
  match s with
  | "" => [""]
  | String a r =>
      if Ascii.eqb a c then "" :: split_on c r
      else match split_on c r with
           | h :: t => String a h :: t
           | [] => [String a ""]
           end
  end.

(* ------------------------------------------------------------------ int(str) and str(int) *)
Definition digit_val (c : ascii) : option Z :=
  let n := nat_of_ascii c in
  if (Nat.leb 48 n && Nat.leb n 57)%bool then Some (Z.of_nat (n - 48)) else None.

(* decimal digits, single underscores allowed strictly between digits *)
Fixpoint digits_acc (s : string) (acc : Z) (prev_digit : bool) : option Z :=
  match s with
  | "" => if prev_digit then Some acc else None
  | String c r =>
      match digit_val c with
      | Some d => digits_acc r (10 * acc + d) true
      | None => if (Ascii.eqb c "_" && prev_digit)%bool then digits_acc r acc false else None
      end
  end.

(* int(s): surrounding whitespace, optional sign, digits *)
Definition parse_pyint (s : string) : option Z :=
  match strip is_py_space s with
  | String "+" r => digits_acc r 0 false
  | String "-" r => option_map Z.opp (digits_acc r 0 false)
  | t => digits_acc t 0 false
  end.

(* int(s) WITHOUT a preceding str.strip(): CPython's int() skips a narrower class of characters than str.strip() does —
   the ASCII C-locale spaces and (only when the string is not pure ASCII) the non-ASCII Unicode spaces, mapped to ' ';
   the ASCII separators FS/GS/RS/US (28-31), which str.strip() and the regex \s do strip, are NOT accepted: int('1\x1f')
   raises ValueError.  Latin-1: 9-13, 32, 0x85, 0xA0.  (Checked against the running CPython on every run: case kind 'int'.) *)
Definition int_space_codes : list nat := [9; 10; 11; 12; 13; 32; 133; 160]%nat.
Definition is_int_space : ascii -> bool := code_in int_space_codes.
Definition parse_int_raw (s : string) : option Z :=
  match strip is_int_space s with
  | String "+" r => digits_acc r 0 false
  | String "-" r => option_map Z.opp (digits_acc r 0 false)
  | t => digits_acc t 0 false
  end.

Definition Z_to_string (z : Z) : string := NilZero.string_of_int (Z.to_int z).   (* str(int) *)

(* ------------------------------------------------------------------ labels and locations *)
Inductive label := LStr (s : string) | LInt (z : Z).
Inductive ikind := PyInt | NpInt.                     (* built-in int / numpy.int64: only the former passes isinstance(_, int) *)
Inductive loc :=
| LocI (k : ikind) (z : Z)                             (* an integer position *)
| LocS (ka : ikind) (a : Z) (kb : ikind) (b : Z).      (* slice(a, b, None), e.g. a year in a quarterly PeriodIndex *)

Definition label_eqb (a b : label) : bool :=
  match a, b with
  | LStr s, LStr t => String.eqb s t
  | LInt x, LInt y => Z.eqb x y
  | _, _ => false
  end.

Definition repr_int (k : ikind) (z : Z) : string :=
  match k with PyInt => Z_to_string z | NpInt => "np.int64(" ++ Z_to_string z ++ ")" end.
Definition str_loc (l : loc) : string :=                (* str(location) *)
  match l with
  | LocI _ z => Z_to_string z
  | LocS ka a kb b => "slice(" ++ repr_int ka a ++ ", " ++ repr_int kb b ++ ", None)"
  end.
Definition start_of (l : loc) : ikind * Z := match l with LocI k z => (k, z) | LocS ka a _ _ => (ka, a) end.
Definition stop_of (l : loc) : ikind * Z := match l with LocI k z => (k, z) | LocS _ _ kb b => (kb, b) end.
(* if isinstance(stop, int): stop += 1 *)
Definition bump (kz : ikind * Z) : ikind * Z := match kz with (PyInt, z) => (PyInt, z + 1) | (NpInt, z) => (NpInt, z) end.

(* ------------------------------------------------------------------ the regular expression \[\s*(.+?)?\s*\] *)
(* s matches \s*\] : the text after the bracket *)
Fixpoint close_after_ws (s : string) : option string :=
  match s with
  | "" => None
  | String c r => if Ascii.eqb c ch_close then Some r else if is_re_space c then close_after_ws r else None
  end.

(* (.+?) followed by \s*\] : shortest non-empty prefix without newline after which \s*\] matches *)
Fixpoint lazy_group (s : string) : option (string * string) :=
  match s with
  | "" => None
  | String c r =>
      if Ascii.eqb c ch_nl then None
      else match close_after_ws r with
           | Some rest => Some (String c "", rest)
           | None => match lazy_group r with
                     | Some (g, rest) => Some (String c g, rest)
                     | None => None
                     end
           end
  end.

Inductive bmatch :=
| BGroup (g rest : string)        (* match with group(1) = g; rest = text after the closing bracket *)
| BNoGroup (rest : string)        (* match `[ws*]` with group(1) = None *)
| BNoMatch.

(* r = text following an opening bracket *)
Definition match_bracket (r : string) : bmatch :=
  let r0 := lstrip is_re_space r in
  match lazy_group r0 with
  | Some (g, rest) => BGroup g rest
  | None => match r0 with
            | String c rest => if Ascii.eqb c ch_close then BNoGroup rest else BNoMatch
            | "" => BNoMatch
            end
  end.

(* match.group(0): the text matched at an opening bracket followed by r, when `rest` is what the match leaves unconsumed *)
Fixpoint sprefix (n : nat) (s : string) : string :=
  match n, s with
  | S k, String c r => String c (sprefix k r)
  | _, _ => ""
  end.
Definition matched_text (r rest : string) : string :=
  String ch_open (sprefix (String.length r - String.length rest) r).

Definition omap {A B} (f : A -> B) (o : outcome A) : outcome B :=
  match o with Ret a => Ret (f a) | Raise e => Raise e end.

Section Resolve.
  Variable has : label -> bool.                 (* period in self.span *)
  Variable locate : label -> outcome loc.       (* self._locate_period_in_span(period) *)

  (* resolve_index_in_span(label) *)
  Definition resolve_index (lbl : string) : outcome loc :=
    if negb (has_char ch_tick lbl) then
      match parse_pyint (strip is_py_space lbl) with
      | Some z => Ret (LocI PyInt z)
      | None => Raise ValueError
      end
    else
      let period := strip (fun c => Ascii.eqb c ch_tick) (strip is_py_space lbl) in
      if has (LStr period) then locate (LStr period)
      else match parse_int_raw period with                 (* int(period): no str.strip() here *)
           | None => Raise KeyError
           | Some z => if has (LInt z) then locate (LInt z) else Raise KeyError
           end.

  Definition render_part (part : string) (is_stop : bool) : outcome string :=
    if String.eqb part "" then Ret ""
    else match resolve_index part with
         | Raise e => Raise e
         | Ret l => Ret (Z_to_string (snd (if is_stop then bump (stop_of l) else start_of l)))
         end.

  (* fix 967c56d: only an item with a backticked label is resolved; a plain item of a mixed slice is a position, left exactly
     as written (after str.strip()); hence only a LABEL's stop is made inclusive *)
  Definition render_item (part : string) (is_stop : bool) : outcome string :=
    if has_char ch_tick part then render_part part is_stop else Ret part.

  (* resolve_indexes(match) given match.group(1) = g *)
  Definition resolve_group (g : string) : outcome string :=
    let parts := split_on ch_colon g in
    if Nat.ltb 3 (List.length parts) then Raise ValueError           (* too many items *)
    else match parts with
         | [] => Raise ValueError                                     (* str.split never returns [] *)
         | [one] => omap (fun l => "[" ++ str_loc l ++ "]") (resolve_index one)
         | start :: stop :: step =>
             let start := strip is_py_space start in
             let stop := strip is_py_space stop in
             match render_item start false with
             | Raise e => Raise e
             | Ret a =>
                 match render_item stop true with
                 | Raise e => Raise e
                 | Ret b =>
                     match map (strip is_py_space) step with
                     | [] => Ret ("[" ++ a ++ ":" ++ b ++ ":" ++ "" ++ "]")
                     | [st] => Ret ("[" ++ a ++ ":" ++ b ++ ":" ++ st ++ "]")
                     | _ => Raise ValueError                          (* multiple step values (unreachable after the length test) *)
                     end
                 end
             end
         end.

  (* index_re.sub(resolve_indexes, s) *)
  Fixpoint rewrite_f (fuel : nat) (s : string) : outcome string :=
    match fuel with
    | O => Ret s
    | S f =>
        match s with
        | "" => Ret ""
        | String c r =>
            if Ascii.eqb c ch_open then
              match match_bracket r with
              | BGroup g rest =>
                  let m := matched_text r rest in
                  if negb (has_char ch_tick m) then omap (fun u => m ++ u) (rewrite_f f rest)   (* fix 24bdfbd: returned unchanged *)
                  else match resolve_group g with
                       | Raise e => Raise e
                       | Ret t => omap (fun u => t ++ u) (rewrite_f f rest)
                       end
              | BNoGroup rest =>
                  let m := matched_text r rest in
                  if negb (has_char ch_tick m) then omap (fun u => m ++ u) (rewrite_f f rest)
                  else Raise AttributeError                           (* None.split — group(0) = `[ws]` has no backtick: unreachable *)
              | BNoMatch => omap (String c) (rewrite_f f r)
              end
            else omap (String c) (rewrite_f f r)
        end
    end.
  Definition rewrite (s : string) : outcome string := rewrite_f (S (String.length s)) s.

  (* step 1 of eval(): only an expression containing a backtick is rewritten *)
  Definition eval_text (expr : string) : outcome string :=
    if has_char ch_tick expr then rewrite expr else Ret expr.
End Resolve.

(* ------------------------------------------------------------------ eval(): namespace assembly *)
Section EvalNS.
  Variable V : Type.                                   (* Python objects (series, helper functions, ...) *)
  Definition ns := list (string * V).                 (* a dict in insertion order *)

  Fixpoint ns_get (d : ns) (k : string) : option V :=
    match d with [] => None | (k', v) :: r => if String.eqb k k' then Some v else ns_get r k end.
  Fixpoint ns_set (d : ns) (k : string) (v : V) : ns :=
    match d with
    | [] => [(k, v)]
    | (k', v') :: r => if String.eqb k k' then (k', v) :: r else (k', v') :: ns_set r k v
    end.
  Definition ns_update (d src : ns) : ns := fold_left (fun acc kv => ns_set acc (fst kv) (snd kv)) src d.

  Definition dheap := list ns.                        (* dict objects; the package-level helper table is one of them *)
  Definition dict_at (dh : dheap) (l : nat) : ns := nth l dh [].
  Definition update_at (dh : dheap) (l : nat) (src : ns) : dheap := upd l (ns_update (dict_at dh l) src) dh.

  Inductive pyres := PVal (v : V) | PNameError (name : string) | PRaise (e : exn).
  Inductive eres := EVal (v : V) | EAttributeError (name : string) | ERaise (e : exn).

  Variable has : label -> bool.
  Variable locate : label -> outcome loc.
  Variable pyeval : string -> ns -> pyres.            (* CPython: eval(text, globals, locals_) *)

  (* tbl = location of fsic.functions.builtins; vars = {x: self[x] for x in self.index};
     bi = None (builtins=None) or the location of the dict the caller passed as `builtins=`.
     Returns the dict heap and the container's variables afterwards, and the outcome. *)
  Definition eval_M (dh : dheap) (tbl : nat) (vars : ns) (expr : string) (locals : option ns) (bi : option nat)
    : (dheap * ns) * eres :=
    match eval_text has locate expr with
    | Raise e => ((dh, vars), ERaise e)
    | Ret text =>
        let '(dh1, l) := match bi with
                         | None => ((dh ++ [dict_at dh tbl])%list, List.length dh)       (* copy.deepcopy(_builtins) *)
                         | Some l => (dh, l)                                       (* locals_ = builtins : the caller's dict *)
                         end in
        let dh2 := update_at dh1 l vars in                                         (* locals_.update(variables) *)
        let dh3 := match locals with Some lc => update_at dh2 l lc | None => dh2 end in
        ((dh3, vars),
         match pyeval text (dict_at dh3 l) with
         | PVal v => EVal v
         | PNameError name => EAttributeError name
         | PRaise e => ERaise e
         end)
    end.
End EvalNS.

Arguments PVal {V} v.
Arguments PNameError {V} name.
Arguments PRaise {V} e.
Arguments EVal {V} v.
Arguments EAttributeError {V} name.
Arguments ERaise {V} e.

(* ------------------------------------------------------------------ Python's reading of an integer-literal subscript *)
(* `inner` = text between the brackets; positions of a length-n sequence it selects (None = not an integer-literal
   subscript with positive step, or IndexError) *)
Definition opt_int (s : string) : option (option Z) :=
  if String.eqb (strip is_py_space s) "" then Some None else option_map Some (parse_pyint s).

Definition slice_sem (n : nat) (a b c : string) : option (list nat) :=
  match opt_int a, opt_int b, opt_int c with
  | Some oa, Some ob, Some oc =>
      let st := match oc with None => 1 | Some s => s end in
      if 0 <? st then Some (py_slice_positions n oa ob st) else None
  | _, _, _ => None
  end.

Definition index_sem (n : nat) (inner : string) : option (list nat) :=
  match split_on ch_colon inner with
  | [i] => match parse_pyint i with
           | Some z => option_map (fun p => [p]) (py_pos n z)
           | None => None
           end
  | [a; b] => slice_sem n a b ""
  | [a; b; c] => slice_sem n a b c
  | _ => None
  end.

(* ------------------------------------------------------------------ concrete spans (instances of has / locate) *)
Fixpoint index_of (l : label) (ls : list label) (i : Z) : option Z :=
  match ls with [] => None | x :: r => if label_eqb l x then Some i else index_of l r (i + 1) end.
Fixpoint count_of (l : label) (ls : list label) : nat :=
  match ls with [] => O | x :: r => if label_eqb l x then S (count_of l r) else count_of l r end.

Inductive span_model :=
| SpanSeq (labels : list label)                          (* list / range / unique pandas Index: first match, built-in int *)
| SpanArr (labels : list label) (k : ikind)              (* NumPy array: fallback search, unique match or KeyError *)
| SpanTable (tab : list (label * (bool * outcome loc))). (* recorded answers of a pandas index *)

Fixpoint table_get (l : label) (tab : list (label * (bool * outcome loc))) : option (bool * outcome loc) :=
  match tab with [] => None | (k, v) :: r => if label_eqb l k then Some v else table_get l r end.

Definition span_has (sp : span_model) (l : label) : bool :=
  match sp with
  | SpanSeq ls | SpanArr ls _ => existsb (label_eqb l) ls
  | SpanTable tab => match table_get l tab with Some (b, _) => b | None => false end
  end.
Definition span_locate (sp : span_model) (l : label) : outcome loc :=
  match sp with
  | SpanSeq ls => match index_of l ls 0 with Some i => Ret (LocI PyInt i) | None => Raise KeyError end
  | SpanArr ls k => match index_of l ls 0 with
                    | Some i => if Nat.eqb (count_of l ls) 1 then Ret (LocI k i) else Raise KeyError
                    | None => Raise KeyError
                    end
  | SpanTable tab => match table_get l tab with Some (_, r) => r | None => Raise KeyError end
  end.

Definition rewrite_span (sp : span_model) (s : string) : outcome string := rewrite (span_has sp) (span_locate sp) s.
Definition eval_text_span (sp : span_model) (s : string) : outcome string := eval_text (span_has sp) (span_locate sp) s.

(* namespace observation used by the correspondence check: values are tags naming their origin *)
Definition tagged (origin : string) (names : list string) : ns string := map (fun k => (k, origin ++ ":" ++ k)) names.
Definition name_lookup (text : string) (d : ns string) : pyres string :=      (* pyeval for a bare-name expression *)
  match ns_get string d text with Some v => PVal v | None => PNameError text end.

(* CPython's name resolution for a bare-name expression as eval() really calls it: eval(expression, None, locals_) —
   globals=None means "the globals of the calling frame", i.e. the module globals of fsic/core/containers.py (np, copy, re,
   warnings, _builtins, VectorContainer, ...) and, behind them, Python's own builtins (abs, len, ...): `outer`.
   A name found there is NOT a NameError (kept finding: module-global-visible). *)
Definition name_lookup_outer (outer : ns string) (text : string) (d : ns string) : pyres string :=
  match ns_get string d text with
  | Some v => PVal v
  | None => match ns_get string outer text with Some v => PVal v | None => PNameError text end
  end.

(* eval(name, locals=..., builtins=...) on a container with variables `var_names`, package table `tbl_names`:
   dict 0 = the package table, dict 1 = the caller's `builtins=` dict when one is passed;
   `outer_names` = the module-level / Python-builtin names visible to the expression *)
Definition ns_case (tbl_names outer_names var_names : list string) (locals : option (list string)) (bi : option (list string))
           (name : string) : (dheap string * ns string) * eres string :=
  let tbl := tagged "T" tbl_names in
  let dh := match bi with None => [tbl] | Some b => [tbl; tagged "B" b] end in
  eval_M string (fun _ => false) (fun _ => Raise KeyError) (name_lookup_outer (tagged "G" outer_names)) dh 0%nat (tagged "V" var_names) name
         (option_map (tagged "L") locals) (match bi with None => None | Some _ => Some 1%nat end).
