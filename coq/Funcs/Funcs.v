(* Funcs.v — model of fsic/functions.py: shift / lag / lead / diff / dlog.
   Definitions only, total, executable.

   Two levels, both mirroring the code branch for branch:
   * value level  (`shift_v`, `lag_v`, `lead_v`, `diff_v`, `dlog_v`): what the returned array contains;
   * object level (`shift_H`, ... over a heap of array objects): WHICH array object is returned (the input itself
     for p = 0 / d = 0, otherwise a fresh one) and which objects are written (`shifted[:p] = fill_value` writes the
     array `np.roll` allocated, never the argument).  "The input is never modified" is then a statement about the
     heap, not something the representation gives for free.

   Polymorphic in the element type: `sub` (NumPy's elementwise `-`) and `logf` (`numpy.log`) are Section variables. *)
From Coq Require Import ZArith List Bool.
Import ListNotations.
Require Import PyBase.
Open Scope Z_scope.

Section Funcs.
  Variable A : Type.
  Variable sub : A -> A -> A.
  Variable logf : A -> A.

  (* ---- numpy.roll(x, shift=p) on a 1-D array:
         offset = p % (n or 1); result[offset:] = x[:n-offset]; result[:offset] = x[n-offset:] ---- *)
  Definition roll (x : list A) (p : Z) : list A :=
    let n := Z.of_nat (length x) in
    let off := p mod (if n =? 0 then 1 else n) in
    let k := Z.to_nat (n - off) in
    skipn k x ++ firstn k x.

  (* ---- a[start:stop] = v  (step 1, Python slice semantics from PyBase) ---- *)
  Definition fill_slice (x : list A) (start stop : option Z) (v : A) : list A :=
    fold_left (fun l i => upd i v l) (py_slice_positions (length x) start stop 1) x.

  (* ---- shift(x, p, fill_value) : value ---- *)
  Definition shift_v (x : list A) (p : Z) (fill : A) : list A :=
    if p =? 0 then x                                            (* No shift: just return `x` *)
    else
      let shifted := roll x p in
      if 0 <? p then fill_slice shifted None (Some p) fill      (* shifted[:p] = fill_value *)
      else fill_slice shifted (Some p) None fill.               (* shifted[p:] = fill_value *)

  Definition lag_v (x : list A) (p : Z) (fill : A) : list A := shift_v x p fill.
  Definition lead_v (x : list A) (p : Z) (fill : A) : list A := shift_v x (- p) fill.

  Fixpoint zip_with (f : A -> A -> A) (a b : list A) : list A :=
    match a, b with
    | x :: a', y :: b' => f x y :: zip_with f a' b'
    | _, _ => []
    end.

  Definition diff_v (x : list A) (d : Z) (fill : A) : outcome (list A) :=
    if d =? 0 then Ret x                                        (* No differencing: just return `x` *)
    else if 0 <? d then
      let differenced := zip_with sub x (lag_v x d fill) in     (* x - lag(x, d, fill_value=fill_value) *)
      Ret (fill_slice differenced None (Some d) fill)           (* differenced[:d] = fill_value *)
    else Raise NotImplementedError.                             (* d < 0 *)

  Definition dlog_v (x : list A) (d : Z) (fill : A) : outcome (list A) :=
    diff_v (map logf x) d fill.

  (* ---- object level ---- *)
  Record arr := mkArr { rank : nat; data : list A }.           (* rank = len(x.shape) *)
  Definition heap := list arr.

  Definition store_slice (h : heap) (l : nat) (start stop : option Z) (v : A) : heap :=
    match nth_error h l with
    | Some a => upd l (mkArr (rank a) (fill_slice (data a) start stop v)) h
    | None => h
    end.

  Definition shift_H (h : heap) (lx : nat) (p : Z) (fill : A) : heap * outcome nat :=
    match nth_error h lx with
    | None => (h, Raise OtherError)                             (* dangling reference: not a Python situation *)
    | Some a =>
        if negb (Nat.eqb (rank a) 1) then (h, Raise NotImplementedError)
        else if p =? 0 then (h, Ret lx)
        else
          let ls := length h in
          let h1 := h ++ [mkArr 1 (roll (data a) p)] in        (* shifted = np.roll(x, shift=p) : a new array *)
          if 0 <? p then (store_slice h1 ls None (Some p) fill, Ret ls)
          else (store_slice h1 ls (Some p) None fill, Ret ls)
    end.

  Definition lag_H (h : heap) (lx : nat) (p : Z) (fill : A) := shift_H h lx p fill.
  Definition lead_H (h : heap) (lx : nat) (p : Z) (fill : A) := shift_H h lx (- p) fill.

  Definition data_at (h : heap) (l : nat) : list A :=
    match nth_error h l with Some a => data a | None => [] end.

  Definition diff_H (h : heap) (lx : nat) (d : Z) (fill : A) : heap * outcome nat :=
    match nth_error h lx with
    | None => (h, Raise OtherError)
    | Some a =>
        if negb (Nat.eqb (rank a) 1) then (h, Raise NotImplementedError)
        else if d =? 0 then (h, Ret lx)
        else if 0 <? d then
          match lag_H h lx d fill with
          | (h1, Ret ll) =>
              let ld := length h1 in
              let h2 := h1 ++ [mkArr 1 (zip_with sub (data_at h1 lx) (data_at h1 ll))] in   (* x - lag(...) : a new array *)
              (store_slice h2 ld None (Some d) fill, Ret ld)
          | (h1, Raise e) => (h1, Raise e)
          end
        else (h, Raise NotImplementedError)
    end.

  Definition dlog_H (h : heap) (lx : nat) (d : Z) (fill : A) : heap * outcome nat :=
    match nth_error h lx with
    | None => (h, Raise OtherError)
    | Some a =>
        let ll := length h in
        let h1 := h ++ [mkArr (rank a) (map logf (data a))] in  (* log(x) : a new array of the same shape *)
        diff_H h1 ll d fill
    end.
End Funcs.

Arguments mkArr {A} rank data.
Arguments rank {A} a.
Arguments data {A} a.

(* ---- the observation the correspondence check compares (run on a heap holding only the argument) ---- *)
Inductive fname := FLag | FLead | FDiff | FDlog.

Section Obs.
  Variable A : Type.
  Variable sub : A -> A -> A.
  Variable logf : A -> A.

  Definition call_H (f : fname) (h : heap A) (lx : nat) (p : Z) (fill : A) : heap A * outcome nat :=
    match f with
    | FLag => lag_H A h lx p fill
    | FLead => lead_H A h lx p fill
    | FDiff => diff_H A sub h lx p fill
    | FDlog => dlog_H A sub logf h lx p fill
    end.

  (* result data, "result is the argument object", argument's data afterwards *)
  Record fobs := mkFObs { o_res : outcome (list A); o_same : bool; o_input_after : list A }.

  Definition observe (f : fname) (rk : nat) (x : list A) (p : Z) (fill : A) : fobs :=
    let '(h', r) := call_H f [mkArr rk x] 0%nat p fill in
    match r with
    | Ret l => mkFObs (Ret (data_at A h' l)) (Nat.eqb l 0) (data_at A h' 0%nat)
    | Raise e => mkFObs (Raise e) false (data_at A h' 0%nat)
    end.
End Obs.
