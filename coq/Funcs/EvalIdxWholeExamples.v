(* EvalIdxWholeExamples.v — instances for EvalIdxWhole.v: the hypotheses of the whole-expression theorems are satisfiable,
   and the refutation witness for labels that the bracket syntax cannot carry (finding: label with colon / bracket / edge backtick). *)
From Coq Require Import ZArith List Bool String Ascii Lia.
Import ListNotations.
Require Import PyBase EvalIdx EvalIdxFacts EvalIdxExamples EvalIdxWhole.
Open Scope string_scope.
Open Scope Z_scope.

(* ---- a three-bracket expression cut into segments ---- *)
Definition ex_segs : list seg :=
  [mkSeg "lag(X" "" "`2001`:`2003`" ""; mkSeg ", 1) + Y" " " "`2004`" " "; mkSeg " * Z" "" "0" ""].

Example ex_segs_ok : forallb seg_ok ex_segs = true /\ has_char ch_open " - 1" = false /\
                     has_char ch_tick (expr_text ex_segs " - 1") = true.
Proof. repeat split; vm_compute; reflexivity. Qed.

Example ex_segs_text : expr_text ex_segs " - 1" = "lag(X[`2001`:`2003`], 1) + Y[ `2004` ] * Z[0] - 1".
Proof. vm_compute. reflexivity. Qed.

Example ex_segs_resolve :
  Forall2 (fun s t => seg_out (span_has sp_years) (span_locate sp_years) s = Ret t) ex_segs ["[1:4:]"; "[4]"; "[0]"].
Proof. repeat constructor. Qed.

Example ex_segs_rewritten :
  eval_text_span sp_years (expr_text ex_segs " - 1") = Ret "lag(X[1:4:], 1) + Y[4] * Z[0] - 1" /\
  expr_subst ex_segs ["[1:4:]"; "[4]"; "[0]"] " - 1" = "lag(X[1:4:], 1) + Y[4] * Z[0] - 1".
Proof. split; vm_compute; reflexivity. Qed.

(* the first failing bracket decides: here the second one (KeyError), although the third would raise ValueError;
   the positional bracket [a-1] in front is not even looked at *)
Definition ex_segs_bad : list seg := [mkSeg "X" "" "a-1" ""; mkSeg " + Y" "" "`1999`" ""; mkSeg " + Z" "" "`2001`:1:1:1" ""].
Example ex_first_error :
  forallb seg_ok ex_segs_bad = true /\
  seg_out (span_has sp_years) (span_locate sp_years) (mkSeg "X" "" "a-1" "") = Ret "[a-1]" /\
  seg_out (span_has sp_years) (span_locate sp_years) (mkSeg " + Y" "" "`1999`" "") = Raise KeyError /\
  seg_out (span_has sp_years) (span_locate sp_years) (mkSeg " + Z" "" "`2001`:1:1:1" "") = Raise ValueError /\
  eval_text_span sp_years (expr_text ex_segs_bad "") = Raise KeyError.
Proof. repeat split; vm_compute; reflexivity. Qed.

(* the pieces of an arbitrary (here: malformed) string and what becomes of them *)
Example ex_scan :
  scan "X[ 1:3 ]+Y[`2001`]]+[]" =
    [PLit "X"; PBr "[ 1:3 ]" "1:3"; PLit "+"; PLit "Y"; PBr "[`2001`]" "`2001`"; PLit "]"; PLit "+"; PBrNone "[]"] /\
  rewrite_span sp_years "X[ 1:3 ]+Y[`2001`]]+[]" = Ret "X[ 1:3 ]+Y[1]]+[]".
Proof. split; vm_compute; reflexivity. Qed.

(* ---- exceptions: each of the three classes occurs; a span whose lookup raises something else passes it on ---- *)
Example ex_exn_classes :
  rewrite_span sp_str "X[`a`:1:1:1]" = Raise ValueError /\ rewrite_span sp_str "X[`zz`]" = Raise KeyError /\
  rewrite_span sp_str "X[]" = Ret "X[]" /\
  rewrite_span (SpanTable [(LStr "q", (true, Raise TypeError))]) "X[`q`]" = Raise TypeError.
Proof. repeat split; vm_compute; reflexivity. Qed.

(* ---- padding ---- *)
Example ex_padding :
  str_all is_py_space "  " = true /\
  eval_text_span sp_years "X[  `2001` :`2003`  ]" = eval_text_span sp_years "X[`2001`:`2003`]" /\
  eval_text_span sp_years "X[ `2001` : `2003` :  2 ]" = Ret "X[1:4:2]".
Proof. repeat split; vm_compute; reflexivity. Qed.

(* ---- label shapes ---- *)
Example ex_label_shape_ok :
  has_char ch_tick "y 2" = false /\ has_char ch_colon "y 2" = false /\ has_char ch_close "y 2" = false /\
  has_char ch_nl "y 2" = false /\ wf_group (bt "y 2") = true /\ wf_group (bt "e[f") = true.
Proof. repeat split; vm_compute; reflexivity. Qed.

(* ---- finding: a label containing a colon, a closing bracket or an edge backtick is not read as that label ---- *)
Definition sp_colon : span_model := SpanSeq [LStr "a"; LStr "a:b"; LStr "b"; LStr "c]d"; LStr "`j"].

(* X[`a:b`] is rewritten to the label SLICE a..b although "a:b" is itself a label of the span (position 1);
   X[`c]d`] and X[``j`] raise KeyError although both labels are in the span *)
Theorem label_with_colon_refuted :
  exists (sp : span_model) (a : string) (p : nat) (e' : string),
    span_has sp (LStr a) = true /\ span_locate sp (LStr a) = Ret (LocI PyInt (Z.of_nat p)) /\
    has_char ch_tick a = false /\
    eval_text_span sp ("X[`" ++ a ++ "`]") = Ret e' /\
    e' <> "X[" ++ Z_to_string (Z.of_nat p) ++ "]" /\
    e' = "X[0:3:]" /\ index_sem 5 "0:3:" = Some [0; 1; 2]%nat /\ index_sem 5 (Z_to_string (Z.of_nat p)) = Some [1]%nat.
Proof.
  exists sp_colon, "a:b", 1%nat, "X[0:3:]".
  repeat split; try (vm_compute; reflexivity). vm_compute. discriminate.
Qed.

Theorem label_with_bracket_or_edge_backtick_refuted :
  exists (sp : span_model) (a b : string),
    span_has sp (LStr a) = true /\ span_has sp (LStr b) = true /\
    (exists p, span_locate sp (LStr a) = Ret (LocI PyInt p)) /\ (exists p, span_locate sp (LStr b) = Ret (LocI PyInt p)) /\
    eval_text_span sp ("X[`" ++ a ++ "`]") = Raise KeyError /\
    eval_text_span sp ("X[`" ++ b ++ "`]") = Raise KeyError.
Proof.
  exists sp_colon, "c]d", "`j". repeat split; try (vm_compute; reflexivity); eexists; vm_compute; reflexivity.
Qed.

(* the guarded statement at work: a label with a space, a dot or an OPENING bracket is carried *)
Example ex_label_in_expression :
  eval_text_span (SpanSeq [LStr "x1"; LStr "y 2"; LStr "e[f"]) "2 * X[ `y 2` ] + X[`e[f`]" = Ret "2 * X[1] + X[2]".
Proof. vm_compute. reflexivity. Qed.
