(* EvalIdxLocateRange.v — range spans: the list of integer labels on which the correspondence check runs the rewriter for a
   `range(a, a+n)` span is the C10 model's SRange a 1 n (whose lookup is range.index: arithmetic, no search). *)
From Coq Require Import ZArith List Bool String Ascii Lia ZifyBool.
Import ListNotations.
Require Import PyBase EvalIdx EvalIdxFacts EvalIdxLocate EvalIdxLocateSpans.
Require Fsic.Locate.Locate Fsic.Locate.LocateFacts.
Open Scope string_scope.
Open Scope Z_scope.

Definition range_span (a : Z) (n : nat) : list label := map (fun i => LInt (a + Z.of_nat i)) (seq 0 n).

Lemma map_tr_range a n : map tr_label (range_span a n) = Locate.range_labels a 1 n.
Proof.
  unfold range_span, Locate.range_labels. rewrite map_map. apply map_ext. intros i. cbn [tr_label]. f_equal. lia.
Qed.

Lemma index_of_str_in_ints s (f : nat -> Z) l j : index_of (LStr s) (map (fun i => LInt (f i)) l) j = None.
Proof. revert j; induction l as [|x r IH]; intros j; [reflexivity|]. cbn [map index_of label_eqb]. apply IH. Qed.

Lemma index_of_int_in_range v a k m j :
  index_of (LInt v) (map (fun i => LInt (a + Z.of_nat i)) (seq k m)) j
  = if (Z.of_nat k <=? v - a) && (v - a <? Z.of_nat k + Z.of_nat m) then Some (j + (v - a - Z.of_nat k)) else None.
Proof.
  revert k j; induction m as [|m IH]; intros k j.
  - cbn [seq map index_of]. destruct ((Z.of_nat k <=? v - a) && (v - a <? Z.of_nat k + Z.of_nat 0)) eqn:E; [lia|reflexivity].
  - cbn [seq map index_of label_eqb]. destruct (v =? a + Z.of_nat k) eqn:E.
    + replace ((Z.of_nat k <=? v - a) && (v - a <? Z.of_nat k + Z.of_nat (S m))) with true by lia. f_equal. lia.
    + rewrite IH.
      destruct ((Z.of_nat (S k) <=? v - a) && (v - a <? Z.of_nat (S k) + Z.of_nat m)) eqn:E1;
        destruct ((Z.of_nat k <=? v - a) && (v - a <? Z.of_nat k + Z.of_nat (S m))) eqn:E2; try lia; try reflexivity.
      f_equal. lia.
Qed.

Section RangeSpans.
  Variable gl : list Locate.label -> Locate.label -> outcome Locate.loc.
  Variable ct : list Locate.label -> Locate.label -> bool.

  Theorem range_has_is_c10 a n l : span_has (SpanSeq (range_span a n)) l = c10_has ct (Locate.SRange a 1 n) l.
  Proof.
    unfold c10_has. destruct l; cbn [span_has Locate.span_contains Locate.span_labels];
      rewrite <- map_tr_range, <- existsb_tr; reflexivity.
  Qed.

  Theorem range_locate_is_c10 a n l : span_locate (SpanSeq (range_span a n)) l = c10_locate gl (Locate.SRange a 1 n) l.
  Proof.
    unfold c10_locate. rewrite LocateFacts.locate_SRange. cbn [Locate.call_method span_locate].
    destruct l as [s|v]; cbn [tr_label Locate.range_index].
    - unfold range_span. rewrite index_of_str_in_ints. reflexivity.
    - unfold range_span. rewrite index_of_int_in_range.
      rewrite Z.mod_1_r, Z.div_1_r. cbn [Z.eqb andb].
      replace (Z.of_nat 0 <=? v - a) with (0 <=? v - a) by reflexivity.
      replace (v - a <? Z.of_nat 0 + Z.of_nat n) with (v - a <? Z.of_nat n) by (f_equal; lia).
      destruct ((0 <=? v - a) && (v - a <? Z.of_nat n)); [|reflexivity].
      cbn [Locate.to_KeyError omap tr_loc]. f_equal. f_equal. lia.
  Qed.

  Corollary eval_text_range_is_c10 a n s :
    eval_text_span (SpanSeq (range_span a n)) s = eval_text (c10_has ct (Locate.SRange a 1 n)) (c10_locate gl (Locate.SRange a 1 n)) s.
  Proof. unfold eval_text_span. apply eval_text_ext; [apply range_has_is_c10|apply range_locate_is_c10]. Qed.
End RangeSpans.

Example ex_range_span : range_span 2000 5 = [LInt 2000; LInt 2001; LInt 2002; LInt 2003; LInt 2004].
Proof. reflexivity. Qed.
