(* EvalIdxNested.v — what the rewriter does with a label that does NOT stand alone in its bracket (kept finding
   label-not-alone-in-its-bracket), in general:
   * nested subscript  X[ pre [`a`] ... : the regular expression is non-greedy and ends the OUTER bracket at the first closing
     bracket, so the callback receives the single item  pre[`a`  ; stripping the edge backticks leaves the text  pre[`a , which is
     looked up as a period label (and cannot be an integer): KeyError unless that very text is a label of the span;
   * a label slice broken across lines  X[`a`:<newline>`b`] : `.` does not match a newline, so no match starts at that bracket;
     the text is copied as it is, backticks included. *)
From Coq Require Import ZArith List Bool String Ascii Lia ZifyBool.
Import ListNotations.
Require Import PyBase EvalIdx EvalIdxFacts EvalIdxWhole EvalIdxInt EvalIdxLocate EvalIdxProgram.
Open Scope string_scope.
Open Scope Z_scope.

Lemma rstrip_app_keep f s t : rstrip f t <> "" -> rstrip f (s ++ t) = s ++ rstrip f t.
Proof.
  intros NE. induction s as [|c r IH]; [reflexivity|].
  cbn [append rstrip]. rewrite IH. destruct (r ++ rstrip f t) eqn:E; [|reflexivity].
  destruct r; cbn in E; [congruence|discriminate].
Qed.

Lemma has_char_str_all_false P c s : P c = false -> has_char c s = true -> str_all P s = false.
Proof.
  intros Pc. induction s as [|x r IH]; cbn [has_char str_all]; [discriminate|].
  destruct (Ascii.eqb x c) eqn:E.
  - apply Ascii.eqb_eq in E; subst x. intros _. rewrite Pc. reflexivity.
  - cbn [orb]. intros H. rewrite (IH H). apply andb_false_r.
Qed.

(* int() refuses a text that contains an opening bracket *)
Lemma parse_int_raw_open s : has_char ch_open s = true -> parse_int_raw s = None.
Proof.
  intros H. destruct (parse_int_raw s) as [z|] eqn:P; [exfalso|reflexivity].
  rewrite parse_int_raw_body in P.
  destruct (strip_decompose is_int_space s) as (w1 & w2 & E & H1 & H2).
  set (t := strip is_int_space s) in *.
  rewrite E, !has_char_app in H.
  assert (W : forall w, str_all is_int_space w = true -> has_char ch_open w = false).
  { intros w Hw. apply (no_char_of_all is_int_space); [vm_compute; reflexivity|exact Hw]. }
  rewrite (W w1 H1), (W w2 H2), orb_false_r in H. cbn [orb] in H.
  (* the body: an optional sign followed by digits / underscores *)
  assert (D : forall r acc b z', digits_acc r acc b = Some z' -> has_char ch_open r = false).
  { intros r acc b z' Hd. destruct (has_char ch_open r) eqn:Ho; [|reflexivity].
    pose proof (digits_acc_chars r acc b z' Hd) as A.
    rewrite (has_char_str_all_false digit_or_us ch_open r) in A by (try exact Ho; vm_compute; reflexivity). discriminate. }
  destruct t as [|c r]; [discriminate|]. unfold int_body in P.
  destruct (Ascii.eqb c "+") eqn:Ep.
  { apply Ascii.eqb_eq in Ep; subst c. cbn [has_char] in H. rewrite (D _ _ _ _ P) in H. discriminate. }
  destruct (Ascii.eqb c "-") eqn:Em.
  { apply Ascii.eqb_eq in Em; subst c. destruct (digits_acc r 0 false) as [z0|] eqn:E0; [|discriminate].
    cbn [has_char] in H. rewrite (D _ _ _ _ E0) in H. discriminate. }
  assert (P' : digits_acc (String c r) 0 false = Some z).
  { revert P. destruct c as [[] [] [] [] [] [] [] []]; try exact (fun P => P); cbn in Ep, Em; discriminate. }
  rewrite (D _ _ _ _ P') in H. discriminate.
Qed.

Section Nested.
  Variable has : label -> bool.
  Variable locate : label -> outcome loc.

  (* the item  pre[`a`  handed to the callback: looked up as the label  pre[`a  *)
  Theorem nested_item_lookup c pre a :
    is_py_space c = false -> has_char ch_tick (String c pre) = false -> has_char ch_colon (String c pre) = false ->
    has_char ch_tick a = false -> has_char ch_colon a = false -> a <> "" ->
    resolve_group has locate (String c pre ++ String ch_open (bt a)) =
      if has (LStr (String c pre ++ String ch_open (String ch_tick a)))
      then omap (fun l => "[" ++ str_loc l ++ "]") (locate (LStr (String c pre ++ String ch_open (String ch_tick a))))
      else Raise KeyError.
  Proof.
    intros Sc Tp Cp Ta Ca NE.
    set (lbl := String c pre ++ String ch_open (bt a)).
    assert (Cl : has_char ch_colon lbl = false).
    { unfold lbl. rewrite has_char_app, Cp. cbn [has_char orb]. exact (proj1 (proj2 (bt_facts a Ca))). }
    rewrite (resolve_group_single has locate lbl Cl). unfold resolve_index.
    assert (Tl : has_char ch_tick lbl = true).
    { unfold lbl. rewrite has_char_app. cbn [has_char]. rewrite (proj1 (bt_facts a Ca)). rewrite !orb_true_r. reflexivity. }
    rewrite Tl. cbn [negb].
    set (mid := pre ++ String ch_open (String ch_tick a)).
    assert (Elbl : lbl = String c (mid ++ String ch_tick "")).
    { unfold lbl, mid, bt. cbn [append]. rewrite sapp_assoc. cbn [append]. reflexivity. }
    assert (Hc : Ascii.eqb c ch_tick = false) by (cbn [has_char] in Tp; apply orb_false_iff in Tp; apply Tp).
    (* str.strip(): nothing to strip — first character c, last character a backtick *)
    assert (S1 : strip is_py_space lbl = lbl).
    { rewrite Elbl. unfold strip. rewrite lstrip_head by exact Sc.
      change (String c (mid ++ String ch_tick "")) with (String c mid ++ String ch_tick "").
      apply rstrip_snoc. vm_compute. reflexivity. }
    rewrite S1.
    (* strip('`'): only the final backtick goes *)
    assert (S2 : strip (fun x => Ascii.eqb x ch_tick) lbl = String c pre ++ String ch_open (String ch_tick a)).
    { rewrite Elbl. unfold strip. rewrite lstrip_head by exact Hc.
      change (String c (mid ++ String ch_tick "")) with (String c mid ++ String ch_tick "").
      rewrite rstrip_snoc_f by apply Ascii.eqb_refl.
      assert (Ra : rstrip (fun x => Ascii.eqb x ch_tick) a = a).
      { apply rstrip_none. rewrite has_char_all in Ta. apply negb_false_iff in Ta. exact Ta. }
      replace (String c mid) with ((String c pre ++ String ch_open (String ch_tick "")) ++ a)
        by (unfold mid; cbn [append]; rewrite sapp_assoc; cbn [append]; reflexivity).
      rewrite rstrip_app_keep by (rewrite Ra; exact NE). rewrite Ra.
      cbn [append]. rewrite sapp_assoc. cbn [append]. reflexivity. }
    rewrite S2.
    destruct (has (LStr _)); [reflexivity|].
    rewrite parse_int_raw_open; [reflexivity|].
    rewrite has_char_app. cbn [has_char]. rewrite Ascii.eqb_refl. rewrite orb_true_r. reflexivity.
  Qed.

  (* a label inside a nested subscript: KeyError although the label may well be in the span *)
  Theorem nested_label_KeyError pre0 c pre a post :
    has_char ch_open pre0 = false ->
    is_re_space c = false -> has_char ch_tick (String c pre) = false -> has_char ch_colon (String c pre) = false ->
    inner_ok (String c pre) = true ->
    lab_ok a -> a <> "" ->
    has (LStr (String c pre ++ String ch_open (String ch_tick a))) = false ->
    rewrite has locate (pre0 ++ String ch_open ((String c pre ++ String ch_open (bt a)) ++ String ch_close post)) = Raise KeyError.
  Proof.
    intros Hp0 Sc Tp Cp Ip (Ta & Ca & Cla & Nla) NE Hh.
    rewrite (rewrite_prefix has locate _ _ Hp0).
    assert (W : wf_group (String c pre ++ String ch_open (bt a)) = true).
    { destruct (bt_parts a Cla Nla) as (BF & BL & BI).
      apply wf_group_cat.
      - cbn [first_ok]. rewrite Sc. reflexivity.
      - exact Ip.
      - change (String ch_open (bt a)) with ("[" ++ bt a). apply last_ok_app. exact BL.
      - change (String ch_open (bt a)) with ("[" ++ bt a). rewrite inner_ok_app, BI. reflexivity. }
    assert (T : has_char ch_tick (String c pre ++ String ch_open (bt a)) = true).
    { rewrite has_char_app. cbn [has_char]. rewrite (proj1 (bt_facts a Ca)). rewrite !orb_true_r. reflexivity. }
    pose proof (rewrite_bracket has locate "" (String c pre ++ String ch_open (bt a)) "" post eq_refl W eq_refl T) as R.
    change (String ch_open ((String c pre ++ String ch_open (bt a)) ++ String ch_close post))
      with (String ch_open ("" ++ (String c pre ++ String ch_open (bt a)) ++ "" ++ String ch_close post)).
    rewrite R.
    rewrite (nested_item_lookup c pre a) by (try assumption; rewrite <- re_py_space; exact Sc).
    rewrite Hh. reflexivity.
  Qed.
End Nested.

(* ---------------------------------------------------------------- a bracket whose content is broken across lines *)
Lemma close_after_ws_blocked ws x rest :
  str_all is_re_space ws = true -> Ascii.eqb x ch_close = false -> is_re_space x = false ->
  close_after_ws (ws ++ String x rest) = None.
Proof.
  intros Hws Hx Sx. induction ws as [|c r IH]; cbn [append close_after_ws].
  - rewrite Hx, Sx. reflexivity.
  - cbn [str_all] in Hws. apply andb_true_iff in Hws as [Hc Hr]. rewrite (space_not_close c Hc), Hc. apply IH; exact Hr.
Qed.

Lemma close_after_ws_blocked_after g ws x rest :
  has_char ch_close g = false ->
  str_all is_re_space ws = true -> Ascii.eqb x ch_close = false -> is_re_space x = false ->
  close_after_ws (g ++ String ch_nl (ws ++ String x rest)) = None.
Proof.
  intros Hg Hws Hx Sx. induction g as [|c r IH]; cbn [append close_after_ws].
  - replace (Ascii.eqb ch_nl ch_close) with false by reflexivity. replace (is_re_space ch_nl) with true by (vm_compute; reflexivity).
    apply close_after_ws_blocked; assumption.
  - cbn [has_char] in Hg. apply orb_false_iff in Hg as [Hc Hr]. rewrite Hc. destruct (is_re_space c); [apply IH; exact Hr|reflexivity].
Qed.

(* `.` does not match a newline: no group can start before a newline that is followed by more content *)
Lemma lazy_group_blocked g ws x rest :
  has_char ch_close g = false ->
  str_all is_re_space ws = true -> Ascii.eqb x ch_close = false -> is_re_space x = false ->
  lazy_group (g ++ String ch_nl (ws ++ String x rest)) = None.
Proof.
  intros Hg Hws Hx Sx. induction g as [|c r IH]; cbn [append lazy_group].
  - rewrite Ascii.eqb_refl. reflexivity.
  - cbn [has_char] in Hg. apply orb_false_iff in Hg as [Hc Hr].
    destruct (Ascii.eqb c ch_nl); [reflexivity|].
    rewrite (close_after_ws_blocked_after r ws x rest Hr Hws Hx Sx), (IH Hr). reflexivity.
Qed.

Lemma match_bracket_blocked c g ws x rest :
  is_re_space c = false -> has_char ch_close (String c g) = false ->
  str_all is_re_space ws = true -> Ascii.eqb x ch_close = false -> is_re_space x = false ->
  match_bracket (String c g ++ String ch_nl (ws ++ String x rest)) = BNoMatch.
Proof.
  intros Sc Hg Hws Hx Sx. unfold match_bracket. cbn [append]. rewrite lstrip_head by exact Sc.
  change (String c (g ++ String ch_nl (ws ++ String x rest))) with (String c g ++ String ch_nl (ws ++ String x rest)).
  rewrite (lazy_group_blocked (String c g) ws x rest Hg Hws Hx Sx). cbn [append].
  cbn [has_char] in Hg. apply orb_false_iff in Hg as [Hc _]. rewrite Hc. reflexivity.
Qed.

Section AcrossLines.
  Variable has : label -> bool.
  Variable locate : label -> outcome loc.

  (* X[`a`:<newline>`b`]: no match starts at that bracket; with no other bracket around, the text is returned as it is —
     backticks included, which CPython rejects *)
  Theorem label_slice_across_lines_unchanged pre a b post :
    has_char ch_open pre = false -> has_char ch_open post = false ->
    lab_ok a -> lab_ok b -> has_char ch_open a = false -> has_char ch_open b = false ->
    let e := pre ++ String ch_open (String ch_tick (a ++ String ch_tick (String ch_colon ""))
                                    ++ String ch_nl ("" ++ String ch_tick (b ++ String ch_tick (String ch_close post)))) in
    rewrite has locate e = Ret e /\ has_char ch_tick e = true.
  Proof.
    intros Hpre Hpost (Ta & Ca & Cla & Nla) (Tb & Cb & Clb & Nlb) Oa Ob e. split.
    - unfold e. rewrite (rewrite_prefix has locate _ _ Hpre).
      set (r := String ch_tick (a ++ String ch_tick (String ch_colon ""))
                ++ String ch_nl ("" ++ String ch_tick (b ++ String ch_tick (String ch_close post)))).
      assert (M : match_bracket r = BNoMatch).
      { apply match_bracket_blocked; try reflexivity; try (vm_compute; reflexivity).
        cbn [has_char]. rewrite has_char_app, Cla. reflexivity. }
      rewrite (rewrite_open_nomatch has locate r M).
      assert (Hr : has_char ch_open r = false).
      { unfold r. cbn [append has_char]. rewrite !has_char_app. cbn [has_char]. rewrite !has_char_app. cbn [has_char].
        rewrite Oa, Ob, Hpost. reflexivity. }
      rewrite (rewrite_no_bracket has locate r Hr). reflexivity.
    - unfold e. rewrite has_char_app. cbn [append has_char]. rewrite !orb_true_r. reflexivity.
  Qed.
End AcrossLines.

(* instance: X[N[`2001`]] on range(2000, 2005) *)
Example ex_nested :
  rewrite (fun l => match l with LInt z => (2000 <=? z) && (z <? 2005) | _ => false end)
          (fun l => match l with LInt z => Ret (LocI PyInt (z - 2000)) | _ => Raise KeyError end)
          "X[N[`2001`]]" = Raise KeyError.
Proof. vm_compute. reflexivity. Qed.
