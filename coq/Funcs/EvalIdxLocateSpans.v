(* EvalIdxLocateSpans.v — the concrete spans the correspondence check runs (EvalIdx.span_model: SpanSeq = list / unique
   pandas Index, SpanArr = NumPy array) ARE the spans of the C10 model seen through the bridge of EvalIdxLocate.v:
   same `period in span`, same `_locate_period_in_span`.  So what K validates against fsic (rewrite_span / eval_text_span)
   is the function the C10-based theorems speak about. *)
From Coq Require Import ZArith List Bool String Ascii Lia ZifyBool.
Import ListNotations.
Require Import PyBase EvalIdx EvalIdxFacts EvalIdxLocate.
Require Fsic.Locate.Locate Fsic.Locate.LocateFacts.
Open Scope string_scope.
Open Scope Z_scope.

Lemma tr_label_eqb a b : Locate.label_eqb (tr_label a) (tr_label b) = label_eqb b a.
Proof.
  destruct a as [s|x], b as [t|y]; cbn [tr_label Locate.label_eqb label_eqb]; try reflexivity.
  - apply String.eqb_sym.
  - apply Z.eqb_sym.
Qed.

Lemma index_from_tr l ls i : Locate.index_from i (tr_label l) (map tr_label ls) = index_of l ls i.
Proof.
  revert i; induction ls as [|y r IH]; intros i; [reflexivity|].
  cbn [map Locate.index_from index_of]. rewrite tr_label_eqb. destruct (label_eqb l y); [reflexivity|apply IH].
Qed.

Lemma existsb_tr l ls :
  existsb (fun y => Locate.label_eqb y (tr_label l)) (map tr_label ls) = existsb (label_eqb l) ls.
Proof.
  induction ls as [|y r IH]; [reflexivity|]. cbn [map existsb]. rewrite tr_label_eqb, IH. reflexivity.
Qed.

Lemma existsb_id_map {A} (f : A -> bool) l : existsb (fun b => b) (map f l) = existsb f l.
Proof. induction l as [|a r IH]; [reflexivity|]. cbn [map existsb]. rewrite IH. reflexivity. Qed.

Lemma true_positions_length l ls i :
  List.length (Locate.true_positions i (map (fun y => Locate.label_eqb y (tr_label l)) (map tr_label ls))) = count_of l ls.
Proof.
  revert i; induction ls as [|y r IH]; intros i; [reflexivity|].
  cbn [map Locate.true_positions count_of]. rewrite tr_label_eqb. destruct (label_eqb l y); cbn [List.length]; rewrite IH; reflexivity.
Qed.

Lemma true_positions_head l ls i :
  hd_error (Locate.true_positions i (map (fun y => Locate.label_eqb y (tr_label l)) (map tr_label ls))) = index_of l ls i.
Proof.
  revert i; induction ls as [|y r IH]; intros i; [reflexivity|].
  cbn [map Locate.true_positions index_of]. rewrite tr_label_eqb. destruct (label_eqb l y); [reflexivity|apply IH].
Qed.

(* the rewriter depends on `has` / `locate` only through their values *)
Section Ext.
  Variables (has1 has2 : label -> bool) (loc1 loc2 : label -> outcome loc).
  Hypothesis Hh : forall l, has1 l = has2 l.
  Hypothesis Hl : forall l, loc1 l = loc2 l.

  Lemma resolve_index_ext p : resolve_index has1 loc1 p = resolve_index has2 loc2 p.
  Proof.
    unfold resolve_index. destruct (negb (has_char ch_tick p)); [reflexivity|].
    rewrite Hh, Hl. destruct (has2 (LStr _)); [reflexivity|].
    destruct (parse_int_raw _) as [z|]; [|reflexivity]. rewrite Hh, Hl. reflexivity.
  Qed.

  Lemma render_part_ext p b : render_part has1 loc1 p b = render_part has2 loc2 p b.
  Proof. unfold render_part. rewrite resolve_index_ext. reflexivity. Qed.

  Lemma resolve_group_ext g : resolve_group has1 loc1 g = resolve_group has2 loc2 g.
  Proof.
    unfold resolve_group. destruct (Nat.ltb 3 _); [reflexivity|].
    destruct (split_on ch_colon g) as [|p1 [|p2 step]]; [reflexivity| rewrite resolve_index_ext; reflexivity |].
    unfold render_item. rewrite !render_part_ext. reflexivity.
  Qed.

  Lemma rewrite_f_ext fuel : forall s, rewrite_f has1 loc1 fuel s = rewrite_f has2 loc2 fuel s.
  Proof.
    induction fuel as [|f IH]; intros s; [reflexivity|].
    destruct s as [|c r]; [reflexivity|].
    rewrite !rewrite_f_step. rewrite !IH.
    destruct (Ascii.eqb c ch_open); [|reflexivity].
    destruct (match_bracket r) as [g rest|rest|]; try reflexivity; rewrite !IH; try reflexivity.
    rewrite resolve_group_ext. reflexivity.
  Qed.

  Theorem rewrite_ext s : rewrite has1 loc1 s = rewrite has2 loc2 s.
  Proof. unfold rewrite. apply rewrite_f_ext. Qed.

  Theorem eval_text_ext s : eval_text has1 loc1 s = eval_text has2 loc2 s.
  Proof. unfold eval_text. rewrite rewrite_ext. reflexivity. Qed.
End Ext.

Section Spans.
  Variable gl : list Locate.label -> Locate.label -> outcome Locate.loc.
  Variable ct : list Locate.label -> Locate.label -> bool.

  (* ---- list / tuple spans ---- *)
  Theorem seq_has_is_c10 ls l : span_has (SpanSeq ls) l = c10_has ct (Locate.SList (map tr_label ls)) l.
  Proof. unfold c10_has. destruct l; cbn [span_has Locate.span_contains Locate.span_labels]; rewrite <- existsb_tr; reflexivity. Qed.

  Theorem seq_locate_is_c10 ls l : span_locate (SpanSeq ls) l = c10_locate gl (Locate.SList (map tr_label ls)) l.
  Proof.
    unfold c10_locate. rewrite LocateFacts.locate_SList. cbn [Locate.call_method span_locate].
    rewrite index_from_tr. destruct (index_of l ls 0); reflexivity.
  Qed.

  Corollary rewrite_seq_is_c10 ls s :
    rewrite_span (SpanSeq ls) s = rewrite (c10_has ct (Locate.SList (map tr_label ls))) (c10_locate gl (Locate.SList (map tr_label ls))) s.
  Proof. unfold rewrite_span. apply rewrite_ext; [apply seq_has_is_c10|apply seq_locate_is_c10]. Qed.

  Corollary eval_text_seq_is_c10 ls s :
    eval_text_span (SpanSeq ls) s = eval_text (c10_has ct (Locate.SList (map tr_label ls))) (c10_locate gl (Locate.SList (map tr_label ls))) s.
  Proof. unfold eval_text_span. apply eval_text_ext; [apply seq_has_is_c10|apply seq_locate_is_c10]. Qed.

  (* ---- NumPy-array spans (the fallback lookup; since fix a094259 a built-in int) ---- *)
  Theorem arr_has_is_c10 ls k l : span_has (SpanArr ls k) l = c10_has ct (Locate.SArr (map tr_label ls)) l.
  Proof.
    unfold c10_has. cbn [span_has Locate.span_contains]. rewrite <- existsb_tr. reflexivity.
  Qed.

  Theorem arr_locate_is_c10 ls l : span_locate (SpanArr ls PyInt) l = c10_locate gl (Locate.SArr (map tr_label ls)) l.
  Proof.
    unfold c10_locate. rewrite LocateFacts.locate_SArr. unfold Locate.fallback, Locate.arr_eq.
    replace (map (fun y => Locate.label_eqb (Locate.obj_cast y) (tr_label l)) (map tr_label ls))
      with (map (fun y => Locate.label_eqb y (tr_label l)) (map tr_label ls))
      by (rewrite !map_map; apply map_ext; intros y; destruct y; reflexivity).
    pose proof (true_positions_length l ls 0) as HL. pose proof (true_positions_head l ls 0) as HH.
    cbn [span_locate].
    destruct (Locate.true_positions 0 _) as [|j [|k r]]; cbn [List.length hd_error] in HL, HH; rewrite <- HH; try rewrite <- HL; reflexivity.
  Qed.

  Corollary eval_text_arr_is_c10 ls s :
    eval_text_span (SpanArr ls PyInt) s = eval_text (c10_has ct (Locate.SArr (map tr_label ls))) (c10_locate gl (Locate.SArr (map tr_label ls))) s.
  Proof. unfold eval_text_span. apply eval_text_ext; [apply arr_has_is_c10|apply arr_locate_is_c10]. Qed.
End Spans.
