(* FuncsExamples.v — concrete instances of the helper models: non-vacuity of the hypotheses of
   FuncsFacts.v and the witness of the refutation theorem for finding #26. *)
From Coq Require Import ZArith List Bool Lia PrimFloat.
Import ListNotations.
Require Import PyBase Funcs FuncsFacts FuncsF.
Open Scope Z_scope.

(* values as tags: integers, `-` = Z.sub *)
Definition zlag := lag_v Z.
Definition zlead := lead_v Z.
Definition zdiff := diff_v Z Z.sub.

Example ex_lag_1 : zlag [10; 20; 30; 40] 1 (-1) = [-1; 10; 20; 30].
Proof. vm_compute. reflexivity. Qed.
Example ex_lag_m3 : zlag [10; 20; 30; 40] (-3) (-1) = [40; -1; -1; -1].
Proof. vm_compute. reflexivity. Qed.
Example ex_lag_beyond : zlag [10; 20; 30; 40] 6 (-1) = [-1; -1; -1; -1] /\ zlag [10; 20; 30; 40] (-4) (-1) = [-1; -1; -1; -1].
Proof. split; vm_compute; reflexivity. Qed.
Example ex_lag_empty : zlag [] 2 (-1) = [] /\ zlag [] (-2) (-1) = [].
Proof. split; vm_compute; reflexivity. Qed.
Example ex_lead_2 : zlead [10; 20; 30; 40] 2 (-1) = [30; 40; -1; -1].
Proof. vm_compute. reflexivity. Qed.
Example ex_diff_2 : zdiff [10; 20; 40; 80] 2 (-1) = Ret [-1; -1; 30; 60].
Proof. vm_compute. reflexivity. Qed.
Example ex_diff_beyond : zdiff [10; 20; 40; 80] 9 (-1) = Ret [-1; -1; -1; -1].
Proof. vm_compute. reflexivity. Qed.

(* binary64 instance with a NaN fill *)
Example ex_lag_float :
  leqb feqb_bits (lag_v float [1.5%float; 2.5%float; 4%float] 1 nan) [nan; 1.5%float; 2.5%float] = true.
Proof. vm_compute. reflexivity. Qed.
Example ex_diff_float :
  oeqb (leqb feqb_bits) (diff_v float PrimFloat.sub [1.5%float; 2.5%float; 4%float] 1 nan) (Ret [nan; 1%float; 1.5%float]) = true.
Proof. vm_compute. reflexivity. Qed.

(* the hypotheses of lag_spec / diff_spec are met non-trivially (inside, before the start, beyond the end) *)
Example ex_lag_spec_instances :
  nth 2 (zlag [10; 20; 30; 40] 1 (-1)) 0 = 20 /\ nth 0 (zlag [10; 20; 30; 40] 1 (-1)) 0 = -1 /\
  nth 3 (zlag [10; 20; 30; 40] (-2) (-1)) 0 = -1 /\ nth 1 (zlag [10; 20; 30; 40] (-2) (-1)) 0 = 40.
Proof. repeat split; vm_compute; reflexivity. Qed.

(* ---- finding #26: diff(x, 0) is the identity, so the literal formula x[i] - x[i-0] = 0 fails ---- *)
Theorem diff_zero_formula_refuted :
  exists (x : list Z) (fill dflt : Z) (i : nat),
    (i < length x)%nat /\ 0 <= Z.of_nat i - 0 /\
    exists r, zdiff x 0 fill = Ret r /\
      nth i r dflt <> Z.sub (nth i x dflt) (nth (Z.to_nat (Z.of_nat i - 0)) x dflt).
Proof.
  exists [5], (-1), 0, 0%nat. split; [cbn; lia|]. split; [lia|].
  exists [5]. split; [reflexivity|]. vm_compute. discriminate.
Qed.

(* the same for dlog: dlog(x, 0) = log x, not zeros (log = identity on tags) *)
Example dlog_zero_is_log_instance : dlog_v Z Z.sub (fun z => z + 100) [5; 6] 0 (-1) = Ret [105; 106].
Proof. vm_compute. reflexivity. Qed.

(* ---- object level ---- *)
Definition h0 : heap Z := [mkArr 1 [10; 20; 30]].

(* a non-zero shift allocates: the argument object (location 0) is untouched, the result is location 1 *)
Example ex_shift_fresh : shift_H Z h0 0 1 (-1) = ([mkArr 1 [10; 20; 30]; mkArr 1 [-1; 10; 20]], Ret 1%nat).
Proof. vm_compute. reflexivity. Qed.
(* p = 0 returns the argument object itself and allocates nothing *)
Example ex_shift_zero_same : shift_H Z h0 0 0 (-1) = (h0, Ret 0%nat).
Proof. vm_compute. reflexivity. Qed.
(* diff allocates twice (the lagged array, then the difference); d = 0 returns the argument *)
Example ex_diff_heap :
  diff_H Z Z.sub h0 0 1 (-1) = ([mkArr 1 [10; 20; 30]; mkArr 1 [-1; 10; 20]; mkArr 1 [-1; 10; 10]], Ret 2%nat)
  /\ diff_H Z Z.sub h0 0 0 (-1) = (h0, Ret 0%nat).
Proof. split; vm_compute; reflexivity. Qed.
(* rank-0 and rank-2 arguments are refused, d < 0 is not implemented *)
Example ex_rank_refused :
  shift_H Z [mkArr 0 [3]] 0 1 (-1) = ([mkArr 0 [3]], Raise NotImplementedError) /\
  diff_H Z Z.sub [mkArr 2 [3; 4]] 0 1 (-1) = ([mkArr 2 [3; 4]], Raise NotImplementedError) /\
  diff_H Z Z.sub h0 0 (-1) (-1) = (h0, Raise NotImplementedError).
Proof. repeat split; vm_compute; reflexivity. Qed.

(* the premise of shift_H_sound / diff_H_sound / dlog_H_sound is satisfiable *)
Example ex_heap_premise : nth_error h0 0 = Some (mkArr 1 [10; 20; 30]).
Proof. reflexivity. Qed.
