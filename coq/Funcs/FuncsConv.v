(* FuncsConv.v — the helpers of fsic/functions.py with the cast of `fill_value` to the array's dtype made explicit.
   Definitions only.

   `shifted[:p] = fill_value` / `differenced[:d] = fill_value` store a PYTHON value into a NumPy array: NumPy first casts
   the value to the array's dtype, and that cast can fail or lose information — on an int64 array the default fill NaN
   raises ValueError ("cannot convert float NaN to integer"), +-inf raises OverflowError, 1.5 is stored as 1 — and it is
   performed whenever the assignment statement is reached, even if the target slice is empty.
   `conv` (NumPy's cast) is a Section variable; F is the type of Python fill values.  Funcs.v is the special case
   conv = Ret (float64 arrays with float fills, int64 arrays with int fills). *)
From Coq Require Import ZArith List Bool.
Import ListNotations.
Require Import PyBase Funcs.
Open Scope Z_scope.

Section FuncsConv.
  Variable A F : Type.
  Variable sub : A -> A -> A.
  Variable logf : A -> A.
  Variable conv : F -> outcome A.

  Definition shift_Hc (h : heap A) (lx : nat) (p : Z) (f : F) : heap A * outcome nat :=
    match nth_error h lx with
    | None => (h, Raise OtherError)
    | Some a =>
        if negb (Nat.eqb (rank a) 1) then (h, Raise NotImplementedError)
        else if p =? 0 then (h, Ret lx)                                   (* no assignment: no cast *)
        else
          let ls := length h in
          let h1 := h ++ [mkArr 1 (roll A (data a) p)] in                 (* shifted = np.roll(x, shift=p) *)
          match conv f with
          | Raise e => (h1, Raise e)                                       (* the cast of fill_value fails *)
          | Ret v => if 0 <? p then (store_slice A h1 ls None (Some p) v, Ret ls)
                     else (store_slice A h1 ls (Some p) None v, Ret ls)
          end
    end.

  Definition lag_Hc (h : heap A) (lx : nat) (p : Z) (f : F) := shift_Hc h lx p f.
  Definition lead_Hc (h : heap A) (lx : nat) (p : Z) (f : F) := shift_Hc h lx (- p) f.

  Definition diff_Hc (h : heap A) (lx : nat) (d : Z) (f : F) : heap A * outcome nat :=
    match nth_error h lx with
    | None => (h, Raise OtherError)
    | Some a =>
        if negb (Nat.eqb (rank a) 1) then (h, Raise NotImplementedError)
        else if d =? 0 then (h, Ret lx)
        else if 0 <? d then
          match lag_Hc h lx d f with
          | (h1, Ret ll) =>
              let ld := length h1 in
              let h2 := h1 ++ [mkArr 1 (zip_with A sub (data_at A h1 lx) (data_at A h1 ll))] in
              match conv f with                                            (* differenced[:d] = fill_value *)
              | Raise e => (h2, Raise e)
              | Ret v => (store_slice A h2 ld None (Some d) v, Ret ld)
              end
          | (h1, Raise e) => (h1, Raise e)
          end
        else (h, Raise NotImplementedError)
    end.

  Definition dlog_Hc (h : heap A) (lx : nat) (d : Z) (f : F) : heap A * outcome nat :=
    match nth_error h lx with
    | None => (h, Raise OtherError)
    | Some a =>
        let ll := length h in
        let h1 := h ++ [mkArr (rank a) (map logf (data a))] in
        diff_Hc h1 ll d f
    end.

  Definition call_Hc (fn : fname) (h : heap A) (lx : nat) (p : Z) (f : F) : heap A * outcome nat :=
    match fn with
    | FLag => lag_Hc h lx p f
    | FLead => lead_Hc h lx p f
    | FDiff => diff_Hc h lx p f
    | FDlog => dlog_Hc h lx p f
    end.

  Definition observe_c (fn : fname) (rk : nat) (x : list A) (p : Z) (f : F) : fobs A :=
    let '(h', r) := call_Hc fn [mkArr rk x] 0%nat p f in
    match r with
    | Ret l => mkFObs A (Ret (data_at A h' l)) (Nat.eqb l 0) (data_at A h' 0%nat)
    | Raise e => mkFObs A (Raise e) false (data_at A h' 0%nat)
    end.
End FuncsConv.

(* Python fill values met by an int64 array, and NumPy's cast *)
Inductive pyfill := PFInt (z : Z) | PFFrac (trunc : Z) | PFNan | PFInf.    (* int / finite float (its truncation) / nan / +-inf *)
Definition conv_int64 (f : pyfill) : outcome Z :=
  match f with
  | PFInt z => Ret z
  | PFFrac t => Ret t                      (* 1.5 -> 1, -1.5 -> -1: truncation toward zero, silently *)
  | PFNan => Raise ValueError              (* cannot convert float NaN to integer *)
  | PFInf => Raise OverflowError           (* cannot convert float infinity to integer *)
  end.
