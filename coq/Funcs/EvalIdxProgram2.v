(* EvalIdxProgram2.v — after the rewrite no backtick is left: a program whose backticks all stand inside its (typed)
   brackets is rewritten to a backtick-free text (a remaining backtick would be a SyntaxError for CPython), and the text
   outside the brackets is exactly the text outside the brackets of the source. *)
From Coq Require Import ZArith List Bool String Ascii Lia.
Import ListNotations.
Require Import PyBase EvalIdx EvalIdxFacts EvalIdxWhole EvalIdxLocate EvalIdxProgram.
Require Fsic.Locate.Locate.
Open Scope string_scope.
Open Scope Z_scope.

Lemma Z_to_string_no_tick z : has_char ch_tick (Z_to_string z) = false.
Proof. destruct (numeric_no_special _ (Z_to_string_numeric z)) as (_ & T & _ & _). exact T. Qed.

Lemma repr_int_no_tick k z : has_char ch_tick (repr_int k z) = false.
Proof.
  destruct k; cbn [repr_int]; [apply Z_to_string_no_tick|].
  rewrite !has_char_app, Z_to_string_no_tick. reflexivity.
Qed.

Lemma str_loc_no_tick l : has_char ch_tick (str_loc l) = false.
Proof.
  destruct l as [k z|ka a kb b]; cbn [str_loc]; [apply Z_to_string_no_tick|].
  rewrite !has_char_app, !repr_int_no_tick. reflexivity.
Qed.

Lemma no_tick_join a b c :
  has_char ch_tick a = false -> has_char ch_tick b = false -> has_char ch_tick c = false ->
  has_char ch_tick (a ++ String ch_colon (b ++ String ch_colon c)) = false.
Proof.
  intros Ha Hb Hc. rewrite has_char_app, Ha. change (String ch_colon (b ++ String ch_colon c)) with (":" ++ (b ++ (":" ++ c))).
  rewrite !has_char_app, Hb, Hc. reflexivity.
Qed.

Section NoTick.
  Variable gl : list Locate.label -> Locate.label -> outcome Locate.loc.
  Variable ct : list Locate.label -> Locate.label -> bool.
  Variable sp : Locate.span.

  Lemma b_inner_no_tick b inner : b_ok b -> b_inner gl ct sp b = Ret inner -> has_char ch_tick inner = false.
  Proof.
    destruct b as [a|oa ob st|g]; cbn [b_inner b_ok].
    - intros _. destruct (Locate.resolve_bt gl ct sp (a, parse_int_raw a)) as [l|e]; cbn [omap]; [|discriminate].
      intros H; inversion H; subst inner. apply str_loc_no_tick.
    - intros _. destruct (Locate.eval_slice_bounds _ _ _) as [[x y]|e]; cbn [omap fst snd]; [|discriminate].
      intros H; inversion H; subst inner. apply no_tick_join; apply ropt_no_tick.
    - intros [T _] H; inversion H; subst inner. exact T.
  Qed.

  Lemma b_dst_no_tick b t : b_ok b -> b_dst gl ct sp b = Ret t -> has_char ch_tick t = false.
  Proof.
    intros Hb. unfold b_dst. destruct (b_inner gl ct sp b) as [inner|e] eqn:E; cbn [omap]; [|discriminate].
    intros H; inversion H; subst t.
    change (has_char ch_tick ("[" ++ (inner ++ "]")) = false).
    rewrite (has_char_app ch_tick "[" (inner ++ "]")), (has_char_app ch_tick inner "]"), (b_inner_no_tick b inner Hb E). reflexivity.
  Qed.

  Lemma ps_out_no_tick p t : pseg_ok p -> ps_out gl ct sp p = Ret t -> has_char ch_tick t = false.
  Proof.
    intros (_ & H1 & H2 & Hb). unfold ps_out. destruct (is_label_bracket (ps_b p)) eqn:E.
    - apply b_dst_no_tick; exact Hb.
    - intros H; inversion H; subst t. unfold seg_bracket, to_seg. cbn [sg_ws1 sg_g sg_ws2 has_char].
      rewrite !has_char_app, (re_space_no_tick _ H1), (re_space_no_tick _ H2).
      pose proof (b_src_tick _ Hb) as T. rewrite E in T. rewrite T. reflexivity.
  Qed.

  (* all backticks of the source stand inside brackets => none is left *)
  Theorem program_subst_no_tick prog ts tail :
    Forall pseg_ok prog ->
    Forall (fun p => has_char ch_tick (ps_pre p) = false) prog -> has_char ch_tick tail = false ->
    Forall2 (fun p t => ps_out gl ct sp p = Ret t) prog ts ->
    has_char ch_tick (program_subst prog ts tail) = false.
  Proof.
    intros Hok Hp Ht HF. unfold program_subst.
    induction HF as [|p t r ts' Hpt HF IH]; cbn [map expr_subst]; [exact Ht|].
    inversion Hp as [|? ? Hp1 Hp2]; subst. inversion Hok as [|? ? Hk1 Hk2]; subst. cbn [to_seg sg_pre].
    rewrite !has_char_app, Hp1, (ps_out_no_tick _ _ Hk1 Hpt), (IH Hk2 Hp2). reflexivity.
  Qed.

  (* so eval() hands CPython a backtick-free text: the rewritten program *)
  Corollary program_eval_text prog ts tail :
    Forall pseg_ok prog -> has_char ch_open tail = false ->
    Forall (fun p => has_char ch_tick (ps_pre p) = false) prog -> has_char ch_tick tail = false ->
    Forall2 (fun p t => ps_out gl ct sp p = Ret t) prog ts ->
    exists text, eval_text (c10_has ct sp) (c10_locate gl sp) (program_text prog tail) = Ret text /\
                 has_char ch_tick text = false /\
                 (has_char ch_tick (program_text prog tail) = true -> text = program_subst prog ts tail) /\
                 (has_char ch_tick (program_text prog tail) = false -> text = program_text prog tail).
  Proof.
    intros Hok Hto Hpt Htt HF. unfold EvalIdx.eval_text.
    destruct (has_char ch_tick (program_text prog tail)) eqn:E.
    - exists (program_subst prog ts tail). split; [apply program_rewrite; assumption|].
      split; [apply program_subst_no_tick; assumption|]. split; [reflexivity|discriminate].
    - exists (program_text prog tail). split; [reflexivity|]. split; [exact E|]. split; [discriminate|reflexivity].
  Qed.
End NoTick.
