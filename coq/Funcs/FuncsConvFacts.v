(* FuncsConvFacts.v — proofs about FuncsConv.v: when the cast of fill_value succeeds the helpers are those of Funcs.v with the
   CAST value as fill (so every specification of FuncsFacts.v applies with that value); when it fails the call raises the
   cast's exception — unless no assignment is reached (p = 0, d = 0, refused rank, d < 0); no existing array is modified
   either way.  Kept finding: on an int64 array the default fill NaN makes lag/lead/diff raise ValueError. *)
From Coq Require Import ZArith List Bool Lia ZifyBool.
Import ListNotations.
Require Import PyBase Funcs FuncsFacts FuncsConv.
Open Scope Z_scope.

Section FuncsConvFacts.
  Variable A F : Type.
  Variable sub : A -> A -> A.
  Variable logf : A -> A.
  Variable conv : F -> outcome A.
  Notation shift_Hc := (shift_Hc A F conv).
  Notation diff_Hc := (diff_Hc A F sub conv).
  Notation dlog_Hc := (dlog_Hc A F sub logf conv).
  Notation call_Hc := (call_Hc A F sub logf conv).

  (* ---- the cast succeeds: Funcs.v with the cast value ---- *)
  Theorem shift_Hc_ok h lx p f v : conv f = Ret v -> shift_Hc h lx p f = shift_H A h lx p v.
  Proof.
    intros H. unfold FuncsConv.shift_Hc, shift_H. destruct (nth_error h lx) as [a|]; [|reflexivity].
    destruct (negb (Nat.eqb (rank a) 1)); [reflexivity|]. destruct (p =? 0); [reflexivity|]. rewrite H. reflexivity.
  Qed.

  Theorem diff_Hc_ok h lx d f v : conv f = Ret v -> diff_Hc h lx d f = diff_H A sub h lx d v.
  Proof.
    intros H. unfold FuncsConv.diff_Hc, diff_H. destruct (nth_error h lx) as [a|]; [|reflexivity].
    destruct (negb (Nat.eqb (rank a) 1)); [reflexivity|]. destruct (d =? 0); [reflexivity|].
    destruct (0 <? d); [|reflexivity]. unfold lag_Hc, lag_H. rewrite (shift_Hc_ok h lx d f v H).
    destruct (shift_H A h lx d v) as [h1 [ll|e]]; [|reflexivity]. rewrite H. reflexivity.
  Qed.

  Theorem call_Hc_ok fn h lx p f v : conv f = Ret v -> call_Hc fn h lx p f = call_H A sub logf fn h lx p v.
  Proof.
    intros H. destruct fn; cbn [FuncsConv.call_Hc call_H].
    - exact (shift_Hc_ok h lx p f v H).
    - exact (shift_Hc_ok h lx (- p) f v H).
    - exact (diff_Hc_ok h lx p f v H).
    - unfold FuncsConv.dlog_Hc, dlog_H. destruct (nth_error h lx) as [a|]; [|reflexivity]. apply diff_Hc_ok; exact H.
  Qed.

  Corollary observe_c_ok fn rk x p f v :
    conv f = Ret v -> observe_c A F sub logf conv fn rk x p f = observe A sub logf fn rk x p v.
  Proof. intros H. unfold observe_c, observe. rewrite (call_Hc_ok fn _ _ p f v H). reflexivity. Qed.

  (* ---- no assignment reached: the fill value is never looked at ---- *)
  Theorem shift_Hc_zero h lx x f : nth_error h lx = Some (mkArr 1 x) -> shift_Hc h lx 0 f = (h, Ret lx).
  Proof. intros Hx. unfold FuncsConv.shift_Hc. rewrite Hx. reflexivity. Qed.

  Theorem diff_Hc_zero h lx x f : nth_error h lx = Some (mkArr 1 x) -> diff_Hc h lx 0 f = (h, Ret lx).
  Proof. intros Hx. unfold FuncsConv.diff_Hc. rewrite Hx. reflexivity. Qed.

  (* ---- the cast fails: that exception, whatever the length of the array and the size of the shift ---- *)
  Theorem shift_Hc_cast_error h lx x p f e :
    nth_error h lx = Some (mkArr 1 x) -> p <> 0 -> conv f = Raise e -> snd (shift_Hc h lx p f) = Raise e.
  Proof.
    intros Hx Hp H. unfold FuncsConv.shift_Hc. rewrite Hx. cbn [rank Nat.eqb negb].
    replace (p =? 0) with false by lia. rewrite H. reflexivity.
  Qed.

  Theorem diff_Hc_cast_error h lx x d f e :
    nth_error h lx = Some (mkArr 1 x) -> 0 < d -> conv f = Raise e -> snd (diff_Hc h lx d f) = Raise e.
  Proof.
    intros Hx Hd H. unfold FuncsConv.diff_Hc. rewrite Hx. cbn [rank Nat.eqb negb].
    replace (d =? 0) with false by lia. replace (0 <? d) with true by lia.
    unfold lag_Hc, FuncsConv.shift_Hc. rewrite Hx. cbn [rank Nat.eqb negb].
    replace (d =? 0) with false by lia. rewrite H. reflexivity.
  Qed.

  (* ---- either way, every array that existed before the call is untouched ---- *)
  Theorem helpers_c_never_modify_existing_arrays fn h lx p f : preserved A h (fst (call_Hc fn h lx p f)).
  Proof.
    assert (S : forall h lx p, preserved A h (fst (shift_Hc h lx p f))).
    { intros h0 l0 p0. unfold FuncsConv.shift_Hc. destruct (nth_error h0 l0) as [a|]; [|apply preserved_refl].
      destruct (negb (Nat.eqb (rank a) 1)); [apply preserved_refl|].
      destruct (p0 =? 0); [apply preserved_refl|].
      destruct (conv f); [|apply preserved_alloc].
      destruct (0 <? p0); cbn [fst]; apply store_fresh_preserved. }
    assert (D : forall h lx p, preserved A h (fst (diff_Hc h lx p f))).
    { intros h0 l0 p0. unfold FuncsConv.diff_Hc. destruct (nth_error h0 l0) as [a|]; [|apply preserved_refl].
      destruct (negb (Nat.eqb (rank a) 1)); [apply preserved_refl|].
      destruct (p0 =? 0); [apply preserved_refl|].
      destruct (0 <? p0); [|apply preserved_refl].
      unfold lag_Hc. pose proof (S h0 l0 p0) as P. destruct (shift_Hc h0 l0 p0 f) as [h1 [ll|e]]; cbn [fst] in *; [|exact P].
      destruct (conv f); cbn [fst].
      - eapply preserved_trans; [exact P|apply store_fresh_preserved].
      - eapply preserved_trans; [exact P|apply preserved_alloc]. }
    destruct fn; cbn [FuncsConv.call_Hc].
    - apply S.
    - apply S.
    - apply D.
    - unfold FuncsConv.dlog_Hc. destruct (nth_error h lx) as [a|]; [|apply preserved_refl].
      eapply preserved_trans; [apply preserved_alloc|apply D].
  Qed.
End FuncsConvFacts.

(* ---- kept finding: integer arrays and the default fill ---- *)
(* lag(x) on an int64 array — fill_value defaults to NaN — raises ValueError instead of returning an array holding the fill
   where i-p falls outside; a fractional fill is silently truncated (the result is lag with fill 1, not 1.5) *)
Theorem int_array_nan_fill_refuted :
  exists (x : list Z) (p : Z),
    o_res Z (observe_c Z pyfill Z.sub (fun z => z) conv_int64 FLag 1 x p PFNan) = Raise ValueError /\
    o_res Z (observe_c Z pyfill Z.sub (fun z => z) conv_int64 FDiff 1 x p PFNan) = Raise ValueError /\
    o_res Z (observe_c Z pyfill Z.sub (fun z => z) conv_int64 FLag 1 x p PFInf) = Raise OverflowError /\
    o_res Z (observe_c Z pyfill Z.sub (fun z => z) conv_int64 FLag 1 x p (PFFrac 1)) = Ret [1; 10; 20] /\
    o_input_after Z (observe_c Z pyfill Z.sub (fun z => z) conv_int64 FLag 1 x p PFNan) = x.
Proof. exists [10; 20; 30], 1. repeat split; vm_compute; reflexivity. Qed.

(* even an empty array: the cast is performed although nothing is stored *)
Example ex_empty_array_still_casts :
  o_res Z (observe_c Z pyfill Z.sub (fun z => z) conv_int64 FLag 1 [] 2 PFNan) = Raise ValueError /\
  o_res Z (observe_c Z pyfill Z.sub (fun z => z) conv_int64 FLag 1 [] 0 PFNan) = Ret [].
Proof. split; vm_compute; reflexivity. Qed.

Example ex_conv_premises : conv_int64 (PFInt 7) = Ret 7 /\ conv_int64 PFNan = Raise ValueError.
Proof. split; reflexivity. Qed.
