(* EvalIdxHistory.v — eval() has no memory: in any sequence of eval() calls in one process — on any containers (any variables),
   with any caller locals, any expressions, successful or not — every call returns what it would return if it were the first
   call, and the package-level helper table is the same at the end.  (builtins=None calls; a dict passed as `builtins=` is the
   caller's own and is updated in place: C16_eval_caller_builtins_updated.) *)
From Coq Require Import ZArith List Bool String Ascii Lia.
Import ListNotations.
Require Import PyBase EvalIdx EvalIdxFacts.
Open Scope string_scope.
Open Scope Z_scope.

Section History.
  Variable V : Type.
  Variable pyeval : string -> ns V -> pyres V.

  (* one call: the container's span (has / locate), its variables, the expression, the caller's locals *)
  Record call := mkCall {
    c_has : label -> bool; c_locate : label -> outcome loc; c_vars : ns V; c_expr : string; c_locals : option (ns V) }.

  Definition do_call (dh : dheap V) (tbl : nat) (c : call) : (dheap V * ns V) * eres V :=
    eval_M V (c_has c) (c_locate c) pyeval dh tbl (c_vars c) (c_expr c) (c_locals c) None.

  Fixpoint run_calls (dh : dheap V) (tbl : nat) (cs : list call) : dheap V * list (eres V) :=
    match cs with
    | [] => (dh, [])
    | c :: r => let '((dh1, _), res) := do_call dh tbl c in
                let '(dh2, rs) := run_calls dh1 tbl r in (dh2, res :: rs)
    end.

  (* the outcome of a call depends on the heap only through the helper table *)
  Lemma do_call_result dh dh' tbl c :
    dict_at V dh tbl = dict_at V dh' tbl -> snd (do_call dh tbl c) = snd (do_call dh' tbl c).
  Proof.
    intros E. unfold do_call.
    destruct (eval_text (c_has c) (c_locate c) (c_expr c)) as [text|e] eqn:T.
    - pose proof (eval_spec V (c_has c) (c_locate c) pyeval dh tbl (c_vars c) (c_expr c) (c_locals c) None text T) as S1.
      pose proof (eval_spec V (c_has c) (c_locate c) pyeval dh' tbl (c_vars c) (c_expr c) (c_locals c) None text T) as S2.
      cbv zeta in S1, S2. destruct S1 as (S1 & _); [discriminate|]. destruct S2 as (S2 & _); [discriminate|].
      rewrite S1, S2. unfold base_dict. rewrite E. reflexivity.
    - rewrite !(eval_rewrite_error V (c_has c) (c_locate c) pyeval _ tbl (c_vars c) (c_expr c) (c_locals c) None e T). reflexivity.
  Qed.

  Lemma do_call_table dh tbl c : (tbl < List.length dh)%nat ->
    dict_at V (fst (fst (do_call dh tbl c))) tbl = dict_at V dh tbl /\ (List.length dh <= List.length (fst (fst (do_call dh tbl c))))%nat.
  Proof.
    intros L. unfold do_call. split.
    - pose proof (eval_pure V (c_has c) (c_locate c) pyeval dh tbl (c_vars c) (c_expr c) (c_locals c) None L) as P.
      cbv zeta in P. destruct P as (P & _); [discriminate|discriminate|exact P].
    - unfold eval_M. destruct (eval_text _ _ _); cbn [fst]; [|lia].
      destruct (c_locals c); unfold update_at; rewrite ?upd_length, app_length; cbn [List.length]; lia.
  Qed.

  Theorem eval_has_no_memory (cs : list call) : forall (dh : dheap V) (tbl : nat),
    (tbl < List.length dh)%nat ->
    snd (run_calls dh tbl cs) = map (fun c => snd (do_call dh tbl c)) cs /\
    dict_at V (fst (run_calls dh tbl cs)) tbl = dict_at V dh tbl.
  Proof.
    induction cs as [|c r IH]; intros dh tbl L; [split; reflexivity|].
    cbn [run_calls map].
    destruct (do_call_table dh tbl c L) as [T1 T2].
    destruct (do_call dh tbl c) as [[dh1 vs] res] eqn:D. cbn [fst snd] in *.
    destruct (IH dh1 tbl ltac:(lia)) as [R1 R2].
    destruct (run_calls dh1 tbl r) as [dh2 rs]. cbn [fst snd] in *.
    split.
    - f_equal. rewrite R1. apply map_ext. intros c'. apply do_call_result. exact T1.
    - rewrite R2. exact T1.
  Qed.
End History.

(* instance: a local `k` (and a variable of another container, W) bound in earlier calls is undefined again in a later call on a
   container that has neither — AttributeError naming it — and the helper table is what it was *)
Example ex_history :
  let tbl := tagged "T" ["lag"; "log"] in
  let none := (fun _ : label => false, fun _ : label => Raise (A := loc) KeyError) in
  let cs := [mkCall string (fst none) (snd none) (tagged "V" ["X"]) "k" (Some (tagged "L" ["k"]));
             mkCall string (fst none) (snd none) (tagged "V" ["W"; "log"]) "log" None;
             mkCall string (fst none) (snd none) (tagged "V" ["X"]) "k" None;
             mkCall string (fst none) (snd none) (tagged "V" ["X"]) "W" None;
             mkCall string (fst none) (snd none) (tagged "V" ["X"]) "log" None] in
  run_calls string name_lookup [tbl] 0%nat cs
  = ([tbl; [("lag", "T:lag"); ("log", "T:log"); ("X", "V:X"); ("k", "L:k")];
           [("lag", "T:lag"); ("log", "V:log"); ("W", "V:W")];
           [("lag", "T:lag"); ("log", "T:log"); ("X", "V:X")];
           [("lag", "T:lag"); ("log", "T:log"); ("X", "V:X")];
           [("lag", "T:lag"); ("log", "T:log"); ("X", "V:X")]],
     [EVal "L:k"; EVal "V:log"; EAttributeError "k"; EAttributeError "W"; EVal "T:log"]).
Proof. vm_compute. reflexivity. Qed.
