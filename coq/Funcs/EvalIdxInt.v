(* EvalIdxInt.v — the two readings of an integer text in the model:
     parse_pyint s   = int(s.strip())   (no-backtick brackets: `int(label.strip())`)
     parse_int_raw s = int(s)           (backticked labels: `int(period)`, the text as it stands between the backticks)
   int() skips a narrower class of characters than str.strip() (ASCII FS/GS/RS/US are stripped by str.strip() only), so
   whatever int() accepts, int(strip()) accepts with the same value — but not conversely. *)
From Coq Require Import ZArith List Bool String Ascii Lia ZifyBool.
Import ListNotations.
Require Import PyBase EvalIdx EvalIdxFacts EvalIdxWhole.
Open Scope string_scope.
Open Scope Z_scope.

(* s = (stripped prefix) ++ strip f s ++ (stripped suffix) *)
Lemma lstrip_decompose f s : exists w, s = w ++ lstrip f s /\ str_all f w = true.
Proof.
  induction s as [|c r (w & E & H)]; [exists ""; split; reflexivity|].
  cbn [lstrip]. destruct (f c) eqn:Fc.
  - exists (String c w). split; [cbn [append]; rewrite <- E; reflexivity|cbn [str_all]; rewrite Fc, H; reflexivity].
  - exists "". split; reflexivity.
Qed.

Lemma rstrip_decompose f s : exists w, s = rstrip f s ++ w /\ str_all f w = true.
Proof.
  induction s as [|c r (w & E & H)]; [exists ""; split; reflexivity|].
  cbn [rstrip]. destruct (rstrip f r) as [|c' r'] eqn:R.
  - cbn [append] in E. destruct (f c) eqn:Fc.
    + exists (String c w). split; [cbn [append]; rewrite <- E; reflexivity|cbn [str_all]; rewrite Fc, H; reflexivity].
    + exists w. split; [cbn [append]; rewrite <- E; reflexivity|exact H].
  - exists w. split; [|exact H].
    change (String c (String c' r') ++ w) with (String c (String c' r' ++ w)). rewrite <- E. reflexivity.
Qed.

Lemma strip_decompose f s : exists w1 w2, s = w1 ++ strip f s ++ w2 /\ str_all f w1 = true /\ str_all f w2 = true.
Proof.
  destruct (lstrip_decompose f s) as (w1 & E1 & H1). destruct (rstrip_decompose f (lstrip f s)) as (w2 & E2 & H2).
  exists w1, w2. unfold strip. split; [rewrite <- E2; exact E1|split; assumption].
Qed.

Lemma int_space_is_py_space c : is_int_space c = true -> is_py_space c = true.
Proof.
  revert c. assert (H : forall c, (negb (is_int_space c) || is_py_space c) = true).
  { apply ascii_sweep. vm_compute. reflexivity. }
  intros c Hc. specialize (H c). rewrite Hc in H. exact H.
Qed.

(* the characters of an accepted digit string *)
Definition digit_or_us (c : ascii) : bool := is_digit c || Ascii.eqb c "_".

Lemma digits_acc_chars r : forall acc b z, digits_acc r acc b = Some z -> str_all digit_or_us r = true.
Proof.
  induction r as [|c r IH]; intros acc b z; [reflexivity|].
  cbn [digits_acc str_all]. destruct (digit_val c) as [d|] eqn:Dv.
  - intros H. rewrite (IH _ _ _ H), andb_true_r. unfold digit_or_us, is_digit. rewrite Dv. reflexivity.
  - destruct (Ascii.eqb c "_" && b)%bool eqn:E; [|discriminate].
    apply andb_true_iff in E as [E _]. intros H. rewrite (IH _ _ _ H), andb_true_r.
    unfold digit_or_us. rewrite E. apply orb_true_r.
Qed.

Lemma digit_or_us_not_space c : digit_or_us c = true -> is_py_space c = false.
Proof.
  revert c. assert (H : forall c, (negb (digit_or_us c) || negb (is_py_space c)) = true).
  { apply ascii_sweep. vm_compute. reflexivity. }
  intros c Hc. specialize (H c). rewrite Hc in H. cbn in H. apply negb_true_iff in H. exact H.
Qed.

Definition int_body (t : string) : option Z :=
  match t with
  | String "+" r => digits_acc r 0 false
  | String "-" r => option_map Z.opp (digits_acc r 0 false)
  | _ => digits_acc t 0 false
  end.

Lemma parse_int_raw_body s : parse_int_raw s = int_body (strip is_int_space s).
Proof.
  unfold parse_int_raw, int_body. destruct (strip is_int_space s) as [|c r]; [reflexivity|].
  destruct c as [[] [] [] [] [] [] [] []]; reflexivity.
Qed.
Lemma parse_pyint_body s : parse_pyint s = int_body (strip is_py_space s).
Proof.
  unfold parse_pyint, int_body. destruct (strip is_py_space s) as [|c r]; [reflexivity|].
  destruct c as [[] [] [] [] [] [] [] []]; reflexivity.
Qed.

(* an accepted body contains no whitespace of either class *)
Lemma int_body_no_space t z : int_body t = Some z -> str_all (fun c => negb (is_py_space c)) t = true.
Proof.
  assert (D : forall r acc b z, digits_acc r acc b = Some z -> str_all (fun c => negb (is_py_space c)) r = true).
  { intros r acc b z' H. apply (str_all_impl digit_or_us); [|exact (digits_acc_chars r acc b z' H)].
    intros c Hc. apply negb_true_iff. exact (digit_or_us_not_space c Hc). }
  destruct t as [|c r]; [discriminate|].
  assert (Hsign : forall r', (Ascii.eqb c "+" || Ascii.eqb c "-")%bool = true ->
                             str_all (fun c => negb (is_py_space c)) r' = true ->
                             str_all (fun c => negb (is_py_space c)) (String c r') = true).
  { intros r' Hc Hr. cbn [str_all]. rewrite Hr, andb_true_r. apply negb_true_iff.
    apply orb_true_iff in Hc as [Hc|Hc]; apply Ascii.eqb_eq in Hc; subst c; vm_compute; reflexivity. }
  unfold int_body.
  destruct (Ascii.eqb c "+") eqn:Ep.
  { apply Ascii.eqb_eq in Ep. subst c. intros H. apply Hsign; [reflexivity|]. exact (D _ _ _ _ H). }
  destruct (Ascii.eqb c "-") eqn:Em.
  { apply Ascii.eqb_eq in Em. subst c. intros H. apply Hsign; [reflexivity|].
    destruct (digits_acc r 0 false) as [z0|] eqn:E; [exact (D _ _ _ _ E)|discriminate]. }
  intros H.
  assert (H' : digits_acc (String c r) 0 false = Some z).
  { revert H. destruct c as [[] [] [] [] [] [] [] []]; try exact (fun H => H); cbn in Ep, Em; discriminate. }
  exact (D _ _ _ _ H').
Qed.

(* int(s) accepts  ==>  int(s.strip()) accepts, same value *)
Theorem parse_int_raw_implies_parse_pyint s z : parse_int_raw s = Some z -> parse_pyint s = Some z.
Proof.
  rewrite parse_int_raw_body, parse_pyint_body. intros H.
  destruct (strip_decompose is_int_space s) as (w1 & w2 & E & H1 & H2).
  set (t := strip is_int_space s) in *.
  assert (P1 : str_all is_py_space w1 = true) by (apply (str_all_impl is_int_space); [apply int_space_is_py_space|exact H1]).
  assert (P2 : str_all is_py_space w2 = true) by (apply (str_all_impl is_int_space); [apply int_space_is_py_space|exact H2]).
  rewrite E at 1. rewrite (strip_pad is_py_space w1 t w2 P1 P2).
  rewrite (strip_none is_py_space t (int_body_no_space t z H)). exact H.
Qed.

(* ... but not conversely: the ASCII unit separator is stripped by str.strip() and refused by int() *)
Example parse_pyint_not_raw :
  parse_pyint ("1" ++ String (ascii_of_nat 31) "") = Some 1 /\ parse_int_raw ("1" ++ String (ascii_of_nat 31) "") = None.
Proof. split; vm_compute; reflexivity. Qed.
