(* EvalIdxGuards.v — the guards of the kept findings as DECIDABLE predicates (booleans one can compute on a given input),
   each reflected into the Prop used by the theorems, with the guarded positive statement and instances on both sides:
     label_carried a        the bracket syntax can carry the label a (label finding: colon / closing bracket / newline / backtick)
     name_defined ...       a name is bound for the expression (leak finding: module globals / Python builtins count as bound)
     fill_castable f        NumPy can cast the fill value to int64 (integer-array fill finding)
     0 <? d                 the difference order at which the stated formula applies (finding #26: d = 0 returns x) *)
From Coq Require Import ZArith List Bool String Ascii Lia ZifyBool.
Import ListNotations.
Require Import PyBase Funcs FuncsFacts FuncsConv FuncsConvFacts EvalIdx EvalIdxFacts EvalIdxWhole EvalIdxLocate EvalIdxProgram.
Require Fsic.Gen.Generated.
Open Scope string_scope.
Open Scope Z_scope.

(* ---------------------------------------------------------------- labels the bracket syntax carries *)
Definition label_carried (a : string) : bool :=
  negb (has_char ch_tick a) && negb (has_char ch_colon a) && negb (has_char ch_close a) && negb (has_char ch_nl a).

Lemma label_carried_iff a : label_carried a = true <-> lab_ok a.
Proof.
  unfold label_carried, lab_ok. split.
  - intros H. repeat (apply andb_true_iff in H as [H ?]). repeat split; apply negb_true_iff; assumption.
  - intros (A & B & C & D). rewrite A, B, C, D. reflexivity.
Qed.

Section LabelGuard.
  Variable has : label -> bool.
  Variable locate : label -> outcome loc.

  (* the guarded statement: a carried label that resolves is replaced, anywhere in an expression, by its location *)
  Theorem carried_label_is_resolved pre ws1 a ws2 post l :
    label_carried a = true ->
    has_char ch_open pre = false -> str_all is_re_space ws1 = true -> str_all is_re_space ws2 = true ->
    label_resolves has locate a l ->
    rewrite has locate (pre ++ String ch_open (ws1 ++ bt a ++ ws2 ++ String ch_close post))
    = omap (fun u => pre ++ ("[" ++ str_loc l ++ "]") ++ u) (rewrite has locate post).
  Proof.
    intros G Hp H1 H2 R. apply label_carried_iff in G. destruct G as (T & C & Cl & Nl).
    exact (label_index_in_expression has locate pre ws1 a ws2 post l Hp H1 H2 T C Cl Nl R).
  Qed.
End LabelGuard.

Example ex_label_carried :
  map label_carried ["2001"; "y 2"; "e[f"; "2000Q1"; "a:b"; "2000-01-01 00:30"; "c]d"; "`j"; "g`h"]
  = [true; true; true; true; false; false; false; false; false].
Proof. vm_compute. reflexivity. Qed.

(* ---------------------------------------------------------------- names bound for the expression *)
Definition name_in (name : string) (names : list string) : bool := existsb (String.eqb name) names.

(* bound through eval()'s own namespace (helpers / variables / locals) or — the leak — through the module globals of
   containers.py / Python's builtins *)
Definition name_defined (tbl outer vars : list string) (locals : option (list string)) (name : string) : bool :=
  name_in name tbl || name_in name vars || match locals with Some l => name_in name l | None => false end || name_in name outer.

Lemma ns_get_tagged_none o names k : name_in k names = false -> ns_get string (tagged o names) k = None.
Proof.
  induction names as [|x r IH]; [reflexivity|]. cbn [name_in existsb tagged map ns_get fst] in *. intros H.
  apply orb_false_iff in H as [H1 H2]. rewrite H1. apply IH. exact H2.
Qed.

Lemma ns_get_set_other V (d : ns V) k v k' : String.eqb k' k = false -> ns_get V (ns_set V d k v) k' = ns_get V d k'.
Proof.
  intros E. induction d as [|[k0 v0] r IH]; cbn [ns_set ns_get].
  - rewrite E. reflexivity.
  - destruct (String.eqb k k0) eqn:E0; cbn [ns_get].
    + apply String.eqb_eq in E0; subst k0. rewrite E. reflexivity.
    + destruct (String.eqb k' k0); [reflexivity|exact IH].
Qed.

Lemma ns_get_update_none V (src : ns V) : forall (d : ns V) k,
  ns_get V d k = None -> ns_get V src k = None -> ns_get V (ns_update V d src) k = None.
Proof.
  induction src as [|[k0 v0] r IH]; intros d k Hd Hs; [exact Hd|].
  cbn [ns_get] in Hs. destruct (String.eqb k k0) eqn:E; [discriminate|].
  unfold ns_update. cbn [fold_left fst snd]. apply IH; [|exact Hs].
  rewrite ns_get_set_other by exact E. exact Hd.
Qed.

(* the guarded statement for the leak finding: a name (no backtick) bound nowhere — not even outside eval()'s namespace — is
   reported as AttributeError naming it (builtins=None, any locals) *)
Theorem undefined_name_is_reported tbl outer vars locals name :
  has_char ch_tick name = false ->
  name_defined tbl outer vars locals name = false ->
  snd (ns_case tbl outer vars locals None name) = EAttributeError name.
Proof.
  unfold name_defined. intros Tk H.
  apply orb_false_iff in H as [H Ho]. apply orb_false_iff in H as [H Hl]. apply orb_false_iff in H as [Ht Hv].
  unfold ns_case.
  pose proof (eval_spec string (fun _ => false) (fun _ => Raise KeyError) (name_lookup_outer (tagged "G" outer))
                [tagged "T" tbl] 0%nat (tagged "V" vars) name (option_map (tagged "L") locals) None name) as S.
  cbv zeta in S. destruct S as (S1 & _).
  - unfold eval_text. rewrite Tk. reflexivity.
  - intros l Hl'. discriminate.
  - rewrite S1. unfold name_lookup_outer.
    assert (N : ns_get string (ns_update string (ns_update string (base_dict string [tagged "T" tbl] 0 None) (tagged "V" vars))
                                 (locals_ns string (option_map (tagged "L") locals))) name = None).
    { apply ns_get_update_none.
      - apply ns_get_update_none; [|apply ns_get_tagged_none; exact Hv].
        cbn [base_dict dict_at nth]. apply ns_get_tagged_none; exact Ht.
      - destruct locals as [l|]; cbn [option_map locals_ns]; [apply ns_get_tagged_none; exact Hl|reflexivity]. }
    rewrite N, (ns_get_tagged_none "G" outer name Ho). reflexivity.
Qed.

Example ex_name_defined :
  name_defined Generated.builtin_helper_names ["np"; "abs"] ["X"] (Some ["k"]) "nope" = false /\
  name_defined Generated.builtin_helper_names ["np"; "abs"] ["X"] None "np" = true /\        (* the leak: bound outside the namespace *)
  name_defined Generated.builtin_helper_names ["np"; "abs"] ["X"] None "lag" = true /\
  name_defined Generated.builtin_helper_names ["np"; "abs"] ["X"] (Some ["k"]) "k" = true.
Proof. repeat split; vm_compute; reflexivity. Qed.

(* ---------------------------------------------------------------- fill values an int64 array can hold *)
Definition fill_castable (f : pyfill) : bool := match f with PFInt _ | PFFrac _ => true | PFNan | PFInf => false end.

Lemma fill_castable_iff f : fill_castable f = true <-> exists v, conv_int64 f = Ret v.
Proof.
  destruct f; cbn [fill_castable conv_int64]; split; intros H; try reflexivity; try discriminate; try (eexists; reflexivity);
    destruct H as [v H]; discriminate.
Qed.

(* the guarded statement: with a castable fill an int64 call is the helper of Funcs.v on the cast value — all of its
   specifications apply (lag_spec etc. with fill := the cast value; NB a fractional fill is cast to its truncation) *)
Theorem castable_fill_behaves fn h lx p f :
  fill_castable f = true ->
  exists v, conv_int64 f = Ret v /\ call_Hc Z pyfill Z.sub (fun z => z) conv_int64 fn h lx p f = call_H Z Z.sub (fun z => z) fn h lx p v.
Proof.
  intros G. apply fill_castable_iff in G as [v E]. exists v. split; [exact E|].
  exact (call_Hc_ok Z pyfill Z.sub (fun z => z) conv_int64 fn h lx p f v E).
Qed.

Example ex_fill_castable : map fill_castable [PFInt (-1); PFFrac 1; PFNan; PFInf] = [true; true; false; false].
Proof. reflexivity. Qed.

(* ---------------------------------------------------------------- the order at which the stated difference formula applies *)
(* 0 <? d is the guard of finding #26: diff_spec / dlog_spec hold exactly there; at d = 0 the code returns x (FuncsFacts) *)
Example ex_diff_guard : map (fun d => 0 <? d) [-1; 0; 1; 7] = [false; false; true; true].
Proof. reflexivity. Qed.
