(* EvalIdxFacts.v — proofs about the model of _resolve_expression_indexes / eval (EvalIdx.v). *)
From Coq Require Import ZArith List Bool String Ascii Decimal DecimalString DecimalZ Lia ZifyBool.
Import ListNotations.
Require Import PyBase EvalIdx.
Open Scope string_scope.
Open Scope Z_scope.

(* ================================================================== strings *)
Fixpoint str_all (P : ascii -> bool) (s : string) : bool :=
  match s with "" => true | String c r => P c && str_all P r end.

Lemma sapp_assoc (a b c : string) : (a ++ b) ++ c = a ++ (b ++ c).
Proof. induction a as [|x a IH]; cbn; [reflexivity|]. rewrite IH. reflexivity. Qed.

Lemma sapp_nil_r (a : string) : a ++ "" = a.
Proof. induction a as [|x a IH]; cbn; [reflexivity|]. rewrite IH. reflexivity. Qed.

Lemma slength_app (a b : string) : String.length (a ++ b) = (String.length a + String.length b)%nat.
Proof. induction a as [|x a IH]; cbn; [reflexivity|]. rewrite IH. reflexivity. Qed.

Lemma str_all_app P a b : str_all P (a ++ b) = str_all P a && str_all P b.
Proof. induction a as [|x a IH]; cbn; [reflexivity|]. rewrite IH. apply andb_assoc. Qed.

Lemma str_all_impl (P Q : ascii -> bool) s : (forall c, P c = true -> Q c = true) -> str_all P s = true -> str_all Q s = true.
Proof.
  intros H. induction s as [|c r IH]; cbn; [reflexivity|].
  intros E. apply andb_true_iff in E as [E1 E2]. rewrite (H _ E1), (IH E2). reflexivity.
Qed.

Lemma has_char_app c a b : has_char c (a ++ b) = has_char c a || has_char c b.
Proof. induction a as [|x a IH]; cbn; [reflexivity|]. rewrite IH. apply orb_assoc. Qed.

Lemma has_char_all c s : has_char c s = negb (str_all (fun a => negb (Ascii.eqb a c)) s).
Proof.
  induction s as [|a r IH]; cbn; [reflexivity|]. rewrite IH.
  destruct (Ascii.eqb a c); cbn; reflexivity.
Qed.

Lemma no_char_of_all (P : ascii -> bool) c s : P c = false -> str_all P s = true -> has_char c s = false.
Proof.
  intros Hc Hs. rewrite has_char_all. apply negb_false_iff.
  apply (str_all_impl P); [|exact Hs].
  intros a Ha. apply negb_true_iff. apply Ascii.eqb_neq. intros ->. congruence.
Qed.

(* ---- lstrip / rstrip / strip ---- *)
Lemma lstrip_all f ws s : str_all f ws = true -> lstrip f (ws ++ s) = lstrip f s.
Proof.
  induction ws as [|c r IH]; cbn; [reflexivity|].
  intros E. apply andb_true_iff in E as [E1 E2]. rewrite E1. apply IH; exact E2.
Qed.

Lemma lstrip_head f c r : f c = false -> lstrip f (String c r) = String c r.
Proof. intros H. cbn. rewrite H. reflexivity. Qed.

Lemma rstrip_snoc f s t : f t = false -> rstrip f (s ++ String t "") = s ++ String t "".
Proof.
  intros Ht. induction s as [|a r IH]; cbn.
  - rewrite Ht. reflexivity.
  - rewrite IH. destruct r; reflexivity.
Qed.

Lemma rstrip_none f s : str_all (fun c => negb (f c)) s = true -> rstrip f s = s.
Proof.
  induction s as [|a r IH]; cbn; [reflexivity|].
  intros E. apply andb_true_iff in E as [E1 E2]. apply negb_true_iff in E1.
  rewrite (IH E2). destruct r; [rewrite E1|]; reflexivity.
Qed.

Lemma rstrip_snoc_f f s t : f t = true -> rstrip f (s ++ String t "") = rstrip f s.
Proof.
  intros Ht. induction s as [|a r IH]; cbn.
  - rewrite Ht. reflexivity.
  - rewrite IH. reflexivity.
Qed.

Lemma lstrip_none f s : str_all (fun c => negb (f c)) s = true -> lstrip f s = s.
Proof.
  destruct s as [|a r]; cbn; [reflexivity|].
  intros E. apply andb_true_iff in E as [E1 _]. apply negb_true_iff in E1. rewrite E1. reflexivity.
Qed.

Lemma strip_none f s : str_all (fun c => negb (f c)) s = true -> strip f s = s.
Proof. intros H. unfold strip. rewrite (lstrip_none f s H). apply rstrip_none; exact H. Qed.

(* a text delimited by two characters outside the stripped class is left alone *)
Lemma strip_delimited f t a : f t = false -> strip f (String t (a ++ String t "")) = String t (a ++ String t "").
Proof.
  intros Ht. unfold strip. rewrite lstrip_head by exact Ht.
  change (String t (a ++ String t "")) with ((String t a) ++ String t "").
  apply rstrip_snoc; exact Ht.
Qed.

(* stripping the delimiter itself from `t a t` leaves a, when a does not contain t *)
Lemma strip_ticks a :
  has_char ch_tick a = false ->
  strip (fun c => Ascii.eqb c ch_tick) (String ch_tick (a ++ String ch_tick "")) = a.
Proof.
  intros Ha. unfold strip.
  assert (HA : str_all (fun c => negb (Ascii.eqb c ch_tick)) a = true).
  { rewrite has_char_all in Ha. apply negb_false_iff in Ha. exact Ha. }
  cbn [lstrip]. rewrite Ascii.eqb_refl.
  destruct a as [|c r].
  - cbn. reflexivity.
  - cbn [append]. cbn [str_all] in HA. apply andb_true_iff in HA as [H1 H2]. apply negb_true_iff in H1.
    cbn [lstrip]. rewrite H1.
    change (String c (r ++ String ch_tick "")) with ((String c r) ++ String ch_tick "").
    rewrite rstrip_snoc_f by apply Ascii.eqb_refl.
    apply rstrip_none. cbn [str_all]. rewrite H1, H2. reflexivity.
Qed.

(* ---- str.split ---- *)
Lemma split_on_none c s : has_char c s = false -> split_on c s = [s].
Proof.
  induction s as [|a r IH]; cbn; [reflexivity|].
  intros E. apply orb_false_iff in E as [E1 E2]. rewrite E1, (IH E2). reflexivity.
Qed.

Lemma split_on_nonempty c s : split_on c s <> [].
Proof. induction s as [|a r IH]; cbn; [discriminate|]. destruct (Ascii.eqb a c); [discriminate|]. destruct (split_on c r); discriminate. Qed.

Lemma split_on_app c a b : has_char c a = false -> split_on c (a ++ String c b) = a :: split_on c b.
Proof.
  induction a as [|x a IH]; cbn.
  - intros _. rewrite Ascii.eqb_refl. reflexivity.
  - intros E. apply orb_false_iff in E as [E1 E2]. rewrite E1, (IH E2). reflexivity.
Qed.

(* ================================================================== int(str(z)) = z *)
Definition is_digit (c : ascii) : bool := match digit_val c with Some _ => true | None => false end.
Definition numeric_char (c : ascii) : bool := is_digit c || Ascii.eqb c "-".

Lemma ascii_sweep (P : ascii -> bool) :
  forallb (fun n => P (ascii_of_nat n)) (seq 0 256) = true -> forall c, P c = true.
Proof.
  intros H c. rewrite forallb_forall in H.
  rewrite <- (ascii_nat_embedding c). apply H. apply in_seq.
  pose proof (nat_ascii_bounded c). lia.
Qed.

Lemma numeric_not_space c : numeric_char c = true -> is_py_space c = false.
Proof.
  revert c. assert (H : forall c, (negb (numeric_char c) || negb (is_py_space c)) = true).
  { apply ascii_sweep. vm_compute. reflexivity. }
  intros c Hc. specialize (H c). rewrite Hc in H. cbn in H. apply negb_true_iff in H. exact H.
Qed.

Lemma numeric_not_special c : numeric_char c = true ->
  Ascii.eqb c ch_colon = false /\ Ascii.eqb c ch_tick = false /\ Ascii.eqb c ch_close = false /\ Ascii.eqb c ch_open = false.
Proof.
  revert c.
  assert (H : forall c, (negb (numeric_char c) || (negb (Ascii.eqb c ch_colon) && negb (Ascii.eqb c ch_tick) && negb (Ascii.eqb c ch_close) && negb (Ascii.eqb c ch_open))) = true).
  { apply ascii_sweep. vm_compute. reflexivity. }
  intros c Hc. specialize (H c). rewrite Hc in H. cbn [negb orb] in H.
  repeat (apply andb_true_iff in H as [H ?]). repeat split; apply negb_true_iff; assumption.
Qed.

Fixpoint hz (d : uint) (acc : Z) : Z :=
  match d with
  | Nil => acc
  | D0 l => hz l (10 * acc + 0) | D1 l => hz l (10 * acc + 1) | D2 l => hz l (10 * acc + 2)
  | D3 l => hz l (10 * acc + 3) | D4 l => hz l (10 * acc + 4) | D5 l => hz l (10 * acc + 5)
  | D6 l => hz l (10 * acc + 6) | D7 l => hz l (10 * acc + 7) | D8 l => hz l (10 * acc + 8)
  | D9 l => hz l (10 * acc + 9)
  end.

Lemma digits_acc_uint d acc : digits_acc (NilEmpty.string_of_uint d) acc true = Some (hz d acc).
Proof. revert acc; induction d; intros acc; cbn [NilEmpty.string_of_uint digits_acc hz]; try reflexivity; cbn; apply IHd. Qed.

Lemma digits_acc_uint_start d acc : d <> Nil -> digits_acc (NilEmpty.string_of_uint d) acc false = Some (hz d acc).
Proof. destruct d; intros H; try congruence; cbn; apply digits_acc_uint. Qed.

Lemma hz_pos d p : hz d (Zpos p) = Zpos (Pos.of_uint_acc d p).
Proof.
  revert p; induction d; intros p; cbn [hz Pos.of_uint_acc]; try reflexivity;
    match goal with |- hz _ ?a = _ => match goal with |- _ = Zpos (Pos.of_uint_acc _ ?q) => replace a with (Zpos q) by lia end end;
    apply IHd.
Qed.

Lemma hz_zero d : hz d 0 = Z.of_uint d.
Proof.
  unfold Z.of_uint. induction d; cbn [hz Pos.of_uint]; try reflexivity; try exact IHd;
    match goal with |- hz _ ?a = _ => let v := eval vm_compute in a in change a with v end;
    rewrite hz_pos; reflexivity.
Qed.

Lemma uint_string_numeric d : str_all numeric_char (NilEmpty.string_of_uint d) = true.
Proof. induction d; cbn [NilEmpty.string_of_uint str_all]; try reflexivity; rewrite IHd; reflexivity. Qed.

Lemma Z_to_string_numeric z : str_all numeric_char (Z_to_string z) = true.
Proof.
  unfold Z_to_string, NilZero.string_of_int.
  destruct (Z.to_int z) as [d|d]; unfold NilZero.string_of_uint.
  - destruct d; try reflexivity; apply (uint_string_numeric (_ _)).
  - cbn [str_all]. destruct d; try reflexivity; apply (uint_string_numeric (_ _)).
Qed.

Lemma numeric_no_space s : str_all numeric_char s = true -> str_all (fun c => negb (is_py_space c)) s = true.
Proof. apply str_all_impl. intros c H. apply negb_true_iff. apply numeric_not_space; exact H. Qed.

Lemma numeric_no_special s : str_all numeric_char s = true ->
  has_char ch_colon s = false /\ has_char ch_tick s = false /\ has_char ch_close s = false /\ has_char ch_open s = false.
Proof.
  intros H. repeat split; rewrite has_char_all; apply negb_false_iff; apply (str_all_impl numeric_char); try exact H;
    intros c Hc; apply negb_true_iff; destruct (numeric_not_special c Hc) as (A & B & C & D); assumption.
Qed.

Lemma digits_nilzero d : digits_acc (NilZero.string_of_uint d) 0 false = Some (hz d 0).
Proof.
  destruct d; [reflexivity| | | | | | | | | |]; cbn [NilZero.string_of_uint];
    match goal with |- digits_acc (NilEmpty.string_of_uint ?u) _ _ = _ => apply (digits_acc_uint_start u 0); discriminate end.
Qed.

Lemma parse_unsigned d :
  match NilZero.string_of_uint d with
  | String "+" r => digits_acc r 0 false
  | String "-" r => option_map Z.opp (digits_acc r 0 false)
  | t => digits_acc t 0 false
  end = Some (hz d 0).
Proof.
  destruct d; [reflexivity| | | | | | | | | |];
    cbn [NilZero.string_of_uint NilEmpty.string_of_uint];
    match goal with |- _ = Some (hz ?u 0) => exact (digits_acc_uint_start u 0 ltac:(discriminate)) end.
Qed.

Theorem parse_pyint_Z_to_string z : parse_pyint (Z_to_string z) = Some z.
Proof.
  unfold parse_pyint. rewrite strip_none by (apply numeric_no_space, Z_to_string_numeric).
  rewrite <- (DecimalZ.of_to z) at 2.
  unfold Z_to_string, NilZero.string_of_int, Z.of_int.
  destruct (Z.to_int z) as [d|d].
  - rewrite <- hz_zero. apply parse_unsigned.
  - rewrite <- hz_zero. rewrite digits_nilzero. reflexivity.
Qed.

Lemma Z_to_string_nonempty z : Z_to_string z <> "".
Proof.
  intros E. pose proof (parse_pyint_Z_to_string z) as H. rewrite E in H. vm_compute in H. discriminate.
Qed.

Lemma strip_Z_to_string z : strip is_py_space (Z_to_string z) = Z_to_string z.
Proof. apply strip_none, numeric_no_space, Z_to_string_numeric. Qed.

(* ================================================================== the regular expression *)
Lemma space_not_close c : is_re_space c = true -> Ascii.eqb c ch_close = false.
Proof.
  revert c. assert (H : forall c, (negb (is_re_space c) || negb (Ascii.eqb c ch_close)) = true).
  { apply ascii_sweep. vm_compute. reflexivity. }
  intros c Hc. specialize (H c). rewrite Hc in H. cbn in H. apply negb_true_iff in H. exact H.
Qed.

Lemma close_after_ws_ws ws post : str_all is_re_space ws = true -> close_after_ws (ws ++ String ch_close post) = Some post.
Proof.
  induction ws as [|c r IH]; cbn [append close_after_ws str_all].
  - intros _. rewrite Ascii.eqb_refl. reflexivity.
  - intros E. apply andb_true_iff in E as [E1 E2]. rewrite (space_not_close c E1), E1. apply IH; exact E2.
Qed.

(* the shape of a bracket's content for which the lazy group is the whole content:
   non-empty, no closing bracket, no newline, last character not whitespace *)
Fixpoint wf_tail (s : string) : bool :=
  match s with
  | "" => false
  | String c r => negb (Ascii.eqb c ch_close) && negb (Ascii.eqb c ch_nl) &&
                  match r with "" => negb (is_re_space c) | _ => wf_tail r end
  end.
Definition wf_group (g : string) : bool :=
  match g with "" => false | String c _ => negb (is_re_space c) && wf_tail g end.

Lemma wf_tail_cons c r : wf_tail (String c r) = true ->
  Ascii.eqb c ch_close = false /\ Ascii.eqb c ch_nl = false /\
  match r with "" => is_re_space c = false | _ => wf_tail r = true end.
Proof.
  cbn [wf_tail]. intros E. apply andb_true_iff in E as [E E3]. apply andb_true_iff in E as [E1 E2].
  apply negb_true_iff in E1, E2. repeat split; try assumption.
  destruct r; [apply negb_true_iff in E3|]; exact E3.
Qed.

Lemma close_after_ws_wf s t : wf_tail s = true -> close_after_ws (s ++ t) = None.
Proof.
  induction s as [|c r IH]; [discriminate|].
  intros W. apply wf_tail_cons in W as (E1 & E2 & E3).
  cbn [append close_after_ws]. rewrite E1.
  destruct r as [|c' r'].
  - rewrite E3. reflexivity.
  - destruct (is_re_space c); [apply IH; exact E3|reflexivity].
Qed.

Lemma lazy_group_wf g ws post :
  wf_tail g = true -> str_all is_re_space ws = true ->
  lazy_group (g ++ ws ++ String ch_close post) = Some (g, post).
Proof.
  intros W Hws. induction g as [|c r IH]; [discriminate|].
  apply wf_tail_cons in W as (E1 & E2 & E3).
  cbn [append lazy_group]. rewrite E2.
  destruct r as [|c' r'].
  - cbn [append]. rewrite close_after_ws_ws by exact Hws. reflexivity.
  - rewrite close_after_ws_wf by exact E3. rewrite IH by exact E3. reflexivity.
Qed.

Lemma match_bracket_wf ws1 g ws2 post :
  str_all is_re_space ws1 = true -> wf_group g = true -> str_all is_re_space ws2 = true ->
  match_bracket (ws1 ++ g ++ ws2 ++ String ch_close post) = BGroup g post.
Proof.
  intros H1 W H2. unfold match_bracket. rewrite lstrip_all by exact H1.
  destruct g as [|c r]; [discriminate|]. cbn [wf_group] in W. apply andb_true_iff in W as [Wc Wt].
  apply negb_true_iff in Wc. cbn [append]. rewrite lstrip_head by exact Wc.
  change (String c (r ++ ws2 ++ String ch_close post)) with ((String c r) ++ ws2 ++ String ch_close post).
  rewrite lazy_group_wf by assumption. reflexivity.
Qed.

(* ---- the match always consumes text: fuel = length suffices ---- *)
Lemma close_after_ws_len s rest : close_after_ws s = Some rest -> (String.length rest < String.length s)%nat.
Proof.
  revert rest; induction s as [|c r IH]; intros rest; cbn [close_after_ws]; [discriminate|].
  destruct (Ascii.eqb c ch_close); [intros H; inversion H; subst; cbn; lia|].
  destruct (is_re_space c); [|discriminate]. intros H. apply IH in H. cbn. lia.
Qed.

Lemma lazy_group_len s g rest : lazy_group s = Some (g, rest) -> (String.length rest < String.length s)%nat.
Proof.
  revert g rest; induction s as [|c r IH]; intros g rest; cbn [lazy_group]; [discriminate|].
  destruct (Ascii.eqb c ch_nl); [discriminate|].
  destruct (close_after_ws r) as [rest'|] eqn:E.
  - intros H; inversion H; subst. apply close_after_ws_len in E. cbn. lia.
  - destruct (lazy_group r) as [[g' rest']|] eqn:E2; [|discriminate].
    intros H; inversion H; subst. specialize (IH _ _ eq_refl). cbn. lia.
Qed.

Lemma lstrip_len f s : (String.length (lstrip f s) <= String.length s)%nat.
Proof. induction s as [|c r IH]; cbn [lstrip]; [lia|]. destruct (f c); cbn; lia. Qed.

Lemma match_bracket_len r g rest : match_bracket r = BGroup g rest -> (String.length rest < String.length r)%nat.
Proof.
  unfold match_bracket. destruct (lazy_group (lstrip is_re_space r)) as [[g' rest']|] eqn:E.
  - intros H; inversion H; subst. apply lazy_group_len in E. pose proof (lstrip_len is_re_space r). lia.
  - destruct (lstrip is_re_space r) as [|c rest']; [discriminate|]. destruct (Ascii.eqb c ch_close); discriminate.
Qed.

(* ---- the shape of every match: `[` ws1 g ws2 `]` (group) or `[` ws `]` (no group); match.group(0) ---- *)
Lemma sprefix_app a b : sprefix (String.length a) (a ++ b) = a.
Proof. induction a as [|c r IH]; cbn [String.length append sprefix]; [destruct b; reflexivity|]. rewrite IH. reflexivity. Qed.

Lemma matched_text_app m rest : matched_text (m ++ rest) rest = String ch_open m.
Proof.
  unfold matched_text. rewrite slength_app. replace (String.length m + String.length rest - String.length rest)%nat with (String.length m) by lia.
  rewrite sprefix_app. reflexivity.
Qed.

Lemma close_after_ws_shape s rest : close_after_ws s = Some rest ->
  exists ws, s = ws ++ String ch_close rest /\ str_all is_re_space ws = true.
Proof.
  revert rest; induction s as [|c r IH]; intros rest; cbn [close_after_ws]; [discriminate|].
  destruct (Ascii.eqb c ch_close) eqn:E.
  - intros H; inversion H; subst. apply Ascii.eqb_eq in E; subst c. exists "". split; reflexivity.
  - destruct (is_re_space c) eqn:Sp; [|discriminate]. intros H. destruct (IH _ H) as (ws & -> & Hws).
    exists (String c ws). split; [reflexivity|]. cbn [str_all]. rewrite Sp, Hws. reflexivity.
Qed.

Lemma lazy_group_shape s g rest : lazy_group s = Some (g, rest) ->
  exists ws, s = g ++ ws ++ String ch_close rest /\ str_all is_re_space ws = true.
Proof.
  revert g rest; induction s as [|c r IH]; intros g rest; cbn [lazy_group]; [discriminate|].
  destruct (Ascii.eqb c ch_nl); [discriminate|].
  destruct (close_after_ws r) as [rest'|] eqn:E.
  - intros H; inversion H; subst. destruct (close_after_ws_shape _ _ E) as (ws & -> & Hws). exists ws. split; [reflexivity|exact Hws].
  - destruct (lazy_group r) as [[g' rest']|] eqn:E2; [|discriminate].
    intros H; inversion H; subst. destruct (IH _ _ eq_refl) as (ws & -> & Hws). exists ws. split; [reflexivity|exact Hws].
Qed.

Lemma lstrip_shape_ws f s : exists w, s = w ++ lstrip f s /\ str_all f w = true.
Proof.
  induction s as [|c r (w & E & H)]; [exists ""; split; reflexivity|].
  cbn [lstrip]. destruct (f c) eqn:Fc.
  - exists (String c w). split; [cbn [append]; rewrite <- E; reflexivity|cbn [str_all]; rewrite Fc, H; reflexivity].
  - exists "". split; reflexivity.
Qed.

Lemma match_bracket_group_shape r g rest : match_bracket r = BGroup g rest ->
  exists ws1 ws2, r = ws1 ++ g ++ ws2 ++ String ch_close rest /\ str_all is_re_space ws1 = true /\ str_all is_re_space ws2 = true.
Proof.
  unfold match_bracket. destruct (lstrip_shape_ws is_re_space r) as (ws1 & E & H1).
  remember (lstrip is_re_space r) as t eqn:Lt.
  destruct (lazy_group t) as [[g' rest']|] eqn:L.
  - intros H; inversion H; subst g' rest'. destruct (lazy_group_shape _ _ _ L) as (ws2 & E2 & H2).
    exists ws1, ws2. split; [rewrite E, E2; reflexivity|split; assumption].
  - destruct t as [|c rest']; [discriminate|]. destruct (Ascii.eqb c ch_close); discriminate.
Qed.

Lemma match_bracket_nogroup_shape r rest : match_bracket r = BNoGroup rest ->
  exists ws, r = ws ++ String ch_close rest /\ str_all is_re_space ws = true.
Proof.
  unfold match_bracket. destruct (lstrip_shape_ws is_re_space r) as (ws1 & E & H1).
  remember (lstrip is_re_space r) as t eqn:L.
  destruct (lazy_group t) as [[g' rest']|]; [discriminate|].
  destruct t as [|c rest']; [discriminate|].
  destruct (Ascii.eqb c ch_close) eqn:Ec; [|discriminate]. intros H; inversion H; subst rest'.
  apply Ascii.eqb_eq in Ec; subst c. exists ws1. split; assumption.
Qed.

Lemma re_space_no_tick ws : str_all is_re_space ws = true -> has_char ch_tick ws = false.
Proof. intros H. apply (no_char_of_all is_re_space); [vm_compute; reflexivity|exact H]. Qed.

(* group(0) of a match with a group: `[` ws1 g ws2 `]`; it contains a backtick exactly when the group does *)
Lemma matched_text_group r g rest : match_bracket r = BGroup g rest ->
  exists ws1 ws2, matched_text r rest = String ch_open (ws1 ++ g ++ ws2 ++ String ch_close "") /\
                  str_all is_re_space ws1 = true /\ str_all is_re_space ws2 = true /\
                  has_char ch_tick (matched_text r rest) = has_char ch_tick g.
Proof.
  intros M. destruct (match_bracket_group_shape r g rest M) as (ws1 & ws2 & E & H1 & H2).
  exists ws1, ws2.
  assert (EM : matched_text r rest = String ch_open (ws1 ++ g ++ ws2 ++ String ch_close "")).
  { rewrite E. replace (ws1 ++ g ++ ws2 ++ String ch_close rest) with ((ws1 ++ g ++ ws2 ++ String ch_close "") ++ rest)
      by (rewrite !sapp_assoc; reflexivity). apply matched_text_app. }
  split; [exact EM|]. split; [exact H1|]. split; [exact H2|].
  rewrite EM. cbn [has_char]. rewrite !has_char_app, (re_space_no_tick ws1 H1), (re_space_no_tick ws2 H2).
  cbn [has_char]. replace (Ascii.eqb ch_open ch_tick) with false by reflexivity.
  replace (Ascii.eqb ch_close ch_tick) with false by reflexivity. rewrite !orb_false_r. reflexivity.
Qed.

(* group(0) of a match without a group: `[` ws `]`: never a backtick *)
Lemma matched_text_nogroup r rest : match_bracket r = BNoGroup rest ->
  exists ws, matched_text r rest = String ch_open (ws ++ String ch_close "") /\ str_all is_re_space ws = true /\
             has_char ch_tick (matched_text r rest) = false.
Proof.
  intros M. destruct (match_bracket_nogroup_shape r rest M) as (ws & E & H).
  exists ws.
  assert (EM : matched_text r rest = String ch_open (ws ++ String ch_close "")).
  { rewrite E. replace (ws ++ String ch_close rest) with ((ws ++ String ch_close "") ++ rest) by (rewrite sapp_assoc; reflexivity).
    apply matched_text_app. }
  split; [exact EM|]. split; [exact H|].
  rewrite EM. cbn [has_char]. rewrite has_char_app, (re_space_no_tick ws H). reflexivity.
Qed.

Lemma match_bracket_nogroup_len r rest : match_bracket r = BNoGroup rest -> (String.length rest < String.length r)%nat.
Proof.
  intros M. destruct (match_bracket_nogroup_shape r rest M) as (ws & -> & _). rewrite slength_app. cbn [String.length]. lia.
Qed.

Lemma omap_ext {A B} (f g : A -> B) o : (forall a, f a = g a) -> omap f o = omap g o.
Proof. intros H. destruct o; cbn; [rewrite H|]; reflexivity. Qed.

Lemma omap_omap {A B C} (f : A -> B) (g : B -> C) o : omap g (omap f o) = omap (fun a => g (f a)) o.
Proof. destruct o; reflexivity. Qed.

Section RewriteFacts.
  Variable has : label -> bool.
  Variable locate : label -> outcome loc.
  Notation resolve_index := (resolve_index has locate).
  Notation render_part := (render_part has locate).
  Notation render_item := (render_item has locate).
  Notation resolve_group := (resolve_group has locate).
  Notation rewrite_f := (rewrite_f has locate).
  Notation rewrite := (rewrite has locate).
  Notation eval_text := (eval_text has locate).

  Lemma rewrite_f_step f c r :
    rewrite_f (S f) (String c r) =
      if Ascii.eqb c ch_open then
        match match_bracket r with
        | BGroup g rest =>
            if negb (has_char ch_tick (matched_text r rest)) then omap (fun u => matched_text r rest ++ u) (rewrite_f f rest)
            else match resolve_group g with
                 | Raise e => Raise e
                 | Ret t => omap (fun u => t ++ u) (rewrite_f f rest)
                 end
        | BNoGroup rest =>
            if negb (has_char ch_tick (matched_text r rest)) then omap (fun u => matched_text r rest ++ u) (rewrite_f f rest)
            else Raise AttributeError
        | BNoMatch => omap (String c) (rewrite_f f r)
        end
      else omap (String c) (rewrite_f f r).
  Proof. reflexivity. Qed.

  Lemma rewrite_f_fuel f1 : forall f2 s,
    (String.length s < f1)%nat -> (String.length s < f2)%nat -> rewrite_f f1 s = rewrite_f f2 s.
  Proof.
    induction f1 as [|f1 IH]; intros f2 s H1 H2; [lia|].
    destruct f2 as [|f2]; [lia|].
    destruct s as [|c r]; [reflexivity|]. cbn [String.length] in H1, H2.
    rewrite !rewrite_f_step.
    destruct (Ascii.eqb c ch_open).
    - destruct (match_bracket r) as [g rest|rest|] eqn:E.
      + apply match_bracket_len in E. rewrite (IH f2 rest) by lia. reflexivity.
      + apply match_bracket_nogroup_len in E. rewrite (IH f2 rest) by lia. reflexivity.
      + f_equal. apply IH; lia.
    - f_equal. apply IH; lia.
  Qed.

  Lemma rewrite_unfold s : rewrite s = rewrite_f (S (String.length s)) s.
  Proof. reflexivity. Qed.

  Lemma rewrite_nil : rewrite "" = Ret "".
  Proof. reflexivity. Qed.

  Lemma rewrite_cons_plain c r : Ascii.eqb c ch_open = false -> rewrite (String c r) = omap (String c) (rewrite r).
  Proof.
    intros E. rewrite (rewrite_unfold (String c r)). cbn [String.length]. rewrite rewrite_f_step, E. reflexivity.
  Qed.

  (* a match with a group: unchanged when it holds no backtick (fix 24bdfbd), through the callback otherwise *)
  Lemma rewrite_open_group r g rest :
    match_bracket r = BGroup g rest ->
    rewrite (String ch_open r) =
      if has_char ch_tick g
      then match resolve_group g with Raise e => Raise e | Ret t => omap (fun u => t ++ u) (rewrite rest) end
      else omap (fun u => matched_text r rest ++ u) (rewrite rest).
  Proof.
    intros E. rewrite (rewrite_unfold (String ch_open r)). cbn [String.length]. rewrite rewrite_f_step.
    rewrite Ascii.eqb_refl, E.
    destruct (matched_text_group r g rest E) as (ws1 & ws2 & _ & _ & _ & HT). rewrite HT.
    pose proof (match_bracket_len _ _ _ E) as L.
    assert (F : rewrite_f (S (String.length r)) rest = rewrite rest) by (rewrite (rewrite_unfold rest); apply rewrite_f_fuel; lia).
    rewrite F. destruct (has_char ch_tick g); reflexivity.
  Qed.

  (* `[ws]`: group(1) is None, but group(0) holds no backtick, so the match is returned unchanged (no AttributeError any more) *)
  Lemma rewrite_open_nogroup r rest : match_bracket r = BNoGroup rest ->
    rewrite (String ch_open r) = omap (fun u => matched_text r rest ++ u) (rewrite rest).
  Proof.
    intros E. rewrite (rewrite_unfold (String ch_open r)). cbn [String.length]. rewrite rewrite_f_step.
    rewrite Ascii.eqb_refl, E.
    destruct (matched_text_nogroup r rest E) as (ws & _ & _ & HT). rewrite HT. cbn [negb].
    pose proof (match_bracket_nogroup_len _ _ E) as L.
    rewrite (rewrite_unfold rest). f_equal. apply rewrite_f_fuel; lia.
  Qed.

  Lemma rewrite_open_nomatch r : match_bracket r = BNoMatch -> rewrite (String ch_open r) = omap (String ch_open) (rewrite r).
  Proof.
    intros E. rewrite (rewrite_unfold (String ch_open r)). cbn [String.length]. rewrite rewrite_f_step.
    rewrite Ascii.eqb_refl, E. reflexivity.
  Qed.

  (* text without an opening bracket is copied *)
  Theorem rewrite_no_bracket s : has_char ch_open s = false -> rewrite s = Ret s.
  Proof.
    induction s as [|c r IH]; [reflexivity|]. cbn [has_char]. intros E. apply orb_false_iff in E as [E1 E2].
    rewrite rewrite_cons_plain by exact E1. rewrite (IH E2). reflexivity.
  Qed.

  Theorem rewrite_prefix pre s : has_char ch_open pre = false -> rewrite (pre ++ s) = omap (fun u => pre ++ u) (rewrite s).
  Proof.
    induction pre as [|c r IH]; cbn [append has_char].
    - intros _. destruct (rewrite s); reflexivity.
    - intros E. apply orb_false_iff in E as [E1 E2]. rewrite rewrite_cons_plain by exact E1.
      rewrite (IH E2). rewrite omap_omap. reflexivity.
  Qed.

  (* a well-formed bracket WITH a backtick: its content goes through the callback, the text after it is processed next *)
  Theorem rewrite_bracket ws1 g ws2 post :
    str_all is_re_space ws1 = true -> wf_group g = true -> str_all is_re_space ws2 = true ->
    has_char ch_tick g = true ->
    rewrite (String ch_open (ws1 ++ g ++ ws2 ++ String ch_close post)) =
      match resolve_group g with Raise e => Raise e | Ret t => omap (fun u => t ++ u) (rewrite post) end.
  Proof.
    intros H1 W H2 HT. rewrite (rewrite_open_group _ g post (match_bracket_wf ws1 g ws2 post H1 W H2)). rewrite HT. reflexivity.
  Qed.

  (* a well-formed bracket WITHOUT a backtick: copied verbatim — brackets, inner whitespace and all *)
  Theorem rewrite_bracket_verbatim ws1 g ws2 post :
    str_all is_re_space ws1 = true -> wf_group g = true -> str_all is_re_space ws2 = true ->
    has_char ch_tick g = false ->
    rewrite (String ch_open (ws1 ++ g ++ ws2 ++ String ch_close post)) =
      omap (fun u => String ch_open (ws1 ++ g ++ ws2 ++ String ch_close "") ++ u) (rewrite post).
  Proof.
    intros H1 W H2 HT. rewrite (rewrite_open_group _ g post (match_bracket_wf ws1 g ws2 post H1 W H2)). rewrite HT.
    replace (ws1 ++ g ++ ws2 ++ String ch_close post) with ((ws1 ++ g ++ ws2 ++ String ch_close "") ++ post)
      by (rewrite !sapp_assoc; reflexivity).
    rewrite matched_text_app. reflexivity.
  Qed.

  (* `[` followed only by whitespace and `]`, with no later `]` on the line: copied verbatim (before the fix: AttributeError) *)
  Theorem rewrite_empty_bracket ws post :
    str_all is_re_space ws = true -> has_char ch_close post = false ->
    rewrite (String ch_open (ws ++ String ch_close post)) = omap (fun u => String ch_open (ws ++ String ch_close "") ++ u) (rewrite post).
  Proof.
    intros Hws Hp.
    assert (M : match_bracket (ws ++ String ch_close post) = BNoGroup post).
    { unfold match_bracket.
      rewrite lstrip_all by exact Hws. cbn [lstrip].
      replace (is_re_space ch_close) with false by (vm_compute; reflexivity).
      assert (L : forall s, has_char ch_close s = false -> lazy_group s = None /\ close_after_ws s = None).
      { induction s as [|c r IH]; [split; reflexivity|]. cbn [has_char]. intros E. apply orb_false_iff in E as [E1 E2].
        destruct (IH E2) as [I1 I2]. cbn [lazy_group close_after_ws]. rewrite E1, I1, I2.
        split; [destruct (Ascii.eqb c ch_nl); reflexivity|destruct (is_re_space c); reflexivity]. }
      destruct (L post Hp) as [L1 L2].
      cbn [lazy_group]. replace (Ascii.eqb ch_close ch_nl) with false by reflexivity.
      rewrite L2, L1. rewrite Ascii.eqb_refl. reflexivity. }
    rewrite (rewrite_open_nogroup _ post M).
    replace (ws ++ String ch_close post) with ((ws ++ String ch_close "") ++ post) by (rewrite sapp_assoc; reflexivity).
    rewrite matched_text_app. reflexivity.
  Qed.

  (* an expression without any backtick is a fixed point of the rewriter: EVERY string *)
  Lemma matched_text_tick_le r rest m : r = m ++ rest -> has_char ch_tick (String ch_open r) = false ->
    has_char ch_tick (matched_text r rest) = false /\ has_char ch_tick rest = false.
  Proof.
    intros -> H. rewrite matched_text_app. cbn [has_char] in *. rewrite has_char_app in H.
    apply orb_false_iff in H as [H0 H]. apply orb_false_iff in H as [Hm Hr]. rewrite H0, Hm. split; [reflexivity|exact Hr].
  Qed.

  Lemma matched_text_rest r rest m : r = m ++ rest -> matched_text r rest ++ rest = String ch_open r.
  Proof. intros ->. rewrite matched_text_app. reflexivity. Qed.

  Lemma rewrite_f_no_tick fuel : forall s, (String.length s < fuel)%nat -> has_char ch_tick s = false -> rewrite_f fuel s = Ret s.
  Proof.
    induction fuel as [|f IH]; intros s L H; [lia|].
    destruct s as [|c r]; [reflexivity|]. cbn [String.length] in L. rewrite rewrite_f_step.
    assert (Hr : has_char ch_tick r = false) by (cbn [has_char] in H; apply orb_false_iff in H; apply H).
    destruct (Ascii.eqb c ch_open) eqn:Eo.
    - apply Ascii.eqb_eq in Eo; subst c.
      destruct (match_bracket r) as [g rest|rest|] eqn:E.
      + destruct (match_bracket_group_shape r g rest E) as (ws1 & ws2 & Er & _ & _).
        assert (Er' : r = (ws1 ++ g ++ ws2 ++ String ch_close "") ++ rest) by (rewrite Er at 1; rewrite !sapp_assoc; reflexivity).
        destruct (matched_text_tick_le r rest _ Er' H) as [Hm Hrest]. rewrite Hm. cbn [negb].
        pose proof (match_bracket_len _ _ _ E). rewrite (IH rest) by (try lia; exact Hrest). cbn [omap].
        rewrite (matched_text_rest r rest _ Er'). reflexivity.
      + destruct (match_bracket_nogroup_shape r rest E) as (ws & Er & _).
        assert (Er' : r = (ws ++ String ch_close "") ++ rest) by (rewrite Er at 1; rewrite sapp_assoc; reflexivity).
        destruct (matched_text_tick_le r rest _ Er' H) as [Hm Hrest]. rewrite Hm. cbn [negb].
        pose proof (match_bracket_nogroup_len _ _ E). rewrite (IH rest) by (try lia; exact Hrest). cbn [omap].
        rewrite (matched_text_rest r rest _ Er'). reflexivity.
      + rewrite (IH r) by (try lia; exact Hr). reflexivity.
    - rewrite (IH r) by (try lia; exact Hr). reflexivity.
  Qed.

  Theorem rewrite_no_tick_identity s : has_char ch_tick s = false -> rewrite s = Ret s.
  Proof. intros H. unfold EvalIdx.rewrite. apply rewrite_f_no_tick; [lia|exact H]. Qed.

  (* ---- eval's first step ---- *)
  Theorem eval_text_no_backtick e : has_char ch_tick e = false -> eval_text e = Ret e.
  Proof. intros H. unfold EvalIdx.eval_text. rewrite H. reflexivity. Qed.

  Theorem eval_text_backtick e : has_char ch_tick e = true -> eval_text e = rewrite e.
  Proof. intros H. unfold EvalIdx.eval_text. rewrite H. reflexivity. Qed.

  (* ================================================================ the callback *)
  Definition bt (a : string) : string := String ch_tick (a ++ String ch_tick "").     (* `a` *)

  Lemma bt_facts a : has_char ch_colon a = false ->
    has_char ch_tick (bt a) = true /\ has_char ch_colon (bt a) = false /\ String.eqb (bt a) "" = false /\
    strip is_py_space (bt a) = bt a.
  Proof.
    intros Ha. unfold bt. split; [reflexivity|]. split; [|split; [reflexivity|]].
    - cbn [has_char]. rewrite has_char_app. cbn [has_char]. rewrite Ha. reflexivity.
    - apply strip_delimited. vm_compute. reflexivity.
  Qed.

  (* how a backticked label is looked up: as a string first, then cast to int *)
  Definition label_resolves (a : string) (l : loc) : Prop :=
    (has (LStr a) = true /\ locate (LStr a) = Ret l) \/
    (has (LStr a) = false /\ exists z, parse_int_raw a = Some z /\ has (LInt z) = true /\ locate (LInt z) = Ret l).
  Definition label_missing (a : string) : Prop :=
    has (LStr a) = false /\ (parse_int_raw a = None \/ exists z, parse_int_raw a = Some z /\ has (LInt z) = false).

  Lemma resolve_index_bt a : has_char ch_tick a = false -> has_char ch_colon a = false ->
    resolve_index (bt a) =
      if has (LStr a) then locate (LStr a)
      else match parse_int_raw a with
           | None => Raise KeyError
           | Some z => if has (LInt z) then locate (LInt z) else Raise KeyError
           end.
  Proof.
    intros Ht Hc. destruct (bt_facts a Hc) as (B1 & B2 & B3 & B4).
    unfold EvalIdx.resolve_index. rewrite B1. cbn [negb]. rewrite B4.
    unfold bt. rewrite strip_ticks by exact Ht. reflexivity.
  Qed.

  Lemma resolve_index_resolves a l : has_char ch_tick a = false -> has_char ch_colon a = false ->
    label_resolves a l -> resolve_index (bt a) = Ret l.
  Proof.
    intros Ht Hc R. rewrite resolve_index_bt by assumption.
    destruct R as [[H1 H2]|[H1 (z & P & H2 & H3)]]; rewrite H1; [exact H2|]. rewrite P, H2. exact H3.
  Qed.

  Lemma resolve_index_missing a : has_char ch_tick a = false -> has_char ch_colon a = false ->
    label_missing a -> resolve_index (bt a) = Raise KeyError.
  Proof.
    intros Ht Hc [H1 M]. rewrite resolve_index_bt by assumption. rewrite H1.
    destruct M as [P|(z & P & H2)]; rewrite P; [reflexivity|]. rewrite H2. reflexivity.
  Qed.

  Lemma resolve_index_plain p : has_char ch_tick p = false ->
    resolve_index p = match parse_pyint (strip is_py_space p) with Some z => Ret (LocI PyInt z) | None => Raise ValueError end.
  Proof. intros H. unfold EvalIdx.resolve_index. rewrite H. reflexivity. Qed.

  Lemma render_part_plain p is_stop : has_char ch_tick p = false -> String.eqb p "" = false ->
    render_part p is_stop =
      match parse_pyint (strip is_py_space p) with
      | Some z => Ret (Z_to_string (if is_stop then z + 1 else z))
      | None => Raise ValueError
      end.
  Proof.
    intros H E. unfold EvalIdx.render_part. rewrite E, resolve_index_plain by exact H.
    destruct (parse_pyint (strip is_py_space p)); [|reflexivity]. destruct is_stop; reflexivity.
  Qed.

  Lemma render_part_empty is_stop : render_part "" is_stop = Ret "".
  Proof. reflexivity. Qed.

  Lemma render_part_bt a l is_stop : has_char ch_tick a = false -> has_char ch_colon a = false ->
    label_resolves a l ->
    render_part (bt a) is_stop = Ret (Z_to_string (snd (if is_stop then bump (stop_of l) else start_of l))).
  Proof.
    intros Ht Hc R. destruct (bt_facts a Hc) as (B1 & B2 & B3 & B4).
    unfold EvalIdx.render_part. rewrite B3, (resolve_index_resolves a l Ht Hc R). reflexivity.
  Qed.

  Lemma render_item_tick p is_stop : has_char ch_tick p = true -> render_item p is_stop = render_part p is_stop.
  Proof. intros H. unfold EvalIdx.render_item. rewrite H. reflexivity. Qed.
  Lemma render_item_plain p is_stop : has_char ch_tick p = false -> render_item p is_stop = Ret p.
  Proof. intros H. unfold EvalIdx.render_item. rewrite H. reflexivity. Qed.

  (* shapes of group(1) *)
  Lemma resolve_group_single p : has_char ch_colon p = false ->
    resolve_group p = omap (fun l => "[" ++ str_loc l ++ "]") (resolve_index p).
  Proof. intros H. unfold EvalIdx.resolve_group. rewrite split_on_none by exact H. reflexivity. Qed.

  Lemma resolve_group_slice2 pa pb : has_char ch_colon pa = false -> has_char ch_colon pb = false ->
    resolve_group (pa ++ String ch_colon pb) =
      match render_item (strip is_py_space pa) false with
      | Raise e => Raise e
      | Ret a => match render_item (strip is_py_space pb) true with
                 | Raise e => Raise e
                 | Ret b => Ret ("[" ++ a ++ ":" ++ b ++ ":" ++ "" ++ "]")
                 end
      end.
  Proof.
    intros Ha Hb. unfold EvalIdx.resolve_group. rewrite split_on_app by exact Ha. rewrite split_on_none by exact Hb.
    reflexivity.
  Qed.

  Lemma resolve_group_slice3 pa pb ps :
    has_char ch_colon pa = false -> has_char ch_colon pb = false -> has_char ch_colon ps = false ->
    resolve_group (pa ++ String ch_colon (pb ++ String ch_colon ps)) =
      match render_item (strip is_py_space pa) false with
      | Raise e => Raise e
      | Ret a => match render_item (strip is_py_space pb) true with
                 | Raise e => Raise e
                 | Ret b => Ret ("[" ++ a ++ ":" ++ b ++ ":" ++ strip is_py_space ps ++ "]")
                 end
      end.
  Proof.
    intros Ha Hb Hs. unfold EvalIdx.resolve_group. rewrite split_on_app by exact Ha.
    rewrite split_on_app by exact Hb. rewrite split_on_none by exact Hs. reflexivity.
  Qed.

  (* more than three items: ValueError, whatever the items are *)
  Lemma resolve_group_too_many pa pb pc rest :
    has_char ch_colon pa = false -> has_char ch_colon pb = false -> has_char ch_colon pc = false ->
    resolve_group (pa ++ String ch_colon (pb ++ String ch_colon (pc ++ String ch_colon rest))) = Raise ValueError.
  Proof.
    intros Ha Hb Hc. unfold EvalIdx.resolve_group. rewrite split_on_app by exact Ha.
    rewrite split_on_app by exact Hb. rewrite split_on_app by exact Hc.
    pose proof (split_on_nonempty ch_colon rest) as NE. destruct (split_on ch_colon rest); [congruence|]. reflexivity.
  Qed.
End RewriteFacts.

(* ================================================================== strip is idempotent; int() ignores surrounding whitespace *)
Lemma rstrip_idem f s : rstrip f (rstrip f s) = rstrip f s.
Proof.
  induction s as [|a r IH]; [reflexivity|]. cbn [rstrip].
  destruct (rstrip f r) as [|b r'] eqn:E.
  - destruct (f a) eqn:Fa; [reflexivity|]. cbn [rstrip]. rewrite Fa. reflexivity.
  - change (rstrip f (String a (String b r'))) with
      (match rstrip f (String b r') with "" => if f a then "" else String a "" | r'' => String a r'' end).
    rewrite IH. reflexivity.
Qed.

Lemma lstrip_rstrip_head f a r : f a = false -> lstrip f (rstrip f (String a r)) = rstrip f (String a r).
Proof.
  intros Fa. cbn [rstrip]. destruct (rstrip f r); [rewrite Fa|]; cbn [lstrip]; rewrite Fa; reflexivity.
Qed.

Lemma lstrip_shape f s : lstrip f s = "" \/ exists a r, lstrip f s = String a r /\ f a = false.
Proof.
  induction s as [|c r IH]; [left; reflexivity|]. cbn [lstrip]. destruct (f c) eqn:E; [exact IH|].
  right. exists c, r. split; [reflexivity|exact E].
Qed.

Lemma strip_idem f s : strip f (strip f s) = strip f s.
Proof.
  unfold strip. destruct (lstrip_shape f s) as [E|(a & r & E & Fa)]; rewrite E.
  - reflexivity.
  - rewrite lstrip_rstrip_head by exact Fa. apply rstrip_idem.
Qed.

Lemma parse_pyint_strip s : parse_pyint (strip is_py_space s) = parse_pyint s.
Proof. unfold parse_pyint. rewrite strip_idem. reflexivity. Qed.

Lemma opt_int_strip s : opt_int (strip is_py_space s) = opt_int s.
Proof. unfold opt_int. rewrite strip_idem, parse_pyint_strip. reflexivity. Qed.

(* ================================================================== Python's reading of the rewritten subscripts *)
Definition ropt (o : option Z) : string := match o with None => "" | Some z => Z_to_string z end.

Lemma Z_to_string_eqb_empty z : String.eqb (Z_to_string z) "" = false.
Proof.
  destruct (String.eqb (Z_to_string z) "") eqn:E; [|reflexivity].
  apply String.eqb_eq in E. destruct (Z_to_string_nonempty z E).
Qed.

Lemma opt_int_ropt o : opt_int (ropt o) = Some o.
Proof.
  destruct o as [z|]; unfold opt_int, ropt; [|reflexivity].
  rewrite strip_Z_to_string, Z_to_string_eqb_empty, parse_pyint_Z_to_string. reflexivity.
Qed.

Lemma ropt_no_colon o : has_char ch_colon (ropt o) = false.
Proof. destruct o as [z|]; [|reflexivity]. apply (numeric_no_special _ (Z_to_string_numeric z)). Qed.

Lemma index_sem_single n z : index_sem n (Z_to_string z) = option_map (fun p => [p]) (py_pos n z).
Proof.
  unfold index_sem. rewrite split_on_none by apply (numeric_no_special _ (Z_to_string_numeric z)).
  rewrite parse_pyint_Z_to_string. reflexivity.
Qed.

Lemma index_sem_plain_index n g : has_char ch_colon g = false ->
  index_sem n g = match parse_pyint g with Some z => option_map (fun p => [p]) (py_pos n z) | None => None end.
Proof. intros H. unfold index_sem. rewrite split_on_none by exact H. reflexivity. Qed.

Lemma index_sem_slice2 n pa pb : has_char ch_colon pa = false -> has_char ch_colon pb = false ->
  index_sem n (pa ++ String ch_colon pb) = slice_sem n pa pb "".
Proof. intros Ha Hb. unfold index_sem. rewrite split_on_app by exact Ha. rewrite split_on_none by exact Hb. reflexivity. Qed.

Lemma index_sem_slice3 n pa pb pc :
  has_char ch_colon pa = false -> has_char ch_colon pb = false -> has_char ch_colon pc = false ->
  index_sem n (pa ++ String ch_colon (pb ++ String ch_colon pc)) = slice_sem n pa pb pc.
Proof.
  intros Ha Hb Hc. unfold index_sem. rewrite split_on_app by exact Ha. rewrite split_on_app by exact Hb.
  rewrite split_on_none by exact Hc. reflexivity.
Qed.

Definition step_of (oc : option Z) : Z := match oc with None => 1 | Some s => s end.

Lemma slice_sem_ropt n oa ob oc :
  slice_sem n (ropt oa) (ropt ob) (ropt oc) =
    if 0 <? step_of oc then Some (py_slice_positions n oa ob (step_of oc)) else None.
Proof. unfold slice_sem. rewrite !opt_int_ropt. reflexivity. Qed.

(* positions start, start+s, ... below stop *)
Lemma range_from_in fuel : forall a s b q, 0 < s -> 0 <= a -> b - a <= Z.of_nat fuel ->
  (In q (range_from fuel a s b) <-> exists i : nat, Z.of_nat q = a + Z.of_nat i * s /\ Z.of_nat q < b).
Proof.
  induction fuel as [|f IH]; intros a s b q Hs Ha Hf; cbn [range_from].
  - split; [intros []|]. intros (i & E & L). assert (0 <= Z.of_nat i * s) by nia. lia.
  - destruct (a <? b) eqn:E.
    + cbn [In]. rewrite (IH (a + s) s b q Hs) by lia. split.
      * intros [H|(i & H1 & H2)].
        -- exists 0%nat. lia.
        -- exists (S i). split; [|exact H2]. rewrite Nat2Z.inj_succ. lia.
      * intros (i & H1 & H2). destruct i as [|i].
        -- left. lia.
        -- right. exists i. split; [|exact H2]. rewrite Nat2Z.inj_succ in H1. lia.
    + split; [intros []|]. intros (i & H1 & H2). assert (0 <= Z.of_nat i * s) by nia. lia.
Qed.

(* the slice [pa : pb+1 : s] of a length-n sequence = positions pa, pa+s, ... up to and including pb *)
Theorem inclusive_slice_positions n pa pb s q :
  (pa < n)%nat -> (pb < n)%nat -> 0 < s ->
  (In q (py_slice_positions n (Some (Z.of_nat pa)) (Some (Z.of_nat pb + 1)) s)
   <-> exists i : nat, Z.of_nat q = Z.of_nat pa + Z.of_nat i * s /\ (q <= pb)%nat).
Proof.
  intros Ha Hb Hs. unfold py_slice_positions, py_slice_bounds, clip.
  replace (Z.of_nat pa <? 0) with false by lia. replace (Z.of_nat n <? Z.of_nat pa) with false by lia.
  replace (Z.of_nat pb + 1 <? 0) with false by lia. replace (Z.of_nat n <? Z.of_nat pb + 1) with false by lia.
  rewrite range_from_in by lia. split; intros (i & H1 & H2); exists i; split; try exact H1; lia.
Qed.

Corollary inclusive_slice_empty_when_reversed n pa pb s :
  (pa < n)%nat -> (pb < pa)%nat -> 0 < s ->
  py_slice_positions n (Some (Z.of_nat pa)) (Some (Z.of_nat pb + 1)) s = [].
Proof.
  intros Ha Hb Hs. destruct (py_slice_positions n (Some (Z.of_nat pa)) (Some (Z.of_nat pb + 1)) s) as [|q r] eqn:E; [reflexivity|].
  exfalso. assert (I : In q (q :: r)) by (left; reflexivity). rewrite <- E in I.
  apply inclusive_slice_positions in I; try lia. destruct I as (i & H1 & H2). assert (0 <= Z.of_nat i * s) by nia. lia.
Qed.

(* open ends mean the ends of the span *)
Theorem open_slice_positions n s q : 0 < s ->
  (In q (py_slice_positions n None None s) <-> exists i : nat, Z.of_nat q = Z.of_nat i * s /\ (q < n)%nat).
Proof.
  intros Hs. unfold py_slice_positions, py_slice_bounds. rewrite range_from_in by lia.
  split; intros (i & H1 & H2); exists i; split; lia.
Qed.

Theorem open_start_slice_positions n pb s q : (pb < n)%nat -> 0 < s ->
  (In q (py_slice_positions n None (Some (Z.of_nat pb + 1)) s) <-> exists i : nat, Z.of_nat q = Z.of_nat i * s /\ (q <= pb)%nat).
Proof.
  intros Hb Hs. unfold py_slice_positions, py_slice_bounds, clip.
  replace (Z.of_nat pb + 1 <? 0) with false by lia. replace (Z.of_nat n <? Z.of_nat pb + 1) with false by lia.
  rewrite range_from_in by lia. split; intros (i & H1 & H2); exists i; split; lia.
Qed.

Theorem open_stop_slice_positions n pa s q : (pa < n)%nat -> 0 < s ->
  (In q (py_slice_positions n (Some (Z.of_nat pa)) None s) <-> exists i : nat, Z.of_nat q = Z.of_nat pa + Z.of_nat i * s /\ (q < n)%nat).
Proof.
  intros Ha Hs. unfold py_slice_positions, py_slice_bounds, clip.
  replace (Z.of_nat pa <? 0) with false by lia. replace (Z.of_nat n <? Z.of_nat pa) with false by lia.
  rewrite range_from_in by lia. split; intros (i & H1 & H2); exists i; split; lia.
Qed.

Lemma inner_assoc x y z : (x ++ String ch_colon (y ++ String ch_colon z)) ++ "]" = x ++ ":" ++ y ++ ":" ++ z ++ "]".
Proof. rewrite sapp_assoc. cbn [append]. rewrite sapp_assoc. reflexivity. Qed.

(* ================================================================== what the rewriter does to each kind of bracket *)
Section BracketFacts.
  Variable has : label -> bool.
  Variable locate : label -> outcome loc.
  Notation resolve_group := (resolve_group has locate).
  Notation render_part := (render_part has locate).
  Notation label_resolves := (label_resolves has locate).
  Notation label_missing := (label_missing has).

  (* ---- a single backticked label ---- *)
  Theorem label_index_rewrite_loc a l :
    has_char ch_tick a = false -> has_char ch_colon a = false -> label_resolves a l ->
    resolve_group (bt a) = Ret ("[" ++ str_loc l ++ "]").
  Proof.
    intros Ht Hc R. destruct (bt_facts a Hc) as (B1 & B2 & B3 & B4).
    rewrite resolve_group_single by exact B2. rewrite (resolve_index_resolves has locate a l Ht Hc R). reflexivity.
  Qed.

  Theorem label_index_rewrite a p n :
    has_char ch_tick a = false -> has_char ch_colon a = false ->
    label_resolves a (LocI PyInt (Z.of_nat p)) -> (p < n)%nat ->
    resolve_group (bt a) = Ret ("[" ++ Z_to_string (Z.of_nat p) ++ "]") /\
    index_sem n (Z_to_string (Z.of_nat p)) = Some [p].
  Proof.
    intros Ht Hc R Hp. split; [exact (label_index_rewrite_loc a _ Ht Hc R)|].
    rewrite index_sem_single, py_pos_nonneg by lia. rewrite Nat2Z.id. reflexivity.
  Qed.

  Theorem label_missing_KeyError a :
    has_char ch_tick a = false -> has_char ch_colon a = false -> label_missing a ->
    resolve_group (bt a) = Raise KeyError.
  Proof.
    intros Ht Hc M. destruct (bt_facts a Hc) as (B1 & B2 & B3 & B4).
    rewrite resolve_group_single by exact B2. rewrite (resolve_index_missing has locate a Ht Hc M). reflexivity.
  Qed.

  (* ---- a label slice: each end a backticked label or open ---- *)
  Inductive lpart := LP (a : string) (l : loc) | LOpen.
  Definition lp_text (x : lpart) : string := match x with LP a _ => bt a | LOpen => "" end.
  Definition lp_ok (x : lpart) : Prop :=
    match x with
    | LP a l => has_char ch_tick a = false /\ has_char ch_colon a = false /\ label_resolves a l
    | LOpen => True
    end.
  Definition lp_start (x : lpart) : option Z := match x with LP _ l => Some (snd (start_of l)) | LOpen => None end.
  Definition lp_stop (x : lpart) : option Z := match x with LP _ l => Some (snd (bump (stop_of l))) | LOpen => None end.

  Lemma lp_text_facts x : lp_ok x -> has_char ch_colon (lp_text x) = false /\ strip is_py_space (lp_text x) = lp_text x.
  Proof.
    destruct x as [a l|]; cbn [lp_ok lp_text]; [|split; reflexivity].
    intros (Ht & Hc & R). destruct (bt_facts a Hc) as (B1 & B2 & B3 & B4). split; assumption.
  Qed.

  Lemma render_part_lp x is_stop : lp_ok x ->
    render_part (lp_text x) is_stop = Ret (ropt (if is_stop then lp_stop x else lp_start x)).
  Proof.
    destruct x as [a l|]; cbn [lp_ok lp_text lp_start lp_stop].
    - intros (Ht & Hc & R). rewrite (render_part_bt has locate a l is_stop Ht Hc R). destruct is_stop; reflexivity.
    - intros _. destruct is_stop; reflexivity.
  Qed.

  Lemma render_item_lp x is_stop : lp_ok x ->
    render_item has locate (lp_text x) is_stop = Ret (ropt (if is_stop then lp_stop x else lp_start x)).
  Proof.
    intros Hx. destruct x as [a l|].
    - cbn [lp_ok] in Hx. destruct Hx as (Ht & Hc & R). cbn [lp_text].
      rewrite (render_item_tick has locate (bt a) is_stop (proj1 (bt_facts a Hc))).
      exact (render_part_lp (LP a l) is_stop (conj Ht (conj Hc R))).
    - cbn [lp_text lp_start lp_stop]. destruct is_stop; reflexivity.
  Qed.

  Theorem label_slice_rewrite_loc x y :
    lp_ok x -> lp_ok y ->
    resolve_group (lp_text x ++ String ch_colon (lp_text y)) =
      Ret ("[" ++ ropt (lp_start x) ++ ":" ++ ropt (lp_stop y) ++ ":" ++ "" ++ "]").
  Proof.
    intros Hx Hy. destruct (lp_text_facts x Hx) as [X1 X2]. destruct (lp_text_facts y Hy) as [Y1 Y2].
    rewrite resolve_group_slice2 by assumption. rewrite X2, Y2.
    rewrite (render_item_lp x false Hx), (render_item_lp y true Hy). reflexivity.
  Qed.

  Theorem label_slice_step_rewrite_loc x y ps :
    lp_ok x -> lp_ok y -> has_char ch_colon ps = false ->
    resolve_group (lp_text x ++ String ch_colon (lp_text y ++ String ch_colon ps)) =
      Ret ("[" ++ ropt (lp_start x) ++ ":" ++ ropt (lp_stop y) ++ ":" ++ strip is_py_space ps ++ "]").
  Proof.
    intros Hx Hy Hs. destruct (lp_text_facts x Hx) as [X1 X2]. destruct (lp_text_facts y Hy) as [Y1 Y2].
    rewrite resolve_group_slice3 by assumption. rewrite X2, Y2.
    rewrite (render_item_lp x false Hx), (render_item_lp y true Hy). reflexivity.
  Qed.

  (* ---- C10's reading: built-in-int positions, stop inclusive ---- *)
  Theorem label_slice_rewrite a b pa pb n :
    has_char ch_tick a = false -> has_char ch_colon a = false -> label_resolves a (LocI PyInt (Z.of_nat pa)) ->
    has_char ch_tick b = false -> has_char ch_colon b = false -> label_resolves b (LocI PyInt (Z.of_nat pb)) ->
    exists inner,
      resolve_group (bt a ++ String ch_colon (bt b)) = Ret ("[" ++ inner ++ "]") /\
      index_sem n inner = Some (py_slice_positions n (Some (Z.of_nat pa)) (Some (Z.of_nat pb + 1)) 1).
  Proof.
    intros Ta Ca Ra Tb Cb Rb.
    exists (ropt (Some (Z.of_nat pa)) ++ String ch_colon (ropt (Some (Z.of_nat pb + 1)) ++ String ch_colon (ropt None))).
    split.
    - rewrite inner_assoc. exact (label_slice_rewrite_loc (LP a _) (LP b _) (conj Ta (conj Ca Ra)) (conj Tb (conj Cb Rb))).
    - rewrite index_sem_slice3 by apply ropt_no_colon. rewrite slice_sem_ropt. reflexivity.
  Qed.

  Theorem label_slice_step_rewrite a b pa pb s n :
    has_char ch_tick a = false -> has_char ch_colon a = false -> label_resolves a (LocI PyInt (Z.of_nat pa)) ->
    has_char ch_tick b = false -> has_char ch_colon b = false -> label_resolves b (LocI PyInt (Z.of_nat pb)) ->
    0 < s ->
    exists inner,
      resolve_group (bt a ++ String ch_colon (bt b ++ String ch_colon (Z_to_string s))) = Ret ("[" ++ inner ++ "]") /\
      index_sem n inner = Some (py_slice_positions n (Some (Z.of_nat pa)) (Some (Z.of_nat pb + 1)) s).
  Proof.
    intros Ta Ca Ra Tb Cb Rb Hs.
    exists (ropt (Some (Z.of_nat pa)) ++ String ch_colon (ropt (Some (Z.of_nat pb + 1)) ++ String ch_colon (ropt (Some s)))).
    split.
    - pose proof (label_slice_step_rewrite_loc (LP a _) (LP b _) (Z_to_string s) (conj Ta (conj Ca Ra)) (conj Tb (conj Cb Rb))
                    (ropt_no_colon (Some s))) as H.
      rewrite strip_Z_to_string in H. rewrite inner_assoc. exact H.
    - rewrite index_sem_slice3 by apply ropt_no_colon. rewrite slice_sem_ropt. cbn [step_of].
      replace (0 <? s) with true by lia. reflexivity.
  Qed.

  (* open ends *)
  Theorem label_slice_open_start_rewrite b pb n :
    has_char ch_tick b = false -> has_char ch_colon b = false -> label_resolves b (LocI PyInt (Z.of_nat pb)) ->
    exists inner,
      resolve_group (String ch_colon (bt b)) = Ret ("[" ++ inner ++ "]") /\
      index_sem n inner = Some (py_slice_positions n None (Some (Z.of_nat pb + 1)) 1).
  Proof.
    intros Tb Cb Rb. exists (ropt None ++ String ch_colon (ropt (Some (Z.of_nat pb + 1)) ++ String ch_colon (ropt None))).
    split.
    - rewrite inner_assoc. exact (label_slice_rewrite_loc LOpen (LP b _) I (conj Tb (conj Cb Rb))).
    - rewrite index_sem_slice3 by apply ropt_no_colon. rewrite slice_sem_ropt. reflexivity.
  Qed.

  Theorem label_slice_open_stop_rewrite a pa n :
    has_char ch_tick a = false -> has_char ch_colon a = false -> label_resolves a (LocI PyInt (Z.of_nat pa)) ->
    exists inner,
      resolve_group (bt a ++ String ch_colon "") = Ret ("[" ++ inner ++ "]") /\
      index_sem n inner = Some (py_slice_positions n (Some (Z.of_nat pa)) None 1).
  Proof.
    intros Ta Ca Ra. exists (ropt (Some (Z.of_nat pa)) ++ String ch_colon (ropt None ++ String ch_colon (ropt None))).
    split.
    - rewrite inner_assoc. exact (label_slice_rewrite_loc (LP a _) LOpen (conj Ta (conj Ca Ra)) I).
    - rewrite index_sem_slice3 by apply ropt_no_colon. rewrite slice_sem_ropt. reflexivity.
  Qed.

  (* ---- brackets WITHOUT a backtick, once the rewriter runs (finding #15) ---- *)
  Lemma render_part_positional p is_stop : has_char ch_tick p = false ->
    render_part (strip is_py_space p) is_stop =
      match opt_int p with
      | Some o => Ret (ropt (if is_stop then option_map (fun z => z + 1) o else o))
      | None => Raise ValueError
      end.
  Proof.
    intros Ht. unfold opt_int. destruct (String.eqb (strip is_py_space p) "") eqn:E.
    - apply String.eqb_eq in E. rewrite E. destruct is_stop; reflexivity.
    - assert (Ht' : has_char ch_tick (strip is_py_space p) = false).
      { (* stripping removes characters only *)
        assert (L : forall f s, has_char ch_tick s = false -> has_char ch_tick (lstrip f s) = false).
        { intros f s. induction s as [|c r IH]; [reflexivity|]. cbn [lstrip has_char]. intros H.
          destruct (f c); [apply IH; apply orb_false_iff in H; apply H|exact H]. }
        assert (R : forall f s, has_char ch_tick s = false -> has_char ch_tick (rstrip f s) = false).
        { intros f s. induction s as [|c r IH]; [reflexivity|]. cbn [rstrip has_char]. intros H.
          apply orb_false_iff in H as [H1 H2]. specialize (IH H2).
          destruct (rstrip f r); [destruct (f c); cbn [has_char]; [reflexivity|rewrite H1; reflexivity]|].
          cbn [has_char]. cbn [has_char] in IH. rewrite H1. exact IH. }
        unfold strip. apply R, L, Ht. }
      rewrite render_part_plain by assumption. rewrite parse_pyint_strip, parse_pyint_strip.
      destruct (parse_pyint p); [|reflexivity]. destruct is_stop; reflexivity.
  Qed.

  (* a plain index: int() of its text, written back in canonical decimal; anything else is rejected *)
  Theorem positional_index_rewrite g : has_char ch_tick g = false -> has_char ch_colon g = false ->
    resolve_group g = match parse_pyint g with Some z => Ret ("[" ++ Z_to_string z ++ "]") | None => Raise ValueError end.
  Proof.
    intros Ht Hc. rewrite resolve_group_single by exact Hc. rewrite resolve_index_plain by exact Ht.
    rewrite parse_pyint_strip. destruct (parse_pyint g); reflexivity.
  Qed.

  Theorem positional_index_meaning_kept n g z : has_char ch_colon g = false -> parse_pyint g = Some z ->
    index_sem n (Z_to_string z) = index_sem n g.
  Proof. intros Hc P. rewrite index_sem_single, index_sem_plain_index by exact Hc. rewrite P. reflexivity. Qed.

  Lemma strip_keeps_no_tick f p : has_char ch_tick p = false -> has_char ch_tick (strip f p) = false.
  Proof.
    intros Ht.
    assert (L : forall s, has_char ch_tick s = false -> has_char ch_tick (lstrip f s) = false).
    { intros s0. induction s0 as [|c r IH]; [reflexivity|]. cbn [lstrip has_char]. intros H.
      destruct (f c); [apply IH; apply orb_false_iff in H; apply H|exact H]. }
    assert (R : forall s, has_char ch_tick s = false -> has_char ch_tick (rstrip f s) = false).
    { intros s0. induction s0 as [|c r IH]; [reflexivity|]. cbn [rstrip has_char]. intros H.
      apply orb_false_iff in H as [H1 H2]. specialize (IH H2).
      destruct (rstrip f r); [destruct (f c); cbn [has_char]; [reflexivity|rewrite H1; reflexivity]|].
      cbn [has_char]. cbn [has_char] in IH. rewrite H1. exact IH. }
    unfold strip. apply R, L, Ht.
  Qed.

  (* since fix 967c56d the callback leaves an item without a backtick exactly as written (after str.strip()) *)
  Lemma render_item_stripped_plain p is_stop : has_char ch_tick p = false ->
    render_item has locate (strip is_py_space p) is_stop = Ret (strip is_py_space p).
  Proof. intros H. apply render_item_plain. apply strip_keeps_no_tick. exact H. Qed.

End BracketFacts.

(* ================================================================== eval(): namespace, purity, undefined names *)
Section EvalFacts.
  Variable V : Type.
  Notation ns := (ns V).
  Notation ns_get := (ns_get V).
  Notation ns_set := (ns_set V).
  Notation ns_update := (ns_update V).
  Notation dheap := (dheap V).
  Notation dict_at := (dict_at V).
  Notation update_at := (update_at V).

  Lemma ns_get_set d k v k' : ns_get (ns_set d k v) k' = if String.eqb k' k then Some v else ns_get d k'.
  Proof.
    induction d as [|[k0 v0] r IH]; cbn [EvalIdx.ns_set EvalIdx.ns_get].
    - destruct (String.eqb k' k); reflexivity.
    - destruct (String.eqb k k0) eqn:E.
      + apply String.eqb_eq in E; subst k0. cbn [EvalIdx.ns_get]. destruct (String.eqb k' k); reflexivity.
      + cbn [EvalIdx.ns_get]. destruct (String.eqb k' k0) eqn:E2.
        * apply String.eqb_eq in E2; subst k0. destruct (String.eqb k' k) eqn:E3; [|reflexivity].
          apply String.eqb_eq in E3; subst k'. rewrite String.eqb_refl in E. discriminate.
        * exact IH.
  Qed.

  Lemma ns_get_app d1 d2 k : ns_get (d1 ++ d2)%list k = match ns_get d1 k with Some v => Some v | None => ns_get d2 k end.
  Proof.
    induction d1 as [|[k0 v0] r IH]; [reflexivity|].
    rewrite <- app_comm_cons. cbn [EvalIdx.ns_get].
    destruct (String.eqb k k0); [reflexivity|exact IH].
  Qed.

  (* dict.update: the LAST binding of a key in the source wins, keys absent from the source keep their value *)
  Definition ns_last (src : ns) (k : string) : option V := ns_get (List.rev src) k.

  Lemma ns_get_update src : forall d k,
    ns_get (ns_update d src) k = match ns_last src k with Some v => Some v | None => ns_get d k end.
  Proof.
    unfold ns_last, EvalIdx.ns_update.
    induction src as [|[k0 v0] r IH]; intros d k; cbn [fold_left List.rev]; [reflexivity|].
    rewrite IH. cbn [fst snd]. rewrite ns_get_app. destruct (ns_get (List.rev r) k); [reflexivity|].
    cbn [EvalIdx.ns_get]. rewrite ns_get_set. destruct (String.eqb k k0); reflexivity.
  Qed.

  (* for a source without repeated keys (a Python dict) "last" is just "the" binding *)
  Lemma ns_last_nodup src k : NoDup (map fst src) -> ns_last src k = ns_get src k.
  Proof.
    unfold ns_last. induction src as [|[k0 v0] r IH]; [reflexivity|]. cbn [map fst List.rev EvalIdx.ns_get].
    intros ND. inversion ND as [|x l Hnin ND']; subst. rewrite ns_get_app, (IH ND').
    cbn [EvalIdx.ns_get]. destruct (String.eqb k k0) eqn:E.
    - apply String.eqb_eq in E; subst k0.
      assert (G : ns_get r k = None).
      { clear - Hnin. induction r as [|[k1 v1] r IH]; [reflexivity|]. cbn [EvalIdx.ns_get map fst] in *.
        destruct (String.eqb k k1) eqn:E; [apply String.eqb_eq in E; subst; exfalso; apply Hnin; left; reflexivity|].
        apply IH. intros H; apply Hnin; right; exact H. }
      rewrite G. reflexivity.
    - destruct (ns_get r k); reflexivity.
  Qed.

  Lemma dict_at_upd_eq (dh : dheap) l d : (l < List.length dh)%nat -> dict_at (upd l d dh) l = d.
  Proof. intros H. unfold EvalIdx.dict_at. apply nth_upd_eq; exact H. Qed.

  Lemma dict_at_upd_neq (dh : dheap) l l' d : l <> l' -> dict_at (upd l d dh) l' = dict_at dh l'.
  Proof. intros H. unfold EvalIdx.dict_at. apply nth_upd_neq; exact H. Qed.

  Variable has : label -> bool.
  Variable locate : label -> outcome loc.
  Variable pyeval : string -> ns -> pyres V.
  Notation eval_M := (eval_M V has locate pyeval).

  Definition convert (r : pyres V) : eres V :=
    match r with PVal v => EVal v | PNameError name => EAttributeError name | PRaise e => ERaise e end.
  Definition locals_ns (locals : option ns) : ns := match locals with Some lc => lc | None => [] end.

  (* a rewriting error surfaces before anything is assembled: no dict is created or touched *)
  Theorem eval_rewrite_error dh tbl vars expr locals bi e :
    eval_text has locate expr = Raise e -> eval_M dh tbl vars expr locals bi = ((dh, vars), ERaise e).
  Proof. intros H. unfold EvalIdx.eval_M. rewrite H. reflexivity. Qed.

  (* the dict eval() works in, and where it lives *)
  Definition work_loc (dh : dheap) (bi : option nat) : nat := match bi with None => List.length dh | Some l => l end.
  Definition base_dict (dh : dheap) (tbl : nat) (bi : option nat) : ns :=
    match bi with None => dict_at dh tbl | Some l => dict_at dh l end.

  Theorem eval_spec dh tbl vars expr locals bi text :
    eval_text has locate expr = Ret text ->
    (forall l, bi = Some l -> (l < List.length dh)%nat) ->
    let N := ns_update (ns_update (base_dict dh tbl bi) vars) (locals_ns locals) in
    let r := eval_M dh tbl vars expr locals bi in
    snd r = convert (pyeval text N) /\
    snd (fst r) = vars /\
    dict_at (fst (fst r)) (work_loc dh bi) = N /\
    (forall l', (l' < List.length dh)%nat -> bi <> Some l' -> dict_at (fst (fst r)) l' = dict_at dh l').
  Proof.
    intros Ht Hbi. cbv zeta. unfold EvalIdx.eval_M. rewrite Ht.
    destruct bi as [l|]; cbn [work_loc base_dict].
    - specialize (Hbi l eq_refl).
      assert (D2 : dict_at (update_at dh l vars) l = ns_update (dict_at dh l) vars).
      { unfold EvalIdx.update_at. apply dict_at_upd_eq; exact Hbi. }
      destruct locals as [lc|]; cbn [locals_ns fst snd].
      + assert (D3 : dict_at (update_at (update_at dh l vars) l lc) l = ns_update (ns_update (dict_at dh l) vars) lc).
        { unfold EvalIdx.update_at at 1. rewrite dict_at_upd_eq by (unfold EvalIdx.update_at; rewrite upd_length; exact Hbi).
          rewrite D2. reflexivity. }
        rewrite D3. split; [reflexivity|]. split; [reflexivity|]. split; [reflexivity|].
        intros l' Hl' Hne. unfold EvalIdx.update_at. rewrite !dict_at_upd_neq by congruence. reflexivity.
      + rewrite D2. cbn [EvalIdx.ns_update fold_left]. split; [reflexivity|]. split; [reflexivity|]. split; [reflexivity|].
        intros l' Hl' Hne. unfold EvalIdx.update_at. rewrite dict_at_upd_neq by congruence. reflexivity.
    - set (dh1 := (dh ++ [dict_at dh tbl])%list).
      assert (L1 : List.length dh1 = S (List.length dh)) by (unfold dh1; rewrite app_length; cbn; lia).
      assert (B : dict_at dh1 (List.length dh) = dict_at dh tbl).
      { unfold dh1, EvalIdx.dict_at. rewrite app_nth2 by lia. rewrite Nat.sub_diag. reflexivity. }
      assert (O : forall l', (l' < List.length dh)%nat -> dict_at dh1 l' = dict_at dh l').
      { intros l' Hl'. unfold dh1, EvalIdx.dict_at. apply app_nth1; exact Hl'. }
      assert (D2 : dict_at (update_at dh1 (List.length dh) vars) (List.length dh) = ns_update (dict_at dh tbl) vars).
      { unfold EvalIdx.update_at. rewrite dict_at_upd_eq by lia. rewrite B. reflexivity. }
      destruct locals as [lc|]; cbn [locals_ns fst snd].
      + assert (D3 : dict_at (update_at (update_at dh1 (List.length dh) vars) (List.length dh) lc) (List.length dh)
                     = ns_update (ns_update (dict_at dh tbl) vars) lc).
        { unfold EvalIdx.update_at at 1. rewrite dict_at_upd_eq by (unfold EvalIdx.update_at; rewrite upd_length; lia).
          rewrite D2. reflexivity. }
        rewrite D3. split; [reflexivity|]. split; [reflexivity|]. split; [reflexivity|].
        intros l' Hl' _. unfold EvalIdx.update_at. rewrite !dict_at_upd_neq by lia. apply O; exact Hl'.
      + rewrite D2. cbn [EvalIdx.ns_update fold_left]. split; [reflexivity|]. split; [reflexivity|]. split; [reflexivity|].
        intros l' Hl' _. unfold EvalIdx.update_at. rewrite dict_at_upd_neq by lia. apply O; exact Hl'.
  Qed.

  (* caller locals override container variables, which override the helper table (or the caller's `builtins=` dict) *)
  Theorem namespace_precedence base vars locals k :
    ns_get (ns_update (ns_update base vars) (locals_ns locals)) k =
      match ns_last (locals_ns locals) k with
      | Some v => Some v
      | None => match ns_last vars k with
                | Some v => Some v
                | None => ns_get base k
                end
      end.
  Proof. rewrite !ns_get_update. reflexivity. Qed.

  (* evaluation alters neither the container nor the package-level helper table nor any other existing dict —
     except the dict the caller passed as `builtins=`, which IS updated in place *)
  Theorem eval_pure dh tbl vars expr locals bi :
    (tbl < List.length dh)%nat -> bi <> Some tbl -> (forall l, bi = Some l -> (l < List.length dh)%nat) ->
    let r := eval_M dh tbl vars expr locals bi in
    dict_at (fst (fst r)) tbl = dict_at dh tbl /\ snd (fst r) = vars /\
    (forall l', (l' < List.length dh)%nat -> bi <> Some l' -> dict_at (fst (fst r)) l' = dict_at dh l').
  Proof.
    intros Ht Hne Hbi. cbv zeta. destruct (eval_text has locate expr) as [text|e] eqn:E.
    - destruct (eval_spec dh tbl vars expr locals bi text E Hbi) as (_ & H2 & _ & H4).
      split; [apply H4; assumption|]. split; [exact H2|exact H4].
    - rewrite (eval_rewrite_error dh tbl vars expr locals bi e E). cbn [fst snd]. repeat split; reflexivity.
  Qed.

  Theorem eval_caller_builtins_updated dh tbl vars expr locals l text :
    eval_text has locate expr = Ret text -> (l < List.length dh)%nat ->
    dict_at (fst (fst (eval_M dh tbl vars expr locals (Some l)))) l
      = ns_update (ns_update (dict_at dh l) vars) (locals_ns locals).
  Proof.
    intros E Hl. destruct (eval_spec dh tbl vars expr locals (Some l) text E) as (_ & _ & H3 & _).
    - intros l0 H; inversion H; subst; exact Hl.
    - exact H3.
  Qed.

  (* an undefined name: AttributeError naming it — exactly when CPython raised NameError for that name *)
  Theorem eval_undefined_name dh tbl vars expr locals bi name :
    (forall l, bi = Some l -> (l < List.length dh)%nat) ->
    (snd (eval_M dh tbl vars expr locals bi) = EAttributeError name <->
     exists text, eval_text has locate expr = Ret text /\
       pyeval text (ns_update (ns_update (base_dict dh tbl bi) vars) (locals_ns locals)) = PNameError name).
  Proof.
    intros Hbi. destruct (eval_text has locate expr) as [text|e] eqn:E.
    - destruct (eval_spec dh tbl vars expr locals bi text E Hbi) as (H1 & _). rewrite H1. split.
      + intros C. exists text. split; [reflexivity|].
        destruct (pyeval text _) as [v|nm|e']; cbn [convert] in C; try discriminate. inversion C; subst; reflexivity.
      + intros (t' & Et & P). inversion Et; subst. rewrite P. reflexivity.
    - rewrite (eval_rewrite_error dh tbl vars expr locals bi e E). cbn [snd]. split; [discriminate|].
      intros (t' & Et & _). discriminate.
  Qed.

  Theorem eval_no_backtick_passes_text_verbatim dh tbl vars expr locals bi :
    has_char ch_tick expr = false -> (forall l, bi = Some l -> (l < List.length dh)%nat) ->
    snd (eval_M dh tbl vars expr locals bi)
      = convert (pyeval expr (ns_update (ns_update (base_dict dh tbl bi) vars) (locals_ns locals))).
  Proof.
    intros Hb Hbi. pose proof (eval_text_no_backtick has locate expr Hb) as E.
    destruct (eval_spec dh tbl vars expr locals bi expr E Hbi) as (H1 & _). exact H1.
  Qed.
End EvalFacts.
