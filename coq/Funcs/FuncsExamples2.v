(* FuncsExamples2.v — instances of the closed forms of FuncsFacts2.v (their hypotheses are satisfiable, boundary shifts included). *)
From Coq Require Import ZArith List Bool Lia.
Import ListNotations.
Require Import PyBase Funcs FuncsFacts FuncsFacts2.
Open Scope Z_scope.

Example ex_lag_closed : lag_v Z [10; 20; 30; 40] 1 (-1) = repeat (-1) 1 ++ firstn 3 [10; 20; 30; 40] /\
                        lag_v Z [10; 20; 30; 40] 4 (-1) = repeat (-1) 4 ++ firstn 0 [10; 20; 30; 40] /\
                        lag_v Z [10; 20; 30; 40] 0 (-1) = repeat (-1) 0 ++ firstn 4 [10; 20; 30; 40].
Proof. repeat split; vm_compute; reflexivity. Qed.
Example ex_lead_closed : lead_v Z [10; 20; 30; 40] 3 (-1) = skipn 3 [10; 20; 30; 40] ++ repeat (-1) 3.
Proof. vm_compute. reflexivity. Qed.
Example ex_diff_all_fill : diff_v Z Z.sub [10; 20; 40] 3 (-1) = Ret [-1; -1; -1] /\ diff_v Z Z.sub [10; 20; 40] 7 (-1) = Ret [-1; -1; -1] /\
                           diff_v Z Z.sub [] 2 (-1) = Ret [].
Proof. repeat split; vm_compute; reflexivity. Qed.
Example ex_diff_closed : diff_v Z Z.sub [10; 20; 40; 80] 2 (-1) = Ret (repeat (-1) 2 ++ zip_with Z Z.sub [40; 80] [10; 20]).
Proof. vm_compute. reflexivity. Qed.
Example ex_closed_premises : (1 <= length [10; 20; 30; 40])%nat /\ (0 < 2)%nat /\ (2 <= length [10; 20; 40; 80])%nat /\ 0 < 3 /\ Z.of_nat (length [10; 20; 40]) <= 3.
Proof. cbn. lia. Qed.
