(* EvalIdxLocate.v — the bridge between the TEXT rewriter of eval() (EvalIdx.v, this property) and the model of label-based
   access (Locate/Locate.v, property C10):
   with `has` = `period in self.span` and `locate` = `self._locate_period_in_span` taken from the C10 model,
   * the callback's reading of a backticked label is C10's `resolve_bt` (str label first, then int(label));
   * the text written for a label slice X[`a`:`b`(:s)] carries exactly the bounds C10's `eval_slice_bounds` computes
     (equation between outcomes: same bounds, same exception, same order of lookups);
   * hence (C10's eval_slice_agrees) the positions Python selects for the rewritten subscript are the elements that label
     indexing obj[name, a:b:s] returns. *)
From Coq Require Import ZArith List Bool String Ascii Lia ZifyBool.
Import ListNotations.
Require Import PyBase EvalIdx EvalIdxFacts.
Require Fsic.Locate.Locate Fsic.Locate.LocateFacts.
Open Scope string_scope.
Open Scope Z_scope.

Definition tr_label (l : label) : Locate.label :=
  match l with LStr s => Locate.LStr s | LInt z => Locate.LInt z end.

(* a C10 location as the object whose str() the rewriter writes (numpy.int64 bounds for slice-valued pandas locations) *)
Definition tr_loc (l : Locate.loc) : loc :=
  match l with
  | Locate.LPos i true => LocI PyInt i
  | Locate.LPos i false => LocI NpInt i
  | Locate.LSlice a b => LocS NpInt a NpInt b
  end.

(* the stop bound eval() derives from a location: slice -> its stop; built-in int -> +1; numpy.int64 -> unchanged *)
Definition stop_bound (l : Locate.loc) : Z :=
  match l with Locate.LSlice _ j => j | Locate.LPos i true => i + 1 | Locate.LPos i false => i end.

Definition otext (o : option string) : string := match o with None => "" | Some a => bt a end.     (* `a` or nothing *)
Definition okey (o : option string) : option (string * option Z) := option_map (fun a => (a, parse_int_raw a)) o.
Definition opt_ok (o : option string) : Prop :=
  match o with None => True | Some a => has_char ch_tick a = false /\ has_char ch_colon a = false end.

Section Bridge.
  Variable gl : list Locate.label -> Locate.label -> outcome Locate.loc.     (* pandas Index.get_loc *)
  Variable ct : list Locate.label -> Locate.label -> bool.                   (* pandas Index.__contains__ *)
  Variable sp : Locate.span.

  Definition c10_has (l : label) : bool :=
    match Locate.span_contains ct sp (tr_label l) with Ret b => b | Raise _ => false end.
  Definition c10_locate (l : label) : outcome loc := omap tr_loc (Locate.locate gl sp (tr_label l)).

  Notation resolve_index := (resolve_index c10_has c10_locate).
  Notation render_part := (render_part c10_has c10_locate).
  Notation resolve_group := (resolve_group c10_has c10_locate).
  Notation resolve_bt := (Locate.resolve_bt gl ct sp).

  (* `str/int label in span` never raises *)
  Lemma contains_ret l : Locate.span_contains ct sp (tr_label l) = Ret (c10_has l).
  Proof. unfold c10_has. destruct sp, l; reflexivity. Qed.
  Lemma contains_ret_str a : Locate.span_contains ct sp (Locate.LStr a) = Ret (c10_has (LStr a)).
  Proof. exact (contains_ret (LStr a)). Qed.
  Lemma contains_ret_int z : Locate.span_contains ct sp (Locate.LInt z) = Ret (c10_has (LInt z)).
  Proof. exact (contains_ret (LInt z)). Qed.

  (* resolve_index_in_span on a backticked text = C10's resolve_bt *)
  Theorem resolve_index_is_resolve_bt a :
    has_char ch_tick a = false -> has_char ch_colon a = false ->
    resolve_index (bt a) = omap tr_loc (resolve_bt (a, parse_int_raw a)).
  Proof.
    intros Ht Hc. rewrite (resolve_index_bt c10_has c10_locate a Ht Hc).
    unfold Locate.resolve_bt. cbn [fst snd]. rewrite (contains_ret_str a). cbn [Locate.bind].
    destruct (c10_has (LStr a)); [reflexivity|].
    destruct (parse_int_raw a) as [z|]; [|reflexivity].
    rewrite (contains_ret_int z). cbn [Locate.bind].
    destruct (c10_has (LInt z)); reflexivity.
  Qed.

  Lemma start_of_tr l : snd (start_of (tr_loc l)) = Locate.loc_start l.
  Proof. destruct l as [i [|]|a b]; reflexivity. Qed.
  Lemma stop_of_tr l : snd (bump (stop_of (tr_loc l))) = stop_bound l.
  Proof. destruct l as [i [|]|a b]; reflexivity. Qed.

  Lemma otext_facts o : opt_ok o -> has_char ch_colon (otext o) = false /\ strip is_py_space (otext o) = otext o.
  Proof.
    destruct o as [a|]; cbn [opt_ok otext]; [|split; reflexivity].
    intros [Ht Hc]. destruct (bt_facts a Hc) as (B1 & B2 & B3 & B4). split; assumption.
  Qed.

  Lemma render_part_otext o is_stop : opt_ok o ->
    render_part (otext o) is_stop =
      match o with
      | None => Ret ""
      | Some a => omap (fun l => Z_to_string (if is_stop then stop_bound l else Locate.loc_start l)) (resolve_bt (a, parse_int_raw a))
      end.
  Proof.
    destruct o as [a|]; cbn [opt_ok otext]; [|intros _; reflexivity].
    intros [Ht Hc]. destruct (bt_facts a Hc) as (B1 & B2 & B3 & B4).
    unfold EvalIdx.render_part. rewrite B3, (resolve_index_is_resolve_bt a Ht Hc).
    destruct (resolve_bt (a, parse_int_raw a)) as [l|e]; cbn [omap]; [|reflexivity].
    destruct is_stop; [rewrite stop_of_tr|rewrite start_of_tr]; reflexivity.
  Qed.

  (* the bounds as C10 computes them, written as text *)
  Definition bounds_text (ab : option Z * option Z) (step : string) : string :=
    "[" ++ ropt (fst ab) ++ ":" ++ ropt (snd ab) ++ ":" ++ step ++ "]".

  Lemma render_item_otext o is_stop : opt_ok o ->
    render_item c10_has c10_locate (otext o) is_stop = render_part (otext o) is_stop.
  Proof.
    destruct o as [a|]; cbn [opt_ok otext]; [|intros _; reflexivity].
    intros [_ Hc]. apply render_item_tick. exact (proj1 (bt_facts a Hc)).
  Qed.

  Lemma render_parts_are_bounds oa ob : opt_ok oa -> opt_ok ob ->
    match render_part (otext oa) false with
    | Raise e => Raise e
    | Ret a => match render_part (otext ob) true with
               | Raise e => Raise e
               | Ret b => Ret (a, b)
               end
    end = omap (fun ab => (ropt (fst ab), ropt (snd ab))) (Locate.eval_slice_bounds resolve_bt (okey oa) (okey ob)).
  Proof.
    intros Ha Hb. rewrite (render_part_otext oa false Ha), (render_part_otext ob true Hb).
    unfold Locate.eval_slice_bounds.
    destruct oa as [a|], ob as [b|]; cbn [okey option_map Locate.bind omap];
      repeat match goal with |- context [resolve_bt ?k] => destruct (resolve_bt k) as [?l|?e]; cbn [Locate.bind omap] end;
      reflexivity.
  Qed.

  (* X[`a`:`b`] (either end may be open): the text written = the bounds of C10's eval_slice_bounds; an exception of either
     lookup is the exception raised, the start being looked up first *)
  Theorem label_slice_text_is_C10_bounds oa ob :
    opt_ok oa -> opt_ok ob ->
    resolve_group (otext oa ++ String ch_colon (otext ob)) =
      omap (fun ab => bounds_text ab "") (Locate.eval_slice_bounds resolve_bt (okey oa) (okey ob)).
  Proof.
    intros Ha Hb. destruct (otext_facts oa Ha) as [A1 A2]. destruct (otext_facts ob Hb) as [B1 B2].
    rewrite (resolve_group_slice2 c10_has c10_locate _ _ A1 B1). rewrite A2, B2.
    rewrite (render_item_otext oa false Ha), (render_item_otext ob true Hb).
    pose proof (render_parts_are_bounds oa ob Ha Hb) as H.
    destruct (render_part (otext oa) false) as [a|e1].
    - destruct (render_part (otext ob) true) as [b|e2];
        destruct (Locate.eval_slice_bounds resolve_bt (okey oa) (okey ob)) as [[x y]|e']; cbn [omap] in H |- *;
        try discriminate; inversion H; subst; reflexivity.
    - destruct (Locate.eval_slice_bounds resolve_bt (okey oa) (okey ob)) as [[x y]|e']; cbn [omap] in H |- *;
        try discriminate; inversion H; subst; reflexivity.
  Qed.

  Theorem label_slice_step_text_is_C10_bounds oa ob ps :
    opt_ok oa -> opt_ok ob -> has_char ch_colon ps = false ->
    resolve_group (otext oa ++ String ch_colon (otext ob ++ String ch_colon ps)) =
      omap (fun ab => bounds_text ab (strip is_py_space ps)) (Locate.eval_slice_bounds resolve_bt (okey oa) (okey ob)).
  Proof.
    intros Ha Hb Hs. destruct (otext_facts oa Ha) as [A1 A2]. destruct (otext_facts ob Hb) as [B1 B2].
    rewrite (resolve_group_slice3 c10_has c10_locate _ _ _ A1 B1 Hs). rewrite A2, B2.
    rewrite (render_item_otext oa false Ha), (render_item_otext ob true Hb).
    pose proof (render_parts_are_bounds oa ob Ha Hb) as H.
    destruct (render_part (otext oa) false) as [a|e1].
    - destruct (render_part (otext ob) true) as [b|e2];
        destruct (Locate.eval_slice_bounds resolve_bt (okey oa) (okey ob)) as [[x y]|e']; cbn [omap] in H |- *;
        try discriminate; inversion H; subst; reflexivity.
    - destruct (Locate.eval_slice_bounds resolve_bt (okey oa) (okey ob)) as [[x y]|e']; cbn [omap] in H |- *;
        try discriminate; inversion H; subst; reflexivity.
  Qed.

  (* ... and Python reads that text as the slice with those bounds *)
  Theorem label_slice_positions_are_C10_positions oa ob s n a' b' :
    opt_ok oa -> opt_ok ob -> 0 < s ->
    Locate.eval_slice_bounds resolve_bt (okey oa) (okey ob) = Ret (a', b') ->
    exists inner,
      resolve_group (otext oa ++ String ch_colon (otext ob ++ String ch_colon (Z_to_string s))) = Ret ("[" ++ inner ++ "]") /\
      index_sem n inner = Some (py_slice_positions n a' b' s).
  Proof.
    intros Ha Hb Hs E.
    exists (ropt a' ++ String ch_colon (ropt b' ++ String ch_colon (ropt (Some s)))). split.
    - rewrite (label_slice_step_text_is_C10_bounds oa ob (Z_to_string s) Ha Hb (ropt_no_colon (Some s))), E.
      cbn [omap]. unfold bounds_text. cbn [fst snd]. rewrite strip_Z_to_string, inner_assoc. reflexivity.
    - rewrite index_sem_slice3 by apply ropt_no_colon. rewrite slice_sem_ropt. cbn [step_of].
      replace (0 <? s) with true by lia. reflexivity.
  Qed.
End Bridge.

(* ================================================================== the chain down to label indexing *)
(* how the text between backticks names a label object: as the str itself if that is in the span, else as int(text) *)
Definition text_names (has : label -> bool) (a : string) (m : label) : Prop :=
  (has (LStr a) = true /\ m = LStr a) \/
  (has (LStr a) = false /\ exists z, parse_int_raw a = Some z /\ has (LInt z) = true /\ m = LInt z).

Definition otext_names (has : label -> bool) (o : option string) (m : option Locate.label) : Prop :=
  match o, m with
  | None, None => True
  | Some a, Some x => exists l, text_names has a l /\ x = tr_label l
  | _, _ => False
  end.

Section Chain.
  Variable V : Type.
  Variable gl : list Locate.label -> Locate.label -> outcome Locate.loc.
  Variable ct : list Locate.label -> Locate.label -> bool.
  Variable st : Locate.cstate V.
  Variable name : string.
  Variable sr : Locate.series V.
  Let sp := Locate.c_span st.
  Let lc := Locate.locate gl sp.

  Lemma resolve_bt_named a m :
    text_names (c10_has ct sp) a m -> Locate.resolve_bt gl ct sp (a, parse_int_raw a) = lc (tr_label m).
  Proof.
    intros T. unfold Locate.resolve_bt. cbn [fst snd]. rewrite (contains_ret_str ct sp a). cbn [Locate.bind].
    destruct T as [[H ->]|[H (z & P & H2 & ->)]]; rewrite H; [reflexivity|].
    rewrite P, (contains_ret_int ct sp z). cbn [Locate.bind]. rewrite H2. reflexivity.
  Qed.

  Lemma bounds_named oa ob a b :
    otext_names (c10_has ct sp) oa a -> otext_names (c10_has ct sp) ob b ->
    Locate.eval_slice_bounds (Locate.resolve_bt gl ct sp) (okey oa) (okey ob) = Locate.eval_slice_bounds lc a b.
  Proof.
    intros Na Nb. unfold Locate.eval_slice_bounds.
    destruct oa as [ta|], a as [x|]; cbn [otext_names] in Na; try contradiction;
      destruct ob as [tb|], b as [y|]; cbn [otext_names] in Nb; try contradiction; cbn [okey option_map];
      repeat match goal with H : exists l, text_names _ _ l /\ _ = tr_label l |- _ => destruct H as (? & ?T & ->) end;
      repeat match goal with T : text_names _ ?t ?m |- _ => rewrite (resolve_bt_named t m T); clear T end;
      reflexivity.
  Qed.

  (* eval('X[`a`:`b`:s]') selects what obj['X', a:b:s] selects.
     Hypotheses are those of C10's theorem (a lookup meeting C10's specification and answering built-in ints — true of
     list.index, range.index and the repaired NumPy fallback —, distinct labels, both ends present or open, s > 0) plus the
     shape of the label texts (no backtick, no colon) and which label each text names. *)
  Theorem eval_label_slice_selects_what_label_indexing_selects
          (oa ob : option string) (a b : option Locate.label) (s : Z) (pa pb : nat) :
    LocateFacts.locate_spec (Locate.span_labels sp) lc ->
    Locate.lookup name (Locate.c_vars st) = Some sr ->
    List.length (Locate.s_data sr) = List.length (Locate.span_labels sp) ->
    (forall x i fl, lc x = Ret (Locate.LPos i fl) -> fl = true) ->
    NoDup (Locate.span_labels sp) ->
    LocateFacts.start_pos (Locate.span_labels sp) a = Some pa ->
    LocateFacts.stop_pos (Locate.span_labels sp) b = Some pb ->
    0 < s ->
    opt_ok oa -> opt_ok ob ->
    otext_names (c10_has ct sp) oa a -> otext_names (c10_has ct sp) ob b ->
    exists inner ps,
      resolve_group (c10_has ct sp) (c10_locate gl sp) (otext oa ++ String ch_colon (otext ob ++ String ch_colon (Z_to_string s)))
        = Ret ("[" ++ inner ++ "]") /\
      index_sem (List.length (Locate.s_data sr)) inner = Some ps /\
      Locate.get_item_with lc st name (Locate.KSlice a b (Some s)) = Ret (Locate.RArr (Locate.gather (Locate.s_data sr) ps)).
  Proof.
    intros Hspec Hvar Hlen Hint ND Hpa Hpb Hs Oa Ob Na Nb.
    destruct (@LocateFacts.eval_slice_agrees V lc st name sr Hspec Hvar Hlen Hint a b s pa pb ND Hpa Hpb Hs) as (l & E & G).
    unfold Locate.eval_slice_with in E. rewrite Hvar in E.
    destruct (Locate.eval_slice_bounds lc a b) as [[a' b']|e] eqn:EB; cbn [Locate.bind] in E; [|discriminate].
    replace (s <=? 0) with false in E by lia. inversion E; subst l; clear E.
    destruct (label_slice_positions_are_C10_positions gl ct sp oa ob s (List.length (Locate.s_data sr)) a' b' Oa Ob Hs) as (inner & R & I).
    { rewrite (bounds_named oa ob a b Na Nb). exact EB. }
    exists inner, (py_slice_positions (List.length (Locate.s_data sr)) a' b' s).
    split; [exact R|]. split; [exact I|exact G].
  Qed.
End Chain.
