(* SolveAllSpanExamples.v — concrete instances for SolveAllSpanFacts: every span type, repeated labels, a start before the lags. *)
From Coq Require Import PrimFloat ZArith List Bool Lia.
Import ListNotations.
Require Import PyBase Solver SolverF SolveAll SolveAllF SolveAllFacts SolveAllSpan SolveAllSpanFacts SolveAllExamples.
Open Scope Z_scope.

Lemma exA_span_nodup : NoDup exA_span.
Proof. unfold exA_span. repeat constructor; cbn; intuition lia. Qed.

(* list / tuple / range (0), NumPy array (1) and pandas Index (3) give the very same run for solve(start=1, end=2) *)
Example exS_every_span_kind :
  f_solve exA_scripts exA_desc (exA_opts ERaise) 1 exA_span [] (Some 1) (Some 2) exA_state
  = f_solve exA_scripts exA_desc (exA_opts ERaise) 0 exA_span [] (Some 1) (Some 2) exA_state /\
  f_solve exA_scripts exA_desc (exA_opts ERaise) 3 exA_span [] (Some 1) (Some 2) exA_state
  = f_solve exA_scripts exA_desc (exA_opts ERaise) 0 exA_span [] (Some 1) (Some 2) exA_state /\
  snd (f_solve exA_scripts exA_desc (exA_opts ERaise) 3 exA_span [] (Some 1) (Some 2) exA_state)
  = Ret (mkRes 2%nat [(1, 1, true); (2, 2, true)]).
Proof. repeat split; vm_compute; reflexivity. Qed.

(* a span in which periods 0 and 1 carry the same label: solve_period(that label) solves period 0 on a list, and is
   rejected with KeyError (nothing changed) on a NumPy array and on a pandas Index; the other labels still work everywhere *)
Definition exS_dup_span : list Z := [0; 0; 2; 3].
Example exS_repeated_label :
  f_solve_period exA_scripts exA_desc (exA_opts ERaise) 0 exS_dup_span [] 0 exA_state
  = f_solve_t exA_scripts exA_desc (exA_opts ERaise) 0 exA_state /\
  f_solve_period exA_scripts exA_desc (exA_opts ERaise) 1 exS_dup_span [] 0 exA_state = (exA_state, Raise KeyError) /\
  f_solve_period exA_scripts exA_desc (exA_opts ERaise) 3 exS_dup_span [] 0 exA_state = (exA_state, Raise KeyError) /\
  f_solve_period exA_scripts exA_desc (exA_opts ERaise) 1 exS_dup_span [] 2 exA_state
  = f_solve_t exA_scripts exA_desc (exA_opts ERaise) 2 exA_state /\
  f_solve_period exA_scripts exA_desc (exA_opts ERaise) 3 exS_dup_span [] 2 exA_state
  = f_solve_t exA_scripts exA_desc (exA_opts ERaise) 2 exA_state /\
  (2 <= count_of 0 exS_dup_span)%nat.
Proof. repeat split; vm_compute; reflexivity. Qed.

(* one lag and one lead, explicit start at position 0: the first period is rejected with IndexError, nothing changes;
   the hypotheses of solve_start_before_lags_rejected are met *)
Example exS_start_before_lags :
  f_solve exA_scripts exA_desc_ll (exA_opts ERaise) 3 exA_span [] (Some 0) None exA_state = (exA_state, Raise IndexError) /\
  resolves_start Z exA_desc_ll exA_span (Some 0) 0 /\ resolves_end Z exA_desc_ll exA_span None 2 /\
  (0 < lags exA_desc_ll)%nat /\ length (status exA_state) = length exA_span.
Proof. repeat split; vm_compute; reflexivity. Qed.

(* more lags (leads) than periods: the default start (end) does not exist — IndexError, nothing changed *)
Definition exS_desc_5lags : mdesc := mkDesc [0%nat] [0%nat] 5%nat 0%nat.
Definition exS_desc_5leads : mdesc := mkDesc [0%nat] [0%nat] 0%nat 5%nat.
Example exS_defaults_beyond_span :
  f_solve exA_scripts exS_desc_5lags (exA_opts ERaise) 0 exA_span [] None None exA_state = (exA_state, Raise IndexError) /\
  f_solve exA_scripts exS_desc_5leads (exA_opts ERaise) 3 exA_span [] (Some 1) None exA_state = (exA_state, Raise IndexError) /\
  (length exA_span <= lags exS_desc_5lags)%nat /\ (length exA_span <= leads exS_desc_5leads)%nat /\
  resolves_start Z exS_desc_5leads exA_span (Some 1) 1.
Proof. repeat split; vm_compute; try reflexivity; lia. Qed.

(* FINDING (kept, known_findings.d/C05.json): iter_periods turns the DEFAULT start / end positions into labels (span[lags],
   span[-1-leads]) and looks the labels up again.  On a span whose last label is carried by periods 2 and 3:
   list — the default end comes back as position 2, period 3 is silently left unsolved; NumPy array — KeyError;
   pandas Index — the lookup answers with a slice and `slice + 1` raises TypeError.  Nothing of this involves a label
   supplied by the caller. *)
Definition exS_dup_last : list Z := [0; 1; 2; 2].
Example exS_default_end_repeated_label :
  f_solve exA_scripts exA_desc (exA_opts ERaise) 0 exS_dup_last [] None None exA_state
  = (mkState [[1.5%float; 1.5%float; 1.5%float; 0%float]] [Solved; Solved; Solved; Unsolved] [2; 2; 2; -1]
             [EvBefore 0; EvPass 0 1; EvPass 0 2; EvAfter 0 2; EvBefore 1; EvPass 1 1; EvPass 1 2; EvAfter 1 2;
              EvBefore 2; EvPass 2 1; EvPass 2 2; EvAfter 2 2],
     Ret (mkRes 3%nat [(0, 0, true); (1, 1, true); (2, 2, true)])) /\
  f_solve exA_scripts exA_desc (exA_opts ERaise) 1 exS_dup_last [] None None exA_state = (exA_state, Raise KeyError) /\
  f_solve exA_scripts exA_desc (exA_opts ERaise) 3 exS_dup_last [] None None exA_state = (exA_state, Raise TypeError).
Proof. repeat split; vm_compute; reflexivity. Qed.

(* "solve() with default start / end visits every period from position lags to position len-1-leads" is REFUTED for spans with
   a repeated label: here lags = leads = 0, four periods, and period 3 is not visited (list) / nothing is visited (NumPy, pandas) *)
Lemma default_range_repeated_label_refuted :
  exists sc d o span s,
    lags d = 0%nat /\ leads d = 0%nat /\ length span = 4%nat /\ length (status s) = 4%nat /\ min_iter o <= max_iter o /\
    (exists res, snd (f_solve sc d o 0 span [] None None s) = Ret res /\ r_len res = 3%nat /\
                 nth_error (status (fst (f_solve sc d o 0 span [] None None s))) 3 = Some Unsolved) /\
    snd (f_solve sc d o 1 span [] None None s) = Raise KeyError /\
    snd (f_solve sc d o 3 span [] None None s) = Raise TypeError.
Proof.
  exists exA_scripts, exA_desc, (exA_opts ERaise), exS_dup_last, exA_state.
  destruct exS_default_end_repeated_label as (H0 & H1 & H3). rewrite H0, H1, H3.
  repeat split; try reflexivity; try (vm_compute; congruence).
  eexists. split; [reflexivity|]. split; reflexivity.
Qed.

(* the sharp guard (solve_unique_ends): the inner periods 1 and 2 share a label, the two end labels are unambiguous —
   solve(start=label of 0, end=label of 3) and solve() both visit 0..3 on every span type *)
Definition exS_dup_inner : list Z := [0; 1; 1; 3].
Example exS_unique_ends :
  count_of 0 exS_dup_inner = 1%nat /\ count_of 3 exS_dup_inner = 1%nat /\ (2 <= count_of 1 exS_dup_inner)%nat /\
  (forall kind, In kind [0%nat; 1%nat; 3%nat] ->
     snd (f_solve exA_scripts exA_desc (exA_opts ERaise) kind exS_dup_inner [] (Some 0) (Some 3) exA_state)
     = Ret (mkRes 4%nat [(0, 0, true); (1, 1, true); (1, 2, true); (3, 3, true)]) /\
     f_solve exA_scripts exA_desc (exA_opts ERaise) kind exS_dup_inner [] None None exA_state
     = f_solve exA_scripts exA_desc (exA_opts ERaise) kind exS_dup_inner [] (Some 0) (Some 3) exA_state).
Proof.
  split; [reflexivity|]. split; [reflexivity|]. split; [vm_compute; reflexivity|].
  intros kind [<-|[<-|[<-|[]]]]; split; vm_compute; reflexivity.
Qed.
