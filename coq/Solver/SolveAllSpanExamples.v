(* SolveAllSpanExamples.v — concrete instances for SolveAllSpanFacts: every span type, repeated labels, a start before the lags. *)
From Coq Require Import PrimFloat ZArith List Bool Lia.
Import ListNotations.
Require Import PyBase Solver SolverF SolveAll SolveAllF SolveAllFacts SolveAllSpan SolveAllSpanFacts SolveAllExamples.
Open Scope Z_scope.

Lemma exA_span_nodup : NoDup exA_span.
Proof. unfold exA_span. repeat constructor; cbn; intuition lia. Qed.

(* list / tuple / range (0), NumPy array (1) and pandas Index (3) give the very same run for solve(start=1, end=2) *)
Example exS_every_span_kind :
  f_solve exA_scripts exA_desc (exA_opts ERaise) 1 exA_span [] (Some 1) (Some 2) exA_state
  = f_solve exA_scripts exA_desc (exA_opts ERaise) 0 exA_span [] (Some 1) (Some 2) exA_state /\
  f_solve exA_scripts exA_desc (exA_opts ERaise) 3 exA_span [] (Some 1) (Some 2) exA_state
  = f_solve exA_scripts exA_desc (exA_opts ERaise) 0 exA_span [] (Some 1) (Some 2) exA_state /\
  snd (f_solve exA_scripts exA_desc (exA_opts ERaise) 3 exA_span [] (Some 1) (Some 2) exA_state)
  = Ret (mkRes 2%nat [(1, 1, true); (2, 2, true)]).
Proof. repeat split; vm_compute; reflexivity. Qed.

(* a span in which periods 0 and 1 carry the same label: solve_period(that label) solves period 0 on a list, and is
   rejected with KeyError (nothing changed) on a NumPy array and on a pandas Index; the other labels still work everywhere *)
Definition exS_dup_span : list Z := [0; 0; 2; 3].
Example exS_repeated_label :
  f_solve_period exA_scripts exA_desc (exA_opts ERaise) 0 exS_dup_span [] 0 exA_state
  = f_solve_t exA_scripts exA_desc (exA_opts ERaise) 0 exA_state /\
  f_solve_period exA_scripts exA_desc (exA_opts ERaise) 1 exS_dup_span [] 0 exA_state = (exA_state, Raise KeyError) /\
  f_solve_period exA_scripts exA_desc (exA_opts ERaise) 3 exS_dup_span [] 0 exA_state = (exA_state, Raise KeyError) /\
  f_solve_period exA_scripts exA_desc (exA_opts ERaise) 1 exS_dup_span [] 2 exA_state
  = f_solve_t exA_scripts exA_desc (exA_opts ERaise) 2 exA_state /\
  f_solve_period exA_scripts exA_desc (exA_opts ERaise) 3 exS_dup_span [] 2 exA_state
  = f_solve_t exA_scripts exA_desc (exA_opts ERaise) 2 exA_state /\
  (2 <= count_of 0 exS_dup_span)%nat.
Proof. repeat split; vm_compute; reflexivity. Qed.

(* one lag and one lead, explicit start at position 0: the first period is rejected with IndexError, nothing changes;
   the hypotheses of solve_start_before_lags_rejected are met *)
Example exS_start_before_lags :
  f_solve exA_scripts exA_desc_ll (exA_opts ERaise) 3 exA_span [] (Some 0) None exA_state = (exA_state, Raise IndexError) /\
  resolves_start Z exA_desc_ll exA_span (Some 0) 0 /\ resolves_end Z exA_desc_ll exA_span None 2 /\
  (0 < lags exA_desc_ll)%nat /\ length (status exA_state) = length exA_span.
Proof. repeat split; vm_compute; reflexivity. Qed.

(* more lags (leads) than periods: the default start (end) does not exist — IndexError, nothing changed *)
Definition exS_desc_5lags : mdesc := mkDesc [0%nat] [0%nat] 5%nat 0%nat.
Definition exS_desc_5leads : mdesc := mkDesc [0%nat] [0%nat] 0%nat 5%nat.
Example exS_defaults_beyond_span :
  f_solve exA_scripts exS_desc_5lags (exA_opts ERaise) 0 exA_span [] None None exA_state = (exA_state, Raise IndexError) /\
  f_solve exA_scripts exS_desc_5leads (exA_opts ERaise) 3 exA_span [] (Some 1) None exA_state = (exA_state, Raise IndexError) /\
  (length exA_span <= lags exS_desc_5lags)%nat /\ (length exA_span <= leads exS_desc_5leads)%nat /\
  resolves_start Z exS_desc_5leads exA_span (Some 1) 1.
Proof. repeat split; vm_compute; try reflexivity; lia. Qed.

(* FIXED by 7cd6323 (was the finding "defaults looked up by label"): the default first / last periods are positions.  On a span whose
   last label is carried by periods 2 and 3, solve() with no arguments visits all four periods on a list, a NumPy array and a
   pandas Index alike; the hypotheses of solve_defaults_any_span hold although the span has a repeated label *)
Definition exS_dup_last : list Z := [0; 1; 2; 2].
Example exS_default_end_repeated_label :
  (forall kind, In kind [0%nat; 1%nat; 3%nat] ->
     snd (f_solve exA_scripts exA_desc (exA_opts ERaise) kind exS_dup_last [] None None exA_state)
     = Ret (mkRes 4%nat [(0, 0, true); (1, 1, true); (2, 2, true); (2, 3, true)]) /\
     fst (f_solve exA_scripts exA_desc (exA_opts ERaise) kind exS_dup_last [] None None exA_state)
     = fst (f_solve exA_scripts exA_desc (exA_opts ERaise) 0 exA_span [] None None exA_state)) /\
  nodup_b exS_dup_last = false /\ (lags exA_desc + leads exA_desc < length exS_dup_last)%nat.
Proof.
  split; [intros kind [<-|[<-|[<-|[]]]]; split; vm_compute; reflexivity|]. split; [vm_compute; reflexivity|]. vm_compute. lia.
Qed.

(* a label GIVEN by the caller is still looked up: end = the repeated label resolves to its first occurrence on a list (period 3 is
   not visited), is rejected with KeyError on a NumPy array and on a pandas Index *)
Example exS_given_repeated_label :
  snd (f_solve exA_scripts exA_desc (exA_opts ERaise) 0 exS_dup_last [] None (Some 2) exA_state)
  = Ret (mkRes 3%nat [(0, 0, true); (1, 1, true); (2, 2, true)]) /\
  f_solve exA_scripts exA_desc (exA_opts ERaise) 1 exS_dup_last [] None (Some 2) exA_state = (exA_state, Raise KeyError) /\
  f_solve exA_scripts exA_desc (exA_opts ERaise) 3 exS_dup_last [] None (Some 2) exA_state = (exA_state, Raise KeyError).
Proof. repeat split; vm_compute; reflexivity. Qed.

(* the sharp guard (solve_unique_ends): the inner periods 1 and 2 share a label, the two end labels are unambiguous —
   solve(start=label of 0, end=label of 3) and solve() both visit 0..3 on every span type *)
Definition exS_dup_inner : list Z := [0; 1; 1; 3].
Example exS_unique_ends :
  count_of 0 exS_dup_inner = 1%nat /\ count_of 3 exS_dup_inner = 1%nat /\ (2 <= count_of 1 exS_dup_inner)%nat /\
  (forall kind, In kind [0%nat; 1%nat; 3%nat] ->
     snd (f_solve exA_scripts exA_desc (exA_opts ERaise) kind exS_dup_inner [] (Some 0) (Some 3) exA_state)
     = Ret (mkRes 4%nat [(0, 0, true); (1, 1, true); (1, 2, true); (3, 3, true)]) /\
     f_solve exA_scripts exA_desc (exA_opts ERaise) kind exS_dup_inner [] None None exA_state
     = f_solve exA_scripts exA_desc (exA_opts ERaise) kind exS_dup_inner [] (Some 0) (Some 3) exA_state).
Proof.
  split; [reflexivity|]. split; [reflexivity|]. split; [vm_compute; reflexivity|].
  intros kind [<-|[<-|[<-|[]]]]; split; vm_compute; reflexivity.
Qed.

(* FIXED by 7e39627 (was the finding "next(iter_periods()) raises TypeError"): next() yields the first pair, then the second; iterating
   the object still yields all four pairs; an empty range gives StopIteration (OtherError) *)
Example exS_period_iter_protocol :
  period_iter_next_M (iter_periods_M Z (locate_span SpList exA_span) exA_desc exA_span None None) = Ret (0, 0) /\
  period_iter_next_M (iter_periods_M Z (locate_span SpArray exA_span) exA_desc exA_span (Some 2) None) = Ret (2, 2) /\
  period_iter_next_M (iter_periods_M Z (locate_span SpIndex exA_span) exA_desc exA_span (Some 2) (Some 1)) = Raise OtherError /\
  period_iter_protocol_M (iter_periods_M Z (locate_span SpList exA_span) exA_desc exA_span (Some 1) (Some 2))
  = Ret (2%nat, [(1, 1); (2, 2); (1, 1); (2, 2); (1, 1); (2, 2)]).
Proof. repeat split; vm_compute; reflexivity. Qed.

(* KEPT FINDING (known_findings.d/C05.json): on a pandas IntervalIndex span solve_period(label) / solve(start=label) reject a label that
   names exactly one period with KeyError (get_loc returns numpy.int64, which is no built-in int); solve() with defaults is unaffected *)
Lemma interval_index_label_rejected_refuted :
  exists span lab i,
    NoDup span /\ nth_error span i = Some lab /\
    f_solve_period exA_scripts exA_desc (exA_opts ERaise) 5 span [] lab exA_state = (exA_state, Raise KeyError) /\
    f_solve exA_scripts exA_desc (exA_opts ERaise) 5 span [] (Some lab) None exA_state = (exA_state, Raise KeyError) /\
    snd (f_solve exA_scripts exA_desc (exA_opts ERaise) 5 span [] None None exA_state)
    = Ret (mkRes 4%nat [(0, 0, true); (1, 1, true); (2, 2, true); (3, 3, true)]).
Proof.
  exists exA_span, 1, 1%nat. split; [exact exA_span_nodup|]. repeat split; vm_compute; reflexivity.
Qed.
