(* SolveAllExamples.v — concrete float instances for property C05: non-vacuity of the hypotheses, the frame premise
   discharged for scripted models, and closed computations of solve() checked by the kernel. *)
From Coq Require Import PrimFloat ZArith List Bool Lia.
Import ListNotations.
Require Import PyBase Solver SolverF SolveAll SolveAllF SolveAllFacts.
Open Scope Z_scope.

(* ---------------- the frame premise holds for every scripted model without absolute writes ---------------- *)
Fixpoint local_only (acts : list action) : bool :=
  match acts with
  | [] => true
  | ASetAt _ _ _ :: _ => false
  | _ :: r => local_only r
  end.
Definition script_local (ps : pscript) : bool :=
  local_only (sbefore ps) && forallb local_only (spasses ps) && local_only (safter ps).
Definition scripts_local (sc : scripts) : bool := forallb (fun x => script_local (snd x)) sc.

Lemma run_actions_frame catch p : forall acts v q,
  local_only acts = true -> q <> p -> col (fst (run_actions catch p acts v)) q = col v q.
Proof.
  induction acts as [|a acts IH]; intros v q Hl Hq; [reflexivity|].
  destruct a; cbn [local_only] in Hl; try discriminate; cbn [run_actions].
  - rewrite IH by assumption. apply col_set_cell. exact Hq.
  - destruct catch; [reflexivity|]. rewrite IH by assumption. apply col_set_cell. exact Hq.
  - reflexivity.
  - rewrite IH by assumption. apply col_set_cell. exact Hq.
Qed.

Lemma lookup_local sc p ps : scripts_local sc = true -> lookup p sc = Some ps -> script_local ps = true.
Proof.
  induction sc as [|[q x] sc IH]; intros Hl Hk; cbn [lookup] in Hk; [discriminate|].
  cbn [scripts_local forallb snd] in Hl. apply andb_true_iff in Hl as [H1 H2].
  destruct (Nat.eqb p q); [inversion Hk; subst; exact H1|apply IH; assumption].
Qed.

Lemma forallb_nth_local l i : forallb local_only l = true -> local_only (nth i l []) = true.
Proof.
  revert i. induction l as [|a l IH]; intros i H; [destruct i; reflexivity|].
  cbn [forallb] in H. apply andb_true_iff in H as [H1 H2]. destruct i; [exact H1|apply IH; exact H2].
Qed.

Theorem scripted_oracles_frame n sc : scripts_local sc = true ->
  hook_frame float n (s_ev n sc) /\ hook_frame float n (s_before n sc) /\ hook_frame float n (s_after n sc).
Proof.
  intros Hl. repeat split; intros t em cf k v p Hp q Hq; unfold s_ev, s_before, s_after, pos_of; rewrite Hp;
    destruct (lookup p sc) as [ps|] eqn:Hk; try reflexivity;
    pose proof (lookup_local sc p ps Hl Hk) as Hps; unfold script_local in Hps;
    apply andb_true_iff in Hps as [Hps H3]; apply andb_true_iff in Hps as [H1 H2];
    apply run_actions_frame; auto. apply forallb_nth_local. exact H2.
Qed.

(* ---------------- a four-period model: every period converges at pass 2, except where a fault is scripted ---------------- *)
Definition exA_desc : mdesc := mkDesc [0%nat] [0%nat] 0%nat 0%nat.
Definition exA_desc_ll : mdesc := mkDesc [0%nat] [0%nat] 1%nat 1%nat.
Definition exA_state : fstate :=
  mkState [[0%float; 0%float; 0%float; 0%float]] [Unsolved; Unsolved; Unsolved; Unsolved] [-1; -1; -1; -1] [].
Definition good : pscript := mkPS [] [[ASet 0 1.5%float]; [ASet 0 1.5%float]] [].
Definition faulty : pscript := mkPS [] [[ASet 0 1.5%float]; [ASet 0 nan]] [].
Definition exA_scripts : scripts := [(0%nat, good); (1%nat, good); (2%nat, good); (3%nat, good)].
Definition exB_scripts : scripts := [(0%nat, good); (1%nat, good); (2%nat, faulty); (3%nat, good)].
Definition exA_span : list Z := [0; 1; 2; 3].
Definition exA_opts (em : errmode) : fopts := mkOpts 0 4 0x1.b7cdfd9d7bdbbp-34%float 0 true em true.

(* start / end given: exactly positions 1..2, in order, each solved as solve_t would *)
Example exA_start_end :
  f_solve exA_scripts exA_desc (exA_opts ERaise) 0 exA_span [] (Some 1) (Some 2) exA_state
  = (mkState [[0%float; 1.5%float; 1.5%float; 0%float]] [Unsolved; Solved; Solved; Unsolved] [-1; 2; 2; -1]
             [EvBefore 1; EvPass 1 1; EvPass 1 2; EvAfter 1 2; EvBefore 2; EvPass 2 1; EvPass 2 2; EvAfter 2 2],
     Ret (mkRes 2%nat [(1, 1, true); (2, 2, true)])).
Proof. vm_compute. reflexivity. Qed.

(* defaults: with one lag and one lead the range is [lags, len-1-leads] = [1, 2] — the same run *)
Example exA_defaults :
  f_solve exA_scripts exA_desc_ll (exA_opts ERaise) 0 exA_span [] None None exA_state
  = f_solve exA_scripts exA_desc (exA_opts ERaise) 0 exA_span [] (Some 1) (Some 2) exA_state.
Proof. vm_compute. reflexivity. Qed.

(* reversed start / end: nothing is visited, nothing changes, three empty lists *)
Example exA_reversed :
  f_solve exA_scripts exA_desc (exA_opts ERaise) 0 exA_span [] (Some 2) (Some 1) exA_state = (exA_state, Ret (mkRes 0%nat [])).
Proof. vm_compute. reflexivity. Qed.

(* unknown label (list span and NumPy span), label that is not a single position (pandas: recorded answer LOther), empty span *)
Example exA_label_errors :
  f_solve exA_scripts exA_desc (exA_opts ERaise) 0 exA_span [] (Some 9) (Some 2) exA_state = (exA_state, Raise KeyError) /\
  f_solve exA_scripts exA_desc (exA_opts ERaise) 1 exA_span [] (Some 1) (Some 9) exA_state = (exA_state, Raise KeyError) /\
  f_solve exA_scripts exA_desc (exA_opts ERaise) 2 exA_span [(0, LInt 0); (1, LInt 1); (2, LInt 2); (3, LInt 3); (10, LOther)]
          (Some 10) (Some 2) exA_state = (exA_state, Raise KeyError) /\
  f_solve [] exA_desc (exA_opts ERaise) 0 [] [] None None (mkState [[]] [] [] []) = (mkState [[]] [] [] [], Raise (SolutionError None)).
Proof. repeat split; vm_compute; reflexivity. Qed.

(* a fault in period 2 under errors='raise': period 1 keeps its completed values and status, period 2 carries 'E' / pass 2,
   periods 3 (later) and 0 (before start) are untouched *)
Example exB_fault_contained :
  f_solve exB_scripts exA_desc (exA_opts ERaise) 0 exA_span [] (Some 1) (Some 3) exA_state
  = (mkState [[0%float; 1.5%float; nan; 0%float]] [Unsolved; Solved; ErrorSt; Unsolved] [-1; 2; 2; -1]
             [EvBefore 1; EvPass 1 1; EvPass 1 2; EvAfter 1 2; EvBefore 2; EvPass 2 1; EvPass 2 2],
     Raise (SolutionError None)).
Proof. vm_compute. reflexivity. Qed.

(* the same fault under errors='skip': 'S' at pass 2 and the solve moves on to period 3 *)
Example exB_skip_moves_on :
  f_solve exB_scripts exA_desc (exA_opts ESkip) 0 exA_span [] (Some 1) (Some 3) exA_state
  = (mkState [[0%float; 1.5%float; nan; 1.5%float]] [Unsolved; Solved; Skipped; Solved] [-1; 2; 2; 2]
             [EvBefore 1; EvPass 1 1; EvPass 1 2; EvAfter 1 2; EvBefore 2; EvPass 2 1; EvPass 2 2;
              EvBefore 3; EvPass 3 1; EvPass 3 2; EvAfter 3 2],
     Ret (mkRes 3%nat [(1, 1, true); (2, 2, false); (3, 3, true)])).
Proof. vm_compute. reflexivity. Qed.

(* solve_period(label) = solve_t(position of label) *)
Example exA_solve_period :
  f_solve_period exA_scripts exA_desc (exA_opts ERaise) 1 exA_span [] 2 exA_state
  = f_solve_t exA_scripts exA_desc (exA_opts ERaise) 2 exA_state.
Proof. vm_compute. reflexivity. Qed.

(* every hypothesis of solve_failure_containment is met by the instance exB (so the theorem is not vacuous) *)
Example exB_containment_hypotheses_satisfiable :
  let ev := s_ev 4 exB_scripts in let bf := s_before 4 exB_scripts in let af := s_after 4 exB_scripts in
  hook_frame float (length exA_span) ev /\ hook_frame float (length exA_span) bf /\ hook_frame float (length exA_span) af /\
  length (status exA_state) = length exA_span /\
  min_iter (exA_opts ERaise) <= max_iter (exA_opts ERaise) /\
  locate_ok Z (f_locate 0 exA_span []) exA_span /\
  resolves_start Z exA_desc exA_span (Some 1) 1 /\ resolves_end Z exA_desc exA_span (Some 3) 3 /\
  resolves_start Z exA_desc_ll exA_span None 1 /\ resolves_end Z exA_desc_ll exA_span None 2 /\
  snd (f_solve exB_scripts exA_desc (exA_opts ERaise) 0 exA_span [] (Some 1) (Some 3) exA_state) = Raise (SolutionError None).
Proof.
  cbv zeta. destruct (scripted_oracles_frame 4 exB_scripts eq_refl) as (H1 & H2 & H3).
  split; [exact H1|]. split; [exact H2|]. split; [exact H3|]. split; [reflexivity|]. split; [vm_compute; congruence|].
  split.
  { apply locate_index_ok. unfold exA_span. repeat constructor; cbn; intuition lia. }
  split; [reflexivity|]. split; [reflexivity|]. split; [split; [reflexivity|cbn; lia]|]. split; [reflexivity|].
  vm_compute. reflexivity.
Qed.
