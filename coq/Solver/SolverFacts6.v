(* SolverFacts6.v — consequences of the complete state machine (SolverFacts4):
   1. for ALL `errors` modes: True is returned only for a pass that was judged — it started from a finite LOCAL vector, ended
      with a finite stored vector, is >= min_iter and moved every check variable by < tol against the local vector;
   2. the clause "a pass that starts from non-finite check values is never judged" for errors='replace' under the explicit
      guard that excludes finding #5: no earlier pass of the period turned a finite local vector into a non-finite stored one
      (so nothing was zeroed; the local vector is the stored vector). *)
From Coq Require Import ZArith List Bool Lia.
Import ListNotations.
Require Import PyBase Solver SolverFacts SolverFacts2 SolverFacts3 SolverFacts4.
Open Scope Z_scope.

Section Facts6.
  Variable num : Type.
  Variables (sub : num -> num -> num) (absf : num -> num) (ltb : num -> num -> bool)
            (isfin : num -> bool) (zero : num).
  Variables (ev before after : hook num).

  Notation solve_t_M := (solve_t_M num sub absf ltb isfin zero ev before after).
  Notation get_check := (get_check num zero).
  Notation all_finite := (all_finite num isfin).
  Notation conv := (conv num sub absf ltb).

  Section Top.
    Variables (d : mdesc) (o : opts num) (t : Z) (s : mstate num) (p : nat) (v1 : vals num).
    Hypothesis Hmm : min_iter o <= max_iter o.
    Hypothesis Hp : py_pos (length (status s)) t = Some p.
    Hypothesis Hfeas : feasible d (length (status s)) p = true.
    Hypothesis Hoff : offset o = 0.
    Hypothesis Hpre : is_raise (errors o) && negb (all_finite (get_check d (vals_of s) p)) = false.
    Hypothesis Hb : before t (errors o) (catch_first o) 0%nat (vals_of s) = (v1, None).
    Let c0 := get_check d (vals_of s) p.
    Let N := Z.to_nat (max_iter o).
    Notation chkseq := (chkseq num zero ev d o t p c0 v1).
    Notation lcur := (lcur num isfin zero ev d o t p c0 v1).
    Notation stops := (stops num sub absf ltb isfin zero ev d o t p c0 v1 N).
    Notation result_at := (result_at num isfin zero ev after d o t p c0 v1).

    Lemma result_at_solved j lg v x k lg' :
      result_at j lg = LDone v x k lg' -> x = Solved ->
      k = j /\ snd (evk num ev o t j (st_after num ev o t v1 (j - 1))) = None /\ all_finite (chkseq j) = true.
    Proof.
      unfold SolverFacts4.result_at. intros H Hx. subst x.
      destruct (evk num ev o t j (st_after num ev o t v1 (j - 1))) as [v' [c|]]; [discriminate|].
      destruct (all_finite (chkseq j)) eqn:Fc.
      - destruct (afterk num after o t j (st_after num ev o t v1 j)) as [v'' [c|]]; [discriminate|].
        inversion H; subst. auto.
      - destruct (errors o); discriminate.
    Qed.

    (* every mode: a True return names a judged pass *)
    Theorem solved_only_if_locally_judged s' :
      length (iters s) = length (status s) ->
      solve_t_M d o t s = (s', Ret true) ->
      exists k, (1 <= k <= N)%nat /\
        nth_error (status s') p = Some Solved /\ nth_error (iters s') p = Some (Z.of_nat k) /\
        all_finite (lcur (k - 1)) = true /\ all_finite (chkseq k) = true /\
        min_iter o <= Z.of_nat k /\ conv (tol o) (chkseq k) (lcur (k - 1)) = true /\
        (forall j, (1 <= j < k)%nat -> stops j = false).
    Proof.
      intros Hlen H.
      rewrite (solve_t_complete_spec num sub absf ltb isfin zero ev before after d o t s p v1 Hmm Hp Hfeas Hoff Hpre Hb) in H.
      cbv zeta in H. fold c0 N in H.
      pose proof (py_pos_lt _ _ _ Hp) as Hlt.
      destruct (find_first stops 1 N) as [k0|] eqn:Ef.
      - apply find_first_some in Ef as (Hr & Hst & Hbefore).
        destruct (result_at k0 (log s ++ [EvBefore t])) as [v x k lg'|v wr e lg'] eqn:ER; cbn [finish] in H.
        + destruct (st_eqb x Failed && fail_raise o); [discriminate|].
          inversion H as [[Hs' Hflag]]. destruct x; try discriminate.
          destruct (result_at_solved k0 _ _ _ _ _ ER eq_refl) as (-> & Hnr & Fc).
          exists k0. split; [lia|]. cbn [status iters stamp].
          rewrite !nth_error_upd_eq by (try rewrite Hlen; exact Hlt).
          split; [reflexivity|]. split; [reflexivity|].
          unfold SolverFacts4.stops in Hst. unfold raises in Hst. rewrite Hnr in Hst. cbn [orb] in Hst. rewrite Fc in Hst.
          apply andb_true_iff in Hst as [F1 Hst]. apply andb_true_iff in Hst as [Hmin Hc].
          split; [exact F1|]. split; [exact Fc|]. split; [lia|]. split; [exact Hc|].
          intros j Hj. apply Hbefore. lia.
        + destruct wr as [[x k]|]; discriminate.
      - cbn [finish st_eqb andb] in H. destruct (fail_raise o); discriminate.
    Qed.

    (* an exception in the post-hook, in EVERY regime (any mode, non-finite passes and raising-free earlier passes allowed): the
       hook runs after the first stopping pass k0 when that pass ended finite (i.e. converged); its exception surfaces as
       SolutionError chained to it and neither status nor iterations of the period are recorded *)
    Theorem after_exception_surfaces_general k0 v'' c :
      find_first stops 1 N = Some k0 ->
      snd (evk num ev o t k0 (st_after num ev o t v1 (k0 - 1))) = None -> all_finite (chkseq k0) = true ->
      afterk num after o t k0 (st_after num ev o t v1 k0) = (v'', Some c) ->
      solve_t_M d o t s =
      (mkState v'' (status s) (iters s) (log s ++ [EvBefore t] ++ pass_events t 1 k0 ++ [EvAfter t k0]),
       Raise (SolutionError (Some c))).
    Proof.
      intros Ef Hnr Fc Ha.
      rewrite (solve_t_complete_spec num sub absf ltb isfin zero ev before after d o t s p v1 Hmm Hp Hfeas Hoff Hpre Hb).
      cbv zeta. fold c0 N. rewrite Ef. unfold SolverFacts4.result_at.
      destruct (evk num ev o t k0 (st_after num ev o t v1 (k0 - 1))) as [v' r]. cbn [snd] in Hnr. subst r.
      rewrite Fc, Ha. cbn [finish with_vals]. rewrite <- !app_assoc. reflexivity.
    Qed.

    (* no zeroing before pass k  =>  the local vector is the stored vector up to pass k-1 *)
    Lemma lcur_eq_chkseq_no_zeroing k :
      (forall j, (j < k)%nat -> all_finite (lcur j) = true -> all_finite (chkseq (S j)) = true) ->
      forall j, (j <= k)%nat -> lcur j = chkseq j.
    Proof.
      intros Hg. induction j as [|j IH]; intros Hj.
      - apply (proj1 (lcur_0_S num isfin zero ev d o t p c0 v1 0)).
      - rewrite (proj2 (lcur_0_S num isfin zero ev d o t p c0 v1 j)).
        destruct (all_finite (lcur j)) eqn:Fl.
        + rewrite (Hg j) by (try lia; exact Fl). rewrite andb_false_r. reflexivity.
        + rewrite andb_false_r. reflexivity.
    Qed.

    (* errors='replace' under the guard that excludes finding #5 (no earlier pass of this period left non-finite stored values
       after starting from a finite local vector, i.e. nothing was zeroed): a pass k that starts from non-finite stored check
       values is not the pass at which the period is declared solved.  (Without the guard: refuted, finding #5.) *)
    Theorem nonfinite_start_never_judged_replace_guarded s' k :
      errors o = EReplace -> length (iters s) = length (status s) ->
      (forall j, (S j < k)%nat -> all_finite (lcur j) = true -> all_finite (chkseq (S j)) = true) ->
      all_finite (chkseq (k - 1)) = false ->
      solve_t_M d o t s = (s', Ret true) ->
      nth_error (iters s') p <> Some (Z.of_nat k).
    Proof.
      intros He Hlen Hg Hnf H Hk.
      destruct (solved_only_if_locally_judged s' Hlen H) as (k0 & Hr & _ & Hi & Fl & _).
      rewrite Hi in Hk. inversion Hk as [Hk']. apply Nat2Z.inj in Hk'. subst k0.
      rewrite (lcur_eq_chkseq_no_zeroing (k - 1)) in Fl; [congruence| |lia].
      intros j Hj. apply Hg. lia.
    Qed.

    (* ... and the guard is exactly what fails in finding #5: whenever 'replace' declares solved a pass k that started from
       non-finite stored values, some earlier pass S j < k turned a finite local vector into a non-finite stored one *)
    Theorem replace_judged_after_nonfinite_only_by_zeroing s' k :
      errors o = EReplace -> length (iters s) = length (status s) ->
      all_finite (chkseq (k - 1)) = false ->
      solve_t_M d o t s = (s', Ret true) -> nth_error (iters s') p = Some (Z.of_nat k) ->
      ~ (forall j, (S j < k)%nat -> all_finite (lcur j) = true -> all_finite (chkseq (S j)) = true).
    Proof.
      intros He Hlen Hnf H Hk Hg. exact (nonfinite_start_never_judged_replace_guarded s' k He Hlen Hg Hnf H Hk).
    Qed.
  End Top.
End Facts6.
