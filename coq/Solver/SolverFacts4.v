(* SolverFacts4.v — the COMPLETE state machine of the solve_t loop, all five `errors` modes at once and with no
   assumption on the oracles or on finiteness: the loop ends at the first pass at which a stop condition holds, with
   the outcome that condition prescribes; otherwise 'F' after max_iter passes.  Everything in SolverFacts/2/3 about
   one period is an instance of this statement. *)
From Coq Require Import ZArith List Bool Lia.
Import ListNotations.
Require Import PyBase Solver SolverFacts SolverFacts2 SolverFacts3.
Open Scope Z_scope.

Section Facts4.
  Variable num : Type.
  Variables (sub : num -> num -> num) (absf : num -> num) (ltb : num -> num -> bool)
            (isfin : num -> bool) (zero : num).
  Variables (ev before after : hook num).

  Notation loop := (loop num sub absf ltb isfin zero ev after).
  Notation solve_t_M := (solve_t_M num sub absf ltb isfin zero ev before after).
  Notation get_check := (get_check num zero).
  Notation all_finite := (all_finite num isfin).
  Notation conv := (conv num sub absf ltb).
  Notation replace_nonfinite := (replace_nonfinite num isfin zero).

  Section OnePeriod.
    Variables (d : mdesc) (o : opts num) (t : Z) (p : nat).
    Variable c0 : list num.
    Variable v1 : vals num.
    Variable N : nat.                       (* max_iter *)
    Notation evk := (evk num ev o t).
    Notation afterk := (afterk num after o t).
    Notation st_after := (st_after num ev o t v1).
    Notation chkseq := (chkseq num zero ev d o t p c0 v1).
    Notation rcur := (rcur num isfin zero ev d o t p c0 v1).
    Notation pass_events := (pass_events t).

    (* the loop's local `current_values` after pass j: the stored check vector, except under 'replace' (see rcur) *)
    Definition lcur (j : nat) : list num := match errors o with EReplace => rcur j | _ => chkseq j end.
    Definition raises (j : nat) : bool :=
      match snd (evk j (st_after (j - 1))) with Some _ => true | None => false end.
    Definition hard : bool := match errors o with ERaise | ESkip | EInvalid => true | _ => false end.

    (* pass j ends the loop iff it raises, or it started from a finite local vector and either
       - left a non-finite stored vector under raise / skip / an invalid mode (or under ignore / replace on the last pass), or
       - left a finite one, j >= min_iter and every check variable moved by < tol against the local vector *)
    Definition stops (j : nat) : bool :=
      raises j ||
      (all_finite (lcur (j - 1)) &&
       (if all_finite (chkseq j)
        then (min_iter o <=? Z.of_nat j) && conv (tol o) (chkseq j) (lcur (j - 1))
        else hard || (j =? N)%nat)).

    Definition result_at (j : nat) (lg : list event) : lres num :=
      let lgj := lg ++ pass_events 1 j in
      match evk j (st_after (j - 1)) with
      | (v', Some c) => LRaise v' (if is_raise (errors o) then Some (ErrorSt, j) else None) (SolutionError (Some c)) lgj
      | (v', None) =>
          if all_finite (chkseq j) then
            match afterk j (st_after j) with
            | (v'', Some c) => LRaise v'' None (SolutionError (Some c)) (lgj ++ [EvAfter t j])
            | (v'', None) => LDone v'' Solved j (lgj ++ [EvAfter t j])
            end
          else
            match errors o with
            | ERaise => LRaise (st_after j) (Some (ErrorSt, j)) (SolutionError None) lgj
            | ESkip => LDone (st_after j) Skipped j lgj
            | EInvalid => LRaise (st_after j) None ValueError lgj
            | EIgnore | EReplace => LDone (st_after j) Failed j lgj
            end
      end.

    Lemma lcur_S j :
      lcur (S j) =
      if (match errors o with EReplace => true | _ => false end) && all_finite (lcur j) && negb (all_finite (chkseq (S j)))
      then replace_nonfinite (chkseq (S j)) else chkseq (S j).
    Proof. unfold lcur. destruct (errors o); cbn [andb]; reflexivity. Qed.

    Lemma pass_events_snoc lg j : (lg ++ pass_events 1 j) ++ [EvPass t (S j)] = lg ++ pass_events 1 (S j).
    Proof. rewrite <- app_assoc. f_equal. unfold SolverFacts.pass_events. rewrite seq_S, map_app. reflexivity. Qed.

    Lemma loop_complete_gen : forall n j lg,
      (j + n = N)%nat ->
      loop d o t p n (S j) (st_after j) (lcur j) (lg ++ pass_events 1 j) =
      match find_first stops (S j) n with
      | Some k => result_at k lg
      | None => LDone (st_after N) Failed N (lg ++ pass_events 1 N)
      end.
    Proof.
      induction n as [|n IH]; intros j lg HN.
      - cbn [Solver.loop find_first]. replace (S j - 1)%nat with j by lia. replace j with N by lia. reflexivity.
      - cbn [Solver.loop find_first]. rewrite pass_events_snoc.
        unfold stops at 1. unfold raises. replace (S j - 1)%nat with j by lia.
        fold (SolverFacts.evk num ev o t (S j) (st_after j)).
        destruct (evk (S j) (st_after j)) as [v' r] eqn:E.
        destruct r as [c|].
        + cbn [snd orb]. unfold result_at. replace (S j - 1)%nat with j by lia. rewrite E. reflexivity.
        + cbn [snd orb].
          assert (Hv' : v' = st_after (S j)) by (cbn [SolverFacts.st_after]; rewrite E; reflexivity).
          assert (Hc' : get_check d v' p = chkseq (S j)) by (rewrite Hv'; reflexivity).
          rewrite Hc'.
          (* continuing with the local vector lcur (S j) *)
          assert (Hcont : forall cur', cur' = lcur (S j) ->
                    loop d o t p n (S (S j)) v' cur' (lg ++ pass_events 1 (S j)) =
                    match find_first stops (S (S j)) n with
                    | Some k => result_at k lg
                    | None => LDone (st_after N) Failed N (lg ++ pass_events 1 N)
                    end).
          { intros cur' ->. rewrite Hv'. apply IH. lia. }
          (* the outcome when pass S j stops the loop with both vectors finite / the stored one non-finite *)
          destruct (all_finite (lcur j)) eqn:Fp; cbn [negb andb].
          * destruct (all_finite (chkseq (S j))) eqn:Fc; cbn [negb].
            -- assert (Hl : chkseq (S j) = lcur (S j)) by (rewrite lcur_S, Fc, andb_false_r; reflexivity).
               destruct (Z.of_nat (S j) <? min_iter o) eqn:Emin.
               ++ replace (min_iter o <=? Z.of_nat (S j)) with false by lia. cbn [andb]. apply Hcont. exact Hl.
               ++ replace (min_iter o <=? Z.of_nat (S j)) with true by lia. cbn [andb].
                  destruct (conv (tol o) (chkseq (S j)) (lcur j)) eqn:Ec.
                  ** unfold result_at. replace (S j - 1)%nat with j by lia. rewrite E, Fc.
                     fold (SolverFacts.afterk num after o t (S j) v'). rewrite Hv'.
                     destruct (afterk (S j) (st_after (S j))) as [v'' [c|]]; reflexivity.
                  ** apply Hcont. exact Hl.
            -- unfold hard.
               assert (Hstop : result_at (S j) lg =
                         match errors o with
                         | ERaise => LRaise v' (Some (ErrorSt, S j)) (SolutionError None) (lg ++ pass_events 1 (S j))
                         | ESkip => LDone v' Skipped (S j) (lg ++ pass_events 1 (S j))
                         | EInvalid => LRaise v' None ValueError (lg ++ pass_events 1 (S j))
                         | EIgnore | EReplace => LDone v' Failed (S j) (lg ++ pass_events 1 (S j))
                         end).
               { unfold result_at. replace (S j - 1)%nat with j by lia. rewrite E, Fc, Hv'. reflexivity. }
               destruct (errors o) eqn:Ee; cbn [orb].
               ++ (* raise *) rewrite Hstop. reflexivity.
               ++ (* skip *) rewrite Hstop. reflexivity.
               ++ (* ignore *) destruct n as [|n'].
                  ** replace (S j =? N)%nat with true by (symmetry; apply Nat.eqb_eq; lia). rewrite Hstop. reflexivity.
                  ** replace (S j =? N)%nat with false by (symmetry; apply Nat.eqb_neq; lia).
                     apply Hcont. rewrite lcur_S, Ee. reflexivity.
               ++ (* replace *) destruct n as [|n'].
                  ** replace (S j =? N)%nat with true by (symmetry; apply Nat.eqb_eq; lia). rewrite Hstop. reflexivity.
                  ** replace (S j =? N)%nat with false by (symmetry; apply Nat.eqb_neq; lia).
                     apply Hcont. rewrite lcur_S, Ee, Fp, Fc. reflexivity.
               ++ (* invalid *) rewrite Hstop. reflexivity.
          * apply Hcont. rewrite lcur_S, Fp, andb_false_r. reflexivity.
    Qed.

    Theorem loop_complete_spec lg :
      loop d o t p N 1 v1 c0 lg =
      match find_first stops 1 N with
      | Some k => result_at k lg
      | None => LDone (st_after N) Failed N (lg ++ pass_events 1 N)
      end.
    Proof.
      pose proof (loop_complete_gen N 0 lg eq_refl) as H.
      cbn [SolverFacts.st_after SolverFacts.pass_events seq map] in H. rewrite app_nil_r in H.
      assert (H0 : lcur 0 = c0) by (unfold lcur; destruct (errors o); reflexivity).
      rewrite H0 in H. exact H.
    Qed.
    Lemma lcur_0_S j :
      lcur 0 = c0 /\
      lcur (S j) =
      if (match errors o with EReplace => true | _ => false end) && all_finite (lcur j) && negb (all_finite (chkseq (S j)))
      then replace_nonfinite (chkseq (S j)) else chkseq (S j).
    Proof. split; [unfold lcur; destruct (errors o); reflexivity|apply lcur_S]. Qed.
  End OnePeriod.

  (* solve_t, completely: guards passed and pre-hook returned => the bookkeeping of `finish` applied to the loop's outcome,
     which is decided by the first stopping pass *)
  Theorem solve_t_complete_spec d o t s p v1 :
    min_iter o <= max_iter o ->
    py_pos (length (status s)) t = Some p -> feasible d (length (status s)) p = true -> offset o = 0 ->
    is_raise (errors o) && negb (all_finite (get_check d (vals_of s) p)) = false ->
    before t (errors o) (catch_first o) 0%nat (vals_of s) = (v1, None) ->
    let c0 := get_check d (vals_of s) p in
    let N := Z.to_nat (max_iter o) in
    let lg := log s ++ [EvBefore t] in
    solve_t_M d o t s =
    finish num o s p
      (match find_first (stops d o t p c0 v1 N) 1 N with
       | Some k => result_at d o t p c0 v1 k lg
       | None => LDone (st_after num ev o t v1 N) Failed N (lg ++ pass_events t 1 N)
       end).
  Proof.
    intros Hmm Hp Hfeas Hoff Hpre Hb c0 N lg.
    rewrite (solve_t_M_run num sub absf ltb isfin zero ev before after d o t s p v1 Hmm Hp Hfeas Hoff Hpre Hb).
    fold c0 N lg. rewrite loop_complete_spec. reflexivity.
  Qed.
End Facts4.
