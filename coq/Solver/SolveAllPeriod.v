(* SolveAllPeriod.v — pandas PeriodIndex.get_loc for a quarterly index, including the documented partial-string lookups.
   Definitions only.

   A period label is its quarter ordinal z = 4 * year + (quarter - 1) >= 0.  Keys handed to get_loc:
     z >= 0 : that quarter — as a Period object or as a full string ('2000Q3'), which pandas parses to the same Period;
     x <  0 : the year string str(-x) ('2000'): a key of LOWER resolution than the index.  pandas answers with the slice of
              all quarters of that year (even when only one quarter matches) and raises KeyError when none does.
   A slice is not an int: solve() / solve_period() turn it into KeyError (interfaces.py "e.g. to avoid later problems with
   indexing a year against a pandas PeriodIndex"). *)
From Coq Require Import ZArith List Bool.
Import ListNotations.
Require Import PyBase Solver SolveAll SolveAllSpan.
Open Scope Z_scope.

Definition year_of (z : Z) : Z := z / 4.
Definition year_key (y : Z) : Z := - y.                      (* encoding of the key 'YYYY' *)

Definition locate_qindex (span : list Z) (x : Z) : locres :=
  if x <? 0 then (if existsb (fun z => year_of z =? - x) span then LOther else LFail)
  else locate_getloc span x.
