(* SolverDefaults.v — the keyword defaults of BaseModel.solve_t / SolverMixin.solve / solve_period as the model's option records,
   built from the regenerated constants of Gen/Generated.v (read from the signatures of the working tree).  Definitions only.
   The correspondence uses these records for every keyword a test call OMITS. *)
From Coq Require Import PrimFloat ZArith List Bool String.
Require Import PyBase Solver SolverF.
Require Fsic.Gen.Generated.
Open Scope Z_scope.

Definition errmode_of_string (s : string) : errmode :=
  if String.eqb s "raise" then ERaise else if String.eqb s "skip" then ESkip else
  if String.eqb s "ignore" then EIgnore else if String.eqb s "replace" then EReplace else EInvalid.

Definition opts_of (mn mx : Z) (tl : float) (off : Z) (failures errs : string) (cf : bool) : fopts :=
  mkOpts mn mx tl off (String.eqb failures "raise") (errmode_of_string errs) cf.

Definition dflt_solve_t : fopts :=
  opts_of Generated.dflt_model_solve_t_min_iter Generated.dflt_model_solve_t_max_iter Generated.dflt_model_solve_t_tol
          Generated.dflt_model_solve_t_offset Generated.dflt_model_solve_t_failures Generated.dflt_model_solve_t_errors
          Generated.dflt_model_solve_t_catch_first.
Definition dflt_solve : fopts :=
  opts_of Generated.dflt_solve_min_iter Generated.dflt_solve_max_iter Generated.dflt_solve_tol
          Generated.dflt_solve_offset Generated.dflt_solve_failures Generated.dflt_solve_errors Generated.dflt_solve_catch_first.
Definition dflt_solve_period : fopts :=
  opts_of Generated.dflt_solve_period_min_iter Generated.dflt_solve_period_max_iter Generated.dflt_solve_period_tol
          Generated.dflt_solve_period_offset Generated.dflt_solve_period_failures Generated.dflt_solve_period_errors
          Generated.dflt_solve_period_catch_first.
