(* SolveAllExamples2.v — a concrete history of public solver calls (SolveAllFacts2.api_status_invariant is about all of them). *)
From Coq Require Import PrimFloat ZArith List Bool Lia.
Import ListNotations.
Require Import PyBase Solver SolverF SolveAll SolveAllF SolveAllSpan SolveAllFacts SolveAllFacts2 SolveAllExamples.
Open Scope Z_scope.

(* solve() under 'raise' over all four periods of exB (fault in period 2: stops there with 'E', period 3 untouched; the
   SolutionError is caught), then solve_t(-1) under 'ignore' with max_iter = 1 (period 3 ends 'F' after one pass), then a
   solve_period of an unknown label (KeyError, nothing changes) *)
Definition exH_history : list (api float Z) :=
  [ApiSolve float Z exA_desc (exA_opts ERaise) exA_span None None;
   ApiSolveT float Z exA_desc (mkOpts 0 1 0x1.b7cdfd9d7bdbbp-34%float 0 false EIgnore true) (-1);
   ApiSolvePeriod float Z exA_desc (exA_opts ERaise) 77].
Example exH_history_statuses :
  let s' := run_api float PrimFloat.sub PrimFloat.abs PrimFloat.ltb fisfin fzero
                    (s_ev 4 exB_scripts) (s_before 4 exB_scripts) (s_after 4 exB_scripts) Z (locate_span SpList exA_span)
                    exH_history exA_state in
  status s' = [Solved; Solved; ErrorSt; Failed] /\ iters s' = [2; 2; 2; 1].
Proof. vm_compute. split; reflexivity. Qed.
