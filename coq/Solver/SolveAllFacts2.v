(* SolveAllFacts2.v — invariant over ARBITRARY histories of public solver calls (solve_t, solve_period, solve, in any order,
   each with its own options; exceptions caught by the caller): every call is a sequence of solve_t calls, so the status /
   iterations series keep their length and every status stays in the five-letter alphabet, 'S' being written only by a call
   with errors='skip' and 'E' only by one with errors='raise'. *)
From Coq Require Import ZArith List Bool Lia String.
Import ListNotations.
Require Import PyBase Solver SolverFacts SolverFacts2 SolverFacts3 SolverExamples SolveAll SolveAllFacts.
Require Fsic.Gen.Generated.
Open Scope Z_scope.

Section Api.
  Variable num : Type.
  Variables (sub : num -> num -> num) (absf : num -> num) (ltb : num -> num -> bool)
            (isfin : num -> bool) (zero : num).
  Variables (ev before after : hook num).
  Variable L : Type.
  Variable locate : L -> locres.

  Notation solve_t_M := (solve_t_M num sub absf ltb isfin zero ev before after).
  Notation run_periods := (run_periods num sub absf ltb isfin zero ev before after L).
  Notation solve_M := (solve_M num sub absf ltb isfin zero ev before after L locate).
  Notation solve_period_M := (solve_period_M num sub absf ltb isfin zero ev before after L locate).
  Notation run_calls := (run_calls num sub absf ltb isfin zero ev before after).
  Notation call := (call num).

  Inductive api : Type :=
  | ApiSolveT (d : mdesc) (o : opts num) (t : Z)
  | ApiSolvePeriod (d : mdesc) (o : opts num) (lab : L)
  | ApiSolve (d : mdesc) (o : opts num) (span : list L) (start end_ : option L).

  Definition api_opts (c : api) : opts num :=
    match c with ApiSolveT _ o _ | ApiSolvePeriod _ o _ | ApiSolve _ o _ _ _ => o end.

  Definition run_api1 (c : api) (s : mstate num) : mstate num :=
    match c with
    | ApiSolveT d o t => fst (solve_t_M d o t s)
    | ApiSolvePeriod d o lab => fst (solve_period_M d o lab s)
    | ApiSolve d o span start end_ => fst (solve_M d o span start end_ s)
    end.
  Fixpoint run_api (cs : list api) (s : mstate num) : mstate num :=
    match cs with [] => s | c :: r => run_api r (run_api1 c s) end.

  Lemma run_calls_app a : forall b s, run_calls (a ++ b) s = run_calls b (run_calls a s).
  Proof. induction a as [|c a IH]; intros b s; [reflexivity|]. cbn [app SolverFacts3.run_calls]. apply IH. Qed.

  (* the loop of solve() is a sequence of solve_t calls with the same description and options (cut at the first exception) *)
  Lemma run_periods_as_calls d o : forall ps s acc s' r,
    run_periods d o ps s acc = (s', r) ->
    exists j, s' = run_calls (map (fun tl : Z * L => mkCall num d o (fst tl)) (firstn j ps)) s.
  Proof.
    induction ps as [|[t lab] ps IH]; intros s acc s' r H; cbn [SolveAll.run_periods] in H.
    - inversion H; subst. exists 0%nat. reflexivity.
    - destruct (solve_t_M d o t s) as [s1 [b|e]] eqn:E.
      + apply IH in H as [j Hj]. exists (S j). cbn [firstn map SolverFacts3.run_calls call_desc call_opts call_t fst]. rewrite E. exact Hj.
      + inversion H; subst. exists 1%nat. cbn [firstn map SolverFacts3.run_calls call_desc call_opts call_t fst]. rewrite E. reflexivity.
  Qed.

  (* when the loop of solve() raises, it is one solve_t call — for a period of the list, from the state the completed prefix
     left — that raised, and that period carries the status its policy prescribes: 'F' with NonConvergenceError
     (failures='raise'), 'E' with SolutionError (errors='raise': non-finite value or exception in a pass), or nothing recorded
     (exception in a hook, pre-existing non-finite values, exception in a pass under another policy, IndexError, ValueError) *)
  Theorem run_periods_raise_status d o : forall ps s acc s' e,
    run_periods d o ps s acc = (s', Raise e) ->
    exists t lab sj, In (t, lab) ps /\ solve_t_M d o t sj = (s', Raise e) /\
      ((status s' = status sj /\ iters s' = iters sj) \/
       exists p x k, py_pos (List.length (status sj)) t = Some p /\
         status s' = upd p x (status sj) /\ iters s' = upd p (Z.of_nat k) (iters sj) /\
         ((x = Failed /\ e = NonConvergenceError /\ fail_raise o = true) \/
          (x = ErrorSt /\ errors o = ERaise /\ exists c, e = SolutionError c))).
  Proof.
    induction ps as [|[t lab] ps IH]; intros s acc s' e H; cbn [SolveAll.run_periods] in H; [discriminate|].
    destruct (solve_t_M d o t s) as [s1 [b|e1]] eqn:E.
    - destruct (IH _ _ _ _ H) as (t' & lab' & sj & Hin & Hrest). exists t', lab', sj. split; [right; exact Hin|exact Hrest].
    - inversion H; subst. exists t, lab, s. split; [left; reflexivity|]. split; [exact E|].
      destruct (solve_t_status_shape num sub absf ltb isfin zero ev before after d o t s s' (Raise e) E)
        as [(Hs & Hi & _)|(p & x & k & Hp & Hs & Hi & Hx)]; [left; auto|].
      right. exists p, x, k. split; [exact Hp|]. split; [exact Hs|]. split; [exact Hi|].
      destruct Hx as [[_ Hr]|[[-> [Hr|[Hr Hf]]]|[(_ & _ & Hr)|(-> & He & c & Hr)]]]; try discriminate.
      + left. inversion Hr; subst. auto.
      + right. inversion Hr; subst. eauto.
  Qed.

  Lemma api1_as_calls c s :
    exists cs, run_api1 c s = run_calls cs s /\ forall c', In c' cs -> call_opts num c' = api_opts c.
  Proof.
    destruct c as [d o t|d o lab|d o span start end_]; cbn [run_api1 api_opts].
    - exists [mkCall num d o t]. split; [reflexivity|]. intros c' [<-|[]]. reflexivity.
    - unfold SolveAll.solve_period_M. destruct (locate lab) as [t| |].
      + exists [mkCall num d o t]. split; [reflexivity|]. intros c' [<-|[]]. reflexivity.
      + exists []. split; [reflexivity|]. intros c' [].
      + exists []. split; [reflexivity|]. intros c' [].
    - unfold SolveAll.solve_M.
      destruct (max_iter o <? min_iter o); [exists []; split; [reflexivity|intros c' []]|].
      destruct (bad_label L locate start); [exists []; split; [reflexivity|intros c' []]|].
      destruct (bad_label L locate end_); [exists []; split; [reflexivity|intros c' []]|].
      destruct (iter_periods_M L locate d span start end_) as [[len ps]|e]; [|exists []; split; [reflexivity|intros c' []]].
      destruct (run_periods d o ps s []) as [s' r] eqn:E.
      destruct (run_periods_as_calls d o ps s [] s' r E) as [j Hj].
      exists (map (fun tl : Z * L => mkCall num d o (fst tl)) (firstn j ps)). split.
      + destruct r; cbn [fst]; exact Hj.
      + intros c' Hin. apply in_map_iff in Hin as (tl & <- & _). reflexivity.
  Qed.

  Lemma run_api_as_calls : forall cs s,
    exists cl, run_api cs s = run_calls cl s /\
               forall c', In c' cl -> exists c, In c cs /\ call_opts num c' = api_opts c.
  Proof.
    induction cs as [|c cs IH]; intros s.
    - exists []. split; [reflexivity|]. intros c' [].
    - cbn [run_api]. destruct (api1_as_calls c s) as (c1 & H1 & O1). destruct (IH (run_api1 c s)) as (c2 & H2 & O2).
      exists (c1 ++ c2). split.
      + rewrite run_calls_app, <- H1. exact H2.
      + intros c' Hin. apply in_app_iff in Hin as [Hin|Hin].
        * exists c. split; [left; reflexivity|apply O1; exact Hin].
        * destruct (O2 c' Hin) as (c0 & Hc0 & Ho). exists c0. split; [right; exact Hc0|exact Ho].
  Qed.

  Theorem api_status_invariant cs s :
    let s' := run_api cs s in
    List.length (status s') = List.length (status s) /\ List.length (iters s') = List.length (iters s) /\
    forall q x, nth_error (status s') q = Some x ->
      In (st_char x) Generated.status_values /\
      (nth_error (status s) q = Some x \/ x = Solved \/ x = Failed \/
       (x = Skipped /\ exists c, In c cs /\ errors (api_opts c) = ESkip) \/
       (x = ErrorSt /\ exists c, In c cs /\ errors (api_opts c) = ERaise)).
  Proof.
    cbv zeta. destruct (run_api_as_calls cs s) as (cl & -> & Ho).
    pose proof (calls_status_invariant num sub absf ltb isfin zero ev before after cl s) as H. cbv zeta in H.
    destruct H as (H1 & H2 & H3). split; [exact H1|]. split; [exact H2|].
    intros q x Hq. split; [apply status_always_in_alphabet|].
    destruct (H3 q x Hq) as [Hs|(c' & Hin & _ & Hx)]; [left; exact Hs|].
    destruct (Ho c' Hin) as (c & Hc & Hopt). rewrite Hopt in Hx.
    destruct Hx as [->|[->|[[-> He]|[-> He]]]]; auto.
    - right. right. right. left. split; [reflexivity|]. exists c. auto.
    - right. right. right. right. split; [reflexivity|]. exists c. auto.
  Qed.
End Api.
