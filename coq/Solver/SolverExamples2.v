(* SolverExamples2.v — instances of the complete state machine (SolverFacts4) and of the warnings filter (SolverFacts5). *)
From Coq Require Import PrimFloat ZArith List Bool Lia.
Import ListNotations.
Require Import PyBase Solver SolverF SolverFacts SolverFacts2 SolverFacts3 SolverFacts4 SolverFacts5 SolverExamples.
Open Scope Z_scope.

Definition ex10_opts (em : errmode) : fopts := mkOpts 0 5 0x1.b7cdfd9d7bdbbp-34%float 0 true em true.
Notation ex10_stops em :=
  (stops float PrimFloat.sub PrimFloat.abs PrimFloat.ltb fisfin fzero (s_ev 3 ex8_scripts) ex_desc (ex10_opts em) 1 1%nat
         (get_check float fzero ex_desc (vals_of ex_state) 1%nat) (vals_of ex_state) 5).

(* the script [1.0; nan; 1e-12; 1e-12] (ex8) through the complete state machine: the first stopping pass is
   2 under raise / skip / an invalid mode (the NaN), 4 under ignore (pass 3 starts from NaN: not judged),
   3 under replace (finding #5: judged against the zeroed local copy);
   and the hypotheses of solve_t_complete_spec hold for this instance *)
Example ex10_state_machine_instances :
  find_first (ex10_stops ERaise) 1 5 = Some 2%nat /\
  find_first (ex10_stops ESkip) 1 5 = Some 2%nat /\
  find_first (ex10_stops EInvalid) 1 5 = Some 2%nat /\
  find_first (ex10_stops EIgnore) 1 5 = Some 4%nat /\
  find_first (ex10_stops EReplace) 1 5 = Some 3%nat /\
  (forall em, min_iter (ex10_opts em) <= max_iter (ex10_opts em)) /\
  py_pos (length (status ex_state)) 1 = Some 1%nat /\ feasible ex_desc (length (status ex_state)) 1 = true /\
  (forall em, is_raise (errors (ex10_opts em)) &&
              negb (all_finite float fisfin (get_check float fzero ex_desc (vals_of ex_state) 1%nat)) = false) /\
  (forall em, s_before 3 ex8_scripts 1 (errors (ex10_opts em)) (catch_first (ex10_opts em)) 0%nat (vals_of ex_state)
              = (vals_of ex_state, None)).
Proof.
  repeat split; try (vm_compute; reflexivity).
  all: try (cbn; lia).
  all: try (match goal with em : errmode |- _ => destruct em end; vm_compute; reflexivity).
Qed.

(* the warnings filter on ex7's script (pass 2 = [V1 := 2; warn, V0 := 5; V1 := 9]):
   raise + catch_first_error: SolutionError chained to the warning, V0 keeps 1.0, V1 has 2.0 (not 9.0), 'E' / 2;
   raise without catch_first_error, and skip with it: the warning is dropped, every statement stores;
   the premise of f_solve_t_warnings_dropped holds for the latter two *)
Example ex11_warning_filter :
  f_solve_t ex7_scripts ex7_desc (mkOpts 0 2 0x1.b7cdfd9d7bdbbp-34%float 0 false ERaise true) 1 ex7_state
  = (mkState [[0%float; 1%float; 0%float]; [0.5%float; 2%float; 0.5%float]] [Unsolved; ErrorSt; Unsolved] [-1; 2; -1]
             [EvBefore 1; EvPass 1 1; EvPass 1 2], Raise (SolutionError (Some 1))) /\
  f_solve_t ex7_scripts ex7_desc (mkOpts 0 2 0x1.b7cdfd9d7bdbbp-34%float 0 false ERaise false) 1 ex7_state
  = f_solve_t (unwarn_scripts ex7_scripts) ex7_desc (mkOpts 0 2 0x1.b7cdfd9d7bdbbp-34%float 0 false ERaise false) 1 ex7_state /\
  f_solve_t ex7_scripts ex7_desc (mkOpts 0 2 0x1.b7cdfd9d7bdbbp-34%float 0 false ESkip true) 1 ex7_state
  = (mkState [[0%float; 5%float; 0%float]; [0.5%float; 9%float; 0.5%float]] [Unsolved; Failed; Unsolved] [-1; 2; -1]
             [EvBefore 1; EvPass 1 1; EvPass 1 2], Ret false) /\
  is_raise ERaise && false = false /\ is_raise ESkip && true = false.
Proof. repeat split; vm_compute; reflexivity. Qed.

(* a warning in the pre-hook under raise + catch_first_error (f_before_warning_caught): nothing stored, no pass, no record *)
Definition ex12_scripts : scripts := [(1%nat, mkPS [ASet 1 2%float; AWarnSet 0 5%float] [[ASet 0 1%float]] [])].
Example ex12_before_hook_warning :
  f_solve_t ex12_scripts ex7_desc (mkOpts 0 2 0x1.b7cdfd9d7bdbbp-34%float 0 false ERaise true) 1 ex7_state
  = (mkState [[0%float; 0%float; 0%float]; [0.5%float; 2%float; 0.5%float]] [Unsolved; Unsolved; Unsolved] [-1; -1; -1]
             [EvBefore 1], Raise (SolutionError (Some 1))).
Proof. vm_compute. reflexivity. Qed.

(* errors='replace' inside the guard of nonfinite_start_never_judged_replace_guarded: the period starts from a pre-existing NaN
   (allowed under 'replace'), pass 1 leaves NaN again — nothing is zeroed, because the local vector was not finite — so pass 2
   (starting from the stored NaN) is not judged although it moves by < tol from nothing; pass 3 is judged: '.', 3.
   Every hypothesis of the theorem holds for k = 2. *)
Definition ex13_state : fstate := mkState [[0%float; nan; 0%float]] [Unsolved; Unsolved; Unsolved] [-1; -1; -1] [].
Definition ex13_scripts : scripts :=
  [(1%nat, mkPS [] [[ASet 0 nan]; [ASet 0 0x1.19799812dea11p-40%float]; [ASet 0 0x1.19799812dea11p-40%float]] [])].
Example ex13_replace_guard_satisfiable :
  let o := ex10_opts EReplace in
  let c0 := get_check float fzero ex_desc (vals_of ex13_state) 1%nat in
  f_solve_t ex13_scripts ex_desc o 1 ex13_state
  = (mkState [[0%float; 0x1.19799812dea11p-40%float; 0%float]] [Unsolved; Solved; Unsolved] [-1; 3; -1]
             [EvBefore 1; EvPass 1 1; EvPass 1 2; EvPass 1 3; EvAfter 1 3], Ret true) /\
  errors o = EReplace /\ length (iters ex13_state) = length (status ex13_state) /\
  (forall j, (S j < 2)%nat ->
     all_finite float fisfin (lcur float fisfin fzero (s_ev 3 ex13_scripts) ex_desc o 1 1%nat c0 (vals_of ex13_state) j) = true ->
     all_finite float fisfin (chkseq float fzero (s_ev 3 ex13_scripts) ex_desc o 1 1%nat c0 (vals_of ex13_state) (S j)) = true) /\
  all_finite float fisfin (chkseq float fzero (s_ev 3 ex13_scripts) ex_desc o 1 1%nat c0 (vals_of ex13_state) (2 - 1)) = false.
Proof.
  cbv zeta. split; [vm_compute; reflexivity|]. split; [reflexivity|]. split; [reflexivity|]. split; [|vm_compute; reflexivity].
  intros j Hj. assert (j = 0%nat) by lia. subst j. vm_compute. discriminate.
Qed.

(* a post-hook exception outside the finite regime (after_exception_surfaces_general): errors='replace', pass 1 leaves NaN, pass 2
   is the first stopping pass (judged against the zeroed local copy, converged), the post-hook raises: SolutionError chained to
   it, status / iterations of the period untouched; the theorem's premises hold *)
Definition ex14_scripts : scripts :=
  [(1%nat, mkPS [] [[ASet 0 nan]; [ASet 0 0x1.19799812dea11p-40%float]] [ARaise 13])].
Example ex14_after_hook_exception_general :
  let o := ex10_opts EReplace in
  let c0 := get_check float fzero ex_desc (vals_of ex_state) 1%nat in
  f_solve_t ex14_scripts ex_desc o 1 ex_state
  = (mkState [[0%float; 0x1.19799812dea11p-40%float; 0%float]] [Unsolved; Unsolved; Unsolved] [-1; -1; -1]
             [EvBefore 1; EvPass 1 1; EvPass 1 2; EvAfter 1 2], Raise (SolutionError (Some 13))) /\
  find_first (stops float PrimFloat.sub PrimFloat.abs PrimFloat.ltb fisfin fzero (s_ev 3 ex14_scripts) ex_desc o 1 1%nat c0
                    (vals_of ex_state) 5) 1 5 = Some 2%nat /\
  all_finite float fisfin (chkseq float fzero (s_ev 3 ex14_scripts) ex_desc o 1 1%nat c0 (vals_of ex_state) 2) = true /\
  snd (s_after 3 ex14_scripts 1 (errors o) (catch_first o) 2%nat
         (st_after float (s_ev 3 ex14_scripts) o 1 (vals_of ex_state) 2)) = Some 13.
Proof. cbv zeta. repeat split; vm_compute; reflexivity. Qed.
