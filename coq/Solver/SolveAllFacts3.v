(* SolveAllFacts3.v — solve() with a non-zero `offset`: the same offset goes to every period, so the first period of the range
   whose source period t+offset lies outside the span ends the run with IndexError — the periods before it keep their completed
   results, that period and the later ones are untouched. *)
From Coq Require Import ZArith List Bool Lia.
Import ListNotations.
Require Import PyBase Solver SolverFacts SolveAll SolveAllFacts.
Open Scope Z_scope.

Lemma skipn_nth_error_cons {A} : forall j (l : list A) x, nth_error l j = Some x -> skipn j l = x :: skipn (S j) l.
Proof.
  induction j as [|j IH]; intros [|y r] x H; cbn [nth_error] in H; try discriminate.
  - inversion H; subst. reflexivity.
  - cbn [skipn]. rewrite (IH r x H). reflexivity.
Qed.

Section Offset.
  Variable num : Type.
  Variables (sub : num -> num -> num) (absf : num -> num) (ltb : num -> num -> bool)
            (isfin : num -> bool) (zero : num).
  Variables (ev before after : hook num).
  Variable L : Type.
  Variable locate : L -> locres.
  Notation solve_t_M := (solve_t_M num sub absf ltb isfin zero ev before after).
  Notation run_periods := (run_periods num sub absf ltb isfin zero ev before after L).
  Notation solve_M := (solve_M num sub absf ltb isfin zero ev before after L locate).

  (* solve_t at a position whose offset source is outside the span: IndexError and no change — whether or not the position
     has room for the lags / leads (the feasibility guard raises the same class first) *)
  Lemma solve_t_offset_outside d o s q :
    min_iter o <= max_iter o -> offset o <> 0 -> (q < length (status s))%nat ->
    (Z.of_nat q + offset o < 0 \/ Z.of_nat (length (status s)) <= Z.of_nat q + offset o) ->
    solve_t_M d o (Z.of_nat q) s = (s, Raise IndexError).
  Proof.
    intros Hmm Hoff Hq Hout.
    assert (Hp : py_pos (length (status s)) (Z.of_nat q) = Some q) by (rewrite py_pos_nonneg by lia; rewrite Nat2Z.id; reflexivity).
    destruct (feasible d (length (status s)) q) eqn:Ef.
    - exact (offset_out_of_span_rejected num sub absf ltb isfin zero ev before after d o (Z.of_nat q) s q Hmm Hp Ef Hoff Hout).
    - apply (infeasible_period_rejected num sub absf ltb isfin zero ev before after d o (Z.of_nat q) s q Hmm Hp).
      unfold feasible in Ef. apply andb_false_iff in Ef as [E|E]; [left; apply Nat.leb_gt; exact E|right; apply Nat.ltb_ge; exact E].
  Qed.

  (* the run over positions a..b stops with IndexError at position a+j as soon as the prefix a..a+j-1 has completed *)
  Theorem run_periods_offset_stops d o span a b j s :
    min_iter o <= max_iter o -> offset o <> 0 -> length (status s) = length span ->
    (a + j <= b)%nat -> (b < length span)%nat ->
    (Z.of_nat (a + j) + offset o < 0 \/ Z.of_nat (length span) <= Z.of_nat (a + j) + offset o) ->
    run_periods d o (periods L span a b) s [] =
    match run_periods d o (firstn j (periods L span a b)) s [] with
    | (s1, Ret vs) => (s1, Raise IndexError)
    | (s1, Raise e) => (s1, Raise e)
    end.
  Proof.
    intros Hmm Hoff Hlen Hj Hb Hout.
    rewrite <- (firstn_skipn j (periods L span a b)) at 1. rewrite run_periods_app.
    destruct (run_periods d o (firstn j (periods L span a b)) s []) as [s1 [vs|e]] eqn:E; [|reflexivity].
    destruct (nth_error span (a + j)) as [lab|] eqn:El; [|apply nth_error_None in El; lia].
    assert (Hn : nth_error (periods L span a b) j = Some (Z.of_nat (a + j), lab)).
    { apply (positions_exact L span a b Hb). split; [exact Hj|]. split; [reflexivity|exact El]. }
    rewrite (skipn_nth_error_cons j _ _ Hn).
    assert (Hlen1 : length (status s1) = length span).
    { rewrite <- Hlen. exact (run_periods_length num sub absf ltb isfin zero ev before after L d o _ s [] s1 (Ret vs) E). }
    apply run_periods_cons_raise.
    apply solve_t_offset_outside; [exact Hmm|exact Hoff|lia|rewrite Hlen1; exact Hout].
  Qed.

  (* solve(offset < 0) from a start too close to the beginning of the span: IndexError at the very first period, nothing changed *)
  Corollary solve_offset_before_span_rejected d o span start end_ s a b :
    min_iter o <= max_iter o -> locate_ok L locate span -> length (status s) = length span ->
    resolves_start L d span start a -> resolves_end L d span end_ b -> (a <= b)%nat ->
    Z.of_nat a + offset o < 0 ->
    solve_M d o span start end_ s = (s, Raise IndexError).
  Proof.
    intros Hmm Hok Hlen Hs He Hab Hneg.
    rewrite (solve_eq_fold num sub absf ltb isfin zero ev before after L locate d o span start end_ s a b Hmm Hok Hs He).
    pose proof (resolves_end_lt L d span end_ b He) as Hb.
    assert (Hoff : offset o <> 0) by lia.
    assert (Hj : (a + 0 <= b)%nat) by lia.
    assert (Hout : Z.of_nat (a + 0) + offset o < 0 \/ Z.of_nat (length span) <= Z.of_nat (a + 0) + offset o)
      by (left; replace (a + 0)%nat with a by lia; exact Hneg).
    rewrite (run_periods_offset_stops d o span a b 0 s Hmm Hoff Hlen Hj Hb Hout). reflexivity.
  Qed.

  (* solve(offset > 0) running into the end of the span: positions a .. a+j-1 are solved exactly as without the problem, then
     IndexError at a+j, the first position with a+j+offset >= len *)
  Corollary solve_offset_beyond_span_stops d o span start end_ s a b j :
    min_iter o <= max_iter o -> locate_ok L locate span -> length (status s) = length span ->
    resolves_start L d span start a -> resolves_end L d span end_ b -> (a + j <= b)%nat ->
    offset o <> 0 -> Z.of_nat (length span) <= Z.of_nat (a + j) + offset o ->
    solve_M d o span start end_ s =
    match run_periods d o (firstn j (periods L span a b)) s [] with
    | (s1, Ret vs) => (s1, Raise IndexError)
    | (s1, Raise e) => (s1, Raise e)
    end.
  Proof.
    intros Hmm Hok Hlen Hs He Hj Hoff Hout.
    rewrite (solve_eq_fold num sub absf ltb isfin zero ev before after L locate d o span start end_ s a b Hmm Hok Hs He).
    pose proof (resolves_end_lt L d span end_ b He) as Hb.
    rewrite (run_periods_offset_stops d o span a b j s Hmm Hoff Hlen Hj Hb (or_intror Hout)).
    destruct (run_periods d o (firstn j (periods L span a b)) s []) as [s1 [vs|e]]; reflexivity.
  Qed.
End Offset.
