(* Solver.v — executable model of BaseModel.solve_t (fsic/core/models.py:173-425).
   Definitions only.  Generic in the number type: no fact of arithmetic is
   used by any theorem about this file. *)
From Coq Require Import ZArith List Bool.
Import ListNotations.
Require Import PyBase.
Open Scope Z_scope.

Inductive st : Type := Unsolved | Solved | Failed | ErrorSt | Skipped.   (* '-' '.' 'F' 'E' 'S' *)
Inductive errmode : Type := ERaise | ESkip | EIgnore | EReplace | EInvalid.
(* t is the period argument exactly as passed (may be negative) *)
Inductive event : Type := EvBefore (t : Z) | EvPass (t : Z) (k : nat) | EvAfter (t : Z) (k : nat).

Definition st_eqb (a b : st) : bool :=
  match a, b with
  | Unsolved, Unsolved | Solved, Solved | Failed, Failed | ErrorSt, ErrorSt | Skipped, Skipped => true
  | _, _ => false
  end.
Definition is_raise (e : errmode) : bool := match e with ERaise => true | _ => false end.

Section Solver.
  Variable num : Type.
  Variables (sub : num -> num -> num) (absf : num -> num) (ltb : num -> num -> bool)
            (isfin : num -> bool) (zero : num).

  Definition vals := list (list num).       (* vals[variable][period] *)

  Record opts := mkOpts {
    min_iter : Z; max_iter : Z; tol : num; offset : Z;
    fail_raise : bool;                       (* failures == 'raise' *)
    errors : errmode; catch_first : bool }.

  Record mdesc := mkDesc { check : list nat; endo : list nat;     (* row numbers *)
                           lags : nat; leads : nat }.              (* instance-level lags / leads *)

  (* period p of an n-period span has `lags` periods before it and `leads` after it *)
  Definition feasible (d : mdesc) (n p : nat) : bool := (lags d <=? p)%nat && (p + leads d <? n)%nat.

  Record mstate := mkState { vals_of : vals; status : list st; iters : list Z; log : list event }.

  (* an oracle (evaluation pass or hook): period as passed, errors, catch_first_error,
     iteration, store -> new store and, if it raised, the tag of the exception *)
  Definition hook := Z -> errmode -> bool -> nat -> vals -> vals * option Z.
  Variables (ev before after : hook).

  Definition cell (v : vals) (i p : nat) : num := nth p (nth i v []) zero.
  Definition set_cell (v : vals) (i p : nat) (x : num) : vals := upd i (upd p x (nth i v [])) v.
  Definition get_check (d : mdesc) (v : vals) (p : nat) : list num := map (fun i => cell v i p) (check d).
  Definition copy_endo (d : mdesc) (v : vals) (p q : nat) : vals :=
    fold_left (fun v i => set_cell v i p (cell v i q)) (endo d) v.

  Definition all_finite (l : list num) : bool := forallb isfin l.
  (* np.all(np.abs(current - previous) < tol) *)
  Fixpoint conv (tl : num) (cur prev : list num) : bool :=
    match cur, prev with
    | c :: cs, p :: ps => ltb (absf (sub c p)) tl && conv tl cs ps
    | _, _ => true
    end.
  Definition replace_nonfinite (l : list num) : list num := map (fun x => if isfin x then x else zero) l.

  Inductive lres : Type :=
  | LDone (v : vals) (s : st) (k : nat) (lg : list event)
  | LRaise (v : vals) (wr : option (st * nat)) (e : exn) (lg : list event).

  (* for iteration in range(k, k + n): ... else: FAILED.   n = passes left *)
  Fixpoint loop (d : mdesc) (o : opts) (t : Z) (p : nat) (n : nat) (k : nat) (v : vals) (cur : list num)
           (lg : list event) : lres :=
    match n with
    | O => LDone v Failed (k - 1) lg
    | S n' =>
      let prev := cur in
      let lg1 := lg ++ [EvPass t k] in
      match ev t (errors o) (catch_first o) k v with
      | (v', Some c) =>
          LRaise v' (if is_raise (errors o) then Some (ErrorSt, k) else None) (SolutionError (Some c)) lg1
      | (v', None) =>
        let cur' := get_check d v' p in
        if negb (all_finite prev) then loop d o t p n' (S k) v' cur' lg1
        else if negb (all_finite cur') then
          match errors o with
          | ERaise => LRaise v' (Some (ErrorSt, k)) (SolutionError None) lg1
          | ESkip => LDone v' Skipped k lg1
          | EIgnore => match n' with O => LDone v' Failed k lg1 | _ => loop d o t p n' (S k) v' cur' lg1 end
          | EReplace => match n' with O => LDone v' Failed k lg1
                        | _ => loop d o t p n' (S k) v' (replace_nonfinite cur') lg1 end
          | EInvalid => LRaise v' None ValueError lg1
          end
        else if Z.of_nat k <? min_iter o then loop d o t p n' (S k) v' cur' lg1
        else if conv (tol o) cur' prev then
          match after t (errors o) (catch_first o) k v' with
          | (v'', Some c) => LRaise v'' None (SolutionError (Some c)) (lg1 ++ [EvAfter t k])
          | (v'', None) => LDone v'' Solved k (lg1 ++ [EvAfter t k])
          end
        else loop d o t p n' (S k) v' cur' lg1
      end
    end.

  Definition with_vals (s : mstate) (v : vals) (lg : list event) : mstate :=
    mkState v (status s) (iters s) lg.
  Definition stamp (s : mstate) (v : vals) (p : nat) (x : st) (k : nat) (lg : list event) : mstate :=
    mkState v (upd p x (status s)) (upd p (Z.of_nat k) (iters s)) lg.

  (* final bookkeeping: status[t], iterations[t], NonConvergenceError, return value *)
  Definition finish (o : opts) (s : mstate) (p : nat) (r : lres) : mstate * outcome bool :=
    match r with
    | LRaise v' wr e lg =>
        (match wr with
         | Some (x, k) => stamp s v' p x k lg
         | None => with_vals s v' lg
         end, Raise e)
    | LDone v' x k lg =>
        (* `iteration = 0` precedes the loop (fix for finding #1), so max_iter <= 0 stamps F / 0 *)
        let s' := stamp s v' p x k lg in
        if st_eqb x Failed && fail_raise o then (s', Raise NonConvergenceError)
        else (s', Ret (st_eqb x Solved))
    end.

  Definition solve_t_M (d : mdesc) (o : opts) (t : Z) (s : mstate) : mstate * outcome bool :=
    if max_iter o <? min_iter o then (s, Raise ValueError) else
    let n := length (status s) in
    match py_pos n t with
    | None => (s, Raise IndexError)            (* t outside the span: outside every property's scope *)
    | Some p =>
      (* feasibility guard (fix for finding #2): a period without room for the lags / leads is rejected *)
      if negb (feasible d n p) then (s, Raise IndexError) else
      let pre : vals + exn :=
        if offset o =? 0 then inl (vals_of s)
        else let q := Z.of_nat p + offset o in
             if q <? 0 then inr IndexError
             else if Z.of_nat n <=? q then inr IndexError
             else inl (copy_endo d (vals_of s) p (Z.to_nat q)) in
      match pre with
      | inr e => (s, Raise e)
      | inl v0 =>
        let cur := get_check d v0 p in       (* taken before the pre-hook, as in the code *)
        if is_raise (errors o) && negb (all_finite cur)
        then (with_vals s v0 (log s), Raise (SolutionError None))
        else
          let lg0 := log s ++ [EvBefore t] in
          match before t (errors o) (catch_first o) 0%nat v0 with
          | (v1, Some c) => (with_vals s v1 lg0, Raise (SolutionError (Some c)))
          | (v1, None) => finish o s p (loop d o t p (Z.to_nat (max_iter o)) 1%nat v1 cur lg0)
          end
      end
    end.

End Solver.

Arguments mkOpts {num}.
Arguments mkState {num}.
Arguments min_iter {num}. Arguments max_iter {num}. Arguments tol {num}. Arguments offset {num}.
Arguments fail_raise {num}. Arguments errors {num}. Arguments catch_first {num}.
Arguments vals_of {num}. Arguments status {num}. Arguments iters {num}. Arguments log {num}.
Arguments LDone {num}. Arguments LRaise {num}.
