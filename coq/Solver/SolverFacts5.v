(* SolverFacts5.v — the warnings-filter selection of solve_t (models.py: `warnings.simplefilter('error')` iff
   errors == 'raise' and catch_first_error, else 'always', around the pre-hook, every evaluation pass and the post-hook).
   1. solve_t depends on its oracles only through their answers for THIS call's (t, errors, catch_first_error);
   2. for scripted models: unless errors='raise' AND catch_first_error, a warning is recorded and dropped — the run is
      identical to the run of the script in which every warning-raising statement is an ordinary store; with both set,
      the first warning (pre-hook, pass or post-hook) surfaces as SolutionError chained to the warning, before its store. *)
From Coq Require Import PrimFloat ZArith List Bool Lia.
Import ListNotations.
Require Import PyBase Solver SolverF SolverFacts SolverFacts2 SolverExamples.
Open Scope Z_scope.

Section HooksExt.
  Variable num : Type.
  Variables (sub : num -> num -> num) (absf : num -> num) (ltb : num -> num -> bool)
            (isfin : num -> bool) (zero : num).

  Lemma loop_hooks_ext (ev ev' after after' : hook num) d o t p :
    (forall k v, ev t (errors o) (catch_first o) k v = ev' t (errors o) (catch_first o) k v) ->
    (forall k v, after t (errors o) (catch_first o) k v = after' t (errors o) (catch_first o) k v) ->
    forall n k v cur lg,
      loop num sub absf ltb isfin zero ev after d o t p n k v cur lg =
      loop num sub absf ltb isfin zero ev' after' d o t p n k v cur lg.
  Proof.
    intros Hev Haf. induction n as [|n IH]; intros k v cur lg; [reflexivity|].
    cbn [loop]. rewrite <- Hev. destruct (ev t (errors o) (catch_first o) k v) as [v' [c|]]; [reflexivity|].
    rewrite <- Haf. rewrite !IH. reflexivity.
  Qed.

  (* solve_t sees its three oracles only at this call's period argument, `errors` and `catch_first_error` *)
  Theorem solve_t_hooks_ext (ev ev' before before' after after' : hook num) d o t s :
    (forall k v, ev t (errors o) (catch_first o) k v = ev' t (errors o) (catch_first o) k v) ->
    (forall k v, before t (errors o) (catch_first o) k v = before' t (errors o) (catch_first o) k v) ->
    (forall k v, after t (errors o) (catch_first o) k v = after' t (errors o) (catch_first o) k v) ->
    solve_t_M num sub absf ltb isfin zero ev before after d o t s =
    solve_t_M num sub absf ltb isfin zero ev' before' after' d o t s.
  Proof.
    intros Hev Hbf Haf. unfold solve_t_M.
    destruct (max_iter o <? min_iter o); [reflexivity|].
    destruct (py_pos (length (status s)) t) as [p|]; [|reflexivity].
    destruct (negb (feasible d (length (status s)) p)); [reflexivity|].
    destruct (if offset o =? 0 then _ else _) as [v0|e]; [|reflexivity].
    destruct (is_raise (errors o) && negb (all_finite num isfin (get_check num zero d v0 p))); [reflexivity|].
    rewrite <- Hbf. destruct (before t (errors o) (catch_first o) 0%nat v0) as [v1 [c|]]; [reflexivity|].
    rewrite (loop_hooks_ext ev ev' after after' d o t p Hev Haf). reflexivity.
  Qed.
End HooksExt.

(* ---- scripted models ---- *)
Definition unwarn (a : action) : action := match a with AWarnSet i x => ASet i x | _ => a end.
Definition unwarn_ps (ps : pscript) : pscript :=
  mkPS (map unwarn (sbefore ps)) (map (map unwarn) (spasses ps)) (map unwarn (safter ps)).
Definition unwarn_scripts (sc : scripts) : scripts := map (fun x => (fst x, unwarn_ps (snd x))) sc.

Fixpoint has_warn (acts : list action) : bool :=
  match acts with [] => false | AWarnSet _ _ :: _ => true | _ :: r => has_warn r end.

(* filter 'always': the warning is recorded (and dropped), the statement stores *)
Lemma run_actions_always p : forall acts v, run_actions false p acts v = run_actions false p (map unwarn acts) v.
Proof.
  induction acts as [|a r IH]; intros v; [reflexivity|].
  destruct a; cbn [run_actions map unwarn]; try apply IH; try reflexivity.
  destruct (py_pos _ _); [apply IH|reflexivity].
Qed.

(* a script without warning-raising statements runs the same under both filters *)
Lemma run_actions_filter_irrelevant p : forall acts v c c', has_warn acts = false ->
  run_actions c p acts v = run_actions c' p acts v.
Proof.
  induction acts as [|a r IH]; intros v c c' H; [reflexivity|].
  destruct a; cbn [run_actions has_warn] in *; try (apply IH; exact H); try reflexivity; try discriminate.
  destruct (py_pos _ _); [apply IH; exact H|reflexivity].
Qed.

Lemma lookup_unwarn p : forall sc, lookup p (unwarn_scripts sc) = option_map unwarn_ps (lookup p sc).
Proof.
  induction sc as [|[q ps] r IH]; [reflexivity|]. cbn [unwarn_scripts map lookup fst snd].
  destruct (Nat.eqb p q); [reflexivity|]. exact IH.
Qed.

Lemma nth_map_unwarn k l : nth k (map (map unwarn) l) [] = map unwarn (nth k l []).
Proof. change (@nil action) with (map unwarn []) at 1. apply map_nth. Qed.

Lemma s_ev_always n sc t em cf k v : is_raise em && cf = false ->
  s_ev n sc t em cf k v = s_ev n (unwarn_scripts sc) t em cf k v.
Proof.
  intros H. unfold s_ev. rewrite lookup_unwarn, H. destruct (lookup (pos_of n t) sc) as [ps|]; [|reflexivity].
  cbn [option_map unwarn_ps spasses]. rewrite nth_map_unwarn. apply run_actions_always.
Qed.
Lemma s_before_always n sc t em cf k v : is_raise em && cf = false ->
  s_before n sc t em cf k v = s_before n (unwarn_scripts sc) t em cf k v.
Proof.
  intros H. unfold s_before. rewrite lookup_unwarn, H. destruct (lookup (pos_of n t) sc) as [ps|]; [|reflexivity].
  cbn [option_map unwarn_ps sbefore]. apply run_actions_always.
Qed.
Lemma s_after_always n sc t em cf k v : is_raise em && cf = false ->
  s_after n sc t em cf k v = s_after n (unwarn_scripts sc) t em cf k v.
Proof.
  intros H. unfold s_after. rewrite lookup_unwarn, H. destruct (lookup (pos_of n t) sc) as [ps|]; [|reflexivity].
  cbn [option_map unwarn_ps safter]. apply run_actions_always.
Qed.

(* unless errors='raise' AND catch_first_error, warnings have no effect whatever on solve_t: same state, same outcome as the
   script whose warning-raising statements are plain stores (detection is then end-of-pass, by the non-finite test) *)
Theorem f_solve_t_warnings_dropped sc d (o : fopts) t (s : fstate) :
  is_raise (errors o) && catch_first o = false ->
  f_solve_t sc d o t s = f_solve_t (unwarn_scripts sc) d o t s.
Proof.
  intros H. unfold f_solve_t. apply solve_t_hooks_ext; intros k v.
  - apply s_ev_always; exact H.
  - apply s_before_always; exact H.
  - apply s_after_always; exact H.
Qed.

(* errors='raise' AND catch_first_error, warning in the PRE-hook: SolutionError chained to the warning, the statement does not
   store, no pass runs, nothing is recorded *)
Theorem f_before_warning_caught sc d (o : fopts) t (s : fstate) p ps pre i x rest :
  min_iter o <= max_iter o ->
  py_pos (length (status s)) t = Some p -> feasible d (length (status s)) p = true -> offset o = 0 ->
  errors o = ERaise -> catch_first o = true ->
  all_finite float fisfin (get_check float fzero d (vals_of s) p) = true ->
  lookup p sc = Some ps -> sbefore ps = pre ++ AWarnSet i x :: rest -> no_stop pre = true ->
  f_solve_t sc d o t s =
  (mkState (fst (run_actions true p pre (vals_of s))) (status s) (iters s) (log s ++ [EvBefore t]),
   Raise (SolutionError (Some 1))).
Proof.
  intros Hmm Hp Hfeas Hoff He Hcf Hfin Hl Hb Hns. unfold f_solve_t.
  apply (before_exception_surfaces float PrimFloat.sub PrimFloat.abs PrimFloat.ltb fisfin fzero _ _ _ d o t s p Hmm Hp Hfeas Hoff).
  - rewrite Hfin, andb_false_r. reflexivity.
  - unfold s_before. unfold pos_of. rewrite Hp, Hl, He, Hcf. cbn [is_raise andb]. rewrite Hb.
    apply catch_first_warning_no_store. exact Hns.
Qed.
