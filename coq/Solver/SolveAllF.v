(* SolveAllF.v — solve() / solve_period() model instantiated with primitive floats, scripted oracles and
   integer label ids; the in-Coq comparison used by the correspondence K_solve.  Definitions only. *)
From Coq Require Import PrimFloat ZArith List Bool.
Import ListNotations.
Require Import PyBase Solver SolverF SolveAll SolveAllSpan SolveAllPeriod.
Open Scope Z_scope.

Fixpoint zlookup {A} (x : Z) (l : list (Z * A)) : option A :=
  match l with [] => None | (y, a) :: r => if x =? y then Some a else zlookup x r end.

(* how the span object is searched (SolveAllSpan.locate_span = the dispatch of _locate_period_in_span over the regenerated
   method list):
   0 = list / tuple / range (span.index)   1 = NumPy array (the static fallback)
   2 = answers recorded from the run (PeriodIndex: get_loc parses strings, partial dates ...)
   3 = pandas Index of plain labels (get_loc)
   4 = quarterly pandas PeriodIndex (SolveAllPeriod.locate_qindex: labels are quarter ordinals, a negative key is a year string) *)
Definition f_locate (kind : nat) (span : list Z) (tbl : list (Z * locres)) (x : Z) : locres :=
  match kind with
  | O => locate_span SpList span x
  | S O => locate_span SpArray span x
  | S (S O) => match zlookup x tbl with Some r => r | None => LFail end
  | S (S (S O)) => locate_span SpIndex span x
  | S (S (S (S O))) => locate_qindex span x
  | _ => locate_interval span x                 (* 5 = pandas IntervalIndex *)
  end.

(* iter_periods() itself has no isinstance test: range() accepts the numpy.int64 an IntervalIndex lookup answers with, so for
   kind 5 the positions are usable there (only solve() / solve_period() reject them) *)
Definition f_locate_iter (kind : nat) (span : list Z) (tbl : list (Z * locres)) (x : Z) : locres :=
  match kind with
  | S (S (S (S (S _)))) => locate_span SpIndex span x
  | _ => f_locate kind span tbl x
  end.

Definition f_solve (sc : scripts) (d : mdesc) (o : fopts) (kind : nat) (span : list Z) (tbl : list (Z * locres))
           (start end_ : option Z) (s : fstate) : fstate * outcome (sresult Z) :=
  let n := length (status s) in
  solve_M float PrimFloat.sub PrimFloat.abs PrimFloat.ltb fisfin fzero (s_ev n sc) (s_before n sc) (s_after n sc)
          Z (f_locate kind span tbl) d o span start end_ s.

Definition f_solve_period (sc : scripts) (d : mdesc) (o : fopts) (kind : nat) (span : list Z) (tbl : list (Z * locres))
           (lab : Z) (s : fstate) : fstate * outcome bool :=
  let n := length (status s) in
  solve_period_M float PrimFloat.sub PrimFloat.abs PrimFloat.ltb fisfin fzero (s_ev n sc) (s_before n sc) (s_after n sc)
                 Z (f_locate kind span tbl) d o lab s.

Definition f_run_periods (sc : scripts) (d : mdesc) (o : fopts) (ps : list (Z * Z)) (s : fstate) :=
  let n := length (status s) in
  run_periods float PrimFloat.sub PrimFloat.abs PrimFloat.ltb fisfin fzero (s_ev n sc) (s_before n sc) (s_after n sc) Z d o ps s [].

(* ---- comparison with the implementation's observation ---- *)
Definition visit_eqb (a b : Z * Z * bool) : bool :=
  let '(l1, t1, b1) := a in let '(l2, t2, b2) := b in Z.eqb l1 l2 && Z.eqb t1 t2 && Bool.eqb b1 b2.

Definition sout := outcome (nat * list (Z * Z * bool)).
Definition sout_eqb (a b : sout) : bool :=
  match a, b with
  | Ret (n1, v1), Ret (n2, v2) => Nat.eqb n1 n2 && list_eqb visit_eqb v1 v2
  | Raise x, Raise y => exn_eqb x y
  | _, _ => false
  end.

Record scase := mkSCase {
  sc_scripts : scripts; sc_desc : mdesc; sc_opts : fopts;
  sc_kind : nat; sc_span : list Z; sc_tbl : list (Z * locres);
  sc_entry : nat;                         (* 0 = solve(start=, end=)   1 = solve_period(start)   2 = iter_periods(start=, end=)   3 = next(iter_periods(start=, end=))   4 = next, next, list, list, len on one PeriodIter *)
  sc_start : option Z; sc_end : option Z;
  sc_state : fstate; sx_state : fstate; sx_out : sout }.

Definition run_scase (c : scase) : fstate * sout :=
  match sc_entry c with
  | O => match f_solve (sc_scripts c) (sc_desc c) (sc_opts c) (sc_kind c) (sc_span c) (sc_tbl c) (sc_start c) (sc_end c) (sc_state c) with
         | (s', Ret r) => (s', Ret (r_len r, r_visits r))
         | (s', Raise e) => (s', Raise e)
         end
  | S (S (S (S _))) =>
      (* a = next(pi); b = next(pi); list(pi); list(pi); len(pi) on pi = iter_periods(start=, end=) *)
      match period_iter_protocol_M (iter_periods_M Z (f_locate_iter (sc_kind c) (sc_span c) (sc_tbl c)) (sc_desc c) (sc_span c) (sc_start c) (sc_end c)) with
      | Ret (len, ps) => (sc_state c, Ret (len, map (fun tl : Z * Z => (snd tl, fst tl, false)) ps))
      | Raise e => (sc_state c, Raise e)
      end
  | S (S (S O)) =>
      (* next(iter_periods(start=, end=)): the first pair, reported as one visit with flag false *)
      match period_iter_next_M (iter_periods_M Z (f_locate_iter (sc_kind c) (sc_span c) (sc_tbl c)) (sc_desc c) (sc_span c) (sc_start c) (sc_end c)) with
      | Ret (t, lab) => (sc_state c, Ret (1%nat, [(lab, t, false)]))
      | Raise e => (sc_state c, Raise e)
      end
  | S (S O) =>
      (* iter_periods(start=, end=): (len(period_iter), list(period_iter)) — the pairs are reported as visits with flag false;
         nothing is solved, the state is untouched *)
      match iter_periods_M Z (f_locate_iter (sc_kind c) (sc_span c) (sc_tbl c)) (sc_desc c) (sc_span c) (sc_start c) (sc_end c) with
      | Ret (len, ps) => (sc_state c, Ret (len, map (fun tl : Z * Z => (snd tl, fst tl, false)) ps))
      | Raise e => (sc_state c, Raise e)
      end
  | _ => match sc_start c with
         | Some lab =>
             match f_solve_period (sc_scripts c) (sc_desc c) (sc_opts c) (sc_kind c) (sc_span c) (sc_tbl c) lab (sc_state c) with
             | (s', Ret b) => (s', Ret (1%nat, [(lab, 0, b)]))
             | (s', Raise e) => (s', Raise e)
             end
         | None => (sc_state c, Raise OtherError)
         end
  end.

Definition check_scase (c : scase) : bool :=
  let '(s', r) := run_scase c in state_eqb s' (sx_state c) && sout_eqb r (sx_out c).
