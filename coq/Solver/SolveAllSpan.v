(* SolveAllSpan.v — VectorContainer._locate_period_in_span (fsic/core/containers.py:82-105, 305-349) for the supported
   span types.  Definitions only.

   Labels are integer ids (two labels get the same id iff `==` holds between them).  The method list is the regenerated
   constant Generated.valid_index_methods (= VectorContainer._VALID_INDEX_METHODS of the working tree): names of span
   methods tried in order with hasattr, a callable applying to every span.  The first applicable entry decides: its answer is
   returned, any exception it raises is re-raised as KeyError (there is no fall-through to later entries). *)
From Coq Require Import ZArith List Bool String Ascii.
Import ListNotations.
Require Import PyBase Solver SolveAll.
Require Fsic.Gen.Generated.
Open Scope Z_scope.

Inductive spankind : Type :=
| SpList        (* list / tuple / range: has .index, no .get_loc *)
| SpArray       (* NumPy array: neither *)
| SpIndex.      (* pandas Index with hashable plain labels: has .get_loc *)

(* hasattr(span, name) for the two names fsic asks about *)
Definition span_has (k : spankind) (m : string) : bool :=
  match k with
  | SpList => String.eqb m "index"
  | SpArray => false
  | SpIndex => String.eqb m "get_loc"
  end.

(* pandas Index.get_loc on plain labels: no match -> KeyError; one match -> its position (a built-in int);
   several matches -> a slice (monotonic index) or a boolean mask: not an int *)
Definition locate_getloc (span : list Z) (x : Z) : locres :=
  match count_of x span with
  | O => LFail
  | S O => locate_index span x
  | _ => LOther
  end.

Definition call_method (m : string) (span : list Z) (x : Z) : locres :=
  if String.eqb m "get_loc" then locate_getloc span x
  else if String.eqb m "index" then locate_index span x
  else LFail.                                   (* a method name fsic does not list: unreachable with the generated list *)

Definition is_callable_entry (m : string) : bool := String.prefix "<callable:" m.

(* None = no entry applied: _locate_period_in_span raises AttributeError *)
Fixpoint locate_dispatch (methods : list string) (k : spankind) (span : list Z) (x : Z) : option locres :=
  match methods with
  | [] => None
  | m :: r =>
      if is_callable_entry m then Some (locate_unique span x)       (* the static fallback: exactly one match, as int(...) *)
      else if span_has k m then Some (call_method m span x)
      else locate_dispatch r k span x
  end.

Definition locate_span (k : spankind) (span : list Z) (x : Z) : locres :=
  match locate_dispatch Generated.valid_index_methods k span x with
  | Some r => r
  | None => LFail                               (* AttributeError; shown unreachable in SolveAllSpanFacts.locate_span_eq *)
  end.

(* ---- decidable guards on a span (used by the theorems about repeated labels and by the harness's expectations) ---- *)
(* no label occurs twice *)
Fixpoint nodup_b (l : list Z) : bool :=
  match l with [] => true | x :: r => negb (existsb (Z.eqb x) r) && nodup_b r end.
(* the label of period i is carried by period i only *)
Definition unique_at (span : list Z) (i : nat) : bool :=
  match nth_error span i with Some x => (count_of x span =? 1)%nat | None => false end.

(* ---- the object iter_periods() returns (PeriodIter), since fix 7e39627 ----
   It holds the list of (position, label) pairs and a cursor over it: next() yields the pairs one after the other and raises
   StopIteration (modelled as OtherError) when they are used up; iterating it (for / list() / enumerate(), what solve() does)
   always yields ALL pairs from the start, however far the cursor has moved; len() is the length of the index range. *)
Definition period_iter_next_M {L : Type} (r : outcome (nat * list (Z * L))) : outcome (Z * L) :=
  match r with
  | Ret (_, p :: _) => Ret p
  | Ret (_, []) => Raise OtherError
  | Raise e => Raise e
  end.

(* the protocol exercised by the correspondence: pi = iter_periods(..); a = next(pi); b = next(pi); l1 = list(pi); l2 = list(pi); len(pi)
   -> (len, [a; b] ++ l1 ++ l2); StopIteration from either next() ends it *)
Definition period_iter_protocol_M {L : Type} (r : outcome (nat * list (Z * L))) : outcome (nat * list (Z * L)) :=
  match r with
  | Ret (len, a :: b :: rest) => Ret (len, a :: b :: (a :: b :: rest) ++ (a :: b :: rest))
  | Ret (_, _) => Raise OtherError
  | Raise e => Raise e
  end.

(* ---- pandas IntervalIndex (KEPT FINDING) ----
   IntervalIndex.get_loc answers a label carried by one interval with a numpy.int64 — an integer, but no built-in int — so
   `isinstance(position, int)` fails in solve() / solve_period() and a perfectly good label is rejected with KeyError.
   (Index, RangeIndex, DatetimeIndex, CategoricalIndex, MultiIndex and PeriodIndex answer with a built-in int.) *)
Definition locate_interval (span : list Z) (x : Z) : locres :=
  match count_of x span with O => LFail | _ => LOther end.
