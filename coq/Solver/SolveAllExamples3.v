(* SolveAllExamples3.v — instances for SolveAllFacts3 (offset in solve()), the decidable span guards and the PeriodIndex lookup. *)
From Coq Require Import PrimFloat ZArith List Bool Lia.
Import ListNotations.
Require Import PyBase Solver SolverF SolveAll SolveAllF SolveAllFacts SolveAllFacts3 SolveAllSpan SolveAllSpanFacts
               SolveAllPeriod SolveAllPeriodFacts SolveAllExamples SolveAllSpanExamples.
Open Scope Z_scope.

Definition exO_opts (off : Z) : fopts := mkOpts 0 4 0x1.b7cdfd9d7bdbbp-34%float off true ERaise true.

(* solve(offset=+1) over the whole four-period span: periods 0, 1, 2 are solved (each seeded from its successor), period 3 has no
   successor: IndexError there, periods 0..2 keep their results, period 3 is untouched.  offset=-1: IndexError at period 0 at once. *)
Example exO_offset_runs_into_the_end :
  f_solve exA_scripts exA_desc (exO_opts 1) 0 exA_span [] None None exA_state
  = (mkState [[1.5%float; 1.5%float; 1.5%float; 0%float]] [Solved; Solved; Solved; Unsolved] [2; 2; 2; -1]
             [EvBefore 0; EvPass 0 1; EvPass 0 2; EvAfter 0 2; EvBefore 1; EvPass 1 1; EvPass 1 2; EvAfter 1 2;
              EvBefore 2; EvPass 2 1; EvPass 2 2; EvAfter 2 2], Raise IndexError) /\
  f_solve exA_scripts exA_desc (exO_opts (-1)) 0 exA_span [] None None exA_state = (exA_state, Raise IndexError) /\
  (* the premises of solve_offset_beyond_span_stops (a = 0, b = 3, j = 3) and solve_offset_before_span_rejected *)
  Z.of_nat (length exA_span) <= Z.of_nat (0 + 3) + offset (exO_opts 1) /\ Z.of_nat 0 + offset (exO_opts (-1)) < 0 /\
  length (status exA_state) = length exA_span.
Proof. repeat split; vm_compute; try reflexivity; try congruence. Qed.

(* the decidable guards: inner periods share a label, both ends are unambiguous; the finding's span fails the test at its end *)
Example exG_guards :
  nodup_b exA_span = true /\ nodup_b exS_dup_inner = false /\
  unique_at exS_dup_inner 0 = true /\ unique_at exS_dup_inner 3 = true /\ unique_at exS_dup_inner 1 = false /\
  unique_at exS_dup_last 3 = false /\ unique_at exS_dup_last 0 = true.
Proof. repeat split; vm_compute; reflexivity. Qed.

(* quarterly PeriodIndex 2000Q3 .. 2001Q2 (ordinals 8002..8005), kind 4 = the modelled lookup:
   solve(start='2000Q4', end=Period 2001Q1) visits positions 1..2; a year string as start / end / solve_period argument is
   rejected with KeyError and nothing changes — '2000' matches two quarters, '2001' two, '1999' none *)
Definition exP_span : list Z := [8002; 8003; 8004; 8005].
Example exP_period_index :
  snd (f_solve exA_scripts exA_desc (exA_opts ERaise) 4 exP_span [] (Some 8003) (Some 8004) exA_state)
  = Ret (mkRes 2%nat [(8003, 1, true); (8004, 2, true)]) /\
  f_solve exA_scripts exA_desc (exA_opts ERaise) 4 exP_span [] (Some (year_key 2000)) None exA_state = (exA_state, Raise KeyError) /\
  f_solve exA_scripts exA_desc (exA_opts ERaise) 4 exP_span [] None (Some (year_key 2001)) exA_state = (exA_state, Raise KeyError) /\
  f_solve exA_scripts exA_desc (exA_opts ERaise) 4 exP_span [] (Some (year_key 1999)) None exA_state = (exA_state, Raise KeyError) /\
  f_solve_period exA_scripts exA_desc (exA_opts ERaise) 4 exP_span [] (year_key 2001) exA_state = (exA_state, Raise KeyError) /\
  f_solve_period exA_scripts exA_desc (exA_opts ERaise) 4 exP_span [] 8004 exA_state
  = f_solve_t exA_scripts exA_desc (exA_opts ERaise) 2 exA_state /\
  locate_qindex exP_span (year_key 2000) = LOther /\ locate_qindex exP_span (year_key 1999) = LFail /\
  NoDup exP_span /\ (forall z, In z exP_span -> 0 <= z).
Proof.
  repeat split; try (vm_compute; reflexivity).
  - apply nodup_b_spec. vm_compute. reflexivity.
  - intros z Hz. unfold exP_span in Hz. cbn in Hz. lia.
Qed.
