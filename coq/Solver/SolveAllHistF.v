(* SolveAllHistF.v — histories on ONE model instance: public solver calls (solve_t / solve_period / solve in any order, each with
   its own options; exceptions caught by the caller) interleaved with copy(), whole-series and cell assignments and reindex() onto
   another span, instantiated with primitive floats and scripted oracles: what the correspondence K_history runs.
   Definitions only.  SolveAllHistFacts ties the solver calls to SolveAllFacts2.run_api and proves the status invariants. *)
From Coq Require Import PrimFloat ZArith List Bool.
Import ListNotations.
Require Import PyBase Solver SolverF SolveAll SolveAllSpan SolveAllF.
Open Scope Z_scope.

Inductive hcall : Type :=
| HSolveT (o : fopts) (t : Z)
| HSolvePeriod (o : fopts) (lab : Z)
| HSolve (o : fopts) (start end_ : option Z)
(* state edits between solver calls: they touch values only, never status / iterations *)
| HCopy                                      (* m = m.copy(): go on with an equal copy *)
| HSetRow (i : nat) (row : list float)       (* m.V_i = [x0, ..., x_{n-1}]  (whole-series assignment of a list of span length) *)
| HSetCell (i : nat) (p : Z) (x : float)     (* m.V_i[p] = x  (p a Python index, possibly negative) *)
(* m = m.reindex(new_span): a copy on the new span; a period whose label occurs in the old span takes values, status and
   iterations from the old position of that label, every other period is filled (NaN / '-' / -1) *)
| HReindex (new_span : list Z).

Definition edit_vals (c : hcall) (v : vals float) : vals float :=
  match c with
  | HSetRow i row => if Nat.eqb (length row) (length (nth i v [])) then upd i row v else v
  | HSetCell i p x => match py_pos (length (nth i v [])) p with Some q => set_cell float v i q x | None => v end
  | _ => v
  end.

Definition reindex_list {A} (old_span new_span : list Z) (fill : A) (l : list A) : list A :=
  map (fun lab => match index_of lab old_span 0 with Some p => nth (Z.to_nat p) l fill | None => fill end) new_span.

Definition reindex_state (old_span new_span : list Z) (s : fstate) : fstate :=
  mkState (map (reindex_list old_span new_span nan) (vals_of s))
          (reindex_list old_span new_span Unsolved (status s))
          (reindex_list old_span new_span (-1) (iters s))
          (log s).

(* the state of a history: the model and its current span *)
Definition hstate : Type := (fstate * list Z)%type.

Section Hist.
  Variables (sc : scripts) (d : mdesc) (kind : nat).

  Definition run_hcall (c : hcall) (hs : hstate) : hstate * sout :=
    let '(s, span) := hs in
    let n := length (status s) in
    let ev := s_ev n sc in let bf := s_before n sc in let af := s_after n sc in
    let loc := f_locate kind span [] in
    match c with
    | HSolveT o t =>
        match solve_t_M float PrimFloat.sub PrimFloat.abs PrimFloat.ltb fisfin fzero ev bf af d o t s with
        | (s', Ret b) => ((s', span), Ret (1%nat, [(0, t, b)]))
        | (s', Raise e) => ((s', span), Raise e)
        end
    | HSolvePeriod o lab =>
        match solve_period_M float PrimFloat.sub PrimFloat.abs PrimFloat.ltb fisfin fzero ev bf af Z loc d o lab s with
        | (s', Ret b) => ((s', span), Ret (1%nat, [(lab, 0, b)]))
        | (s', Raise e) => ((s', span), Raise e)
        end
    | HSolve o start end_ =>
        match solve_M float PrimFloat.sub PrimFloat.abs PrimFloat.ltb fisfin fzero ev bf af Z loc d o span start end_ s with
        | (s', Ret r) => ((s', span), Ret (r_len r, r_visits r))
        | (s', Raise e) => ((s', span), Raise e)
        end
    | HCopy | HSetRow _ _ | HSetCell _ _ _ =>
        ((mkState (edit_vals c (vals_of s)) (status s) (iters s) (log s), span), Ret (0%nat, []))
    | HReindex new_span => ((reindex_state span new_span s, new_span), Ret (0%nat, []))
    end.

  Fixpoint run_hist (cs : list hcall) (hs : hstate) : hstate * list sout :=
    match cs with
    | [] => (hs, [])
    | c :: r => let '(h1, o1) := run_hcall c hs in let '(h2, os) := run_hist r h1 in (h2, o1 :: os)
    end.
End Hist.

Record hcase := mkHCase {
  h_scripts : scripts; h_desc : mdesc; h_kind : nat; h_span : list Z; h_calls : list hcall;
  h_state : fstate; hx_state : fstate; hx_outs : list sout }.

Definition check_hcase (c : hcase) : bool :=
  let '((s', _), outs) := run_hist (h_scripts c) (h_desc c) (h_kind c) (h_calls c) (h_state c, h_span c) in
  state_eqb s' (hx_state c) && list_eqb sout_eqb outs (hx_outs c).
