(* SolveAllHistF.v — histories of public solver calls on ONE model instance (solve_t / solve_period / solve in any order, each
   with its own options; exceptions caught by the caller), instantiated with primitive floats and scripted oracles: what the
   correspondence K_history runs.  Definitions only.  SolveAllHistFacts.run_hist_state ties it to SolveAllFacts2.run_api, the
   subject of the status-alphabet invariant. *)
From Coq Require Import PrimFloat ZArith List Bool.
Import ListNotations.
Require Import PyBase Solver SolverF SolveAll SolveAllSpan SolveAllF.
Open Scope Z_scope.

Inductive hcall : Type :=
| HSolveT (o : fopts) (t : Z)
| HSolvePeriod (o : fopts) (lab : Z)
| HSolve (o : fopts) (start end_ : option Z).

Section Hist.
  Variables (sc : scripts) (d : mdesc) (kind : nat) (span : list Z) (n : nat).
  Let ev := s_ev n sc.
  Let bf := s_before n sc.
  Let af := s_after n sc.
  Let loc := f_locate kind span [].

  Definition run_hcall (c : hcall) (s : fstate) : fstate * sout :=
    match c with
    | HSolveT o t =>
        match solve_t_M float PrimFloat.sub PrimFloat.abs PrimFloat.ltb fisfin fzero ev bf af d o t s with
        | (s', Ret b) => (s', Ret (1%nat, [(0, t, b)]))
        | (s', Raise e) => (s', Raise e)
        end
    | HSolvePeriod o lab =>
        match solve_period_M float PrimFloat.sub PrimFloat.abs PrimFloat.ltb fisfin fzero ev bf af Z loc d o lab s with
        | (s', Ret b) => (s', Ret (1%nat, [(lab, 0, b)]))
        | (s', Raise e) => (s', Raise e)
        end
    | HSolve o start end_ =>
        match solve_M float PrimFloat.sub PrimFloat.abs PrimFloat.ltb fisfin fzero ev bf af Z loc d o span start end_ s with
        | (s', Ret r) => (s', Ret (r_len r, r_visits r))
        | (s', Raise e) => (s', Raise e)
        end
    end.

  Fixpoint run_hist (cs : list hcall) (s : fstate) : fstate * list sout :=
    match cs with
    | [] => (s, [])
    | c :: r => let '(s1, o1) := run_hcall c s in let '(s2, os) := run_hist r s1 in (s2, o1 :: os)
    end.
End Hist.

Record hcase := mkHCase {
  h_scripts : scripts; h_desc : mdesc; h_kind : nat; h_span : list Z; h_calls : list hcall;
  h_state : fstate; hx_state : fstate; hx_outs : list sout }.

Definition check_hcase (c : hcase) : bool :=
  let '(s', outs) := run_hist (h_scripts c) (h_desc c) (h_kind c) (h_span c) (length (status (h_state c))) (h_calls c) (h_state c) in
  state_eqb s' (hx_state c) && list_eqb sout_eqb outs (hx_outs c).
