(* SolveAllSpanFacts2.v — the C02 statement for solve_period, end to end: label -> position (every span type) -> the pass /
   convergence / bookkeeping rule of solve_t. *)
From Coq Require Import ZArith List Bool Lia.
Import ListNotations.
Require Import PyBase Solver SolverFacts SolveAll SolveAllFacts SolveAllSpan SolveAllSpanFacts.
Open Scope Z_scope.

Section SolvePeriodSpec.
  Variable num : Type.
  Variables (sub : num -> num -> num) (absf : num -> num) (ltb : num -> num -> bool)
            (isfin : num -> bool) (zero : num).
  Variables (ev before after : hook num).
  Notation solve_period_M k span := (solve_period_M num sub absf ltb isfin zero ev before after Z (locate_span k span)).

  Theorem solve_period_finite_spec k span d o lab i s v1 :
    nth_error span i = Some lab -> count_of lab span = 1%nat -> length (status s) = length span ->
    min_iter o <= max_iter o -> 0 <= max_iter o ->
    feasible d (length (status s)) i = true -> offset o = 0 ->
    let t := Z.of_nat i in
    let c0 := get_check num zero d (vals_of s) i in
    let N := Z.to_nat (max_iter o) in
    before t (errors o) (catch_first o) 0%nat (vals_of s) = (v1, None) ->
    (forall j, (1 <= j <= N)%nat -> snd (evk num ev o t j (st_after num ev o t v1 (j - 1))) = None) ->
    (forall j, (j <= N)%nat -> all_finite num isfin (chkseq num zero ev d o t i c0 v1 j) = true) ->
    solve_period_M k span d o lab s =
    match find_first (convk num sub absf ltb zero ev d o t i c0 v1) 1 N with
    | Some k0 =>
        match afterk num after o t k0 (st_after num ev o t v1 k0) with
        | (v'', Some c) =>
            (mkState v'' (status s) (iters s) (log s ++ [EvBefore t] ++ pass_events t 1 k0 ++ [EvAfter t k0]),
             Raise (SolutionError (Some c)))
        | (v'', None) =>
            (mkState v'' (upd i Solved (status s)) (upd i (Z.of_nat k0) (iters s))
                     (log s ++ [EvBefore t] ++ pass_events t 1 k0 ++ [EvAfter t k0]), Ret true)
        end
    | None =>
        (mkState (st_after num ev o t v1 N) (upd i Failed (status s)) (upd i (max_iter o) (iters s))
                 (log s ++ [EvBefore t] ++ pass_events t 1 N),
         if fail_raise o then Raise NonConvergenceError else Ret false)
    end.
  Proof.
    intros Hi Hc Hlen Hmm Hpos Hfeas Hoff t c0 N Hb Hev Hfin.
    rewrite (solve_period_unique_label num sub absf ltb isfin zero ev before after k span d o lab i s Hi Hc).
    assert (Hlt : (i < length span)%nat) by (apply nth_error_Some; congruence).
    assert (Hp : py_pos (length (status s)) (Z.of_nat i) = Some i)
      by (rewrite py_pos_nonneg by lia; rewrite Nat2Z.id; reflexivity).
    exact (solve_t_finite_spec num sub absf ltb isfin zero ev before after d o (Z.of_nat i) s i v1 Hmm Hpos Hp Hfeas Hoff Hb Hev Hfin).
  Qed.
End SolvePeriodSpec.
