(* SolverFacts7.v — catch_first_error and the POST-hook: under errors='raise' with catch_first_error a warning issued by a
   statement of solve_t_after surfaces as SolutionError chained to the warning before that statement stores; the period's
   status and iteration count are NOT recorded although the converging pass has run (scripted models). *)
From Coq Require Import PrimFloat ZArith List Bool Lia.
Import ListNotations.
Require Import PyBase Solver SolverF SolverFacts SolverFacts2 SolverFacts3 SolverFacts4 SolverFacts6 SolverExamples.
Open Scope Z_scope.

Theorem f_after_warning_caught sc d (o : fopts) t (s : fstate) p ps k0 pre i x rest :
  min_iter o <= max_iter o ->
  py_pos (length (status s)) t = Some p -> feasible d (length (status s)) p = true -> offset o = 0 ->
  errors o = ERaise -> catch_first o = true ->
  all_finite float fisfin (get_check float fzero d (vals_of s) p) = true ->
  lookup p sc = Some ps -> sbefore ps = [] ->
  let ev := s_ev (length (status s)) sc in
  let c0 := get_check float fzero d (vals_of s) p in
  let N := Z.to_nat (max_iter o) in
  find_first (stops float PrimFloat.sub PrimFloat.abs PrimFloat.ltb fisfin fzero ev d o t p c0 (vals_of s) N) 1 N = Some k0 ->
  snd (evk float ev o t k0 (st_after float ev o t (vals_of s) (k0 - 1))) = None ->
  all_finite float fisfin (chkseq float fzero ev d o t p c0 (vals_of s) k0) = true ->
  safter ps = pre ++ AWarnSet i x :: rest -> no_stop pre = true ->
  f_solve_t sc d o t s =
  (mkState (fst (run_actions true p pre (st_after float ev o t (vals_of s) k0))) (status s) (iters s)
           (log s ++ [EvBefore t] ++ pass_events t 1 k0 ++ [EvAfter t k0]),
   Raise (SolutionError (Some 1))).
Proof.
  intros Hmm Hp Hfeas Hoff He Hcf Hfin Hl Hsb ev c0 N Hff Hnr Hfc Hsa Hns. unfold f_solve_t.
  apply (after_exception_surfaces_general float PrimFloat.sub PrimFloat.abs PrimFloat.ltb fisfin fzero
           _ _ _ d o t s p (vals_of s) Hmm Hp Hfeas Hoff).
  - rewrite Hfin, andb_false_r. reflexivity.
  - unfold s_before, pos_of. rewrite Hp, Hl, Hsb. reflexivity.
  - exact Hff.
  - exact Hnr.
  - exact Hfc.
  - unfold afterk, s_after, pos_of. rewrite Hp, Hl, He, Hcf. cbn [is_raise andb]. rewrite Hsa.
    apply catch_first_warning_no_store. exact Hns.
Qed.

(* instance: pass 1 settles (tol 1e-10: 1.0 -> 1.0 at pass 2), post-hook = [V1 := 2; warn, V0 := 5]: V1 has 2.0, V0 keeps 1.0,
   nothing recorded; the premises of the theorem hold *)
Definition ex15_scripts : scripts :=
  [(1%nat, mkPS [] [[ASet 0 1%float]; [ASet 0 1%float]] [ASet 1 2%float; AWarnSet 0 5%float])].
Example ex15_after_hook_warning :
  let o := mkOpts 0 5 0x1.b7cdfd9d7bdbbp-34%float 0 false ERaise true in
  let c0 := get_check float fzero ex7_desc (vals_of ex7_state) 1%nat in
  f_solve_t ex15_scripts ex7_desc o 1 ex7_state
  = (mkState [[0%float; 1%float; 0%float]; [0.5%float; 2%float; 0.5%float]] [Unsolved; Unsolved; Unsolved] [-1; -1; -1]
             [EvBefore 1; EvPass 1 1; EvPass 1 2; EvAfter 1 2], Raise (SolutionError (Some 1))) /\
  find_first (stops float PrimFloat.sub PrimFloat.abs PrimFloat.ltb fisfin fzero (s_ev 3 ex15_scripts) ex7_desc o 1 1%nat c0
                    (vals_of ex7_state) 5) 1 5 = Some 2%nat /\
  all_finite float fisfin (chkseq float fzero (s_ev 3 ex15_scripts) ex7_desc o 1 1%nat c0 (vals_of ex7_state) 2) = true.
Proof. cbv zeta. repeat split; vm_compute; reflexivity. Qed.
