(* SolveAll.v — executable model of SolverMixin.iter_periods / solve / solve_period
   (fsic/core/interfaces.py:249-548) on top of the solve_t model.  Definitions only.

   Labels are an arbitrary type L; `locate` stands for VectorContainer._locate_period_in_span of the
   instance (get_loc / index / the fallback, whichever the span object offers) — external behaviour,
   hence a Section variable.  Its answer is classified the way the code classifies it. *)
From Coq Require Import ZArith List Bool.
Import ListNotations.
Require Import PyBase Solver.
Open Scope Z_scope.

Inductive locres : Type :=
| LInt (z : Z)       (* a built-in int: isinstance(r, int) holds *)
| LOther             (* returned something else: a slice, a boolean mask, a NumPy integer ... *)
| LFail.             (* the lookup raised: _locate_period_in_span re-raises it as KeyError *)

Definition is_int (r : locres) : bool := match r with LInt _ => true | _ => false end.

(* span[a:b] for ints a, b (step 1): PySlice_AdjustIndices, negative bounds wrap once, both clipped to [0, n] *)
Definition py_slice {A} (l : list A) (a b : Z) : list A :=
  let n := Z.of_nat (length l) in
  let a' := clip n a in let b' := clip n b in
  firstn (Z.to_nat (b' - a')) (skipn (Z.to_nat a') l).

(* list(range(a, b)) *)
Definition py_range (a b : Z) : list Z := map (fun i => a + Z.of_nat i) (seq 0 (Z.to_nat (b - a))).

Section SolveAll.
  Variable num : Type.
  Variables (sub : num -> num -> num) (absf : num -> num) (ltb : num -> num -> bool)
            (isfin : num -> bool) (zero : num).
  Variables (ev before after : hook num).
  Variable L : Type.
  Variable locate : L -> locres.

  Notation solve_t_M := (solve_t_M num sub absf ltb isfin zero ev before after).

  (* iter_periods: (len(period_iter), list(zip(indexes, labels))).
     Since fix 7cd6323 the DEFAULT first / last periods are positions taken directly (self.lags, len(span) - 1 - self.leads;
     IndexError when they fall outside the span); only labels GIVEN by the caller are looked up.  Order of evaluation as in
     the code: the start (default or lookup) is settled before the end is looked at; range() is called last. *)
  Definition iter_periods_M (d : mdesc) (span : list L) (start end_ : option L) : outcome (nat * list (Z * L)) :=
    if (length span =? 0)%nat then Raise (SolutionError None) else
    let rs : locres + exn :=
      match start with
      | None => if (length span <=? lags d)%nat then inr IndexError else inl (LInt (Z.of_nat (lags d)))
      | Some x => match locate x with LFail => inr KeyError | r => inl r end
      end in
    match rs with
    | inr e => Raise e
    | inl rs =>
      let re : locres + exn :=
        match end_ with
        | None => let b := Z.of_nat (length span) - 1 - Z.of_nat (leads d) in
                  if b <? 0 then inr IndexError else inl (LInt b)
        | Some y => match locate y with LFail => inr KeyError | r => inl r end
        end in
      match re with
      | inr e => Raise e
      | inl re =>
        match rs, re with
        | LInt a, LInt b =>
            let idx := py_range a (b + 1) in
            Ret (length idx, combine idx (py_slice span a (b + 1)))
        | _, _ => Raise TypeError                            (* slice / mask where an integer is needed *)
        end
      end
    end.

  Definition visit : Type := (L * Z * bool)%type.              (* (label, position, solved flag) *)

  (* the loop of solve(): one solve_t per period, in order; the first exception ends the run *)
  Fixpoint run_periods (d : mdesc) (o : opts num) (ps : list (Z * L)) (s : mstate num) (acc : list visit)
    : mstate num * outcome (list visit) :=
    match ps with
    | [] => (s, Ret acc)
    | (t, lab) :: r =>
        match solve_t_M d o t s with
        | (s', Ret b) => run_periods d o r s' (acc ++ [(lab, t, b)])
        | (s', Raise e) => (s', Raise e)
        end
    end.

  (* the three returned lists have length r_len = len(period_iter); r_visits are their filled entries, in order
     (they fill all r_len slots whenever `locate` answers with positions inside the span) *)
  Record sresult := mkRes { r_len : nat; r_visits : list visit }.

  Definition bad_label (x : option L) : bool :=
    match x with Some l => negb (is_int (locate l)) | None => false end.

  Definition solve_M (d : mdesc) (o : opts num) (span : list L) (start end_ : option L) (s : mstate num)
    : mstate num * outcome sresult :=
    if max_iter o <? min_iter o then (s, Raise ValueError) else
    if bad_label start then (s, Raise KeyError) else
    if bad_label end_ then (s, Raise KeyError) else
    match iter_periods_M d span start end_ with
    | Raise e => (s, Raise e)
    | Ret (len, ps) =>
        match run_periods d o ps s [] with
        | (s', Ret vs) => (s', Ret (mkRes len vs))
        | (s', Raise e) => (s', Raise e)
        end
    end.

  Definition solve_period_M (d : mdesc) (o : opts num) (lab : L) (s : mstate num) : mstate num * outcome bool :=
    match locate lab with
    | LInt t => solve_t_M d o t s
    | LOther => (s, Raise KeyError)          (* not isinstance(t, int) *)
    | LFail => (s, Raise KeyError)           (* raised by the lookup itself *)
    end.
End SolveAll.

Arguments mkRes {L}.
Arguments r_len {L}.
Arguments r_visits {L}.

(* ---- the lookups fsic uses for spans without get_loc, over integer label ids ---- *)
Fixpoint index_of (x : Z) (l : list Z) (i : Z) : option Z :=
  match l with [] => None | y :: r => if x =? y then Some i else index_of x r (i + 1) end.
(* span.index(label): list / tuple / range — first occurrence *)
Definition locate_index (span : list Z) (x : Z) : locres :=
  match index_of x span 0 with Some i => LInt i | None => LFail end.
(* _locate_period_in_span_fallback (NumPy arrays): exactly one match, returned as int(...) since fix a094259 *)
Definition count_of (x : Z) (l : list Z) : nat := length (filter (Z.eqb x) l).
Definition locate_unique (span : list Z) (x : Z) : locres :=
  if (count_of x span =? 1)%nat then locate_index span x else LFail.
