(* SolveAllFacts.v — theorems about solve() / iter_periods() / solve_period() (property C05),
   for every number type, evaluation oracle, hook, label type and span lookup. *)
From Coq Require Import ZArith List Bool Lia.
Import ListNotations.
Require Import PyBase Solver SolverFacts SolverFacts2 SolverFacts3 SolveAll.
Open Scope Z_scope.

(* ---------------- small list facts ---------------- *)
Lemma nth_error_seq a : forall m i, nth_error (seq a m) i = if (i <? m)%nat then Some (a + i)%nat else None.
Proof.
  intros m; revert a; induction m as [|m IH]; intros a i; cbn [seq].
  - destruct i; reflexivity.
  - destruct i as [|i]; cbn [nth_error].
    + replace (0 <? S m)%nat with true by reflexivity. f_equal. lia.
    + rewrite IH. replace (S i <? S m)%nat with (i <? m)%nat by reflexivity. destruct (i <? m)%nat; [f_equal; lia|reflexivity].
Qed.

Lemma nth_error_firstn' {A} : forall m (l : list A) i,
  nth_error (firstn m l) i = if (i <? m)%nat then nth_error l i else None.
Proof.
  induction m as [|m IH]; intros l i; cbn [firstn].
  - destruct i; reflexivity.
  - destruct l as [|x l]. { destruct (i <? S m)%nat; destruct i; reflexivity. }
    destruct i as [|i]; [reflexivity|]. cbn [nth_error]. rewrite IH. reflexivity.
Qed.

Lemma nth_error_skipn' {A} : forall a (l : list A) i, nth_error (skipn a l) i = nth_error l (a + i).
Proof.
  induction a as [|a IH]; intros l i; [reflexivity|].
  destruct l as [|x l]; [destruct i; reflexivity|]. cbn [skipn Nat.add nth_error]. apply IH.
Qed.

Lemma nth_error_combine {A B} : forall (l1 : list A) (l2 : list B) i,
  nth_error (combine l1 l2) i =
  match nth_error l1 i, nth_error l2 i with Some x, Some y => Some (x, y) | _, _ => None end.
Proof.
  induction l1 as [|x l1 IH]; intros l2 i; [destruct i; reflexivity|].
  destruct l2 as [|y l2]; [destruct i; cbn; [reflexivity|destruct (nth_error l1 i); reflexivity]|].
  destruct i as [|i]; [reflexivity|]. cbn [combine nth_error]. apply IH.
Qed.

Lemma py_range_nat a b : py_range (Z.of_nat a) (Z.of_nat b + 1) = map Z.of_nat (seq a (S b - a)).
Proof.
  unfold py_range. replace (Z.to_nat (Z.of_nat b + 1 - Z.of_nat a)) with (S b - a)%nat by lia.
  generalize (S b - a)%nat. intros m. revert a. induction m as [|m IH]; intros a; [reflexivity|].
  cbn [seq map]. f_equal; [lia|]. rewrite <- seq_shift, map_map, <- IH. apply map_ext. intros i. lia.
Qed.

Lemma py_slice_nat {A} (l : list A) a b : (a <= length l)%nat -> (b < length l)%nat ->
  py_slice l (Z.of_nat a) (Z.of_nat b + 1) = firstn (S b - a) (skipn a l).
Proof.
  intros Ha Hb. unfold py_slice, clip.
  replace (Z.of_nat a <? 0) with false by lia. replace (Z.of_nat (length l) <? Z.of_nat a) with false by lia.
  replace (Z.of_nat b + 1 <? 0) with false by lia. replace (Z.of_nat (length l) <? Z.of_nat b + 1) with false by lia.
  replace (Z.to_nat (Z.of_nat b + 1 - Z.of_nat a)) with (S b - a)%nat by lia. rewrite Nat2Z.id. reflexivity.
Qed.

(* ---------------- columns of the values matrix ---------------- *)
Section Cols.
  Variable num : Type.
  Variable zero : num.

  (* period q of every variable; None where a row is too short (so equal columns also mean equal shapes) *)
  Definition col (v : vals num) (q : nat) : list (option num) := map (fun row => nth_error row q) v.

  Lemma col_set_cell v i p x q : q <> p -> col (set_cell num v i p x) q = col v q.
  Proof.
    intros Hq. unfold set_cell, col. revert i. induction v as [|r rs IH]; intros i; [destruct i; reflexivity|].
    destruct i as [|i]; cbn [nth upd map].
    - f_equal. apply nth_error_upd_neq. auto.
    - f_equal. apply IH.
  Qed.

  Lemma col_copy_endo d v p q0 q : q <> p -> col (copy_endo num zero d v p q0) q = col v q.
  Proof.
    intros Hq. unfold copy_endo. generalize (endo d). intros l. revert v.
    induction l as [|i l IH]; intros v; cbn [fold_left]; [reflexivity|]. rewrite IH. apply col_set_cell. exact Hq.
  Qed.

  Definition same_at (s s' : mstate num) (q : nat) : Prop :=
    col (vals_of s') q = col (vals_of s) q /\
    nth_error (status s') q = nth_error (status s) q /\
    nth_error (iters s') q = nth_error (iters s) q.

  Lemma same_at_refl s q : same_at s s q.
  Proof. repeat split. Qed.
  Lemma same_at_trans s1 s2 s3 q : same_at s1 s2 q -> same_at s2 s3 q -> same_at s1 s3 q.
  Proof. intros (A1 & A2 & A3) (B1 & B2 & B3). repeat split; congruence. Qed.
End Cols.

Arguments col {num}.
Arguments same_at {num}.

Section AllFacts.
  Variable num : Type.
  Variables (sub : num -> num -> num) (absf : num -> num) (ltb : num -> num -> bool)
            (isfin : num -> bool) (zero : num).
  Variables (ev before after : hook num).

  Notation loop := (loop num sub absf ltb isfin zero ev after).
  Notation solve_t_M := (solve_t_M num sub absf ltb isfin zero ev before after).
  Notation get_check := (get_check num zero).
  Notation all_finite := (all_finite num isfin).

  (* ---- the frame premise: an oracle called for period t changes only column t of the values matrix ---- *)
  Definition hook_frame (n : nat) (h : hook num) : Prop :=
    forall t em cf k v p, py_pos n t = Some p -> forall q, q <> p -> col (fst (h t em cf k v)) q = col v q.

  Definition lres_vals (r : lres num) : vals num :=
    match r with LDone v _ _ _ => v | LRaise v _ _ _ => v end.

  Lemma finish_vals o s p r : vals_of (fst (finish num o s p r)) = lres_vals r.
  Proof.
    destruct r as [v x k lg|v wr e lg]; cbn [Solver.finish lres_vals].
    - destruct (st_eqb x Failed && fail_raise o); reflexivity.
    - destruct wr as [[x k]|]; reflexivity.
  Qed.

  Lemma loop_frame n0 d o t p : py_pos n0 t = Some p -> hook_frame n0 ev -> hook_frame n0 after ->
    forall n k v cur lg q, q <> p -> col (lres_vals (loop d o t p n k v cur lg)) q = col v q.
  Proof.
    intros Hp Hev Haf. induction n as [|n IH]; intros k v cur lg q Hq; cbn [Solver.loop]; [reflexivity|].
    pose proof (Hev t (errors o) (catch_first o) k v p Hp q Hq) as H2.
    destruct (ev t (errors o) (catch_first o) k v) as [v2 r] eqn:E. cbn [fst] in H2.
    destruct r as [c|]; [exact H2|].
    assert (Hrec : forall c2 lg2, col (lres_vals (loop d o t p n (S k) v2 c2 lg2)) q = col v q).
    { intros c2 lg2. rewrite IH by exact Hq. exact H2. }
    destruct (negb (all_finite cur)); [apply Hrec|].
    destruct (negb (all_finite (get_check d v2 p))).
    - destruct (errors o); try exact H2; destruct n; try exact H2; apply Hrec.
    - destruct (Z.of_nat k <? min_iter o); [apply Hrec|].
      destruct (conv num sub absf ltb (tol o) (get_check d v2 p) cur); [|apply Hrec].
      pose proof (Haf t (errors o) (catch_first o) k v2 p Hp q Hq) as H3.
      destruct (after t (errors o) (catch_first o) k v2) as [v3 r3]. cbn [fst] in H3.
      destruct r3; cbn [lres_vals]; congruence.
  Qed.

  (* a call for a period outside the span changes nothing *)
  Lemma solve_t_out_of_span d o t s s' r :
    py_pos (length (status s)) t = None -> solve_t_M d o t s = (s', r) -> s' = s.
  Proof.
    intros Hp H. unfold Solver.solve_t_M in H. rewrite Hp in H.
    destruct (max_iter o <? min_iter o); inversion H; reflexivity.
  Qed.

  (* solve_t changes only column t / status[t] / iterations[t] (given oracles that keep to their column) *)
  Theorem solve_t_frame d o t s s' r p :
    hook_frame (length (status s)) ev -> hook_frame (length (status s)) before -> hook_frame (length (status s)) after ->
    py_pos (length (status s)) t = Some p -> solve_t_M d o t s = (s', r) ->
    forall q, q <> p -> same_at s s' q.
  Proof.
    intros Hev Hbf Haf Hp H q Hq. split.
    - (* values *)
      unfold Solver.solve_t_M in H.
      destruct (max_iter o <? min_iter o); [inversion H; reflexivity|]. rewrite Hp in H.
      destruct (negb (feasible d (length (status s)) p)); [inversion H; reflexivity|].
      match type of H with context [match ?pre with inl _ => _ | inr _ => _ end] => destruct pre as [v0|e0] eqn:Epre end;
        [|inversion H; reflexivity].
      assert (Hv0 : col v0 q = col (vals_of s) q).
      { destruct (offset o =? 0); [inversion Epre; reflexivity|].
        destruct (Z.of_nat p + offset o <? 0); [discriminate|].
        destruct (Z.of_nat (length (status s)) <=? Z.of_nat p + offset o); [discriminate|].
        inversion Epre. apply col_copy_endo. exact Hq. }
      destruct (is_raise (errors o) && negb (all_finite (get_check d v0 p))); [inversion H; exact Hv0|].
      pose proof (Hbf t (errors o) (catch_first o) 0%nat v0 p Hp q Hq) as H1.
      destruct (before t (errors o) (catch_first o) 0%nat v0) as [v1 r1]. cbn [fst] in H1.
      destruct r1 as [c|]; [inversion H; cbn [vals_of with_vals]; congruence|].
      assert (Hs' : s' = fst (finish num o s p (loop d o t p (Z.to_nat (max_iter o)) 1 v1 (get_check d v0 p) (log s ++ [EvBefore t]))))
        by (rewrite H; reflexivity).
      rewrite Hs', finish_vals, (loop_frame _ d o t p Hp Hev Haf) by exact Hq. congruence.
    - (* status / iterations: no oracle can touch them, whatever it does *)
      destruct (solve_t_status_shape num sub absf ltb isfin zero ev before after d o t s s' r H)
        as [(Hs & Hi & _)|(p' & x & k & Hp' & Hs & Hi & _)].
      + rewrite Hs, Hi. split; reflexivity.
      + rewrite Hp in Hp'. inversion Hp'; subst p'. rewrite Hs, Hi.
        split; apply nth_error_upd_neq; auto.
  Qed.

  Lemma solve_t_length d o t s s' r :
    solve_t_M d o t s = (s', r) -> length (status s') = length (status s).
  Proof.
    intros H. destruct (solve_t_status_shape num sub absf ltb isfin zero ev before after d o t s s' r H)
      as [(Hs & _)|(p' & x & k & _ & Hs & _)]; rewrite Hs; [reflexivity|apply upd_length].
  Qed.

  Lemma solve_t_same_at d o t s s' r q :
    hook_frame (length (status s)) ev -> hook_frame (length (status s)) before -> hook_frame (length (status s)) after ->
    solve_t_M d o t s = (s', r) -> py_pos (length (status s)) t <> Some q -> same_at s s' q.
  Proof.
    intros Hev Hbf Haf H Hq. destruct (py_pos (length (status s)) t) as [p|] eqn:Hp.
    - apply (solve_t_frame d o t s s' r p Hev Hbf Haf Hp H). congruence.
    - rewrite (solve_t_out_of_span d o t s s' r Hp H). apply same_at_refl.
  Qed.

  Section Labels.
    Variable L : Type.
    Variable locate : L -> locres.
    Notation run_periods := (run_periods num sub absf ltb isfin zero ev before after L).
    Notation solve_M := (solve_M num sub absf ltb isfin zero ev before after L locate).
    Notation solve_period_M := (solve_period_M num sub absf ltb isfin zero ev before after L locate).
    Notation iter_periods_M := (iter_periods_M L locate).
    Notation visit := (visit L).

    (* ---- the loop of solve() is the sequential composition of single-period solves ---- *)
    Lemma run_periods_cons_ret d o t lab ps s acc s1 b :
      solve_t_M d o t s = (s1, Ret b) ->
      run_periods d o ((t, lab) :: ps) s acc = run_periods d o ps s1 (acc ++ [(lab, t, b)]).
    Proof. intros H. cbn [SolveAll.run_periods]. rewrite H. reflexivity. Qed.
    Lemma run_periods_cons_raise d o t lab ps s acc s1 e :
      solve_t_M d o t s = (s1, Raise e) ->
      run_periods d o ((t, lab) :: ps) s acc = (s1, Raise e).
    Proof. intros H. cbn [SolveAll.run_periods]. rewrite H. reflexivity. Qed.

    Lemma run_periods_app d o : forall ps1 ps2 s acc,
      run_periods d o (ps1 ++ ps2) s acc =
      match run_periods d o ps1 s acc with
      | (s1, Ret vs) => run_periods d o ps2 s1 vs
      | (s1, Raise e) => (s1, Raise e)
      end.
    Proof.
      induction ps1 as [|[t lab] ps1 IH]; intros ps2 s acc; [reflexivity|].
      cbn [app SolveAll.run_periods]. destruct (solve_t_M d o t s) as [s1 [b|e]]; [apply IH|reflexivity].
    Qed.

    (* a completed run returns one visit per period, in order: (label, position) exactly as listed *)
    Lemma run_periods_ret_visits d o : forall ps s acc s' vs,
      run_periods d o ps s acc = (s', Ret vs) ->
      map (fun v : visit => (snd (fst v), fst (fst v))) vs =
      map (fun v : visit => (snd (fst v), fst (fst v))) acc ++ ps.
    Proof.
      induction ps as [|[t lab] ps IH]; intros s acc s' vs H; cbn [SolveAll.run_periods] in H.
      - inversion H; subst. rewrite app_nil_r. reflexivity.
      - destruct (solve_t_M d o t s) as [s1 [b|e]]; [|discriminate].
        apply IH in H. rewrite H, map_app, <- app_assoc. reflexivity.
    Qed.

    Lemma run_periods_length d o : forall ps s acc s' r,
      run_periods d o ps s acc = (s', r) -> length (status s') = length (status s).
    Proof.
      induction ps as [|[t lab] ps IH]; intros s acc s' r H; cbn [SolveAll.run_periods] in H.
      - inversion H; reflexivity.
      - destruct (solve_t_M d o t s) as [s1 [b|e]] eqn:E.
        + apply IH in H. rewrite H. eapply solve_t_length; exact E.
        + inversion H; subst. eapply solve_t_length; exact E.
    Qed.

    (* ---- containment ---- *)
    Section Frame.
      Variable n : nat.
      Hypothesis Hev : hook_frame n ev.
      Hypothesis Hbf : hook_frame n before.
      Hypothesis Haf : hook_frame n after.

      (* whatever happens (completion or exception), periods that are not visited are untouched *)
      Theorem run_periods_untouched d o : forall ps s acc s' r,
        length (status s) = n -> run_periods d o ps s acc = (s', r) ->
        forall q, (forall t lab, In (t, lab) ps -> py_pos n t <> Some q) -> same_at s s' q.
      Proof.
        induction ps as [|[t lab] ps IH]; intros s acc s' r Hn H q Hq; cbn [SolveAll.run_periods] in H.
        - inversion H; subst. apply same_at_refl.
        - destruct (solve_t_M d o t s) as [s1 [b|e]] eqn:E.
          + assert (H1 : same_at s s1 q).
            { subst n. apply (solve_t_same_at d o t s s1 (Ret b) q Hev Hbf Haf E). apply (Hq t lab). left; reflexivity. }
            apply (same_at_trans _ s s1 s' q H1). eapply (IH s1); [|exact H|].
            * rewrite (solve_t_length d o t s s1 _ E). exact Hn.
            * intros t' lab' Hin. apply (Hq t' lab'). right; exact Hin.
          + inversion H; subst s' r. subst n.
            apply (solve_t_same_at d o t s s1 (Raise e) q Hev Hbf Haf E). apply (Hq t lab). left; reflexivity.
      Qed.

      (* if the run raises: it raised in exactly one period (t, lab); the periods before it were completed (the prefix run
         returned); the final state differs from the state after that completed prefix only in column t — so every earlier
         period keeps its completed values and status — and every period neither visited before nor equal to t is
         identical to the initial state.  What column t carries is what solve_t leaves there (C06). *)
      Theorem failure_containment d o : forall ps s acc s' e,
        length (status s) = n -> run_periods d o ps s acc = (s', Raise e) ->
        exists pre t lab post sj vs,
          ps = pre ++ (t, lab) :: post /\
          run_periods d o pre s acc = (sj, Ret vs) /\
          solve_t_M d o t sj = (s', Raise e) /\
          (forall q, py_pos n t <> Some q -> same_at sj s' q) /\
          (forall q, py_pos n t <> Some q -> (forall t' lab', In (t', lab') pre -> py_pos n t' <> Some q) -> same_at s s' q).
      Proof.
        induction ps as [|[t lab] ps IH]; intros s acc s' e Hn H; cbn [SolveAll.run_periods] in H; [discriminate|].
        destruct (solve_t_M d o t s) as [s1 [b|e1]] eqn:E.
        - assert (Hn1 : length (status s1) = n) by (rewrite (solve_t_length d o t s s1 _ E); exact Hn).
          destruct (IH s1 _ s' e Hn1 H) as (pre & t' & lab' & post & sj & vs & Hps & Hpre & Hst & Hsj & Hs).
          exists ((t, lab) :: pre), t', lab', post, sj, vs.
          split; [rewrite Hps; reflexivity|]. split; [cbn [SolveAll.run_periods]; rewrite E; exact Hpre|].
          split; [exact Hst|]. split; [exact Hsj|].
          intros q Hq Hpq. apply (same_at_trans _ s s1 s' q).
          + subst n. apply (solve_t_same_at d o t s s1 (Ret b) q Hev Hbf Haf E). apply (Hpq t lab). left; reflexivity.
          + apply Hs; [exact Hq|]. intros t2 lab2 Hin. apply (Hpq t2 lab2). right; exact Hin.
        - inversion H; subst s1 e1. exists [], t, lab, ps, s, acc.
          split; [reflexivity|]. split; [reflexivity|]. split; [exact E|].
          assert (G : forall q, py_pos n t <> Some q -> same_at s s' q).
          { intros q Hq. subst n. apply (solve_t_same_at d o t s s' (Raise e) q Hev Hbf Haf E Hq). }
          split; [exact G|]. intros q Hq _. apply G; exact Hq.
      Qed.
    End Frame.

    (* ---- solve(): label validation, the visited range, equality with the fold ---- *)
    (* every label of the span resolves to its own position (true of every span without repeated labels) *)
    Definition locate_ok (span : list L) : Prop :=
      forall i x, nth_error span i = Some x -> locate x = LInt (Z.of_nat i).

    (* the (position, label) pairs from position a to position b inclusive, in span order; [] if b < a *)
    Definition periods (span : list L) (a b : nat) : list (Z * L) :=
      combine (map Z.of_nat (seq a (S b - a))) (firstn (S b - a) (skipn a span)).

    Theorem positions_exact span a b : (b < length span)%nat ->
      forall i t lab, nth_error (periods span a b) i = Some (t, lab) <->
                      ((a + i <= b)%nat /\ t = Z.of_nat (a + i) /\ nth_error span (a + i) = Some lab).
    Proof.
      intros Hb i t lab. unfold periods. rewrite nth_error_combine, nth_error_map, nth_error_seq, nth_error_firstn', nth_error_skipn'.
      destruct (i <? S b - a)%nat eqn:Ei.
      - apply Nat.ltb_lt in Ei. cbn [option_map].
        destruct (nth_error span (a + i)) as [x|] eqn:Ex.
        + split.
          * intros H; inversion H; subst. repeat split; lia.
          * intros (_ & -> & H); inversion H; subst. reflexivity.
        + exfalso. apply nth_error_None in Ex. lia.
      - apply Nat.ltb_ge in Ei. cbn [option_map]. split; [discriminate|]. intros (H & _). lia.
    Qed.

    Corollary periods_length span a b : (b < length span)%nat -> length (periods span a b) = (S b - a)%nat.
    Proof.
      intros Hb. unfold periods. rewrite combine_length, map_length, seq_length, firstn_length, skipn_length. lia.
    Qed.
    Corollary periods_reversed_empty span a b : (b < a)%nat -> periods span a b = [].
    Proof. intros H. unfold periods. replace (S b - a)%nat with 0%nat by lia. reflexivity. Qed.

    (* what `start` / `end` denote: an explicit label found at position a / b, or the defaults: the first period with
       enough lags (position lags) and the last with enough leads (position len - 1 - leads) *)
    Definition resolves_start (d : mdesc) (span : list L) (start : option L) (a : nat) : Prop :=
      match start with Some x => nth_error span a = Some x | None => a = lags d /\ (a < length span)%nat end.
    Definition resolves_end (d : mdesc) (span : list L) (end_ : option L) (b : nat) : Prop :=
      match end_ with Some x => nth_error span b = Some x | None => (b + leads d + 1 = length span)%nat end.

    Lemma resolves_start_lt d span start a : resolves_start d span start a -> (a < length span)%nat.
    Proof. destruct start; cbn; [intros H; apply nth_error_Some; congruence|intros [_ H]; exact H]. Qed.
    Lemma resolves_end_lt d span end_ b : resolves_end d span end_ b -> (b < length span)%nat.
    Proof. destruct end_; cbn; [intros H; apply nth_error_Some; congruence|lia]. Qed.

    (* since fix 7cd6323 only a label GIVEN by the caller is looked up: it must resolve to its position; a default needs nothing *)
    Definition given_ok (x : option L) (pos : nat) : Prop :=
      match x with Some l => locate l = LInt (Z.of_nat pos) | None => True end.

    Lemma iter_periods_given d span start end_ a b :
      given_ok start a -> given_ok end_ b -> resolves_start d span start a -> resolves_end d span end_ b ->
      iter_periods_M d span start end_ = Ret ((S b - a)%nat, periods span a b).
    Proof.
      intros Gs Ge Hs He. pose proof (resolves_start_lt _ _ _ _ Hs) as Ha. pose proof (resolves_end_lt _ _ _ _ He) as Hb.
      unfold SolveAll.iter_periods_M.
      replace (length span =? 0)%nat with false by (symmetry; apply Nat.eqb_neq; lia).
      assert (H1 : match start with
                   | None => if (length span <=? lags d)%nat then inr IndexError else inl (LInt (Z.of_nat (lags d)))
                   | Some x => match locate x with LFail => inr KeyError | r => inl r end
                   end = inl (LInt (Z.of_nat a))).
      { destruct start as [x|]; cbn in Hs, Gs.
        - rewrite Gs. reflexivity.
        - destruct Hs as [-> Hlt]. replace (length span <=? lags d)%nat with false by (symmetry; apply Nat.leb_gt; exact Hlt). reflexivity. }
      assert (H2 : match end_ with
                   | None => if Z.of_nat (length span) - 1 - Z.of_nat (leads d) <? 0 then inr IndexError
                             else inl (LInt (Z.of_nat (length span) - 1 - Z.of_nat (leads d)))
                   | Some y => match locate y with LFail => inr KeyError | r => inl r end
                   end = inl (LInt (Z.of_nat b))).
      { destruct end_ as [y|]; cbn in He, Ge.
        - rewrite Ge. reflexivity.
        - replace (Z.of_nat (length span) - 1 - Z.of_nat (leads d)) with (Z.of_nat b) by lia.
          replace (Z.of_nat b <? 0) with false by lia. reflexivity. }
      cbv zeta. rewrite H1, H2.
      rewrite py_range_nat, py_slice_nat by lia. rewrite map_length, seq_length. reflexivity.
    Qed.

    Lemma locate_ok_given span x pos : locate_ok span -> (match x with Some l => nth_error span pos = Some l | None => True end) ->
      given_ok x pos.
    Proof. intros Hok H. destruct x as [l|]; cbn; [exact (Hok pos l H)|exact I]. Qed.

    Lemma iter_periods_resolved d span start end_ a b :
      locate_ok span -> resolves_start d span start a -> resolves_end d span end_ b ->
      iter_periods_M d span start end_ = Ret ((S b - a)%nat, periods span a b).
    Proof.
      intros Hok Hs He. apply iter_periods_given; [| |exact Hs|exact He].
      - apply (locate_ok_given span start a Hok). destruct start; cbn in Hs; [exact Hs|exact I].
      - apply (locate_ok_given span end_ b Hok). destruct end_; cbn in He; [exact He|exact I].
    Qed.

    (* solve(start, end) = the fold over positions a..b as soon as the labels the caller GAVE resolve to a / b; defaults are
       positions and need no lookup at all *)
    Theorem solve_eq_fold_given d o span start end_ s a b :
      min_iter o <= max_iter o -> given_ok start a -> given_ok end_ b ->
      resolves_start d span start a -> resolves_end d span end_ b ->
      solve_M d o span start end_ s =
      match run_periods d o (periods span a b) s [] with
      | (s', Ret vs) => (s', Ret (mkRes (S b - a) vs))
      | (s', Raise e) => (s', Raise e)
      end.
    Proof.
      intros Hmm Gs Ge Hs He. unfold SolveAll.solve_M.
      replace (max_iter o <? min_iter o) with false by lia.
      assert (B1 : bad_label L locate start = false) by (destruct start as [x|]; [cbn in Gs; cbn; rewrite Gs; reflexivity|reflexivity]).
      assert (B2 : bad_label L locate end_ = false) by (destruct end_ as [x|]; [cbn in Ge; cbn; rewrite Ge; reflexivity|reflexivity]).
      rewrite B1, B2, (iter_periods_given d span start end_ a b Gs Ge Hs He). reflexivity.
    Qed.

    (* solve() = the fold of solve_t over every position from `start` to `end` inclusive, in span order *)
    Theorem solve_eq_fold d o span start end_ s a b :
      min_iter o <= max_iter o -> locate_ok span ->
      resolves_start d span start a -> resolves_end d span end_ b ->
      solve_M d o span start end_ s =
      match run_periods d o (periods span a b) s [] with
      | (s', Ret vs) => (s', Ret (mkRes (S b - a) vs))
      | (s', Raise e) => (s', Raise e)
      end.
    Proof.
      intros Hmm Hok Hs He. unfold SolveAll.solve_M.
      replace (max_iter o <? min_iter o) with false by lia.
      assert (B1 : bad_label L locate start = false).
      { destruct start as [x|]; [|reflexivity]. cbn in Hs. cbn. rewrite (Hok a x Hs). reflexivity. }
      assert (B2 : bad_label L locate end_ = false).
      { destruct end_ as [x|]; [|reflexivity]. cbn in He. cbn. rewrite (Hok b x He). reflexivity. }
      rewrite B1, B2, (iter_periods_resolved d span start end_ a b Hok Hs He). reflexivity.
    Qed.

    (* ... and when it returns, the triple lists exactly those positions with their labels, one flag each *)
    Corollary solve_returns_positions d o span start end_ s a b s' res :
      min_iter o <= max_iter o -> locate_ok span ->
      resolves_start d span start a -> resolves_end d span end_ b ->
      solve_M d o span start end_ s = (s', Ret res) ->
      r_len res = (S b - a)%nat /\ length (r_visits res) = (S b - a)%nat /\
      map (fun v : visit => (snd (fst v), fst (fst v))) (r_visits res) = periods span a b.
    Proof.
      intros Hmm Hok Hs He H. rewrite (solve_eq_fold d o span start end_ s a b Hmm Hok Hs He) in H.
      destruct (run_periods d o (periods span a b) s []) as [s1 [vs|e]] eqn:E; [|discriminate].
      inversion H; subst. cbn [r_len r_visits]. apply run_periods_ret_visits in E. cbn [map app] in E.
      split; [reflexivity|]. split; [|exact E].
      rewrite <- (map_length (fun v : visit => (snd (fst v), fst (fst v)))), E.
      apply periods_length. eapply resolves_end_lt; exact He.
    Qed.

    (* label errors come first and change nothing *)
    Theorem solve_min_gt_max d o span start end_ s :
      max_iter o < min_iter o -> solve_M d o span start end_ s = (s, Raise ValueError).
    Proof. intros H. unfold SolveAll.solve_M. replace (max_iter o <? min_iter o) with true by lia. reflexivity. Qed.

    Theorem solve_bad_start d o span x end_ s :
      min_iter o <= max_iter o -> is_int (locate x) = false ->
      solve_M d o span (Some x) end_ s = (s, Raise KeyError).
    Proof.
      intros Hmm Hx. unfold SolveAll.solve_M. replace (max_iter o <? min_iter o) with false by lia.
      cbn [bad_label]. rewrite Hx. reflexivity.
    Qed.

    Theorem solve_bad_end d o span start y s :
      min_iter o <= max_iter o -> is_int (locate y) = false ->
      solve_M d o span start (Some y) s = (s, Raise KeyError).
    Proof.
      intros Hmm Hy. unfold SolveAll.solve_M. replace (max_iter o <? min_iter o) with false by lia.
      destruct (bad_label L locate start); [reflexivity|]. cbn [bad_label]. rewrite Hy. reflexivity.
    Qed.

    Theorem solve_empty_span d o start end_ s :
      min_iter o <= max_iter o -> bad_label L locate start = false -> bad_label L locate end_ = false ->
      solve_M d o [] start end_ s = (s, Raise (SolutionError None)).
    Proof.
      intros Hmm B1 B2. unfold SolveAll.solve_M. replace (max_iter o <? min_iter o) with false by lia.
      rewrite B1, B2. reflexivity.
    Qed.

    (* failure containment for solve() *)
    Theorem solve_failure_containment d o span start end_ s a b s' e :
      hook_frame (length span) ev -> hook_frame (length span) before -> hook_frame (length span) after ->
      length (status s) = length span ->
      min_iter o <= max_iter o -> locate_ok span ->
      resolves_start d span start a -> resolves_end d span end_ b ->
      solve_M d o span start end_ s = (s', Raise e) ->
      exists j lab sj vs,
        (a + j <= b)%nat /\ nth_error span (a + j) = Some lab /\
        (* periods a .. a+j-1 were completed, in order, each returning its flag *)
        run_periods d o (firstn j (periods span a b)) s [] = (sj, Ret vs) /\ length vs = j /\
        (* the exception is the one solve_t raised at position a+j, and the final state is the one it left *)
        solve_t_M d o (Z.of_nat (a + j)) sj = (s', Raise e) /\
        (* every other period is as the completed prefix left it: earlier periods keep completed values and status *)
        (forall q, q <> (a + j)%nat -> same_at sj s' q) /\
        (* later periods (and those before `start`) are identical to the initial state *)
        (forall q, (q < a \/ a + j < q)%nat -> same_at s s' q).
    Proof.
      intros Hev Hbf Haf Hn Hmm Hok Hs He H.
      pose proof (resolves_end_lt _ _ _ _ He) as Hb.
      rewrite (solve_eq_fold d o span start end_ s a b Hmm Hok Hs He) in H.
      destruct (run_periods d o (periods span a b) s []) as [s1 [vs0|e1]] eqn:E; [discriminate|].
      inversion H; subst s1 e1. clear H.
      destruct (failure_containment (length span) Hev Hbf Haf d o _ _ _ _ _ Hn E)
        as (pre & t & lab & post & sj & vs & Hps & Hpre & Hst & Hsj & Hs0).
      assert (Hnth : nth_error (periods span a b) (length pre) = Some (t, lab)).
      { rewrite Hps, nth_error_app2 by lia. rewrite Nat.sub_diag. reflexivity. }
      apply (positions_exact span a b Hb) in Hnth as (Hj & Ht & Hlab).
      assert (Hpos : py_pos (length span) t = Some (a + length pre)%nat).
      { subst t. rewrite py_pos_nonneg by lia. rewrite Nat2Z.id. reflexivity. }
      exists (length pre), lab, sj, vs.
      split; [exact Hj|]. split; [exact Hlab|].
      assert (Hfirst : firstn (length pre) (periods span a b) = pre).
      { rewrite Hps, firstn_app, Nat.sub_diag, firstn_all. cbn [firstn]. apply app_nil_r. }
      split; [rewrite Hfirst; exact Hpre|].
      split.
      { apply run_periods_ret_visits in Hpre. cbn [map app] in Hpre.
        rewrite <- (map_length (fun v : visit => (snd (fst v), fst (fst v)))), Hpre. reflexivity. }
      split; [subst t; exact Hst|].
      split.
      - intros q Hq. apply Hsj. rewrite Hpos. congruence.
      - intros q Hq. apply Hs0.
        + rewrite Hpos. intros Heq; inversion Heq; lia.
        + intros t' lab' Hin. apply In_nth_error in Hin as [i Hi].
          assert (Hi' : nth_error (periods span a b) i = Some (t', lab')).
          { rewrite Hps, nth_error_app1; [exact Hi|]. apply nth_error_Some. congruence. }
          assert (Hlt : (i < length pre)%nat) by (apply nth_error_Some; congruence).
          apply (positions_exact span a b Hb) in Hi' as (_ & -> & _).
          rewrite py_pos_nonneg by lia. rewrite Nat2Z.id. intros Heq; inversion Heq; lia.
    Qed.

    (* a completed solve() leaves every period outside [start, end] untouched *)
    Theorem solve_untouched_outside_range d o span start end_ s a b s' r :
      hook_frame (length span) ev -> hook_frame (length span) before -> hook_frame (length span) after ->
      length (status s) = length span ->
      min_iter o <= max_iter o -> locate_ok span ->
      resolves_start d span start a -> resolves_end d span end_ b ->
      solve_M d o span start end_ s = (s', r) ->
      forall q, (q < a \/ b < q)%nat -> same_at s s' q.
    Proof.
      intros Hev Hbf Haf Hn Hmm Hok Hs He H q Hq.
      pose proof (resolves_end_lt _ _ _ _ He) as Hb.
      rewrite (solve_eq_fold d o span start end_ s a b Hmm Hok Hs He) in H.
      destruct (run_periods d o (periods span a b) s []) as [s1 r1] eqn:E.
      assert (Hs1 : s1 = s') by (destruct r1; inversion H; reflexivity). subst s1.
      apply (run_periods_untouched (length span) Hev Hbf Haf d o _ _ _ _ _ Hn E).
      intros t lab Hin. apply In_nth_error in Hin as [i Hi].
      apply (positions_exact span a b Hb) in Hi as (Hi & -> & _).
      rewrite py_pos_nonneg by lia. rewrite Nat2Z.id. intros Heq; inversion Heq; lia.
    Qed.

    (* ---- solve_period ---- *)
    Theorem solve_period_eq_solve_t d o span lab i s :
      locate_ok span -> nth_error span i = Some lab ->
      solve_period_M d o lab s = solve_t_M d o (Z.of_nat i) s.
    Proof. intros Hok Hi. unfold SolveAll.solve_period_M. rewrite (Hok i lab Hi). reflexivity. Qed.

    Theorem solve_period_bad_label d o lab s :
      is_int (locate lab) = false -> solve_period_M d o lab s = (s, Raise KeyError).
    Proof. intros H. unfold SolveAll.solve_period_M. destruct (locate lab); [discriminate|reflexivity|reflexivity]. Qed.

    (* ---- C06: under errors='skip' a multi-period solve moves on to the next period ---- *)
    Theorem skip_moves_on d o t lab rest s acc p v1 k :
      min_iter o <= max_iter o ->
      py_pos (length (status s)) t = Some p -> feasible d (length (status s)) p = true -> offset o = 0 ->
      errors o = ESkip ->
      before t (errors o) (catch_first o) 0%nat (vals_of s) = (v1, None) ->
      (S k <= Z.to_nat (max_iter o))%nat ->
      quiet num sub absf ltb isfin zero ev d o t p (get_check d (vals_of s) p) v1 k ->
      snd (evk num ev o t (S k) (st_after num ev o t v1 k)) = None ->
      all_finite (chkseq num zero ev d o t p (get_check d (vals_of s) p) v1 (S k)) = false ->
      run_periods d o ((t, lab) :: rest) s acc =
      run_periods d o rest
        (mkState (st_after num ev o t v1 (S k)) (upd p Skipped (status s)) (upd p (Z.of_nat (S k)) (iters s))
                 (log s ++ [EvBefore t] ++ pass_events t 1 (S k)))
        (acc ++ [(lab, t, false)]).
    Proof.
      intros Hmm Hp Hfeas Hoff Hsk Hb Hk Hq Hs Hnf.
      assert (Hpre : is_raise (errors o) && negb (all_finite (get_check d (vals_of s) p)) = false) by (rewrite Hsk; reflexivity).
      pose proof (first_nonfinite_policy num sub absf ltb isfin zero ev before after d o t s p v1 Hmm Hp Hfeas Hoff Hpre Hb k Hk Hq Hs Hnf) as H.
      cbv zeta in H. rewrite Hsk in H. apply run_periods_cons_ret. exact H.
    Qed.
  End Labels.
End AllFacts.

(* ---------------- the lookups of list / range / NumPy spans meet the locate premise ---------------- *)
Lemma index_of_nth l : forall i x i0, NoDup l -> nth_error l i = Some x -> index_of x l i0 = Some (i0 + Z.of_nat i).
Proof.
  induction l as [|y r IH]; intros i x i0 Hnd Hi; [destruct i; discriminate|].
  cbn [index_of]. destruct i as [|i]; cbn [nth_error] in Hi.
  - inversion Hi; subst. rewrite Z.eqb_refl. f_equal. lia.
  - inversion Hnd; subst. assert (x <> y) by (intros ->; apply nth_error_In in Hi; contradiction).
    replace (x =? y) with false by lia. rewrite (IH i x (i0 + 1)) by assumption. f_equal. lia.
Qed.
Lemma index_of_absent l : forall x i0, ~ In x l -> index_of x l i0 = None.
Proof.
  induction l as [|y r IH]; intros x i0 H; [reflexivity|]. cbn [index_of].
  replace (x =? y) with false by (symmetry; apply Z.eqb_neq; intros ->; apply H; left; reflexivity).
  apply IH. intros Hin. apply H. right; exact Hin.
Qed.
Lemma count_of_absent l x : ~ In x l -> count_of x l = 0%nat.
Proof.
  unfold count_of. induction l as [|y r IH]; intros H; [reflexivity|]. cbn [filter].
  replace (x =? y) with false by (symmetry; apply Z.eqb_neq; intros ->; apply H; left; reflexivity).
  apply IH. intros Hin. apply H. right; exact Hin.
Qed.
Lemma count_of_nodup l x : NoDup l -> In x l -> count_of x l = 1%nat.
Proof.
  unfold count_of. induction l as [|y r IH]; intros Hnd Hin; [contradiction|]. inversion Hnd; subst. cbn [filter].
  destruct (x =? y) eqn:E.
  - apply Z.eqb_eq in E; subst. cbn [length]. f_equal. apply (count_of_absent r y). assumption.
  - apply IH; [assumption|]. destruct Hin as [->|Hin]; [rewrite Z.eqb_refl in E; discriminate|exact Hin].
Qed.

Theorem locate_index_ok span : NoDup span -> locate_ok Z (locate_index span) span.
Proof. intros Hnd i x Hi. unfold locate_index. rewrite (index_of_nth span i x 0 Hnd Hi). reflexivity. Qed.
Theorem locate_unique_ok span : NoDup span -> locate_ok Z (locate_unique span) span.
Proof.
  intros Hnd i x Hi. unfold locate_unique. rewrite (count_of_nodup span x Hnd (nth_error_In _ _ Hi)). cbn [Nat.eqb].
  apply locate_index_ok; assumption.
Qed.
Theorem locate_unknown_label span x : ~ In x span -> locate_index span x = LFail /\ locate_unique span x = LFail.
Proof.
  intros H. unfold locate_unique, locate_index. rewrite (index_of_absent span x 0 H), (count_of_absent span x H). split; reflexivity.
Qed.
