(* SolverFacts8.v — (1) the keyword defaults of the working tree are the documented ones; (2) what the abstract arithmetic of the
   generic theorems IS for NumPy float64 (kernel binary64): the convergence test is the strict `<` of the kernel on
   abs(current - previous), per check variable, and "non-finite" is exactly NaN or an infinity; boundary instances at tol, tol -/+ 1 ulp;
   (3) the F branch with its iteration count, and the literal deviation for a negative max_iter. *)
From Coq Require Import PrimFloat FloatOps ZArith String List Bool Lia.
Import ListNotations.
Require Import PyBase Solver SolverF SolverFacts SolverDefaults SolverExamples.
Require Fsic.Gen.Generated.
Open Scope Z_scope.

(* ---- (1) defaults: min_iter=0, max_iter=100, tol=1e-10, offset=0, failures='raise', errors='raise', catch_first_error=True,
   the same for solve_t, solve and solve_period (a changed default in the working tree breaks this theorem) ---- *)
Definition documented_defaults : fopts := mkOpts 0 100 0x1.b7cdfd9d7bdbbp-34%float 0 true ERaise true.
Theorem solver_defaults_documented :
  dflt_solve_t = documented_defaults /\ dflt_solve = documented_defaults /\ dflt_solve_period = documented_defaults.
Proof. repeat split; reflexivity. Qed.

(* ---- (2) binary64 ---- *)
(* one check variable: converged iff  |c - p| < tol  with the kernel's subtraction, absolute value and STRICT comparison *)
Definition fmoved_lt (tl c p : float) : bool := PrimFloat.ltb (PrimFloat.abs (PrimFloat.sub c p)) tl.

Theorem float_conv_all_strict_abs tl : forall cur prev, length cur = length prev ->
  conv float PrimFloat.sub PrimFloat.abs PrimFloat.ltb tl cur prev = true <->
  (forall i c p, nth_error cur i = Some c -> nth_error prev i = Some p -> fmoved_lt tl c p = true).
Proof.
  induction cur as [|c cs IH]; intros [|p ps] Hl; cbn [length] in Hl; try discriminate; cbn [conv].
  - split; [intros _ i c p H; destruct i; discriminate|reflexivity].
  - rewrite andb_true_iff, (IH ps) by lia. split.
    + intros [H0 Hr] [|i] c' p' Hc Hp; cbn [nth_error] in *; [inversion Hc; inversion Hp; subst; exact H0|exact (Hr i c' p' Hc Hp)].
    + intros H. split; [exact (H 0%nat c p eq_refl eq_refl)|intros i c' p' Hc Hp; exact (H (S i) c' p' Hc Hp)].
Qed.

(* strictness and absolute value at the boundary (tol = 1e-10 = 0x1.b7cdfd9d7bdbbp-34, neighbours 1 ulp away):
   a move of exactly tol does NOT converge, 1 ulp less does, 1 ulp more does not; the sign of the move is irrelevant;
   a NaN move never converges *)
Example float_conv_boundaries :
  let tl := 0x1.b7cdfd9d7bdbbp-34%float in
  fmoved_lt tl tl 0 = false /\ fmoved_lt tl 0x1.b7cdfd9d7bdbap-34 0 = true /\ fmoved_lt tl 0x1.b7cdfd9d7bdbcp-34 0 = false /\
  fmoved_lt tl 0 tl = false /\ fmoved_lt tl 0 0x1.b7cdfd9d7bdbap-34 = true /\ fmoved_lt tl (-0x1.b7cdfd9d7bdbap-34) 0 = true /\
  fmoved_lt tl 1 1 = true /\ fmoved_lt tl nan 0 = false /\ fmoved_lt tl infinity infinity = false /\
  fmoved_lt 0 1 1 = false.
Proof. cbv zeta. repeat split; vm_compute; reflexivity. Qed.

(* "non-finite" = NaN or an infinity, nothing else *)
Theorem float_nonfinite_is_nan_or_inf x : fisfin x = false <-> PrimFloat.is_nan x = true \/ PrimFloat.is_infinity x = true.
Proof. unfold fisfin. rewrite negb_false_iff, orb_true_iff. reflexivity. Qed.
Example float_finiteness_instances :
  fisfin nan = false /\ fisfin infinity = false /\ fisfin neg_infinity = false /\
  fisfin 0 = true /\ fisfin (-0) = true /\ fisfin 0x1.fffffffffffffp+1023 = true /\ fisfin 0x0.0000000000001p-1022 = true /\
  fisfin (PrimFloat.div 1 0) = false /\ fisfin (PrimFloat.div 0 0) = false /\
  fisfin (PrimFloat.mul 0x1p+1023 2) = false /\ replace_nonfinite float fisfin fzero [nan; 1%float; infinity] = [0%float; 1%float; 0%float].
Proof. repeat split; vm_compute; reflexivity. Qed.

Section Generic.
  Variable num : Type.
  Variables (sub : num -> num -> num) (absf : num -> num) (ltb : num -> num -> bool)
            (isfin : num -> bool) (zero : num).
  Variables (ev before after : hook num).
  Notation solve_t_M := (solve_t_M num sub absf ltb isfin zero ev before after).

  (* ---- (3) the F branch, iteration count included: no pass in [max(1,min_iter), max_iter] converged -> status 'F',
     iterations[t] = max_iter, exactly max_iter passes, False / NonConvergenceError ---- *)
  Theorem solve_t_fails_when_no_k_full d o t s p v1 :
    min_iter o <= max_iter o -> 0 <= max_iter o -> length (iters s) = length (status s) ->
    py_pos (length (status s)) t = Some p -> feasible d (length (status s)) p = true -> offset o = 0 ->
    let c0 := get_check num zero d (vals_of s) p in
    let N := Z.to_nat (max_iter o) in
    before t (errors o) (catch_first o) 0%nat (vals_of s) = (v1, None) ->
    (forall i, (1 <= i <= N)%nat -> snd (evk num ev o t i (st_after num ev o t v1 (i - 1))) = None) ->
    (forall i, (i <= N)%nat -> all_finite num isfin (chkseq num zero ev d o t p c0 v1 i) = true) ->
    (forall j, (1 <= j <= N)%nat -> convk num sub absf ltb zero ev d o t p c0 v1 j = false) ->
    let r := solve_t_M d o t s in
    snd r = (if fail_raise o then Raise NonConvergenceError else Ret false) /\
    nth_error (status (fst r)) p = Some Failed /\
    nth_error (iters (fst r)) p = Some (max_iter o) /\
    log (fst r) = log s ++ [EvBefore t] ++ pass_events t 1 N.
  Proof.
    intros Hmm Hpos Hli Hp Hfeas Hoff c0 N Hb Hev Hfin Hnone r.
    assert (EF : find_first (convk num sub absf ltb zero ev d o t p c0 v1) 1 N = None).
    { apply find_first_none. intros j Hj. apply Hnone. lia. }
    subst r. rewrite (solve_t_finite_spec num sub absf ltb isfin zero ev before after d o t s p v1 Hmm Hpos Hp Hfeas Hoff Hb Hev Hfin).
    fold c0 N. rewrite EF. cbn [fst snd status iters log].
    assert (Hlt : (p < length (status s))%nat) by exact (py_pos_lt _ _ _ Hp).
    split; [reflexivity|]. split; [apply nth_error_upd_eq; exact Hlt|]. split; [|reflexivity].
    apply nth_error_upd_eq. rewrite Hli. exact Hlt.
  Qed.
  (* a NEGATIVE max_iter (with min_iter <= max_iter, so not rejected): no pass runs, status 'F' — and iterations[t] = 0, the value
     the loop variable was initialised with, NOT max_iter as the statement's wording has it *)
  Theorem solve_t_negative_max_iter d o t s p v1 :
    min_iter o <= max_iter o -> max_iter o < 0 ->
    py_pos (length (status s)) t = Some p -> feasible d (length (status s)) p = true -> offset o = 0 ->
    is_raise (errors o) && negb (all_finite num isfin (get_check num zero d (vals_of s) p)) = false ->
    before t (errors o) (catch_first o) 0%nat (vals_of s) = (v1, None) ->
    solve_t_M d o t s =
      (mkState v1 (upd p Failed (status s)) (upd p 0 (iters s)) (log s ++ [EvBefore t]),
       if fail_raise o then Raise NonConvergenceError else Ret false).
  Proof.
    intros Hmm Hneg Hp Hfeas Hoff Hpre Hb. unfold Solver.solve_t_M.
    replace (max_iter o <? min_iter o) with false by lia. rewrite Hp, Hfeas. cbn [negb]. rewrite Hoff. cbn [Z.eqb].
    rewrite Hpre, Hb. replace (Z.to_nat (max_iter o)) with 0%nat by lia. cbn [loop finish st_eqb andb Nat.sub stamp Z.of_nat].
    destruct (fail_raise o); reflexivity.
  Qed.
End Generic.

(* the clause "iterations[t] = max_iter on failure" is therefore REFUTED for max_iter < 0 (a meaningless but accepted input):
   min_iter = max_iter = -2 records iterations 0 *)
Lemma failed_iterations_eq_max_iter_refuted :
  exists sc d (o : fopts) t (s : fstate) p,
    min_iter o <= max_iter o /\ py_pos (length (status s)) t = Some p /\
    nth_error (status (fst (f_solve_t sc d o t s))) p = Some Failed /\
    nth_error (iters (fst (f_solve_t sc d o t s))) p <> Some (max_iter o) /\
    nth_error (iters (fst (f_solve_t sc d o t s))) p = Some 0.
Proof.
  exists ex_scripts, ex_desc, (mkOpts (-2) (-2) 0x1.b7cdfd9d7bdbbp-34%float 0 false ERaise true), 1, ex_state, 1%nat.
  repeat split; vm_compute; congruence.
Qed.
