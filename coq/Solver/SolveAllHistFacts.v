(* SolveAllHistFacts.v — the histories run by K_history are instances of SolveAllFacts2.run_api, so the status-alphabet invariant
   (api_status_invariant) speaks about exactly what is compared with the implementation. *)
From Coq Require Import PrimFloat ZArith List Bool Lia.
Import ListNotations.
Require Import PyBase Solver SolverF SolverFacts SolverFacts3 SolverExamples SolveAll SolveAllSpan SolveAllF SolveAllFacts SolveAllFacts2 SolveAllHistF.
Require Fsic.Gen.Generated.
Open Scope Z_scope.

Definition to_api (d : mdesc) (span : list Z) (c : hcall) : api float Z :=
  match c with
  | HSolveT o t => ApiSolveT float Z d o t
  | HSolvePeriod o lab => ApiSolvePeriod float Z d o lab
  | HSolve o start end_ => ApiSolve float Z d o span start end_
  end.

Definition hcall_opts (c : hcall) : fopts := match c with HSolveT o _ | HSolvePeriod o _ | HSolve o _ _ => o end.

Lemma run_hist_state sc d kind span n : forall cs s,
  fst (run_hist sc d kind span n cs s) =
  run_api float PrimFloat.sub PrimFloat.abs PrimFloat.ltb fisfin fzero (s_ev n sc) (s_before n sc) (s_after n sc) Z
          (f_locate kind span []) (map (to_api d span) cs) s.
Proof.
  induction cs as [|c cs IH]; intros s; [reflexivity|].
  cbn [run_hist map run_api].
  destruct (run_hcall sc d kind span n c s) as [s1 o1] eqn:E1.
  destruct (run_hist sc d kind span n cs s1) as [s2 os] eqn:E2. cbn [fst].
  assert (Hs1 : s1 = run_api1 float PrimFloat.sub PrimFloat.abs PrimFloat.ltb fisfin fzero (s_ev n sc) (s_before n sc) (s_after n sc) Z
                        (f_locate kind span []) (to_api d span c) s).
  { destruct c as [o t|o lab|o st en]; cbn [run_hcall to_api run_api1] in *.
    - destruct (solve_t_M _ _ _ _ _ _ _ _ _ _ _ _ _) as [s' [b|e]]; inversion E1; reflexivity.
    - destruct (solve_period_M _ _ _ _ _ _ _ _ _ _ _ _ _ _ _) as [s' [b|e]]; inversion E1; reflexivity.
    - destruct (solve_M _ _ _ _ _ _ _ _ _ _ _ _ _ _ _ _ _) as [s' [r|e]]; inversion E1; reflexivity. }
  rewrite <- Hs1. rewrite <- IH, E2. reflexivity.
Qed.

(* the invariant for the histories K_history runs: every status after the history is one of the five SolutionStatus values — the
   initial one, '.', 'F', 'S' (only if some call had errors='skip') or 'E' (only if some call had errors='raise') *)
Theorem hist_status_invariant sc d kind span n cs s :
  let s' := fst (run_hist sc d kind span n cs s) in
  length (status s') = length (status s) /\ length (iters s') = length (iters s) /\
  forall q x, nth_error (status s') q = Some x ->
    In (st_char x) Generated.status_values /\
    (nth_error (status s) q = Some x \/ x = Solved \/ x = Failed \/
     (x = Skipped /\ exists c, In c cs /\ errors (hcall_opts c) = ESkip) \/
     (x = ErrorSt /\ exists c, In c cs /\ errors (hcall_opts c) = ERaise)).
Proof.
  cbv zeta. rewrite run_hist_state.
  pose proof (api_status_invariant float PrimFloat.sub PrimFloat.abs PrimFloat.ltb fisfin fzero (s_ev n sc) (s_before n sc) (s_after n sc) Z
                (f_locate kind span []) (map (to_api d span) cs) s) as H. cbv zeta in H.
  destruct H as (H1 & H2 & H3). split; [exact H1|]. split; [exact H2|].
  intros q x Hq. destruct (H3 q x Hq) as [Ha Hx]. split; [exact Ha|].
  destruct Hx as [Hx|[Hx|[Hx|[[Hx (c & Hin & He)]|[Hx (c & Hin & He)]]]]]; auto.
  - right. right. right. left. split; [exact Hx|]. apply in_map_iff in Hin as (c0 & <- & Hin0). exists c0. split; [exact Hin0|].
    destruct c0; exact He.
  - right. right. right. right. split; [exact Hx|]. apply in_map_iff in Hin as (c0 & <- & Hin0). exists c0. split; [exact Hin0|].
    destruct c0; exact He.
Qed.
