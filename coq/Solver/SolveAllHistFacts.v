(* SolveAllHistFacts.v — the histories run by K_history: their solver calls are calls of SolveAllFacts2.run_api; status invariants
   for histories with and without reindex(). *)
From Coq Require Import PrimFloat ZArith List Bool Lia.
Import ListNotations.
Require Import PyBase Solver SolverF SolverFacts SolverFacts3 SolverExamples SolveAll SolveAllSpan SolveAllF SolveAllFacts SolveAllFacts2 SolveAllHistF.
Require Fsic.Gen.Generated.
Open Scope Z_scope.

(* the solver calls of a history as calls of SolveAllFacts2.run_api (on the span current at that step); edits have no counterpart *)
Definition to_api (d : mdesc) (span : list Z) (c : hcall) : option (api float Z) :=
  match c with
  | HSolveT o t => Some (ApiSolveT float Z d o t)
  | HSolvePeriod o lab => Some (ApiSolvePeriod float Z d o lab)
  | HSolve o start end_ => Some (ApiSolve float Z d o span start end_)
  | _ => None
  end.

(* the `errors` option of a solver call (edits have none) *)
Definition hcall_errors (c : hcall) : option errmode :=
  match c with HSolveT o _ | HSolvePeriod o _ | HSolve o _ _ => Some (errors o) | _ => None end.

Definition is_reindex (c : hcall) : bool := match c with HReindex _ => true | _ => false end.

Lemma reindex_list_In {A} old_span new_span (fill : A) l x :
  In x (reindex_list old_span new_span fill l) -> x = fill \/ In x l.
Proof.
  unfold reindex_list. intros H. apply in_map_iff in H as (lab & <- & _).
  destruct (index_of lab old_span 0) as [p|]; [|left; reflexivity].
  destruct (nth_in_or_default (Z.to_nat p) l fill) as [Hin| ->]; [right; exact Hin|left; reflexivity].
Qed.

Section HistFacts.
  Variables (sc : scripts) (d : mdesc) (kind : nat).
  Notation run_hcall := (run_hcall sc d kind).
  Notation run_hist := (run_hist sc d kind).
  Notation api1 s span := (run_api1 float PrimFloat.sub PrimFloat.abs PrimFloat.ltb fisfin fzero
                                    (s_ev (length (status s)) sc) (s_before (length (status s)) sc) (s_after (length (status s)) sc) Z
                                    (f_locate kind span [])).

  (* a solver call of a history is the corresponding call of run_api and leaves the span alone *)
  Lemma run_hcall_api c a s span : to_api d span c = Some a ->
    fst (run_hcall c (s, span)) = (api1 s span a s, span).
  Proof.
    destruct c as [o t|o lab|o st en| | | |nsp]; cbn [to_api]; intros H; inversion H; subst;
      cbn [SolveAllHistF.run_hcall SolveAllFacts2.run_api1].
    - destruct (solve_t_M _ _ _ _ _ _ _ _ _ _ _ _ _) as [s' [b|e]]; reflexivity.
    - destruct (solve_period_M _ _ _ _ _ _ _ _ _ _ _ _ _ _ _) as [s' [b|e]]; reflexivity.
    - destruct (solve_M _ _ _ _ _ _ _ _ _ _ _ _ _ _ _ _ _) as [s' [r|e]]; reflexivity.
  Qed.
  (* copy(), whole-series and cell assignments never touch status / iterations / span *)
  Lemma run_hcall_edit c s span : to_api d span c = None -> is_reindex c = false ->
    status (fst (fst (run_hcall c (s, span)))) = status s /\ iters (fst (fst (run_hcall c (s, span)))) = iters s /\
    snd (fst (run_hcall c (s, span))) = span.
  Proof. destruct c; cbn [to_api is_reindex]; intros H1 H2; try discriminate; repeat split; reflexivity. Qed.

  (* one step without reindex: lengths and span kept; every status is the previous one or one this call's policy may write *)
  Lemma run_hcall_step c s span : is_reindex c = false ->
    let s' := fst (fst (run_hcall c (s, span))) in
    snd (fst (run_hcall c (s, span))) = span /\
    length (status s') = length (status s) /\ length (iters s') = length (iters s) /\
    forall q x, nth_error (status s') q = Some x ->
      nth_error (status s) q = Some x \/ x = Solved \/ x = Failed \/
      (x = Skipped /\ hcall_errors c = Some ESkip) \/ (x = ErrorSt /\ hcall_errors c = Some ERaise).
  Proof.
    intros Hr. cbv zeta. destruct (to_api d span c) as [a|] eqn:Ea.
    - rewrite (run_hcall_api c a s span Ea). cbn [fst snd]. split; [reflexivity|].
      pose proof (api_status_invariant float PrimFloat.sub PrimFloat.abs PrimFloat.ltb fisfin fzero
                    (s_ev (length (status s)) sc) (s_before (length (status s)) sc) (s_after (length (status s)) sc) Z
                    (f_locate kind span []) [a] s) as H. cbv zeta in H. cbn [run_api] in H.
      destruct H as (H1 & H2 & H3). split; [exact H1|]. split; [exact H2|].
      intros q x Hq. destruct (H3 q x Hq) as [_ Hx].
      assert (Ho : hcall_errors c = Some (errors (api_opts float Z a))).
      { destruct c; cbn [to_api] in Ea; inversion Ea; subst; reflexivity. }
      destruct Hx as [Hx|[Hx|[Hx|[[Hx (c0 & [<-|[]] & He)]|[Hx (c0 & [<-|[]] & He)]]]]]; auto.
      + right. right. right. left. split; [exact Hx|]. rewrite Ho, He. reflexivity.
      + right. right. right. right. split; [exact Hx|]. rewrite Ho, He. reflexivity.
    - destruct (run_hcall_edit c s span Ea Hr) as (Hs & Hi & Hsp). rewrite Hs, Hi. split; [exact Hsp|]. split; [reflexivity|].
      split; [reflexivity|]. intros q x Hq. left. exact Hq.
  Qed.

  (* ---- histories WITHOUT reindex(): positional invariant ----
     the series keep their length, the span stays, and every status after the history is one of the five SolutionStatus values:
     the one the period started with, '.', 'F', 'S' (only if some call had errors='skip') or 'E' (only if some call had errors='raise') *)
  Theorem hist_status_invariant : forall cs (s : fstate) span,
    existsb is_reindex cs = false ->
    let s' := fst (fst (run_hist cs (s, span))) in
    length (status s') = length (status s) /\ length (iters s') = length (iters s) /\
    forall q x, nth_error (status s') q = Some x ->
      In (st_char x) Generated.status_values /\
      (nth_error (status s) q = Some x \/ x = Solved \/ x = Failed \/
       (x = Skipped /\ exists c, In c cs /\ hcall_errors c = Some ESkip) \/
       (x = ErrorSt /\ exists c, In c cs /\ hcall_errors c = Some ERaise)).
  Proof.
    induction cs as [|c cs IH]; intros s span Hnr; cbv zeta.
    - cbn [SolveAllHistF.run_hist fst]. split; [reflexivity|]. split; [reflexivity|].
      intros q x Hq. split; [apply status_always_in_alphabet|left; exact Hq].
    - cbn [existsb] in Hnr. apply orb_false_iff in Hnr as [Hc Hcs].
      cbn [SolveAllHistF.run_hist]. destruct (run_hcall c (s, span)) as [[s1 sp1] o1] eqn:E1.
      destruct (run_hist cs (s1, sp1)) as [[s2 sp2] os] eqn:E2. cbn [fst].
      pose proof (run_hcall_step c s span Hc) as Hstep. cbv zeta in Hstep. rewrite E1 in Hstep. cbn [fst snd] in Hstep.
      destruct Hstep as (_ & L1 & L2 & Hs1).
      specialize (IH s1 sp1 Hcs). cbv zeta in IH. rewrite E2 in IH. cbn [fst] in IH. destruct IH as (M1 & M2 & Hs2).
      split; [congruence|]. split; [congruence|].
      intros q x Hq. destruct (Hs2 q x Hq) as [Ha Hx]. split; [exact Ha|].
      destruct Hx as [Hx|[Hx|[Hx|[[Hx (c0 & Hin & He)]|[Hx (c0 & Hin & He)]]]]]; auto.
      + destruct (Hs1 q x Hx) as [H0|[H0|[H0|[[H0 He]|[H0 He]]]]]; auto.
        * right. right. right. left. split; [exact H0|]. exists c. split; [left; reflexivity|exact He].
        * right. right. right. right. split; [exact H0|]. exists c. split; [left; reflexivity|exact He].
      + right. right. right. left. split; [exact Hx|]. exists c0. split; [right; exact Hin|exact He].
      + right. right. right. right. split; [exact Hx|]. exists c0. split; [right; exact Hin|exact He].
  Qed.

  (* ---- ANY history, reindex() included ----
     every status is one of the five SolutionStatus values: one that was already somewhere in the start state, the fill '-' of a
     reindex, '.', 'F', 'S' (only if some call had errors='skip') or 'E' (only if some call had errors='raise'); status and
     iterations series stay equally long *)
  Theorem hist_status_invariant_general : forall cs (s : fstate) span,
    length (iters s) = length (status s) ->
    let s' := fst (fst (run_hist cs (s, span))) in
    length (iters s') = length (status s') /\
    forall x, In x (status s') ->
      In (st_char x) Generated.status_values /\
      (In x (status s) \/ x = Unsolved \/ x = Solved \/ x = Failed \/
       (x = Skipped /\ exists c, In c cs /\ hcall_errors c = Some ESkip) \/
       (x = ErrorSt /\ exists c, In c cs /\ hcall_errors c = Some ERaise)).
  Proof.
    induction cs as [|c cs IH]; intros s span Hlen; cbv zeta.
    - cbn [SolveAllHistF.run_hist fst]. split; [exact Hlen|]. intros x Hx. split; [apply status_always_in_alphabet|left; exact Hx].
    - cbn [SolveAllHistF.run_hist]. destruct (run_hcall c (s, span)) as [[s1 sp1] o1] eqn:E1.
      destruct (run_hist cs (s1, sp1)) as [[s2 sp2] os] eqn:E2. cbn [fst].
      (* one step: lengths agree afterwards; a status after the step was there before, is the fill, or was written by c *)
      assert (Hstep : length (iters s1) = length (status s1) /\
                      forall x, In x (status s1) -> In x (status s) \/ x = Unsolved \/ x = Solved \/ x = Failed \/
                        (x = Skipped /\ hcall_errors c = Some ESkip) \/ (x = ErrorSt /\ hcall_errors c = Some ERaise)).
      { destruct (is_reindex c) eqn:Hr.
        - destruct c; cbn [is_reindex] in Hr; try discriminate. cbn [SolveAllHistF.run_hcall] in E1. inversion E1; subst.
          unfold reindex_state. cbn [status iters]. split; [unfold reindex_list; rewrite !map_length; reflexivity|].
          intros x Hx. apply reindex_list_In in Hx as [->|Hx]; auto.
        - pose proof (run_hcall_step c s span Hr) as H. cbv zeta in H. rewrite E1 in H. cbn [fst snd] in H.
          destruct H as (_ & L1 & L2 & Hs1). split; [congruence|].
          intros x Hx. apply In_nth_error in Hx as [q Hq]. destruct (Hs1 q x Hq) as [H0|[H0|[H0|[H0|H0]]]]; auto 6.
          left. exact (nth_error_In _ _ H0). }
      destruct Hstep as [Hl1 Hs1].
      specialize (IH s1 sp1 Hl1). cbv zeta in IH. rewrite E2 in IH. cbn [fst] in IH. destruct IH as (M & Hs2).
      split; [exact M|]. intros x Hx. destruct (Hs2 x Hx) as [Ha Hy]. split; [exact Ha|].
      destruct Hy as [Hy|[Hy|[Hy|[Hy|[[Hy (c0 & Hin & He)]|[Hy (c0 & Hin & He)]]]]]]; auto 7.
      + destruct (Hs1 x Hy) as [H0|[H0|[H0|[H0|[[H0 He]|[H0 He]]]]]]; auto 7.
        * right. right. right. right. left. split; [exact H0|]. exists c. split; [left; reflexivity|exact He].
        * right. right. right. right. right. split; [exact H0|]. exists c. split; [left; reflexivity|exact He].
      + right. right. right. right. left. split; [exact Hy|]. exists c0. split; [right; exact Hin|exact He].
      + right. right. right. right. right. split; [exact Hy|]. exists c0. split; [right; exact Hin|exact He].
  Qed.
End HistFacts.
