(* SolveAllSpanFacts.v — label resolution for every supported span type, and what solve() / solve_period() make of it. *)
From Coq Require Import ZArith List Bool Lia.
Import ListNotations.
Require Import PyBase Solver SolverFacts SolveAll SolveAllFacts SolveAllSpan.
Require Fsic.Gen.Generated.
Open Scope Z_scope.

(* with the method list of the working tree the dispatch is: pandas Index -> get_loc, list / tuple / range -> .index,
   NumPy array -> the static fallback; it never runs out of methods (no AttributeError) *)
Theorem locate_span_eq k span x :
  locate_dispatch Generated.valid_index_methods k span x =
  Some (match k with
        | SpIndex => locate_getloc span x
        | SpList => locate_index span x
        | SpArray => locate_unique span x
        end).
Proof. destruct k; reflexivity. Qed.

Corollary locate_span_cases k span x :
  locate_span k span x = match k with
                         | SpIndex => locate_getloc span x
                         | SpList => locate_index span x
                         | SpArray => locate_unique span x
                         end.
Proof. unfold locate_span. rewrite locate_span_eq. reflexivity. Qed.

Lemma In_nth_error_Z (l : list Z) x : In x l -> exists i, nth_error l i = Some x.
Proof. apply In_nth_error. Qed.

Lemma locate_getloc_ok span : NoDup span -> locate_ok Z (locate_getloc span) span.
Proof.
  intros Hnd i x Hx. unfold locate_getloc.
  rewrite (count_of_nodup span x Hnd (nth_error_In _ _ Hx)).
  exact (locate_index_ok span Hnd i x Hx).
Qed.

(* every supported span type without repeated labels: each label resolves to its own position, as a built-in int *)
Theorem locate_span_ok k span : NoDup span -> locate_ok Z (locate_span k span) span.
Proof.
  intros Hnd i x Hx. rewrite locate_span_cases. destruct k.
  - exact (locate_index_ok span Hnd i x Hx).
  - exact (locate_unique_ok span Hnd i x Hx).
  - exact (locate_getloc_ok span Hnd i x Hx).
Qed.

(* a label that is not in the span: the lookup raises for every span type (-> KeyError) *)
Theorem locate_span_unknown k span x : ~ In x span -> locate_span k span x = LFail.
Proof.
  intros Hx. rewrite locate_span_cases. destruct (locate_unknown_label span x Hx) as [H1 H2]. destruct k.
  - exact H1.
  - exact H2.
  - unfold locate_getloc. rewrite (count_of_absent span x Hx). reflexivity.
Qed.

Lemma count_of_pos_In span x : (0 < count_of x span)%nat -> In x span.
Proof.
  unfold count_of. induction span as [|y r IH].
  - cbn. lia.
  - cbn [filter]. destruct (Z.eqb x y) eqn:E.
    + intros _. left. symmetry. apply Z.eqb_eq. exact E.
    + intros H. right. exact (IH H).
Qed.

Lemma index_of_first l : forall x i0, In x l ->
  exists i, index_of x l i0 = Some (i0 + Z.of_nat i) /\ nth_error l i = Some x /\
            forall j, (j < i)%nat -> nth_error l j <> Some x.
Proof.
  induction l as [|y r IH]; intros x i0 Hin; [destruct Hin|].
  cbn [index_of]. destruct (x =? y) eqn:E.
  - apply Z.eqb_eq in E. subst y. exists 0%nat. split; [f_equal; lia|]. split; [reflexivity|]. intros j Hj. lia.
  - apply Z.eqb_neq in E. destruct Hin as [->|Hin]; [congruence|].
    destruct (IH x (i0 + 1) Hin) as (i & H1 & H2 & H3). exists (S i). split; [rewrite H1; f_equal; lia|]. split; [exact H2|].
    intros [|j] Hj; cbn [nth_error]; [congruence|apply H3; lia].
Qed.

(* a label carried by SEVERAL periods does not denote a single position: list / tuple / range give the FIRST occurrence,
   a NumPy array raises (NotImplementedError -> KeyError), a pandas Index answers with a slice / mask (not an int) *)
Theorem locate_span_repeated k span x : (2 <= count_of x span)%nat ->
  match k with
  | SpList => exists i, locate_span k span x = LInt (Z.of_nat i) /\ nth_error span i = Some x /\
                        forall j, (j < i)%nat -> nth_error span j <> Some x
  | SpArray => locate_span k span x = LFail
  | SpIndex => locate_span k span x = LOther
  end.
Proof.
  intros Hc. rewrite locate_span_cases. destruct k.
  - assert (Hin : In x span) by (apply count_of_pos_In; lia).
    destruct (index_of_first span x 0 Hin) as (i & H1 & H2 & H3). exists i. unfold locate_index. rewrite H1.
    split; [f_equal|split; [exact H2|exact H3]].
  - unfold locate_unique. replace (count_of x span =? 1)%nat with false by (symmetry; apply Nat.eqb_neq; lia). reflexivity.
  - unfold locate_getloc. destruct (count_of x span) as [|[|c]]; [lia|lia|reflexivity].
Qed.

Corollary locate_span_repeated_not_int k span x : (2 <= count_of x span)%nat -> k <> SpList ->
  is_int (locate_span k span x) = false.
Proof.
  intros Hc Hk. pose proof (locate_span_repeated k span x Hc) as H. destruct k; [congruence|rewrite H; reflexivity|rewrite H; reflexivity].
Qed.

Section SpanSolve.
  Variable num : Type.
  Variables (sub : num -> num -> num) (absf : num -> num) (ltb : num -> num -> bool)
            (isfin : num -> bool) (zero : num).
  Variables (ev before after : hook num).
  Notation solve_t_M := (solve_t_M num sub absf ltb isfin zero ev before after).
  Notation run_periods := (run_periods num sub absf ltb isfin zero ev before after Z).
  Notation solve_M k span := (solve_M num sub absf ltb isfin zero ev before after Z (locate_span k span)).
  Notation solve_period_M k span := (solve_period_M num sub absf ltb isfin zero ev before after Z (locate_span k span)).
  Notation iter_periods_M k span := (iter_periods_M Z (locate_span k span)).

  (* solve_period(label) = solve_t(position of label), for every supported span type *)
  Theorem solve_period_every_span k span d o lab i s :
    NoDup span -> nth_error span i = Some lab ->
    solve_period_M k span d o lab s = solve_t_M d o (Z.of_nat i) s.
  Proof.
    intros Hnd Hi.
    exact (solve_period_eq_solve_t num sub absf ltb isfin zero ev before after Z (locate_span k span) d o span lab i s
             (locate_span_ok k span Hnd) Hi).
  Qed.

  (* solve_period of an unknown label, or (NumPy / pandas) of a label carried by several periods: KeyError, nothing changes *)
  Theorem solve_period_unknown_every_span k span d o lab s :
    ~ In lab span -> solve_period_M k span d o lab s = (s, Raise KeyError).
  Proof.
    intros Hx. apply solve_period_bad_label. rewrite (locate_span_unknown k span lab Hx). reflexivity.
  Qed.
  Theorem solve_period_repeated_label k span d o lab s :
    (2 <= count_of lab span)%nat -> k <> SpList -> solve_period_M k span d o lab s = (s, Raise KeyError).
  Proof. intros Hc Hk. apply solve_period_bad_label. exact (locate_span_repeated_not_int k span lab Hc Hk). Qed.
  (* ... a list / tuple / range solves the FIRST period carrying the label *)
  Theorem solve_period_repeated_label_list span d o lab s :
    (2 <= count_of lab span)%nat ->
    exists i, nth_error span i = Some lab /\ (forall j, (j < i)%nat -> nth_error span j <> Some lab) /\
              solve_period_M SpList span d o lab s = solve_t_M d o (Z.of_nat i) s.
  Proof.
    intros Hc. destruct (locate_span_repeated SpList span lab Hc) as (i & H1 & H2 & H3). exists i.
    split; [exact H2|split; [exact H3|]]. unfold SolveAll.solve_period_M. rewrite H1. reflexivity.
  Qed.

  (* iter_periods(start, end) on every supported span type: one (position, label) pair for every position from `start`
     to `end` inclusive (defaults: position lags / position len-1-leads), in span order *)
  Theorem iter_periods_every_span k span d start end_ a b :
    NoDup span -> resolves_start Z d span start a -> resolves_end Z d span end_ b ->
    iter_periods_M k span d span start end_ = Ret ((S b - a)%nat, periods Z span a b).
  Proof.
    intros Hnd Hs He. exact (iter_periods_resolved Z (locate_span k span) d span start end_ a b (locate_span_ok k span Hnd) Hs He).
  Qed.

  (* solve(start, end) = the fold of solve_t over those positions, for every supported span type *)
  Theorem solve_every_span k span d o start end_ s a b :
    min_iter o <= max_iter o -> NoDup span ->
    resolves_start Z d span start a -> resolves_end Z d span end_ b ->
    solve_M k span d o span start end_ s =
    match run_periods d o (periods Z span a b) s [] with
    | (s', Ret vs) => (s', Ret (mkRes (S b - a) vs))
    | (s', Raise e) => (s', Raise e)
    end.
  Proof.
    intros Hmm Hnd Hs He.
    exact (solve_eq_fold num sub absf ltb isfin zero ev before after Z (locate_span k span) d o span start end_ s a b Hmm
             (locate_span_ok k span Hnd) Hs He).
  Qed.

  (* an unknown start / end label: KeyError before anything is solved, for every supported span type *)
  Theorem solve_unknown_start_every_span k span d o x end_ s :
    min_iter o <= max_iter o -> ~ In x span -> solve_M k span d o span (Some x) end_ s = (s, Raise KeyError).
  Proof. intros Hmm Hx. apply solve_bad_start; [exact Hmm|]. rewrite (locate_span_unknown k span x Hx). reflexivity. Qed.
  Theorem solve_unknown_end_every_span k span d o start y s :
    min_iter o <= max_iter o -> ~ In y span -> solve_M k span d o span start (Some y) s = (s, Raise KeyError).
  Proof. intros Hmm Hy. apply solve_bad_end; [exact Hmm|]. rewrite (locate_span_unknown k span y Hy). reflexivity. Qed.

  (* an explicit start in front of the first period with enough lags: the feasibility guard of solve_t rejects that very first
     period with IndexError and nothing has changed (no wrapped-around read) *)
  Theorem solve_start_before_lags_rejected k span d o start end_ s a b :
    min_iter o <= max_iter o -> NoDup span -> length (status s) = length span ->
    resolves_start Z d span start a -> resolves_end Z d span end_ b ->
    (a <= b)%nat -> (a < lags d)%nat ->
    solve_M k span d o span start end_ s = (s, Raise IndexError).
  Proof.
    intros Hmm Hnd Hlen Hs He Hab Hlag.
    rewrite (solve_every_span k span d o start end_ s a b Hmm Hnd Hs He).
    pose proof (resolves_end_lt Z d span end_ b He) as Hb.
    unfold periods. replace (S b - a)%nat with (S (b - a)) by lia. cbn [seq map].
    destruct (skipn a span) as [|x r] eqn:Esk.
    { exfalso. assert (length (skipn a span) = 0%nat) by (rewrite Esk; reflexivity). rewrite skipn_length in H. lia. }
    cbn [firstn combine SolveAll.run_periods].
    rewrite (infeasible_period_rejected num sub absf ltb isfin zero ev before after d o (Z.of_nat a) s a).
    - reflexivity.
    - lia.
    - rewrite py_pos_nonneg by lia. rewrite Nat2Z.id. reflexivity.
    - left. exact Hlag.
  Qed.
End SpanSolve.

(* defaults that do not exist: a non-empty span with no more periods than lags (or leads) — `span[self.lags]` /
   `span[-1 - self.leads]` raises IndexError before anything is solved, whatever the lookup *)
Section DefaultsOutOfSpan.
  Variable num : Type.
  Variables (sub : num -> num -> num) (absf : num -> num) (ltb : num -> num -> bool)
            (isfin : num -> bool) (zero : num).
  Variables (ev before after : hook num).
  Variable L : Type.
  Variable locate : L -> locres.
  Notation solve_M := (solve_M num sub absf ltb isfin zero ev before after L locate).

  Theorem solve_default_start_beyond_span d o span end_ s :
    min_iter o <= max_iter o -> span <> [] -> (length span <= lags d)%nat -> bad_label L locate end_ = false ->
    solve_M d o span None end_ s = (s, Raise IndexError).
  Proof.
    intros Hmm Hne Hl Hb. unfold SolveAll.solve_M. replace (max_iter o <? min_iter o) with false by lia.
    cbn [bad_label]. rewrite Hb. unfold SolveAll.iter_periods_M.
    destruct span as [|x r]; [congruence|]. cbn [length Nat.eqb]. cbv zeta.
    replace (S (length r) <=? lags d)%nat with true by (symmetry; apply Nat.leb_le; exact Hl).
    reflexivity.
  Qed.

  Theorem solve_default_end_beyond_span d o span start a s :
    min_iter o <= max_iter o -> resolves_start L d span start a -> (length span <= leads d)%nat ->
    bad_label L locate start = false ->
    solve_M d o span start None s = (s, Raise IndexError).
  Proof.
    intros Hmm Hs Hl Hb. pose proof (resolves_start_lt L d span start a Hs) as Ha.
    unfold SolveAll.solve_M. replace (max_iter o <? min_iter o) with false by lia.
    rewrite Hb. cbn [bad_label]. unfold SolveAll.iter_periods_M.
    replace (length span =? 0)%nat with false by (symmetry; apply Nat.eqb_neq; lia). cbv zeta.
    replace (Z.of_nat (length span) - 1 - Z.of_nat (leads d) <? 0) with true by lia.
    destruct start as [x|].
    - cbn [bad_label] in Hb. destruct (locate x); cbn in Hb; try discriminate; reflexivity.
    - cbn in Hs. destruct Hs as [-> Hlt].
      replace (length span <=? lags d)%nat with false by (symmetry; apply Nat.leb_gt; exact Hlt). reflexivity.
  Qed.
End DefaultsOutOfSpan.

(* ---- the sharp guard: only the labels of the two END periods need to be unambiguous ----
   solve(start, end) = the fold over positions a..b as soon as the label of period a and the label of period b are each
   carried by exactly one period — other periods may share labels among themselves.  (Since fix 7cd6323 a default end
   needs no guard at all: given_unique / solve_every_span_given below.) *)
Lemma unique_label_position (span : list Z) x : count_of x span = 1%nat ->
  forall i j, nth_error span i = Some x -> nth_error span j = Some x -> i = j.
Proof.
  unfold count_of. induction span as [|y r IH]; intros Hc i j Hi Hj; [destruct i; discriminate|].
  cbn [filter] in Hc. destruct (Z.eqb x y) eqn:E.
  - cbn [length] in Hc. assert (Hr : length (filter (Z.eqb x) r) = 0%nat) by lia.
    assert (Hnot : forall q, nth_error r q <> Some x).
    { intros q Hq. apply nth_error_In in Hq.
      assert (In x (filter (Z.eqb x) r)) by (apply filter_In; split; [exact Hq|apply Z.eqb_refl]).
      destruct (filter (Z.eqb x) r); [contradiction|discriminate]. }
    destruct i as [|i], j as [|j]; cbn [nth_error] in *; try reflexivity; exfalso; eapply Hnot; eassumption.
  - apply Z.eqb_neq in E.
    destruct i as [|i]; cbn [nth_error] in Hi; [congruence|].
    destruct j as [|j]; cbn [nth_error] in Hj; [congruence|].
    f_equal. exact (IH Hc i j Hi Hj).
Qed.

Theorem locate_span_unique k span x i :
  nth_error span i = Some x -> count_of x span = 1%nat -> locate_span k span x = LInt (Z.of_nat i).
Proof.
  intros Hi Hc. rewrite locate_span_cases.
  assert (Hidx : locate_index span x = LInt (Z.of_nat i)).
  { destruct (index_of_first span x 0 (nth_error_In _ _ Hi)) as (i' & H1 & H2 & _).
    rewrite (unique_label_position span x Hc i i' Hi H2). unfold locate_index. rewrite H1. reflexivity. }
  destruct k.
  - exact Hidx.
  - unfold locate_unique. rewrite Hc. exact Hidx.
  - unfold locate_getloc. rewrite Hc. exact Hidx.
Qed.

Section UniqueEnds.
  Variable num : Type.
  Variables (sub : num -> num -> num) (absf : num -> num) (ltb : num -> num -> bool)
            (isfin : num -> bool) (zero : num).
  Variables (ev before after : hook num).
  Notation run_periods := (run_periods num sub absf ltb isfin zero ev before after Z).
  Notation solve_M k span := (solve_M num sub absf ltb isfin zero ev before after Z (locate_span k span)).

  Lemma iter_periods_unique_ends k span d start end_ a b xs xe :
    nth_error span a = Some xs -> nth_error span b = Some xe ->
    count_of xs span = 1%nat -> count_of xe span = 1%nat ->
    resolves_start Z d span start a -> resolves_end Z d span end_ b ->
    iter_periods_M Z (locate_span k span) d span start end_ = Ret ((S b - a)%nat, periods Z span a b).
  Proof.
    intros Exs Exe Cs Ce Hs He. apply iter_periods_given; [| |exact Hs|exact He].
    - destruct start as [x|]; cbn; [|exact I]. cbn in Hs. assert (x = xs) by congruence. subst x.
      exact (locate_span_unique k span xs a Exs Cs).
    - destruct end_ as [x|]; cbn; [|exact I]. cbn in He. assert (x = xe) by congruence. subst x.
      exact (locate_span_unique k span xe b Exe Ce).
  Qed.

  Theorem solve_unique_ends k span d o start end_ s a b xs xe :
    min_iter o <= max_iter o ->
    nth_error span a = Some xs -> nth_error span b = Some xe ->
    count_of xs span = 1%nat -> count_of xe span = 1%nat ->
    resolves_start Z d span start a -> resolves_end Z d span end_ b ->
    solve_M k span d o span start end_ s =
    match run_periods d o (periods Z span a b) s [] with
    | (s', Ret vs) => (s', Ret (mkRes (S b - a) vs))
    | (s', Raise e) => (s', Raise e)
    end.
  Proof.
    intros Hmm Exs Exe Cs Ce Hs He. unfold SolveAll.solve_M.
    replace (max_iter o <? min_iter o) with false by lia.
    assert (B1 : bad_label Z (locate_span k span) start = false).
    { destruct start as [x|]; [|reflexivity]. cbn in Hs. assert (x = xs) by congruence. subst x.
      cbn. rewrite (locate_span_unique k span xs a Exs Cs). reflexivity. }
    assert (B2 : bad_label Z (locate_span k span) end_ = false).
    { destruct end_ as [x|]; [|reflexivity]. cbn in He. assert (x = xe) by congruence. subst x.
      cbn. rewrite (locate_span_unique k span xe b Exe Ce). reflexivity. }
    rewrite B1, B2, (iter_periods_unique_ends k span d start end_ a b xs xe Exs Exe Cs Ce Hs He). reflexivity.
  Qed.
End UniqueEnds.

(* ---- the guards are decidable: boolean versions and their specifications ---- *)
Lemma nodup_b_spec l : nodup_b l = true <-> NoDup l.
Proof.
  induction l as [|x r IH]; cbn [nodup_b].
  - split; [intros _; constructor|reflexivity].
  - rewrite andb_true_iff, negb_true_iff, IH. split.
    + intros [Hx Hr]. constructor; [|exact Hr]. intros Hin.
      assert (existsb (Z.eqb x) r = true) by (apply existsb_exists; exists x; split; [exact Hin|apply Z.eqb_refl]). congruence.
    + intros H. inversion H as [|? ? Hnin Hr]; subst. split; [|exact Hr].
      destruct (existsb (Z.eqb x) r) eqn:E; [|reflexivity]. exfalso. apply existsb_exists in E as (y & Hy & Exy).
      apply Z.eqb_eq in Exy. subst y. exact (Hnin Hy).
Qed.

Lemma unique_at_spec span i : unique_at span i = true <-> exists x, nth_error span i = Some x /\ count_of x span = 1%nat.
Proof.
  unfold unique_at. destruct (nth_error span i) as [x|].
  - rewrite Nat.eqb_eq. split; [intros H; exists x; auto|intros (y & Hy & Hc); inversion Hy; subst; exact Hc].
  - split; [discriminate|intros (x & Hx & _); discriminate].
Qed.

Lemma nodup_unique_at span i : NoDup span -> (i < length span)%nat -> unique_at span i = true.
Proof.
  intros Hnd Hi. apply unique_at_spec. destruct (nth_error span i) as [x|] eqn:E; [|apply nth_error_None in E; lia].
  exists x. split; [reflexivity|]. exact (count_of_nodup span x Hnd (nth_error_In _ _ E)).
Qed.

Section UniqueEndsB.
  Variable num : Type.
  Variables (sub : num -> num -> num) (absf : num -> num) (ltb : num -> num -> bool)
            (isfin : num -> bool) (zero : num).
  Variables (ev before after : hook num).
  Notation solve_t_M := (solve_t_M num sub absf ltb isfin zero ev before after).
  Notation run_periods := (run_periods num sub absf ltb isfin zero ev before after Z).
  Notation solve_M k span := (solve_M num sub absf ltb isfin zero ev before after Z (locate_span k span)).
  Notation solve_period_M k span := (solve_period_M num sub absf ltb isfin zero ev before after Z (locate_span k span)).

  (* the decidable form of solve_unique_ends: a boolean test on the span and the two end positions *)
  Theorem solve_unique_ends_b k span d o start end_ s a b :
    min_iter o <= max_iter o ->
    unique_at span a = true -> unique_at span b = true ->
    resolves_start Z d span start a -> resolves_end Z d span end_ b ->
    solve_M k span d o span start end_ s =
    match run_periods d o (periods Z span a b) s [] with
    | (s', Ret vs) => (s', Ret (mkRes (S b - a) vs))
    | (s', Raise e) => (s', Raise e)
    end.
  Proof.
    intros Hmm Ua Ub Hs He.
    apply unique_at_spec in Ua as (xs & Exs & Cs). apply unique_at_spec in Ub as (xe & Exe & Ce).
    exact (solve_unique_ends num sub absf ltb isfin zero ev before after k span d o start end_ s a b xs xe Hmm Exs Exe Cs Ce Hs He).
  Qed.

  (* solve_period(label) = solve_t(position) as soon as THAT label is carried by one period only (other labels may repeat) *)
  Theorem solve_period_unique_label k span d o lab i s :
    nth_error span i = Some lab -> count_of lab span = 1%nat ->
    solve_period_M k span d o lab s = solve_t_M d o (Z.of_nat i) s.
  Proof.
    intros Hi Hc. unfold SolveAll.solve_period_M. rewrite (locate_span_unique k span lab i Hi Hc). reflexivity.
  Qed.
End UniqueEndsB.


(* ---- since fix 7cd6323: guards only for the labels the caller GIVES ----
   given_unique span x pos: when a label was given (x = Some _), the label of period pos is carried by that period only;
   for a default (None) nothing is required — defaults are positions, they are never looked up *)
Definition given_unique (span : list Z) (x : option Z) (pos : nat) : bool :=
  match x with Some _ => unique_at span pos | None => true end.

Lemma given_unique_ok k span (x : option Z) pos :
  given_unique span x pos = true -> (match x with Some l => nth_error span pos = Some l | None => True end) ->
  given_ok Z (locate_span k span) x pos.
Proof.
  destruct x as [l|]; cbn; [|intros _ _; exact I]. intros Hu Hn. apply unique_at_spec in Hu as (y & Hy & Hc).
  assert (y = l) by congruence. subst y. exact (locate_span_unique k span l pos Hn Hc).
Qed.

Section GivenLabels.
  Variable num : Type.
  Variables (sub : num -> num -> num) (absf : num -> num) (ltb : num -> num -> bool)
            (isfin : num -> bool) (zero : num).
  Variables (ev before after : hook num).
  Notation run_periods := (run_periods num sub absf ltb isfin zero ev before after Z).
  Notation solve_M k span := (solve_M num sub absf ltb isfin zero ev before after Z (locate_span k span)).

  (* iter_periods(start, end) on every supported span type, repeated labels allowed: one (position, label) pair per position from
     `start` to `end` inclusive — defaults: position lags / position len-1-leads, with NO condition on the labels *)
  Theorem iter_periods_every_span_given k span d start end_ a b :
    given_unique span start a = true -> given_unique span end_ b = true ->
    resolves_start Z d span start a -> resolves_end Z d span end_ b ->
    iter_periods_M Z (locate_span k span) d span start end_ = Ret ((S b - a)%nat, periods Z span a b).
  Proof.
    intros Us Ue Hs He. apply iter_periods_given; [| |exact Hs|exact He].
    - apply (given_unique_ok k span start a Us). destruct start; cbn in Hs; [exact Hs|exact I].
    - apply (given_unique_ok k span end_ b Ue). destruct end_; cbn in He; [exact He|exact I].
  Qed.

  Theorem solve_every_span_given k span d o start end_ s a b :
    min_iter o <= max_iter o ->
    given_unique span start a = true -> given_unique span end_ b = true ->
    resolves_start Z d span start a -> resolves_end Z d span end_ b ->
    solve_M k span d o span start end_ s =
    match run_periods d o (periods Z span a b) s [] with
    | (s', Ret vs) => (s', Ret (mkRes (S b - a) vs))
    | (s', Raise e) => (s', Raise e)
    end.
  Proof.
    intros Hmm Us Ue Hs He.
    apply (solve_eq_fold_given num sub absf ltb isfin zero ev before after Z (locate_span k span) d o span start end_ s a b Hmm);
      [| |exact Hs|exact He].
    - apply (given_unique_ok k span start a Us). destruct start; cbn in Hs; [exact Hs|exact I].
    - apply (given_unique_ok k span end_ b Ue). destruct end_; cbn in He; [exact He|exact I].
  Qed.

  (* solve() with default start and end: EVERY span, whatever its labels (repeated, falsy, anything), is solved from position lags
     to position len-1-leads *)
  Corollary solve_defaults_any_span k span d o s :
    min_iter o <= max_iter o -> (lags d + leads d < length span)%nat ->
    solve_M k span d o span None None s =
    match run_periods d o (periods Z span (lags d) (length span - 1 - leads d)) s [] with
    | (s', Ret vs) => (s', Ret (mkRes (S (length span - 1 - leads d) - lags d) vs))
    | (s', Raise e) => (s', Raise e)
    end.
  Proof.
    intros Hmm Hl. apply solve_every_span_given; [exact Hmm|reflexivity|reflexivity| |].
    - cbn. split; [reflexivity|lia].
    - cbn. lia.
  Qed.
End GivenLabels.


(* ---- next() on the object iter_periods() returns (fix 7e39627): the FIRST period of the range comes first ---- *)
Section PeriodIterNext.
  Variable L : Type.
  Variable locate : L -> locres.
  Theorem period_iter_next_first d span start end_ a b lab :
    given_ok L locate start a -> given_ok L locate end_ b -> resolves_start L d span start a -> resolves_end L d span end_ b ->
    (a <= b)%nat -> nth_error span a = Some lab ->
    period_iter_next_M (iter_periods_M L locate d span start end_) = Ret (Z.of_nat a, lab).
  Proof.
    intros Gs Ge Hs He Hab Hl. rewrite (iter_periods_given L locate d span start end_ a b Gs Ge Hs He).
    pose proof (resolves_end_lt L d span end_ b He) as Hb.
    assert (H0 : nth_error (periods L span a b) 0 = Some (Z.of_nat a, lab)).
    { apply (positions_exact L span a b Hb). split; [lia|]. replace (a + 0)%nat with a by lia. split; [reflexivity|exact Hl]. }
    destruct (periods L span a b) as [|p ps]; cbn [nth_error] in H0; [discriminate|]. inversion H0; subst. reflexivity.
  Qed.
  (* a reversed (empty) range: StopIteration *)
  Theorem period_iter_next_empty d span start end_ a b :
    given_ok L locate start a -> given_ok L locate end_ b -> resolves_start L d span start a -> resolves_end L d span end_ b ->
    (b < a)%nat ->
    period_iter_next_M (iter_periods_M L locate d span start end_) = Raise OtherError.
  Proof.
    intros Gs Ge Hs He Hba. rewrite (iter_periods_given L locate d span start end_ a b Gs Ge Hs He).
    rewrite (periods_reversed_empty L span a b Hba). reflexivity.
  Qed.
End PeriodIterNext.
