(* SolverExamples.v — concrete float instances: non-vacuity of the C02 hypotheses and the
   witnesses of the refutation theorems (closed computations checked by the kernel). *)
From Coq Require Import PrimFloat ZArith List Bool Lia.
Import ListNotations.
Require Import PyBase Solver SolverFacts SolverF.
Open Scope Z_scope.

(* one check variable (row 0), three periods; period 1 scripted: passes write 1.0, 1.5, 1.5, 1.5 *)
Definition ex_desc : mdesc := mkDesc [0%nat] [0%nat] 0%nat 0%nat.
Definition ex_state : fstate := mkState [[0%float; 0%float; 0%float]] [Unsolved; Unsolved; Unsolved] [-1; -1; -1] [].
Definition ex_scripts : scripts :=
  [(1%nat, mkPS [] [[ASet 0 1%float]; [ASet 0 1.5%float]; [ASet 0 1.5%float]; [ASet 0 1.5%float]] [])].
Definition ex_opts (mn mx : Z) : fopts := mkOpts mn mx 0x1.b7cdfd9d7bdbbp-34%float 0 true ERaise true.

Example ex_converges_at_3 :
  f_solve_t ex_scripts ex_desc (ex_opts 0 4) 1 ex_state
  = (mkState [[0%float; 1.5%float; 0%float]] [Unsolved; Solved; Unsolved] [-1; 3; -1]
             [EvBefore 1; EvPass 1 1; EvPass 1 2; EvPass 1 3; EvAfter 1 3], Ret true).
Proof. vm_compute. reflexivity. Qed.

(* the hypotheses of solve_t_converges_at_least_k are met by this instance with k0 = 3 *)
Example ex_hypotheses_satisfiable :
  let o := ex_opts 0 4 in let s := ex_state in let t := 1 in let p := 1%nat in
  let ev := s_ev 3 ex_scripts in let before := s_before 3 ex_scripts in let after := s_after 3 ex_scripts in
  let c0 := get_check float fzero ex_desc (vals_of s) p in
  let v1 := vals_of s in
  min_iter o <= max_iter o /\ 0 < max_iter o /\ py_pos (length (status s)) t = Some p /\ feasible ex_desc (length (status s)) p = true /\ offset o = 0 /\
  before t (errors o) (catch_first o) 0%nat (vals_of s) = (v1, None) /\
  (forall i, (1 <= i <= 4)%nat -> snd (evk float ev o t i (st_after float ev o t v1 (i - 1))) = None) /\
  (forall i, (i <= 4)%nat -> all_finite float fisfin (chkseq float fzero ev ex_desc o t p c0 v1 i) = true) /\
  convk float PrimFloat.sub PrimFloat.abs PrimFloat.ltb fzero ev ex_desc o t p c0 v1 3 = true /\
  (forall j, (1 <= j < 3)%nat -> convk float PrimFloat.sub PrimFloat.abs PrimFloat.ltb fzero ev ex_desc o t p c0 v1 j = false).
Proof.
  cbv zeta. repeat split; try (vm_compute; congruence).
  - intros i Hi. destruct i as [|[|[|[|[|i]]]]]; try lia; vm_compute; reflexivity.
  - intros i Hi. destruct i as [|[|[|[|[|i]]]]]; try lia; vm_compute; reflexivity.
  - intros j Hj. destruct j as [|[|[|j]]]; try lia; vm_compute; reflexivity.
Qed.

(* max_iter = 0 after the repair of finding #1: 'F', iterations 0, NonConvergenceError under failures='raise' *)
Example ex_maxiter0 :
  f_solve_t ex_scripts ex_desc (ex_opts 0 0) 1 ex_state
  = (mkState [[0%float; 0%float; 0%float]] [Unsolved; Failed; Unsolved] [-1; 0; -1] [EvBefore 1],
     Raise NonConvergenceError).
Proof. vm_compute. reflexivity. Qed.

(* infeasible periods (fix eb62990): one lag and one lead on a three-period span — only period 1 is feasible;
   both ends, both spellings of t: IndexError and no change at all (no hook, no pass, no stamp) *)
Definition ex_desc_ll : mdesc := mkDesc [0%nat] [0%nat] 1%nat 1%nat.
Example ex_infeasible_rejected :
  f_solve_t ex_scripts ex_desc_ll (ex_opts 0 4) 0 ex_state = (ex_state, Raise IndexError) /\
  f_solve_t ex_scripts ex_desc_ll (ex_opts 0 4) (-3) ex_state = (ex_state, Raise IndexError) /\
  f_solve_t ex_scripts ex_desc_ll (ex_opts 0 4) 2 ex_state = (ex_state, Raise IndexError) /\
  f_solve_t ex_scripts ex_desc_ll (ex_opts 0 4) (-1) ex_state = (ex_state, Raise IndexError) /\
  snd (f_solve_t ex_scripts ex_desc_ll (ex_opts 0 4) 1 ex_state) = Ret true /\
  snd (f_solve_t ex_scripts ex_desc_ll (ex_opts 0 4) (-2) ex_state) = Ret true.
Proof. repeat split; vm_compute; reflexivity. Qed.
Example ex_infeasible_hypotheses_satisfiable :
  let s := ex_state in
  min_iter (ex_opts 0 4) <= max_iter (ex_opts 0 4) /\ py_pos (length (status s)) (-3) = Some 0%nat /\
  ((0 < lags ex_desc_ll)%nat \/ (length (status s) <= 0 + leads ex_desc_ll)%nat).
Proof. cbv zeta. repeat split; try (vm_compute; congruence). left. vm_compute. lia. Qed.

(* ---------------- C06 instances ---------------- *)
From Coq Require Import String.
Require Import SolverFacts2.
Require Fsic.Gen.Generated.

Definition st_char (x : st) : string :=
  match x with Unsolved => "-" | Solved => "." | Failed => "F" | ErrorSt => "E" | Skipped => "S" end.

(* the model's five statuses are exactly the SolutionStatus values of the working tree, in order *)
Lemma status_alphabet_matches_source :
  map st_char [Unsolved; Solved; Failed; ErrorSt; Skipped] = Generated.status_values.
Proof. reflexivity. Qed.
Lemma status_always_in_alphabet (x : st) : In (st_char x) Generated.status_values.
Proof. rewrite <- status_alphabet_matches_source. destruct x; cbn; auto 6. Qed.

(* finding #5: errors='replace' zeroes only the local copy, so the pass after a NaN pass IS judged (against zeros) *)
Definition ex5_scripts : scripts := [(1%nat, mkPS [] [[ASet 0 nan]; [ASet 0 0x1.19799812dea11p-40%float]] [])].
Definition ex5_opts : fopts := mkOpts 0 5 0x1.b7cdfd9d7bdbbp-34%float 0 true EReplace true.
Example ex5_replace_judged_after_nan :
  f_solve_t ex5_scripts ex_desc ex5_opts 1 ex_state
  = (mkState [[0%float; 0x1.19799812dea11p-40%float; 0%float]] [Unsolved; Solved; Unsolved] [-1; 2; -1]
             [EvBefore 1; EvPass 1 1; EvPass 1 2; EvAfter 1 2], Ret true).
Proof. vm_compute. reflexivity. Qed.

Lemma replace_judged_after_nonfinite_refuted :
  exists sc d o t s p,
    errors o = EReplace /\ py_pos (List.length (status s)) t = Some p /\
    (* the stored check value after pass 1 is non-finite, i.e. pass 2 starts from non-finite check values ... *)
    all_finite float fisfin (get_check float fzero d (fst (s_ev 3 sc t (errors o) (catch_first o) 1%nat (vals_of s))) p) = false /\
    (* ... and yet pass 2 is judged and the period declared solved at k = 2 *)
    snd (f_solve_t sc d o t s) = Ret true /\ nth_error (iters (fst (f_solve_t sc d o t s))) p = Some 2.
Proof.
  exists ex5_scripts, ex_desc, ex5_opts, 1, ex_state, 1%nat.
  rewrite ex5_replace_judged_after_nan. repeat split; vm_compute; reflexivity.
Qed.

(* catch_first_error: the statement that produced the warning does not store its result *)
Fixpoint no_stop (acts : list action) : bool :=
  match acts with
  | [] => true
  | ASet _ _ :: r | AAffine _ _ _ _ :: r => no_stop r
  | _ => false
  end.
Lemma run_actions_no_stop catch p pre rest v :
  no_stop pre = true ->
  run_actions catch p (pre ++ rest) v = run_actions catch p rest (fst (run_actions catch p pre v)).
Proof.
  revert v. induction pre as [|a pre IH]; intros v H; [reflexivity|].
  destruct a; cbn [no_stop] in H; try discriminate; cbn [app run_actions]; apply IH; exact H.
Qed.
Lemma catch_first_warning_no_store p pre i x rest v :
  no_stop pre = true ->
  run_actions true p (pre ++ AWarnSet i x :: rest) v = (fst (run_actions true p pre v), Some 1).
Proof. intros H. rewrite run_actions_no_stop by exact H. reflexivity. Qed.
Lemma no_catch_warning_stores p pre i x rest v :
  no_stop pre = true ->
  run_actions false p (pre ++ AWarnSet i x :: rest) v
  = run_actions false p rest (fset_cell (fst (run_actions false p pre v)) i p x).
Proof. intros H. rewrite run_actions_no_stop by exact H. reflexivity. Qed.

(* first non-finite pass under 'raise' and 'skip': concrete instance of first_nonfinite_policy's hypotheses *)
Definition ex6_scripts : scripts := [(1%nat, mkPS [] [[ASet 0 1%float]; [ASet 0 infinity]] [])].
Example ex6_raise :
  f_solve_t ex6_scripts ex_desc (mkOpts 0 5 0x1.b7cdfd9d7bdbbp-34%float 0 true ERaise true) 1 ex_state
  = (mkState [[0%float; infinity; 0%float]] [Unsolved; ErrorSt; Unsolved] [-1; 2; -1]
             [EvBefore 1; EvPass 1 1; EvPass 1 2], Raise (SolutionError None)).
Proof. vm_compute. reflexivity. Qed.
Example ex6_skip :
  f_solve_t ex6_scripts ex_desc (mkOpts 0 5 0x1.b7cdfd9d7bdbbp-34%float 0 true ESkip true) 1 ex_state
  = (mkState [[0%float; infinity; 0%float]] [Unsolved; Skipped; Unsolved] [-1; 2; -1]
             [EvBefore 1; EvPass 1 1; EvPass 1 2], Ret false).
Proof. vm_compute. reflexivity. Qed.
Example ex6_quiet_satisfiable :
  quiet float PrimFloat.sub PrimFloat.abs PrimFloat.ltb fisfin fzero (s_ev 3 ex6_scripts) ex_desc
        (mkOpts 0 5 0x1.b7cdfd9d7bdbbp-34%float 0 true ERaise true) 1 1%nat
        (get_check float fzero ex_desc (vals_of ex_state) 1%nat) (vals_of ex_state) 1.
Proof.
  repeat split.
  - intros i Hi. assert (i = 1%nat) by lia. subst. vm_compute. reflexivity.
  - intros i Hi. destruct i as [|[|i]]; try lia; vm_compute; reflexivity.
  - intros i Hi. assert (i = 1%nat) by lia. subst. vm_compute. reflexivity.
Qed.

(* ---- catch_first_error at the level of solve_t, for every scripted model:
   errors='raise', catch_first_error=True, the warning is issued by statement `AWarnSet i x` of pass k+1 after the
   statements `pre`: the statements before it have stored, this one and the later ones have not; 'E', iterations = k+1,
   SolutionError chained to the warning (cause tag 1 = RuntimeWarning) ---- *)
Require Import SolverFacts3.

Theorem f_catch_first_no_store sc d (o : fopts) t (s : fstate) p ps k pre i x rest :
  min_iter o <= max_iter o ->
  py_pos (List.length (status s)) t = Some p -> feasible d (List.length (status s)) p = true -> offset o = 0 ->
  errors o = ERaise -> catch_first o = true ->
  all_finite float fisfin (get_check float fzero d (vals_of s) p) = true ->
  lookup p sc = Some ps -> sbefore ps = [] ->
  (S k <= Z.to_nat (max_iter o))%nat ->
  quiet float PrimFloat.sub PrimFloat.abs PrimFloat.ltb fisfin fzero (s_ev (List.length (status s)) sc) d o t p
        (get_check float fzero d (vals_of s) p) (vals_of s) k ->
  nth k (spasses ps) [] = pre ++ AWarnSet i x :: rest -> no_stop pre = true ->
  let vk := st_after float (s_ev (List.length (status s)) sc) o t (vals_of s) k in
  f_solve_t sc d o t s =
  (mkState (fst (run_actions true p pre vk)) (upd p ErrorSt (status s)) (upd p (Z.of_nat (S k)) (iters s))
           (log s ++ [EvBefore t] ++ pass_events t 1 (S k)), Raise (SolutionError (Some 1))).
Proof.
  intros Hmm Hp Hfeas Hoff Her Hcf Hfin Hlk Hbef Hk Hq Hnth Hns vk.
  assert (Hpos : pos_of (List.length (status s)) t = p) by (unfold pos_of; rewrite Hp; reflexivity).
  unfold f_solve_t.
  pose proof (ev_exception_surfaces float PrimFloat.sub PrimFloat.abs PrimFloat.ltb fisfin fzero
                (s_ev (List.length (status s)) sc) (s_before (List.length (status s)) sc) (s_after (List.length (status s)) sc)
                d o t s p (vals_of s) Hmm Hp Hfeas Hoff) as HE.
  rewrite (HE ltac:(rewrite Hfin, andb_false_r; reflexivity)
              ltac:(unfold s_before; rewrite Hpos, Hlk, Hbef; reflexivity)
              k (fst (run_actions true p pre vk)) 1 Hk Hq).
  - rewrite Her. reflexivity.
  - unfold evk, s_ev. rewrite Hpos, Hlk, Her, Hcf. cbn [is_raise andb].
    replace (S k - 1)%nat with k by lia. rewrite Hnth. apply catch_first_warning_no_store. exact Hns.
Qed.

(* instance: pass 2 = [V1 := 2.0; warn, V0 := 5.0; V1 := 9.0]: V1 holds 2.0 (stored before the warning), V0 keeps its
   pass-1 value 1.0 (the warning statement did not store), 9.0 was never written *)
Definition ex7_desc : mdesc := mkDesc [0%nat] [0%nat] 0%nat 0%nat.
Definition ex7_state : fstate :=
  mkState [[0%float; 0%float; 0%float]; [0.5%float; 0.5%float; 0.5%float]] [Unsolved; Unsolved; Unsolved] [-1; -1; -1] [].
Definition ex7_scripts : scripts :=
  [(1%nat, mkPS [] [[ASet 0 1%float]; [ASet 1 2%float; AWarnSet 0 5%float; ASet 1 9%float]] [])].
Example ex7_catch_first :
  f_solve_t ex7_scripts ex7_desc (mkOpts 0 5 0x1.b7cdfd9d7bdbbp-34%float 0 true ERaise true) 1 ex7_state
  = (mkState [[0%float; 1%float; 0%float]; [0.5%float; 2%float; 0.5%float]] [Unsolved; ErrorSt; Unsolved] [-1; 2; -1]
             [EvBefore 1; EvPass 1 1; EvPass 1 2], Raise (SolutionError (Some 1))).
Proof. vm_compute. reflexivity. Qed.
(* without catch_first_error the statement stores and the pass completes (here: 5.0 is finite, iteration goes on) *)
Example ex7_no_catch_first :
  f_solve_t ex7_scripts ex7_desc (mkOpts 0 2 0x1.b7cdfd9d7bdbbp-34%float 0 false ERaise false) 1 ex7_state
  = (mkState [[0%float; 5%float; 0%float]; [0.5%float; 9%float; 0.5%float]] [Unsolved; Failed; Unsolved] [-1; 2; -1]
             [EvBefore 1; EvPass 1 1; EvPass 1 2], Ret false).
Proof. vm_compute. reflexivity. Qed.

(* ---- errors='ignore' vs 'replace' on the same script [1.0; nan; 1e-12; 1e-12]:
   ignore: pass 3 starts from NaN -> not judged; pass 4 judged, converged -> '.', 4
   replace: pass 3 is judged against the zeroed LOCAL copy -> '.', 3 although the stored value it started from is NaN ---- *)
Definition ex8_scripts : scripts :=
  [(1%nat, mkPS [] [[ASet 0 1%float]; [ASet 0 nan]; [ASet 0 0x1.19799812dea11p-40%float]; [ASet 0 0x1.19799812dea11p-40%float]] [])].
Example ex8_ignore :
  f_solve_t ex8_scripts ex_desc (mkOpts 0 5 0x1.b7cdfd9d7bdbbp-34%float 0 true EIgnore true) 1 ex_state
  = (mkState [[0%float; 0x1.19799812dea11p-40%float; 0%float]] [Unsolved; Solved; Unsolved] [-1; 4; -1]
             [EvBefore 1; EvPass 1 1; EvPass 1 2; EvPass 1 3; EvPass 1 4; EvAfter 1 4], Ret true).
Proof. vm_compute. reflexivity. Qed.
Example ex8_replace :
  f_solve_t ex8_scripts ex_desc (mkOpts 0 5 0x1.b7cdfd9d7bdbbp-34%float 0 true EReplace true) 1 ex_state
  = (mkState [[0%float; 0x1.19799812dea11p-40%float; 0%float]] [Unsolved; Solved; Unsolved] [-1; 3; -1]
             [EvBefore 1; EvPass 1 1; EvPass 1 2; EvPass 1 3; EvAfter 1 3], Ret true).
Proof. vm_compute. reflexivity. Qed.

(* the premise of nonfinite_start_never_judged_partial is satisfiable: under 'ignore' the stored vector after pass 2 is
   non-finite, so pass 3 cannot be the recorded one (it is 4) *)
Example ex8_never_judged_hypotheses_satisfiable :
  let o := mkOpts 0 5 0x1.b7cdfd9d7bdbbp-34%float 0 true EIgnore true in
  errors o <> EReplace /\ List.length (iters ex_state) = List.length (status ex_state) /\
  all_finite float fisfin (chkseq float fzero (s_ev 3 ex8_scripts) ex_desc o 1 1%nat
                                  (get_check float fzero ex_desc (vals_of ex_state) 1%nat) (vals_of ex_state) (3 - 1)) = false /\
  snd (f_solve_t ex8_scripts ex_desc o 1 ex_state) = Ret true.
Proof. cbv zeta. repeat split; try (vm_compute; congruence). Qed.

(* the invariant over arbitrary call sequences, with the alphabet clause tied to the regenerated SolutionStatus values *)
Section CallsAlphabet.
  Variable num : Type.
  Variables (sub : num -> num -> num) (absf : num -> num) (ltb : num -> num -> bool) (isfin : num -> bool) (zero : num).
  Variables (ev before after : hook num).
  Lemma calls_status_invariant_alphabet cs (s : mstate num) :
    let s' := run_calls num sub absf ltb isfin zero ev before after cs s in
    List.length (status s') = List.length (status s) /\ List.length (iters s') = List.length (iters s) /\
    forall q x, nth_error (status s') q = Some x ->
      In (st_char x) Generated.status_values /\
      (nth_error (status s) q = Some x \/
       exists c, In c cs /\ py_pos (List.length (status s)) (call_t num c) = Some q /\
         (x = Solved \/ x = Failed \/ (x = Skipped /\ errors (call_opts num c) = ESkip) \/ (x = ErrorSt /\ errors (call_opts num c) = ERaise))).
  Proof.
    pose proof (calls_status_invariant num sub absf ltb isfin zero ev before after cs s) as H. cbv zeta in *.
    destruct H as (H1 & H2 & H3). split; [exact H1|]. split; [exact H2|].
    intros q x Hq. split; [apply status_always_in_alphabet|apply H3; exact Hq].
  Qed.
End CallsAlphabet.

(* a non-trivial call sequence: period 1 under 'raise' ends 'E' at pass 2 (the stored value is now inf); solved again
   under 'skip' (spelled t = -2) it starts from that non-finite value, is not rejected, and ends 'S'; then period 2 with
   max_iter 0 under failures='ignore' ends 'F': statuses [-, S, F] *)
Example ex9_call_sequence :
  let c1 := mkCall float ex_desc (mkOpts 0 5 0x1.b7cdfd9d7bdbbp-34%float 0 true ERaise false) 1 in
  let c2 := mkCall float ex_desc (mkOpts 0 5 0x1.b7cdfd9d7bdbbp-34%float 0 true ESkip true) (-2) in
  let c3 := mkCall float ex_desc (mkOpts 0 0 0x1.b7cdfd9d7bdbbp-34%float 0 false ERaise true) 2 in
  status (run_calls float PrimFloat.sub PrimFloat.abs PrimFloat.ltb fisfin fzero (s_ev 3 ex6_scripts) (s_before 3 ex6_scripts)
                    (s_after 3 ex6_scripts) [c1; c2; c3] ex_state) = [Unsolved; Skipped; Failed]
  /\ status (run_calls float PrimFloat.sub PrimFloat.abs PrimFloat.ltb fisfin fzero (s_ev 3 ex6_scripts) (s_before 3 ex6_scripts)
                    (s_after 3 ex6_scripts) [c1] ex_state) = [Unsolved; ErrorSt; Unsolved].
Proof. cbv zeta. split; vm_compute; reflexivity. Qed.
