(* SolverExamples.v — concrete float instances: non-vacuity of the C02 hypotheses and the
   witnesses of the refutation theorems (closed computations checked by the kernel). *)
From Coq Require Import PrimFloat ZArith List Bool Lia.
Import ListNotations.
Require Import PyBase Solver SolverFacts SolverF.
Open Scope Z_scope.

(* one check variable (row 0), three periods; period 1 scripted: passes write 1.0, 1.5, 1.5, 1.5 *)
Definition ex_desc : mdesc := mkDesc [0%nat] [0%nat] 0%nat 0%nat.
Definition ex_state : fstate := mkState [[0%float; 0%float; 0%float]] [Unsolved; Unsolved; Unsolved] [-1; -1; -1] [].
Definition ex_scripts : scripts :=
  [(1%nat, mkPS [] [[ASet 0 1%float]; [ASet 0 1.5%float]; [ASet 0 1.5%float]; [ASet 0 1.5%float]] [])].
Definition ex_opts (mn mx : Z) : fopts := mkOpts mn mx 0x1.b7cdfd9d7bdbbp-34%float 0 true ERaise true.

Example ex_converges_at_3 :
  f_solve_t ex_scripts ex_desc (ex_opts 0 4) 1 ex_state
  = (mkState [[0%float; 1.5%float; 0%float]] [Unsolved; Solved; Unsolved] [-1; 3; -1]
             [EvBefore 1; EvPass 1 1; EvPass 1 2; EvPass 1 3; EvAfter 1 3], Ret true).
Proof. vm_compute. reflexivity. Qed.

(* the hypotheses of solve_t_converges_at_least_k are met by this instance with k0 = 3 *)
Example ex_hypotheses_satisfiable :
  let o := ex_opts 0 4 in let s := ex_state in let t := 1 in let p := 1%nat in
  let ev := s_ev 3 ex_scripts in let before := s_before 3 ex_scripts in let after := s_after 3 ex_scripts in
  let c0 := get_check float fzero ex_desc (vals_of s) p in
  let v1 := vals_of s in
  min_iter o <= max_iter o /\ 0 < max_iter o /\ py_pos (length (status s)) t = Some p /\ feasible ex_desc (length (status s)) p = true /\ offset o = 0 /\
  before t (errors o) (catch_first o) 0%nat (vals_of s) = (v1, None) /\
  (forall i, (1 <= i <= 4)%nat -> snd (evk float ev o t i (st_after float ev o t v1 (i - 1))) = None) /\
  (forall i, (i <= 4)%nat -> all_finite float fisfin (chkseq float fzero ev ex_desc o t p c0 v1 i) = true) /\
  convk float PrimFloat.sub PrimFloat.abs PrimFloat.ltb fzero ev ex_desc o t p c0 v1 3 = true /\
  (forall j, (1 <= j < 3)%nat -> convk float PrimFloat.sub PrimFloat.abs PrimFloat.ltb fzero ev ex_desc o t p c0 v1 j = false).
Proof.
  cbv zeta. repeat split; try (vm_compute; congruence).
  - intros i Hi. destruct i as [|[|[|[|[|i]]]]]; try lia; vm_compute; reflexivity.
  - intros i Hi. destruct i as [|[|[|[|[|i]]]]]; try lia; vm_compute; reflexivity.
  - intros j Hj. destruct j as [|[|[|j]]]; try lia; vm_compute; reflexivity.
Qed.

(* max_iter = 0 after the repair of finding #1: 'F', iterations 0, NonConvergenceError under failures='raise' *)
Example ex_maxiter0 :
  f_solve_t ex_scripts ex_desc (ex_opts 0 0) 1 ex_state
  = (mkState [[0%float; 0%float; 0%float]] [Unsolved; Failed; Unsolved] [-1; 0; -1] [EvBefore 1],
     Raise NonConvergenceError).
Proof. vm_compute. reflexivity. Qed.

(* infeasible periods (fix eb62990): one lag and one lead on a three-period span — only period 1 is feasible;
   both ends, both spellings of t: IndexError and no change at all (no hook, no pass, no stamp) *)
Definition ex_desc_ll : mdesc := mkDesc [0%nat] [0%nat] 1%nat 1%nat.
Example ex_infeasible_rejected :
  f_solve_t ex_scripts ex_desc_ll (ex_opts 0 4) 0 ex_state = (ex_state, Raise IndexError) /\
  f_solve_t ex_scripts ex_desc_ll (ex_opts 0 4) (-3) ex_state = (ex_state, Raise IndexError) /\
  f_solve_t ex_scripts ex_desc_ll (ex_opts 0 4) 2 ex_state = (ex_state, Raise IndexError) /\
  f_solve_t ex_scripts ex_desc_ll (ex_opts 0 4) (-1) ex_state = (ex_state, Raise IndexError) /\
  snd (f_solve_t ex_scripts ex_desc_ll (ex_opts 0 4) 1 ex_state) = Ret true /\
  snd (f_solve_t ex_scripts ex_desc_ll (ex_opts 0 4) (-2) ex_state) = Ret true.
Proof. repeat split; vm_compute; reflexivity. Qed.
Example ex_infeasible_hypotheses_satisfiable :
  let s := ex_state in
  min_iter (ex_opts 0 4) <= max_iter (ex_opts 0 4) /\ py_pos (length (status s)) (-3) = Some 0%nat /\
  ((0 < lags ex_desc_ll)%nat \/ (length (status s) <= 0 + leads ex_desc_ll)%nat).
Proof. cbv zeta. repeat split; try (vm_compute; congruence). left. vm_compute. lia. Qed.

(* ---------------- C06 instances ---------------- *)
From Coq Require Import String.
Require Import SolverFacts2.
Require Fsic.Gen.Generated.

Definition st_char (x : st) : string :=
  match x with Unsolved => "-" | Solved => "." | Failed => "F" | ErrorSt => "E" | Skipped => "S" end.

(* the model's five statuses are exactly the SolutionStatus values of the working tree, in order *)
Lemma status_alphabet_matches_source :
  map st_char [Unsolved; Solved; Failed; ErrorSt; Skipped] = Generated.status_values.
Proof. reflexivity. Qed.
Lemma status_always_in_alphabet (x : st) : In (st_char x) Generated.status_values.
Proof. rewrite <- status_alphabet_matches_source. destruct x; cbn; auto 6. Qed.

(* finding #5: errors='replace' zeroes only the local copy, so the pass after a NaN pass IS judged (against zeros) *)
Definition ex5_scripts : scripts := [(1%nat, mkPS [] [[ASet 0 nan]; [ASet 0 0x1.19799812dea11p-40%float]] [])].
Definition ex5_opts : fopts := mkOpts 0 5 0x1.b7cdfd9d7bdbbp-34%float 0 true EReplace true.
Example ex5_replace_judged_after_nan :
  f_solve_t ex5_scripts ex_desc ex5_opts 1 ex_state
  = (mkState [[0%float; 0x1.19799812dea11p-40%float; 0%float]] [Unsolved; Solved; Unsolved] [-1; 2; -1]
             [EvBefore 1; EvPass 1 1; EvPass 1 2; EvAfter 1 2], Ret true).
Proof. vm_compute. reflexivity. Qed.

Lemma replace_judged_after_nonfinite_refuted :
  exists sc d o t s p,
    errors o = EReplace /\ py_pos (List.length (status s)) t = Some p /\
    (* the stored check value after pass 1 is non-finite, i.e. pass 2 starts from non-finite check values ... *)
    all_finite float fisfin (get_check float fzero d (fst (s_ev 3 sc t (errors o) (catch_first o) 1%nat (vals_of s))) p) = false /\
    (* ... and yet pass 2 is judged and the period declared solved at k = 2 *)
    snd (f_solve_t sc d o t s) = Ret true /\ nth_error (iters (fst (f_solve_t sc d o t s))) p = Some 2.
Proof.
  exists ex5_scripts, ex_desc, ex5_opts, 1, ex_state, 1%nat.
  rewrite ex5_replace_judged_after_nan. repeat split; vm_compute; reflexivity.
Qed.

(* catch_first_error: the statement that produced the warning does not store its result *)
Fixpoint no_stop (acts : list action) : bool :=
  match acts with
  | [] => true
  | ASet _ _ :: r | AAffine _ _ _ _ :: r => no_stop r
  | _ => false
  end.
Lemma run_actions_no_stop catch p pre rest v :
  no_stop pre = true ->
  run_actions catch p (pre ++ rest) v = run_actions catch p rest (fst (run_actions catch p pre v)).
Proof.
  revert v. induction pre as [|a pre IH]; intros v H; [reflexivity|].
  destruct a; cbn [no_stop] in H; try discriminate; cbn [app run_actions]; apply IH; exact H.
Qed.
Lemma catch_first_warning_no_store p pre i x rest v :
  no_stop pre = true ->
  run_actions true p (pre ++ AWarnSet i x :: rest) v = (fst (run_actions true p pre v), Some 1).
Proof. intros H. rewrite run_actions_no_stop by exact H. reflexivity. Qed.
Lemma no_catch_warning_stores p pre i x rest v :
  no_stop pre = true ->
  run_actions false p (pre ++ AWarnSet i x :: rest) v
  = run_actions false p rest (fset_cell (fst (run_actions false p pre v)) i p x).
Proof. intros H. rewrite run_actions_no_stop by exact H. reflexivity. Qed.

(* first non-finite pass under 'raise' and 'skip': concrete instance of first_nonfinite_policy's hypotheses *)
Definition ex6_scripts : scripts := [(1%nat, mkPS [] [[ASet 0 1%float]; [ASet 0 infinity]] [])].
Example ex6_raise :
  f_solve_t ex6_scripts ex_desc (mkOpts 0 5 0x1.b7cdfd9d7bdbbp-34%float 0 true ERaise true) 1 ex_state
  = (mkState [[0%float; infinity; 0%float]] [Unsolved; ErrorSt; Unsolved] [-1; 2; -1]
             [EvBefore 1; EvPass 1 1; EvPass 1 2], Raise (SolutionError None)).
Proof. vm_compute. reflexivity. Qed.
Example ex6_skip :
  f_solve_t ex6_scripts ex_desc (mkOpts 0 5 0x1.b7cdfd9d7bdbbp-34%float 0 true ESkip true) 1 ex_state
  = (mkState [[0%float; infinity; 0%float]] [Unsolved; Skipped; Unsolved] [-1; 2; -1]
             [EvBefore 1; EvPass 1 1; EvPass 1 2], Ret false).
Proof. vm_compute. reflexivity. Qed.
Example ex6_quiet_satisfiable :
  quiet float PrimFloat.sub PrimFloat.abs PrimFloat.ltb fisfin fzero (s_ev 3 ex6_scripts) ex_desc
        (mkOpts 0 5 0x1.b7cdfd9d7bdbbp-34%float 0 true ERaise true) 1 1%nat
        (get_check float fzero ex_desc (vals_of ex_state) 1%nat) (vals_of ex_state) 1.
Proof.
  repeat split.
  - intros i Hi. assert (i = 1%nat) by lia. subst. vm_compute. reflexivity.
  - intros i Hi. destruct i as [|[|i]]; try lia; vm_compute; reflexivity.
  - intros i Hi. assert (i = 1%nat) by lia. subst. vm_compute. reflexivity.
Qed.
