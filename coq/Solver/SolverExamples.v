(* SolverExamples.v — concrete float instances: non-vacuity of the C02 hypotheses and the
   witnesses of the refutation theorems (closed computations checked by the kernel). *)
From Coq Require Import PrimFloat ZArith List Bool Lia.
Import ListNotations.
Require Import PyBase Solver SolverFacts SolverF.
Open Scope Z_scope.

(* one check variable (row 0), three periods; period 1 scripted: passes write 1.0, 1.5, 1.5, 1.5 *)
Definition ex_desc : mdesc := mkDesc [0%nat] [0%nat].
Definition ex_state : fstate := mkState [[0%float; 0%float; 0%float]] [Unsolved; Unsolved; Unsolved] [-1; -1; -1] [].
Definition ex_scripts : scripts :=
  [(1%nat, mkPS [] [[ASet 0 1%float]; [ASet 0 1.5%float]; [ASet 0 1.5%float]; [ASet 0 1.5%float]] [])].
Definition ex_opts (mn mx : Z) : fopts := mkOpts mn mx 0x1.b7cdfd9d7bdbbp-34%float 0 true ERaise true.

Example ex_converges_at_3 :
  f_solve_t ex_scripts ex_desc (ex_opts 0 4) 1 ex_state
  = (mkState [[0%float; 1.5%float; 0%float]] [Unsolved; Solved; Unsolved] [-1; 3; -1]
             [EvBefore 1; EvPass 1 1; EvPass 1 2; EvPass 1 3; EvAfter 1 3], Ret true).
Proof. vm_compute. reflexivity. Qed.

(* the hypotheses of solve_t_converges_at_least_k are met by this instance with k0 = 3 *)
Example ex_hypotheses_satisfiable :
  let o := ex_opts 0 4 in let s := ex_state in let t := 1 in let p := 1%nat in
  let ev := s_ev 3 ex_scripts in let before := s_before 3 ex_scripts in let after := s_after 3 ex_scripts in
  let c0 := get_check float fzero ex_desc (vals_of s) p in
  let v1 := vals_of s in
  min_iter o <= max_iter o /\ 0 < max_iter o /\ py_pos (length (status s)) t = Some p /\ offset o = 0 /\
  before t (errors o) (catch_first o) 0%nat (vals_of s) = (v1, None) /\
  (forall i, (1 <= i <= 4)%nat -> snd (evk float ev o t i (st_after float ev o t v1 (i - 1))) = None) /\
  (forall i, (i <= 4)%nat -> all_finite float fisfin (chkseq float fzero ev ex_desc o t p c0 v1 i) = true) /\
  convk float PrimFloat.sub PrimFloat.abs PrimFloat.ltb fzero ev ex_desc o t p c0 v1 3 = true /\
  (forall j, (1 <= j < 3)%nat -> convk float PrimFloat.sub PrimFloat.abs PrimFloat.ltb fzero ev ex_desc o t p c0 v1 j = false).
Proof.
  cbv zeta. repeat split; try (vm_compute; congruence).
  - intros i Hi. destruct i as [|[|[|[|[|i]]]]]; try lia; vm_compute; reflexivity.
  - intros i Hi. destruct i as [|[|[|[|[|i]]]]]; try lia; vm_compute; reflexivity.
  - intros j Hj. destruct j as [|[|[|j]]]; try lia; vm_compute; reflexivity.
Qed.

(* max_iter = 0 after the repair of finding #1: 'F', iterations 0, NonConvergenceError under failures='raise' *)
Example ex_maxiter0 :
  f_solve_t ex_scripts ex_desc (ex_opts 0 0) 1 ex_state
  = (mkState [[0%float; 0%float; 0%float]] [Unsolved; Failed; Unsolved] [-1; 0; -1] [EvBefore 1],
     Raise NonConvergenceError).
Proof. vm_compute. reflexivity. Qed.
