(* SolverF.v — the solve_t model instantiated with the kernel's primitive binary64 floats,
   scripted oracles, and the in-Coq comparison used by the correspondence check.
   Definitions only. *)
From Coq Require Import PrimFloat FloatOps ZArith List Bool.
From Coq Require SpecFloat.
Import ListNotations.
Require Import PyBase Solver.
Open Scope Z_scope.

Definition fisfin (x : float) : bool := negb (PrimFloat.is_nan x || PrimFloat.is_infinity x).
Definition fzero : float := 0x0p+0%float.

(* equality on IEEE values, all NaNs identified, +0 and -0 distinguished *)
Definition feq_bits (x y : float) : bool :=
  match Prim2SF x, Prim2SF y with
  | SpecFloat.S754_zero a, SpecFloat.S754_zero b => Bool.eqb a b
  | SpecFloat.S754_infinity a, SpecFloat.S754_infinity b => Bool.eqb a b
  | SpecFloat.S754_nan, SpecFloat.S754_nan => true
  | SpecFloat.S754_finite a m e, SpecFloat.S754_finite b m' e' => Bool.eqb a b && Pos.eqb m m' && Z.eqb e e'
  | _, _ => false
  end.

Fixpoint list_eqb {A} (eqb : A -> A -> bool) (a b : list A) : bool :=
  match a, b with
  | [], [] => true
  | x :: a', y :: b' => eqb x y && list_eqb eqb a' b'
  | _, _ => false
  end.

(* ---- scripted oracles: what the harness's Scripted(BaseModel) does ---- *)
Inductive action : Type :=
| ASet (i : nat) (x : float)                 (* self._V_i[t] = x *)
| AWarnSet (i : nat) (x : float)             (* warnings.warn(RuntimeWarning); self._V_i[t] = x *)
| ARaise (c : Z)                             (* raise exception class number c *)
| ASetAt (i : nat) (q : Z) (x : float)       (* self._V_i[q] = x   (absolute, Python index) *)
| AAffine (i : nat) (a : float) (j : nat) (b : float).   (* self._V_i[t] = a * self._V_j[t] + b *)

Record pscript := mkPS { sbefore : list action; spasses : list (list action); safter : list action }.
Definition scripts := list (nat * pscript).   (* keyed by (normalised) position *)

Definition fcell := cell float fzero.
Definition fset_cell := set_cell float.

Fixpoint run_actions (catch : bool) (p : nat) (acts : list action) (v : vals float) : vals float * option Z :=
  match acts with
  | [] => (v, None)
  | ASet i x :: r => run_actions catch p r (fset_cell v i p x)
  | AWarnSet i x :: r => if catch then (v, Some 1) else run_actions catch p r (fset_cell v i p x)
  | ARaise c :: r => (v, Some c)
  | ASetAt i q x :: r =>
      match py_pos (length (nth i v [])) q with
      | Some pq => run_actions catch p r (fset_cell v i pq x)
      | None => (v, Some 2)                  (* IndexError from NumPy *)
      end
  | AAffine i a j b :: r => run_actions catch p r (fset_cell v i p (PrimFloat.add (PrimFloat.mul a (fcell v j p)) b))
  end.

Fixpoint lookup {A} (p : nat) (l : list (nat * A)) : option A :=
  match l with [] => None | (q, x) :: r => if Nat.eqb p q then Some x else lookup p r end.

Definition pos_of (n : nat) (t : Z) : nat := match py_pos n t with Some p => p | None => 0%nat end.

Definition s_ev (n : nat) (sc : scripts) : hook float := fun t em cf k v =>
  let p := pos_of n t in
  match lookup p sc with
  | Some ps => run_actions (is_raise em && cf) p (nth (k - 1) (spasses ps) []) v
  | None => (v, None)
  end.
Definition s_before (n : nat) (sc : scripts) : hook float := fun t em cf k v =>
  let p := pos_of n t in
  match lookup p sc with Some ps => run_actions (is_raise em && cf) p (sbefore ps) v | None => (v, None) end.
Definition s_after (n : nat) (sc : scripts) : hook float := fun t em cf k v =>
  let p := pos_of n t in
  match lookup p sc with Some ps => run_actions (is_raise em && cf) p (safter ps) v | None => (v, None) end.

Definition fopts := opts float.
Definition fstate := mstate float.

Definition f_solve_t (sc : scripts) (d : mdesc) (o : fopts) (t : Z) (s : fstate) : fstate * outcome bool :=
  let n := length (status s) in
  solve_t_M float PrimFloat.sub PrimFloat.abs PrimFloat.ltb fisfin fzero
            (s_ev n sc) (s_before n sc) (s_after n sc) d o t s.

(* ---- comparison with the implementation's observation ---- *)
Definition exn_eqb (a b : exn) : bool :=
  match a, b with
  | ValueError, ValueError | IndexError, IndexError | KeyError, KeyError
  | AttributeError, AttributeError | TypeError, TypeError | NonConvergenceError, NonConvergenceError
  | ParserError, ParserError | SymbolError, SymbolError | IndentationError, IndentationError
  | DimensionError, DimensionError | DuplicateNameError, DuplicateNameError
  | InitialisationError, InitialisationError | NotImplementedError, NotImplementedError
  | UnboundLocalError, UnboundLocalError | FortranEngineError, FortranEngineError
  | OverflowError, OverflowError | OtherError, OtherError => true
  | SolutionError None, SolutionError None => true
  | SolutionError (Some x), SolutionError (Some y) => Z.eqb x y
  | _, _ => false
  end.
Definition out_eqb (a b : outcome bool) : bool :=
  match a, b with
  | Ret x, Ret y => Bool.eqb x y
  | Raise x, Raise y => exn_eqb x y
  | _, _ => false
  end.
Definition event_eqb (a b : event) : bool :=
  match a, b with
  | EvBefore t, EvBefore u => Z.eqb t u
  | EvPass t k, EvPass u j => Z.eqb t u && Nat.eqb k j
  | EvAfter t k, EvAfter u j => Z.eqb t u && Nat.eqb k j
  | _, _ => false
  end.
Definition state_eqb (a b : fstate) : bool :=
  list_eqb (list_eqb feq_bits) (vals_of a) (vals_of b)
  && list_eqb st_eqb (status a) (status b)
  && list_eqb Z.eqb (iters a) (iters b)
  && list_eqb event_eqb (log a) (log b).

Record tcase := mkCase {
  c_scripts : scripts; c_desc : mdesc; c_opts : fopts; c_t : Z; c_state : fstate;
  x_state : fstate; x_out : outcome bool }.

Definition check_tcase (c : tcase) : bool :=
  let '(s', r) := f_solve_t (c_scripts c) (c_desc c) (c_opts c) (c_t c) (c_state c) in
  state_eqb s' (x_state c) && out_eqb r (x_out c).

Fixpoint bad_indices {A} (f : A -> bool) (i : nat) (l : list A) : list nat :=
  match l with [] => [] | x :: r => if f x then bad_indices f (S i) r else i :: bad_indices f (S i) r end.
