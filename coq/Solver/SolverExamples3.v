(* SolverExamples3.v — the generic model instantiated with UNSIGNED 8-bit arithmetic (what NumPy does for a uint8 model: the convergence
   test `np.abs(current - previous) < tol` subtracts in the series' dtype, so a downward move wraps around).  Kept finding of C02. *)
From Coq Require Import ZArith List Bool Lia.
Import ListNotations.
Require Import PyBase Solver.
Open Scope Z_scope.

Definition u8_sub (a b : Z) : Z := (a - b) mod 256.
Definition u8_ev : hook Z := fun t em cf k v => (set_cell Z v 0 1 4, None).      (* the pass stores Y[1] := 4 (= X) *)
Definition u8_noop : hook Z := fun t em cf k v => (v, None).
Definition u8_state : mstate Z := mkState [[5; 5; 5]] [Unsolved; Unsolved; Unsolved] [-1; -1; -1] [].
Definition u8_opts : opts Z := mkOpts 0 100 3 0 true ERaise true.               (* tol = 3 *)
Definition u8_desc : mdesc := mkDesc [0%nat] [0%nat] 0%nat 0%nat.

(* Y[1] moves from 5 to 4 on pass 1: |4 - 5| = 1 < 3, so the statement's k is 1 — with exact integers the model says 1 ... *)
Example exact_int_converges_at_1 :
  nth_error (iters (fst (solve_t_M Z Z.sub Z.abs Z.ltb (fun _ => true) 0 u8_ev u8_noop u8_noop u8_desc u8_opts 1 u8_state))) 1 = Some 1.
Proof. vm_compute. reflexivity. Qed.

(* ... with uint8 subtraction 4 - 5 = 255, not < 3: pass 1 is not judged converged and the period is declared solved only at pass 2 *)
Lemma uint8_convergence_wraps_refuted :
  exists (ev : hook Z) d o t s,
    (* the check variable moved by 1 < tol on pass 1 *)
    Z.abs (cell Z 0 (fst (ev t (errors o) (catch_first o) 1%nat (vals_of s))) 0 1 - cell Z 0 (vals_of s) 0 1) < tol o /\
    Z.max 1 (min_iter o) <= 1 <= max_iter o /\
    snd (solve_t_M Z u8_sub Z.abs Z.ltb (fun _ => true) 0 ev u8_noop u8_noop d o t s) = Ret true /\
    nth_error (iters (fst (solve_t_M Z u8_sub Z.abs Z.ltb (fun _ => true) 0 ev u8_noop u8_noop d o t s))) 1 = Some 2.
Proof.
  exists u8_ev, u8_desc, u8_opts, 1, u8_state. repeat split; vm_compute; try reflexivity; try congruence.
Qed.
