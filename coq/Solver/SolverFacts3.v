(* SolverFacts3.v — further facts about the policy state machine of solve_t (property C06):
   "a pass that starts from non-finite check values is never judged" (raise / skip / ignore), the complete
   rule of errors='replace' (the code's local zeroing included), the post-hook exception clause, the shape
   of what any call can record, and the status invariant over arbitrary sequences of solve_t calls.
   For every number type, evaluation oracle and hook. *)
From Coq Require Import ZArith List Bool Lia.
Import ListNotations.
Require Import PyBase Solver SolverFacts SolverFacts2.
Open Scope Z_scope.

Section Facts3.
  Variable num : Type.
  Variables (sub : num -> num -> num) (absf : num -> num) (ltb : num -> num -> bool)
            (isfin : num -> bool) (zero : num).
  Variables (ev before after : hook num).

  Notation loop := (loop num sub absf ltb isfin zero ev after).
  Notation solve_t_M := (solve_t_M num sub absf ltb isfin zero ev before after).
  Notation get_check := (get_check num zero).
  Notation all_finite := (all_finite num isfin).
  Notation conv := (conv num sub absf ltb).
  Notation finish := (finish num).
  Notation replace_nonfinite := (replace_nonfinite num isfin zero).

  Section OnePeriod.
    Variables (d : mdesc) (o : opts num) (t : Z) (p : nat).
    Variable c0 : list num.
    Variable v1 : vals num.
    Notation evk := (evk num ev o t).
    Notation afterk := (afterk num after o t).
    Notation st_after := (st_after num ev o t v1).
    Notation chkseq := (chkseq num zero ev d o t p c0 v1).
    Notation convk := (convk num sub absf ltb zero ev d o t p c0 v1).
    Notation pass_events := (pass_events t).

    (* ---- raise / skip / ignore / invalid: the loop's `previous` vector is always the STORED check vector, so a
       period can only end '.' at a pass k whose start (= stored values after pass k-1) and end are finite ---- *)
    Lemma loop_solved_judged : errors o <> EReplace -> forall n j lg v' k lg',
      loop d o t p n (S j) (st_after j) (chkseq j) lg = LDone v' Solved k lg' ->
      (j < k <= j + n)%nat /\
      all_finite (chkseq (k - 1)) = true /\ all_finite (chkseq k) = true /\ convk k = true /\
      (forall i, (j < i <= k)%nat -> snd (evk i (st_after (i - 1))) = None) /\
      afterk k (st_after k) = (v', None).
    Proof.
      intros Hnr. induction n as [|n IH]; intros j lg v' k lg' H; cbn [Solver.loop] in H; [discriminate|].
      fold (SolverFacts.evk num ev o t (S j) (st_after j)) in H.
      destruct (evk (S j) (st_after j)) as [v2 r] eqn:E. destruct r as [c|]; [discriminate|].
      assert (Hv2 : v2 = st_after (S j)) by (cbn [SolverFacts.st_after]; rewrite E; reflexivity).
      assert (Hc2 : get_check d v2 p = chkseq (S j)) by (rewrite Hv2; reflexivity).
      rewrite Hc2 in H.
      assert (Hs : snd (evk (S j) (st_after (S j - 1))) = None).
      { replace (S j - 1)%nat with j by lia. rewrite E. reflexivity. }
      (* what the induction hypothesis gives once the loop continues with the stored vector *)
      assert (Hcont : loop d o t p n (S (S j)) v2 (chkseq (S j)) (lg ++ [EvPass t (S j)]) = LDone v' Solved k lg' ->
                      (j < k <= j + S n)%nat /\
                      all_finite (chkseq (k - 1)) = true /\ all_finite (chkseq k) = true /\ convk k = true /\
                      (forall i, (j < i <= k)%nat -> snd (evk i (st_after (i - 1))) = None) /\
                      afterk k (st_after k) = (v', None)).
      { intros H'. rewrite Hv2 in H'. apply IH in H' as (Hr & Hf1 & Hf2 & Hcv & Hev & Ha).
        split; [lia|]. split; [exact Hf1|]. split; [exact Hf2|]. split; [exact Hcv|]. split; [|exact Ha].
        intros i Hi. destruct (Nat.eq_dec i (S j)) as [->|Hne]; [exact Hs|apply Hev; lia]. }
      destruct (all_finite (chkseq j)) eqn:Fp; cbn [negb] in H; [|apply Hcont; exact H].
      destruct (all_finite (chkseq (S j))) eqn:Fc; cbn [negb] in H.
      - destruct (Z.of_nat (S j) <? min_iter o) eqn:Emin; [apply Hcont; exact H|].
        destruct (conv (tol o) (chkseq (S j)) (chkseq j)) eqn:Ec; [|apply Hcont; exact H].
        fold (SolverFacts.afterk num after o t (S j) v2) in H.
        destruct (afterk (S j) v2) as [v3 r3] eqn:Ea. destruct r3 as [c|]; [discriminate|].
        inversion H; subst v3 k lg'. clear H.
        replace (S j - 1)%nat with j by lia.
        split; [lia|]. split; [exact Fp|]. split; [exact Fc|]. split.
        + unfold SolverFacts.convk. replace (S j - 1)%nat with j by lia. rewrite Ec.
          replace (min_iter o <=? Z.of_nat (S j)) with true by lia. reflexivity.
        + split.
          * intros i Hi. assert (i = S j) by lia. subst i. exact Hs.
          * rewrite <- Hv2. exact Ea.
      - destruct (errors o) eqn:Ee; try discriminate.
        + destruct n as [|n']; [discriminate|apply Hcont; exact H].
        + congruence.
    Qed.

    (* ---- errors = 'replace': the complete rule, local zeroing included ---- *)
    (* the loop's local `current_values` after pass j: the stored vector, except that after a non-finite pass that
       started from a finite local vector the non-finite entries are replaced with zero (in the LOCAL copy only) *)
    Fixpoint rcur (j : nat) : list num :=
      match j with
      | O => c0
      | S j' => if all_finite (rcur j') && negb (all_finite (chkseq (S j')))
                then replace_nonfinite (chkseq (S j')) else chkseq (S j')
      end.
    (* pass k is judged iff the LOCAL vector it starts from and the stored vector it ends with are finite *)
    Definition rconvk (k : nat) : bool :=
      all_finite (rcur (k - 1)) && all_finite (chkseq k) &&
      ((min_iter o <=? Z.of_nat k) && conv (tol o) (chkseq k) (rcur (k - 1))).

    Lemma loop_replace_spec : errors o = EReplace -> forall n j lg,
      (forall i, (j < i <= j + n)%nat -> snd (evk i (st_after (i - 1))) = None) ->
      loop d o t p n (S j) (st_after j) (rcur j) lg =
      match find_first rconvk (S j) n with
      | Some k0 =>
          match afterk k0 (st_after k0) with
          | (v'', Some c) => LRaise v'' None (SolutionError (Some c)) (lg ++ pass_events (S j) (k0 - j) ++ [EvAfter t k0])
          | (v'', None) => LDone v'' Solved k0 (lg ++ pass_events (S j) (k0 - j) ++ [EvAfter t k0])
          end
      | None => LDone (st_after (j + n)) Failed (j + n) (lg ++ pass_events (S j) n)
      end.
    Proof.
      intros Hrep. induction n as [|n IH]; intros j lg Hev.
      - cbn [Solver.loop find_first SolverFacts.pass_events seq map]. rewrite app_nil_r, Nat.add_0_r.
        replace (S j - 1)%nat with j by lia. reflexivity.
      - cbn [Solver.loop find_first].
        assert (Hs : snd (evk (S j) (st_after j)) = None).
        { specialize (Hev (S j)). replace (S j - 1)%nat with j in Hev by lia. apply Hev; lia. }
        fold (SolverFacts.evk num ev o t (S j) (st_after j)).
        destruct (evk (S j) (st_after j)) as [v' r] eqn:E. cbn [snd] in Hs. subst r.
        assert (Hv' : v' = st_after (S j)) by (cbn [SolverFacts.st_after]; rewrite E; reflexivity).
        assert (Hc' : get_check d v' p = chkseq (S j)) by (rewrite Hv'; reflexivity).
        rewrite Hc'.
        assert (Hcont : forall cur', cur' = rcur (S j) -> rconvk (S j) = false ->
                  loop d o t p n (S (S j)) v' cur' (lg ++ [EvPass t (S j)]) =
                  match (if rconvk (S j) then Some (S j) else find_first rconvk (S (S j)) n) with
                  | Some k0 =>
                      match afterk k0 (st_after k0) with
                      | (v'', Some c) => LRaise v'' None (SolutionError (Some c)) (lg ++ pass_events (S j) (k0 - j) ++ [EvAfter t k0])
                      | (v'', None) => LDone v'' Solved k0 (lg ++ pass_events (S j) (k0 - j) ++ [EvAfter t k0])
                      end
                  | None => LDone (st_after (j + S n)) Failed (j + S n) (lg ++ pass_events (S j) (S n))
                  end).
        { intros cur' -> Hj. rewrite Hj, Hv', IH by (intros i Hi; apply Hev; lia).
          destruct (find_first rconvk (S (S j)) n) as [k0|] eqn:EF.
          - apply find_first_some in EF as (Hr & _ & _).
            replace (k0 - j)%nat with (S (k0 - S j)) by lia. rewrite pass_events_S.
            destruct (afterk k0 (st_after k0)) as [v'' [c|]]; rewrite <- !app_assoc; reflexivity.
          - rewrite pass_events_S. rewrite <- app_assoc. replace (S j + n)%nat with (j + S n)%nat by lia. reflexivity. }
        destruct (all_finite (rcur j)) eqn:Fp; cbn [negb].
        + destruct (all_finite (chkseq (S j))) eqn:Fc; cbn [negb].
          * assert (Hrc : rcur (S j) = chkseq (S j)) by (cbn [rcur]; rewrite Fp, Fc; reflexivity).
            destruct (Z.of_nat (S j) <? min_iter o) eqn:Emin.
            -- apply (Hcont _ (eq_sym Hrc)). unfold rconvk.
               replace (min_iter o <=? Z.of_nat (S j)) with false by lia. rewrite !andb_false_r. reflexivity.
            -- destruct (conv (tol o) (chkseq (S j)) (rcur j)) eqn:Ec.
               ++ assert (Hj : rconvk (S j) = true).
                  { unfold rconvk. replace (S j - 1)%nat with j by lia.
                    rewrite Fp, Fc, Ec. replace (min_iter o <=? Z.of_nat (S j)) with true by lia. reflexivity. }
                  rewrite Hj. fold (SolverFacts.afterk num after o t (S j) v'). rewrite Hv'.
                  replace (S j - j)%nat with 1%nat by lia. cbn [SolverFacts.pass_events seq map].
                  destruct (afterk (S j) (st_after (S j))) as [v'' [c|]]; rewrite <- !app_assoc; reflexivity.
               ++ apply (Hcont _ (eq_sym Hrc)). unfold rconvk. replace (S j - 1)%nat with j by lia.
                  rewrite Ec. rewrite !andb_false_r. reflexivity.
          * assert (Hj : rconvk (S j) = false).
            { unfold rconvk. rewrite Fc. rewrite andb_false_r. reflexivity. }
            assert (Hrc : rcur (S j) = replace_nonfinite (chkseq (S j))) by (cbn [rcur]; rewrite Fp, Fc; reflexivity).
            rewrite Hrep. destruct n as [|n'].
            -- rewrite Hj. cbn [find_first SolverFacts.pass_events seq map]. rewrite Hv'.
               replace (j + 1)%nat with (S j) by lia. reflexivity.
            -- apply (Hcont _ (eq_sym Hrc) Hj).
        + assert (Hrc : rcur (S j) = chkseq (S j)) by (cbn [rcur]; rewrite Fp; reflexivity).
          apply (Hcont _ (eq_sym Hrc)). unfold rconvk. replace (S j - 1)%nat with j by lia. rewrite Fp. reflexivity.
    Qed.
  End OnePeriod.

  (* ---------------- what any call records ---------------- *)
  Lemma loop_done_iter d o t p : forall n k v cur lg v' x k' lg',
    loop d o t p n k v cur lg = LDone v' x k' lg' -> (k - 1 <= k' < k + n)%nat \/ (n = 0%nat /\ k' = (k - 1)%nat).
  Proof.
    induction n as [|n IH]; intros k v cur lg v' x k' lg' H; cbn [Solver.loop] in H.
    - inversion H; subst. right. split; reflexivity.
    - left.
      assert (Hrec : forall v2 c2 lg2, loop d o t p n (S k) v2 c2 lg2 = LDone v' x k' lg' -> (k - 1 <= k' < k + S n)%nat).
      { intros v2 c2 lg2 H2. apply IH in H2 as [H2|[-> ->]]; lia. }
      destruct (ev t (errors o) (catch_first o) k v) as [v2 [c|]]; [discriminate|].
      destruct (negb (all_finite cur)); [eapply Hrec; exact H|].
      destruct (negb (all_finite (get_check d v2 p))).
      + destruct (errors o) eqn:Ee; try discriminate.
        * inversion H; subst. lia.
        * destruct n; [inversion H; subst; lia | eapply Hrec; exact H].
        * destruct n; [inversion H; subst; lia | eapply Hrec; exact H].
      + destruct (Z.of_nat k <? min_iter o); [eapply Hrec; exact H|].
        destruct (conv (tol o) (get_check d v2 p) cur); [|eapply Hrec; exact H].
        destruct (after t (errors o) (catch_first o) k v2) as [v3 [c|]]; [discriminate|].
        inversion H; subst. lia.
  Qed.

  (* Every call of solve_t, whatever its arguments, oracles and starting state: either it records nothing, or it
     stamps exactly position t with one of '.', 'F', 'S' (only under skip), 'E' (only under raise), and the outcome
     agrees with the stamp.  '-' is never written; no other position's status / iteration count changes. *)
  Theorem solve_t_status_shape d o t s s' r :
    solve_t_M d o t s = (s', r) ->
    (status s' = status s /\ iters s' = iters s /\ (r = Ret true -> False) /\ (r = Ret false -> False)) \/
    exists p x k, py_pos (length (status s)) t = Some p /\
      status s' = upd p x (status s) /\ iters s' = upd p (Z.of_nat k) (iters s) /\
      ((x = Solved /\ r = Ret true) \/
       (x = Failed /\ (r = Ret false \/ (r = Raise NonConvergenceError /\ fail_raise o = true))) \/
       (x = Skipped /\ errors o = ESkip /\ r = Ret false) \/
       (x = ErrorSt /\ errors o = ERaise /\ exists c, r = Raise (SolutionError c))).
  Proof.
    intros H. unfold Solver.solve_t_M in H.
    destruct (max_iter o <? min_iter o); [inversion H; subst; left; repeat split; discriminate|].
    destruct (py_pos (length (status s)) t) as [p|] eqn:Hp; [|inversion H; subst; left; repeat split; discriminate].
    destruct (negb (feasible d (length (status s)) p)); [inversion H; subst; left; repeat split; discriminate|].
    match type of H with context [match ?pre with inl _ => _ | inr _ => _ end] => destruct pre as [v0|e0] end;
      [|inversion H; subst; left; repeat split; discriminate].
    destruct (is_raise (errors o) && negb (all_finite (get_check d v0 p)));
      [inversion H; subst; left; cbn [status iters with_vals]; repeat split; discriminate|].
    destruct (before t (errors o) (catch_first o) 0%nat v0) as [v1 [c|]];
      [inversion H; subst; left; cbn [status iters with_vals]; repeat split; discriminate|].
    unfold Solver.finish in H.
    destruct (loop d o t p (Z.to_nat (max_iter o)) 1 v1 (get_check d v0 p) (log s ++ [EvBefore t])) as [v' x k lg|v' wr e lg] eqn:EL.
    - pose proof EL as Hx. apply loop_done_status in Hx.
      right. exists p, x, k. split; [reflexivity|].
      destruct (st_eqb x Failed && fail_raise o) eqn:Ef.
      + inversion H; subst. cbn [status iters stamp]. split; [reflexivity|]. split; [reflexivity|].
        apply andb_true_iff in Ef as [Ef1 Ef2]. destruct x; try discriminate. right. left. split; [reflexivity|]. right. auto.
      + inversion H; subst. cbn [status iters stamp]. split; [reflexivity|]. split; [reflexivity|].
        destruct Hx as [->|[->|[-> Hsk]]]; cbn [st_eqb]; auto 8.
    - pose proof EL as HR. apply loop_raise_cases in HR as (Hwr & He).
      inversion H; subst. destruct Hwr as [->|(k' & -> & Hr)].
      + left. cbn [status iters with_vals]. repeat split; discriminate.
      + right. exists p, ErrorSt, k'. split; [reflexivity|]. cbn [status iters stamp]. split; [reflexivity|]. split; [reflexivity|].
        right. right. right. split; [reflexivity|]. split; [exact Hr|].
        destruct He as [->|[c ->]]; [|eauto].
        (* ValueError is raised only for an invalid `errors`, which records nothing *)
        exfalso. clear H. revert EL. generalize (Z.to_nat (max_iter o)) 1%nat v1 (get_check d v0 p) (log s ++ [EvBefore t]).
        intros n. induction n as [|n IH]; intros k v cur lg0 EL; cbn [Solver.loop] in EL; [discriminate|].
        destruct (ev t (errors o) (catch_first o) k v) as [v2 [c|]]; [inversion EL|].
        destruct (negb (all_finite cur)); [eapply IH; exact EL|].
        destruct (negb (all_finite (get_check d v2 p))).
        * rewrite Hr in EL. inversion EL.
        * destruct (Z.of_nat k <? min_iter o); [eapply IH; exact EL|].
          destruct (conv (tol o) (get_check d v2 p) cur); [|eapply IH; exact EL].
          destruct (after t (errors o) (catch_first o) k v2) as [v3 [c|]]; [inversion EL|discriminate].
  Qed.

  (* ---------------- arbitrary sequences of solve_t calls (exceptions caught by the caller) ---------------- *)
  Record call := mkCall { call_desc : mdesc; call_opts : opts num; call_t : Z }.
  Fixpoint run_calls (cs : list call) (s : mstate num) : mstate num :=
    match cs with
    | [] => s
    | c :: r => run_calls r (fst (solve_t_M (call_desc c) (call_opts c) (call_t c) s))
    end.

  Lemma upd_nth_error_cases {A} p (x : A) l q y :
    nth_error (upd p x l) q = Some y -> (q = p /\ y = x) \/ (q <> p /\ nth_error l q = Some y).
  Proof.
    intros H. destruct (Nat.eq_dec q p) as [->|Hne].
    - left. split; [reflexivity|]. destruct (Nat.lt_ge_cases p (length l)) as [Hl|Hl].
      + rewrite nth_error_upd_eq in H by exact Hl. congruence.
      + assert (nth_error (upd p x l) p = None) by (apply nth_error_None; rewrite upd_length; exact Hl). congruence.
    - right. split; [exact Hne|]. rewrite nth_error_upd_neq in H by auto. exact H.
  Qed.

  Theorem calls_status_invariant : forall cs s,
    let s' := run_calls cs s in
    length (status s') = length (status s) /\ length (iters s') = length (iters s) /\
    forall q x, nth_error (status s') q = Some x ->
      nth_error (status s) q = Some x \/
      exists c, In c cs /\ py_pos (length (status s)) (call_t c) = Some q /\
        (x = Solved \/ x = Failed \/ (x = Skipped /\ errors (call_opts c) = ESkip) \/ (x = ErrorSt /\ errors (call_opts c) = ERaise)).
  Proof.
    induction cs as [|c cs IH]; intros s; cbn [run_calls].
    - cbv zeta. repeat split; auto.
    - cbv zeta. destruct (solve_t_M (call_desc c) (call_opts c) (call_t c) s) as [s1 r] eqn:E. cbn [fst].
      specialize (IH s1). cbv zeta in IH. destruct IH as (IHl1 & IHl2 & IHq).
      pose proof (solve_t_status_shape _ _ _ _ _ _ E) as [(Hs & Hi & _)|(p & x & k & Hp & Hs & Hi & Hx)].
      + rewrite IHl1, IHl2, Hs, Hi. split; [reflexivity|]. split; [reflexivity|].
        intros q y Hq. apply IHq in Hq as [Hq|(c' & Hin & Hp' & Hy)].
        * left. rewrite <- Hs. exact Hq.
        * right. exists c'. split; [right; exact Hin|]. rewrite <- Hs. split; [exact Hp'|exact Hy].
      + rewrite IHl1, IHl2, Hs, Hi, !upd_length. split; [reflexivity|]. split; [reflexivity|].
        assert (Hlen : length (status s1) = length (status s)) by (rewrite Hs; apply upd_length).
        intros q y Hq. apply IHq in Hq as [Hq|(c' & Hin & Hp' & Hy)].
        * rewrite Hs in Hq. apply upd_nth_error_cases in Hq as [[-> ->]|[Hne Hq]]; [|left; exact Hq].
          right. exists c. split; [left; reflexivity|]. split; [exact Hp|].
          destruct Hx as [[-> _]|[[-> _]|[(-> & Hm & _)|(-> & Hm & _)]]]; auto.
        * right. exists c'. split; [right; exact Hin|]. rewrite <- Hlen. split; [exact Hp'|exact Hy].
  Qed.

  (* ---------------- top level ---------------- *)
  Section Top.
    Variables (d : mdesc) (o : opts num) (t : Z) (s : mstate num) (p : nat) (v1 : vals num).
    Hypothesis Hmm : min_iter o <= max_iter o.
    Hypothesis Hp : py_pos (length (status s)) t = Some p.
    Hypothesis Hfeas : feasible d (length (status s)) p = true.
    Hypothesis Hoff : offset o = 0.
    Let c0 := get_check d (vals_of s) p.
    Let N := Z.to_nat (max_iter o).
    Hypothesis Hpre : is_raise (errors o) && negb (all_finite c0) = false.
    Hypothesis Hb : before t (errors o) (catch_first o) 0%nat (vals_of s) = (v1, None).

    (* raise / skip / ignore: whenever the call returns True, the recorded pass k was judged — it started from
       finite stored check values, ended with finite ones, lay at or beyond min_iter and moved every check variable
       by less than tol; passes 1..k returned and the post-hook returned. *)
    Theorem solved_only_if_judged s' :
      errors o <> EReplace ->
      solve_t_M d o t s = (s', Ret true) ->
      exists k, (1 <= k <= N)%nat /\
        status s' = upd p Solved (status s) /\ iters s' = upd p (Z.of_nat k) (iters s) /\
        all_finite (chkseq num zero ev d o t p c0 v1 (k - 1)) = true /\
        all_finite (chkseq num zero ev d o t p c0 v1 k) = true /\
        convk num sub absf ltb zero ev d o t p c0 v1 k = true /\
        vals_of s' = fst (afterk num after o t k (st_after num ev o t v1 k)) /\
        log s' = log s ++ [EvBefore t] ++ pass_events t 1 k ++ [EvAfter t k].
    Proof.
      intros Hnr H.
      rewrite (solve_t_M_run num sub absf ltb isfin zero ev before after d o t s p v1 Hmm Hp Hfeas Hoff Hpre Hb) in H.
      fold c0 N in H. unfold Solver.finish in H.
      destruct (loop d o t p N 1 v1 c0 (log s ++ [EvBefore t])) as [v' x k lg|v' wr e lg] eqn:EL;
        [|destruct wr as [[? ?]|]; discriminate].
      destruct (st_eqb x Failed && fail_raise o); [discriminate|].
      inversion H; subst s'. destruct x; try discriminate. clear H.
      pose proof (loop_solved_judged d o t p c0 v1 Hnr N 0 _ _ _ _ EL) as (Hr & Hf1 & Hf2 & Hcv & Hev & Ha).
      exists k. split; [lia|]. cbn [status iters stamp vals_of]. split; [reflexivity|]. split; [reflexivity|].
      split; [exact Hf1|]. split; [exact Hf2|]. split; [exact Hcv|]. split; [rewrite Ha; reflexivity|].
      (* the log: k passes then the post-hook — obtained from the finite-regime characterisation is not needed here *)
      cbn [log stamp].
      assert (G : forall n j lgj v vv kk lgk cur, loop d o t p n (S j) v cur lgj = LDone vv Solved kk lgk ->
                  lgk = lgj ++ pass_events t (S j) (kk - j) ++ [EvAfter t kk] /\ (j < kk)%nat).
      { clear. induction n as [|n IH]; intros j lgj v vv kk lgk cur H; cbn [Solver.loop] in H; [discriminate|].
        assert (Hrec : forall v2 c2, loop d o t p n (S (S j)) v2 c2 (lgj ++ [EvPass t (S j)]) = LDone vv Solved kk lgk ->
                       lgk = lgj ++ pass_events t (S j) (kk - j) ++ [EvAfter t kk] /\ (j < kk)%nat).
        { intros v2 c2 H2. apply IH in H2 as [H2 Hlt]. split; [|lia]. rewrite H2.
          replace (kk - j)%nat with (S (kk - S j)) by lia. rewrite pass_events_S. rewrite <- !app_assoc. reflexivity. }
        destruct (ev t (errors o) (catch_first o) (S j) v) as [v2 [c|]]; [discriminate|].
        destruct (negb (all_finite cur)); [eapply Hrec; exact H|].
        destruct (negb (all_finite (get_check d v2 p))).
        - destruct (errors o); try discriminate.
          + destruct n; [discriminate|eapply Hrec; exact H].
          + destruct n; [discriminate|eapply Hrec; exact H].
        - destruct (Z.of_nat (S j) <? min_iter o); [eapply Hrec; exact H|].
          destruct (conv (tol o) (get_check d v2 p) cur); [|eapply Hrec; exact H].
          destruct (after t (errors o) (catch_first o) (S j) v2) as [v3 [c|]]; [discriminate|].
          inversion H; subst. split; [|lia]. replace (S j - j)%nat with 1%nat by lia.
          cbn [SolverFacts.pass_events seq map]. rewrite <- !app_assoc. reflexivity. }
      apply G in EL as [-> _]. replace (k - 0)%nat with k by lia. rewrite <- !app_assoc. reflexivity.
    Qed.

    (* the property's wording, as a prohibition: under raise / skip / ignore a pass k that STARTS from non-finite
       stored check values is never the pass at which the period is declared solved *)
    Theorem nonfinite_start_never_judged_partial s' k :
      errors o <> EReplace -> length (iters s) = length (status s) ->
      all_finite (chkseq num zero ev d o t p c0 v1 (k - 1)) = false ->
      solve_t_M d o t s = (s', Ret true) ->
      nth_error (iters s') p <> Some (Z.of_nat k).
    Proof.
      intros Hnr Hlen Hnf H Hk.
      destruct (solved_only_if_judged s' Hnr H) as (k0 & _ & _ & Hi & Hf & _).
      rewrite Hi in Hk. rewrite nth_error_upd_eq in Hk by (rewrite Hlen; exact (py_pos_lt _ _ _ Hp)).
      inversion Hk as [Hk']. apply Nat2Z.inj in Hk'. subst k0. congruence.
    Qed.

    (* errors = 'replace', complete rule: '.' at the first pass >= max(1, min_iter) whose LOCAL start vector (rcur) and
       stored end vector are finite and which moved every check variable by < tol against that local vector;
       otherwise 'F' at max_iter.  No finiteness assumption. *)
    Theorem replace_policy :
      errors o = EReplace ->
      (forall i, (1 <= i <= N)%nat -> snd (evk num ev o t i (st_after num ev o t v1 (i - 1))) = None) ->
      solve_t_M d o t s =
      match find_first (rconvk d o t p c0 v1) 1 N with
      | Some k0 =>
          match afterk num after o t k0 (st_after num ev o t v1 k0) with
          | (v'', Some c) =>
              (mkState v'' (status s) (iters s) (log s ++ [EvBefore t] ++ pass_events t 1 k0 ++ [EvAfter t k0]),
               Raise (SolutionError (Some c)))
          | (v'', None) =>
              (mkState v'' (upd p Solved (status s)) (upd p (Z.of_nat k0) (iters s))
                       (log s ++ [EvBefore t] ++ pass_events t 1 k0 ++ [EvAfter t k0]), Ret true)
          end
      | None =>
          (mkState (st_after num ev o t v1 N) (upd p Failed (status s)) (upd p (Z.of_nat N) (iters s))
                   (log s ++ [EvBefore t] ++ pass_events t 1 N),
           if fail_raise o then Raise NonConvergenceError else Ret false)
      end.
    Proof.
      intros Hrep Hev.
      rewrite (solve_t_M_run num sub absf ltb isfin zero ev before after d o t s p v1 Hmm Hp Hfeas Hoff Hpre Hb). fold c0 N.
      pose proof (loop_replace_spec d o t p c0 v1 Hrep N 0 (log s ++ [EvBefore t])) as HL.
      cbn [SolverFacts.st_after rcur] in HL. rewrite HL by (intros i Hi; apply Hev; lia). clear HL.
      destruct (find_first _ 1 N) as [k0|].
      - replace (k0 - 0)%nat with k0 by lia.
        destruct (afterk num after o t k0 (st_after num ev o t v1 k0)) as [v'' [c|]];
          cbn [Solver.finish stamp with_vals st_eqb andb]; rewrite <- !app_assoc; reflexivity.
      - cbn [Solver.finish stamp st_eqb andb Nat.add]. rewrite <- !app_assoc. destruct (fail_raise o); reflexivity.
    Qed.

    (* an exception in the post-hook (run after the converging pass k0): SolutionError chained to it; the period's
       status and iteration count are NOT recorded (they keep their previous values) *)
    Theorem after_exception_surfaces k0 v'' c :
      0 <= max_iter o ->
      (forall i, (1 <= i <= N)%nat -> snd (evk num ev o t i (st_after num ev o t v1 (i - 1))) = None) ->
      (forall i, (i <= N)%nat -> all_finite (chkseq num zero ev d o t p c0 v1 i) = true) ->
      find_first (convk num sub absf ltb zero ev d o t p c0 v1) 1 N = Some k0 ->
      afterk num after o t k0 (st_after num ev o t v1 k0) = (v'', Some c) ->
      solve_t_M d o t s =
      (mkState v'' (status s) (iters s) (log s ++ [EvBefore t] ++ pass_events t 1 k0 ++ [EvAfter t k0]),
       Raise (SolutionError (Some c))).
    Proof.
      intros Hpos Hev Hfin EF Ea.
      rewrite (solve_t_finite_spec num sub absf ltb isfin zero ev before after d o t s p v1 Hmm Hpos Hp Hfeas Hoff Hb Hev Hfin).
      fold c0 N. rewrite EF, Ea. reflexivity.
    Qed.
  End Top.
End Facts3.
