(* SolveAllFacts4.v — since fix 7cd6323 the defaults of solve() are positions: the theorems about the returned triple, failure
   containment, untouched periods and offsets hold with a guard on the labels the caller GIVES only (given_ok: a given label
   resolves to its position); nothing is asked of the span's other labels, and nothing at all for default start / end. *)
From Coq Require Import ZArith List Bool Lia.
Import ListNotations.
Require Import PyBase Solver SolverFacts SolveAll SolveAllFacts SolveAllFacts3.
Open Scope Z_scope.

Section Given.
  Variable num : Type.
  Variables (sub : num -> num -> num) (absf : num -> num) (ltb : num -> num -> bool)
            (isfin : num -> bool) (zero : num).
  Variables (ev before after : hook num).
  Variable L : Type.
  Variable locate : L -> locres.
  Notation solve_t_M := (solve_t_M num sub absf ltb isfin zero ev before after).
  Notation run_periods := (run_periods num sub absf ltb isfin zero ev before after L).
  Notation solve_M := (solve_M num sub absf ltb isfin zero ev before after L locate).
  Notation hook_frame := (hook_frame num).
  Notation given_ok := (given_ok L locate).
  Notation fold_given := (solve_eq_fold_given num sub absf ltb isfin zero ev before after L locate).

  Theorem solve_returns_positions_given d o span start end_ s a b s' res :
    min_iter o <= max_iter o -> given_ok start a -> given_ok end_ b ->
    resolves_start L d span start a -> resolves_end L d span end_ b ->
    solve_M d o span start end_ s = (s', Ret res) ->
    r_len res = (S b - a)%nat /\ length (r_visits res) = (S b - a)%nat /\
    map (fun v : visit L => (snd (fst v), fst (fst v))) (r_visits res) = periods L span a b.
  Proof.
    intros Hmm Gs Ge Hs He H. rewrite (fold_given d o span start end_ s a b Hmm Gs Ge Hs He) in H.
    destruct (run_periods d o (periods L span a b) s []) as [s1 [vs|e]] eqn:E; [|discriminate].
    inversion H; subst. cbn [r_len r_visits].
    apply (run_periods_ret_visits num sub absf ltb isfin zero ev before after L) in E. cbn [map app] in E.
    split; [reflexivity|]. split; [|exact E].
    rewrite <- (map_length (fun v : visit L => (snd (fst v), fst (fst v)))), E.
    apply periods_length. eapply resolves_end_lt; exact He.
  Qed.

  Theorem solve_failure_containment_given d o span start end_ s a b s' e :
    hook_frame (length span) ev -> hook_frame (length span) before -> hook_frame (length span) after ->
    length (status s) = length span ->
    min_iter o <= max_iter o -> given_ok start a -> given_ok end_ b ->
    resolves_start L d span start a -> resolves_end L d span end_ b ->
    solve_M d o span start end_ s = (s', Raise e) ->
    exists j lab sj vs,
      (a + j <= b)%nat /\ nth_error span (a + j) = Some lab /\
      run_periods d o (firstn j (periods L span a b)) s [] = (sj, Ret vs) /\ length vs = j /\
      solve_t_M d o (Z.of_nat (a + j)) sj = (s', Raise e) /\
      (forall q, q <> (a + j)%nat -> same_at sj s' q) /\
      (forall q, (q < a \/ a + j < q)%nat -> same_at s s' q).
  Proof.
    intros Hev Hbf Haf Hn Hmm Gs Ge Hs He H.
    pose proof (resolves_end_lt _ _ _ _ _ He) as Hb.
    rewrite (fold_given d o span start end_ s a b Hmm Gs Ge Hs He) in H.
    destruct (run_periods d o (periods L span a b) s []) as [s1 [vs0|e1]] eqn:E; [discriminate|].
    inversion H; subst s1 e1. clear H.
    destruct (failure_containment num sub absf ltb isfin zero ev before after L (length span) Hev Hbf Haf d o _ _ _ _ _ Hn E)
      as (pre & t & lab & post & sj & vs & Hps & Hpre & Hst & Hsj & Hs0).
    assert (Hnth : nth_error (periods L span a b) (length pre) = Some (t, lab)).
    { rewrite Hps, nth_error_app2 by lia. rewrite Nat.sub_diag. reflexivity. }
    apply (positions_exact L span a b Hb) in Hnth as (Hj & Ht & Hlab).
    assert (Hpos : py_pos (length span) t = Some (a + length pre)%nat).
    { subst t. rewrite py_pos_nonneg by lia. rewrite Nat2Z.id. reflexivity. }
    exists (length pre), lab, sj, vs.
    split; [exact Hj|]. split; [exact Hlab|].
    assert (Hfirst : firstn (length pre) (periods L span a b) = pre).
    { rewrite Hps, firstn_app, Nat.sub_diag, firstn_all. cbn [firstn]. apply app_nil_r. }
    split; [rewrite Hfirst; exact Hpre|].
    split.
    { apply (run_periods_ret_visits num sub absf ltb isfin zero ev before after L) in Hpre. cbn [map app] in Hpre.
      rewrite <- (map_length (fun v : visit L => (snd (fst v), fst (fst v)))), Hpre. reflexivity. }
    split; [subst t; exact Hst|].
    split.
    - intros q Hq. apply Hsj. rewrite Hpos. congruence.
    - intros q Hq. apply Hs0.
      + rewrite Hpos. intros Heq; inversion Heq; lia.
      + intros t' lab' Hin. apply In_nth_error in Hin as [i Hi].
        assert (Hi' : nth_error (periods L span a b) i = Some (t', lab')).
        { rewrite Hps, nth_error_app1; [exact Hi|]. apply nth_error_Some. congruence. }
        assert (Hlt : (i < length pre)%nat) by (apply nth_error_Some; congruence).
        apply (positions_exact L span a b Hb) in Hi' as (_ & -> & _).
        rewrite py_pos_nonneg by lia. rewrite Nat2Z.id. intros Heq; inversion Heq; lia.
  Qed.

  Theorem solve_untouched_outside_range_given d o span start end_ s a b s' r :
    hook_frame (length span) ev -> hook_frame (length span) before -> hook_frame (length span) after ->
    length (status s) = length span ->
    min_iter o <= max_iter o -> given_ok start a -> given_ok end_ b ->
    resolves_start L d span start a -> resolves_end L d span end_ b ->
    solve_M d o span start end_ s = (s', r) ->
    forall q, (q < a \/ b < q)%nat -> same_at s s' q.
  Proof.
    intros Hev Hbf Haf Hn Hmm Gs Ge Hs He H q Hq.
    pose proof (resolves_end_lt _ _ _ _ _ He) as Hb.
    rewrite (fold_given d o span start end_ s a b Hmm Gs Ge Hs He) in H.
    destruct (run_periods d o (periods L span a b) s []) as [s1 r1] eqn:E.
    assert (Hs1 : s1 = s') by (destruct r1; inversion H; reflexivity). subst s1.
    apply (run_periods_untouched num sub absf ltb isfin zero ev before after L (length span) Hev Hbf Haf d o _ _ _ _ _ Hn E).
    intros t lab Hin. apply In_nth_error in Hin as [i Hi].
    apply (positions_exact L span a b Hb) in Hi as (Hi & -> & _).
    rewrite py_pos_nonneg by lia. rewrite Nat2Z.id. intros Heq; inversion Heq; lia.
  Qed.

  (* offsets: IndexError at the first period whose source lies outside the span; the prefix keeps its results *)
  Theorem solve_offset_before_span_rejected_given d o span start end_ s a b :
    min_iter o <= max_iter o -> given_ok start a -> given_ok end_ b -> length (status s) = length span ->
    resolves_start L d span start a -> resolves_end L d span end_ b -> (a <= b)%nat ->
    Z.of_nat a + offset o < 0 ->
    solve_M d o span start end_ s = (s, Raise IndexError).
  Proof.
    intros Hmm Gs Ge Hlen Hs He Hab Hneg.
    rewrite (fold_given d o span start end_ s a b Hmm Gs Ge Hs He).
    pose proof (resolves_end_lt L d span end_ b He) as Hb.
    assert (Hoff : offset o <> 0) by lia.
    assert (Hj : (a + 0 <= b)%nat) by lia.
    assert (Hout : Z.of_nat (a + 0) + offset o < 0 \/ Z.of_nat (length span) <= Z.of_nat (a + 0) + offset o)
      by (left; replace (a + 0)%nat with a by lia; exact Hneg).
    rewrite (run_periods_offset_stops num sub absf ltb isfin zero ev before after L d o span a b 0 s Hmm Hoff Hlen Hj Hb Hout). reflexivity.
  Qed.

  Theorem solve_offset_beyond_span_stops_given d o span start end_ s a b j :
    min_iter o <= max_iter o -> given_ok start a -> given_ok end_ b -> length (status s) = length span ->
    resolves_start L d span start a -> resolves_end L d span end_ b -> (a + j <= b)%nat ->
    offset o <> 0 -> Z.of_nat (length span) <= Z.of_nat (a + j) + offset o ->
    solve_M d o span start end_ s =
    match run_periods d o (firstn j (periods L span a b)) s [] with
    | (s1, Ret vs) => (s1, Raise IndexError)
    | (s1, Raise e) => (s1, Raise e)
    end.
  Proof.
    intros Hmm Gs Ge Hlen Hs He Hj Hoff Hout.
    rewrite (fold_given d o span start end_ s a b Hmm Gs Ge Hs He).
    pose proof (resolves_end_lt L d span end_ b He) as Hb.
    rewrite (run_periods_offset_stops num sub absf ltb isfin zero ev before after L d o span a b j s Hmm Hoff Hlen Hj Hb (or_intror Hout)).
    destruct (run_periods d o (firstn j (periods L span a b)) s []) as [s1 [vs|e]]; reflexivity.
  Qed.
End Given.
