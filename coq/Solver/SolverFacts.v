(* SolverFacts.v — theorems about the solve_t model, for every number type,
   every evaluation oracle and every hook. *)
From Coq Require Import ZArith List Bool Lia.
Import ListNotations.
Require Import PyBase Solver.
Open Scope Z_scope.

(* first j in [k, k+n) with f j = true *)
Fixpoint find_first (f : nat -> bool) (k n : nat) : option nat :=
  match n with
  | O => None
  | S n' => if f k then Some k else find_first f (S k) n'
  end.

Lemma find_first_some f : forall n k k0,
  find_first f k n = Some k0 <->
  ((k <= k0 < k + n)%nat /\ f k0 = true /\ forall j, (k <= j < k0)%nat -> f j = false).
Proof.
  induction n as [|n IH]; intros k k0; cbn [find_first].
  - split; [discriminate|]. intros [H _]. lia.
  - destruct (f k) eqn:E.
    + split.
      * intros H; inversion H; subst. split; [lia|split; [exact E|intros j Hj; lia]].
      * intros (H1 & H2 & H3). destruct (Nat.eq_dec k k0) as [->|Hne]; [reflexivity|].
        rewrite (H3 k) in E by lia. discriminate.
    + rewrite IH. split.
      * intros (H1 & H2 & H3). split; [lia|split; [exact H2|]].
        intros j Hj. destruct (Nat.eq_dec j k) as [->|Hne]; [exact E|]. apply H3; lia.
      * intros (H1 & H2 & H3). assert (k <> k0) by (intros ->; congruence).
        split; [lia|split; [exact H2|]]. intros j Hj. apply H3; lia.
Qed.

Lemma find_first_none f : forall n k,
  find_first f k n = None <-> (forall j, (k <= j < k + n)%nat -> f j = false).
Proof.
  induction n as [|n IH]; intros k; cbn [find_first].
  - split; auto. intros _ j Hj; lia.
  - destruct (f k) eqn:E.
    + split; [discriminate|]. intros H. rewrite (H k) in E by lia. discriminate.
    + rewrite IH. split.
      * intros H j Hj. destruct (Nat.eq_dec j k) as [->|Hne]; [exact E|]. apply H; lia.
      * intros H j Hj. apply H; lia.
Qed.

Section Facts.
  Variable num : Type.
  Variables (sub : num -> num -> num) (absf : num -> num) (ltb : num -> num -> bool)
            (isfin : num -> bool) (zero : num).
  Variables (ev before after : hook num).

  Notation loop := (loop num sub absf ltb isfin zero ev after).
  Notation solve_t_M := (solve_t_M num sub absf ltb isfin zero ev before after).
  Notation get_check := (get_check num zero).
  Notation all_finite := (all_finite num isfin).
  Notation conv := (conv num sub absf ltb).
  Notation copy_endo := (copy_endo num zero).

  Section OnePeriod.
    Variables (d : mdesc) (o : opts num) (t : Z) (p : nat).
    Variable c0 : list num.      (* check vector before the pre-hook *)
    Variable v1 : vals num.      (* store after the pre-hook *)

    Definition evk (k : nat) (v : vals num) := ev t (errors o) (catch_first o) k v.
    Definition afterk (k : nat) (v : vals num) := after t (errors o) (catch_first o) k v.

    (* store after j evaluation passes *)
    Fixpoint st_after (j : nat) : vals num :=
      match j with O => v1 | S j' => fst (evk (S j') (st_after j')) end.
    (* check vector after j passes (j = 0: the vector taken before the pre-hook) *)
    Definition chkseq (j : nat) : list num :=
      match j with O => c0 | S _ => get_check d (st_after j) p end.
    (* pass k is at or beyond min_iter and every check variable moved by < tol since pass k-1 *)
    Definition convk (k : nat) : bool :=
      (min_iter o <=? Z.of_nat k) && conv (tol o) (chkseq k) (chkseq (k - 1)).
    Definition pass_events (k n : nat) : list event := map (EvPass t) (seq k n).

    Lemma pass_events_S k n : pass_events k (S n) = EvPass t k :: pass_events (S k) n.
    Proof. reflexivity. Qed.

    (* The loop, in the regime "no pass raises and every check vector is finite". *)
    Lemma loop_spec : forall n j lg,
      (forall i, (j < i <= j + n)%nat -> snd (evk i (st_after (i - 1))) = None) ->
      (forall i, (j <= i <= j + n)%nat -> all_finite (chkseq i) = true) ->
      loop d o t p n (S j) (st_after j) (chkseq j) lg =
      match find_first convk (S j) n with
      | Some k0 =>
          match afterk k0 (st_after k0) with
          | (v'', Some c) => LRaise v'' None (SolutionError (Some c))
                                   (lg ++ pass_events (S j) (k0 - j) ++ [EvAfter t k0])
          | (v'', None) => LDone v'' Solved k0 (lg ++ pass_events (S j) (k0 - j) ++ [EvAfter t k0])
          end
      | None => LDone (st_after (j + n)) Failed (j + n) (lg ++ pass_events (S j) n)
      end.
    Proof.
      induction n as [|n IH]; intros j lg Hev Hfin.
      - cbn [loop find_first pass_events seq map]. rewrite app_nil_r, Nat.add_0_r.
        replace (S j - 1)%nat with j by lia. reflexivity.
      - cbn [loop find_first].
        assert (Hs : snd (evk (S j) (st_after j)) = None).
        { specialize (Hev (S j)). replace (S j - 1)%nat with j in Hev by lia. apply Hev; lia. }
        fold (evk (S j) (st_after j)).
        destruct (evk (S j) (st_after j)) as [v' r] eqn:E. cbn [snd] in Hs. subst r.
        assert (Hv' : v' = st_after (S j)) by (cbn [st_after]; rewrite E; reflexivity).
        assert (Hc' : get_check d v' p = chkseq (S j)) by (rewrite Hv'; reflexivity).
        rewrite Hc'.
        rewrite (Hfin j) by lia. rewrite (Hfin (S j)) by lia. cbn [negb].
        unfold convk at 1. replace (S j - 1)%nat with j by lia.
        destruct (Z.of_nat (S j) <? min_iter o) eqn:Emin.
        + replace (min_iter o <=? Z.of_nat (S j)) with false by lia. cbn [andb].
          rewrite Hv'. rewrite IH.
          * destruct (find_first convk (S (S j)) n) as [k0|] eqn:EF.
            -- apply find_first_some in EF as (Hr & _ & _).
               replace (k0 - j)%nat with (S (k0 - S j)) by lia. rewrite pass_events_S.
               destruct (afterk k0 (st_after k0)) as [v'' [c|]]; rewrite <- !app_assoc; reflexivity.
            -- rewrite pass_events_S. rewrite <- app_assoc. replace (S j + n)%nat with (j + S n)%nat by lia. reflexivity.
          * intros i Hi. apply Hev; lia.
          * intros i Hi. apply Hfin; lia.
        + replace (min_iter o <=? Z.of_nat (S j)) with true by lia. cbn [andb].
          destruct (conv (tol o) (chkseq (S j)) (chkseq j)) eqn:Ec.
          * fold (afterk (S j) v'). rewrite Hv'. replace (S j - j)%nat with 1%nat by lia.
            cbn [pass_events seq map]. destruct (afterk (S j) (st_after (S j))) as [v'' [c|]];
              rewrite <- !app_assoc; reflexivity.
          * rewrite Hv'. rewrite IH.
            -- destruct (find_first convk (S (S j)) n) as [k0|] eqn:EF.
               ++ apply find_first_some in EF as (Hr & _ & _).
                  replace (k0 - j)%nat with (S (k0 - S j)) by lia. rewrite pass_events_S.
                  destruct (afterk k0 (st_after k0)) as [v'' [c|]]; rewrite <- !app_assoc; reflexivity.
               ++ rewrite pass_events_S. rewrite <- app_assoc. replace (S j + n)%nat with (j + S n)%nat by lia. reflexivity.
            -- intros i Hi. apply Hev; lia.
            -- intros i Hi. apply Hfin; lia.
    Qed.
  End OnePeriod.

  (* ---------------- top-level statements about solve_t_M ---------------- *)

  Definition set_offset (o : opts num) (x : Z) : opts num :=
    mkOpts (min_iter o) (max_iter o) (tol o) x (fail_raise o) (errors o) (catch_first o).

  Theorem min_gt_max_rejected d o t s :
    max_iter o < min_iter o -> solve_t_M d o t s = (s, Raise ValueError).
  Proof. intros H. unfold Solver.solve_t_M. replace (max_iter o <? min_iter o) with true by lia. reflexivity. Qed.

  (* a period that cannot accommodate the instance's lags / leads (fix for finding #2): IndexError, nothing changes.
     Both spellings of t are covered: p is the normalised position of t. *)
  Theorem infeasible_period_rejected d o t s p :
    min_iter o <= max_iter o ->
    py_pos (length (status s)) t = Some p ->
    ((p < lags d)%nat \/ (length (status s) <= p + leads d)%nat) ->
    solve_t_M d o t s = (s, Raise IndexError).
  Proof.
    intros Hmm Hp Hinf. unfold Solver.solve_t_M.
    replace (max_iter o <? min_iter o) with false by lia. rewrite Hp.
    replace (feasible d (length (status s)) p) with false; [reflexivity|].
    unfold feasible. symmetry. apply andb_false_iff.
    destruct Hinf as [H|H]; [left; apply Nat.leb_gt; exact H | right; apply Nat.ltb_ge; exact H].
  Qed.

  Lemma loop_set_offset d o x t p : forall n k v cur lg,
    loop d (set_offset o x) t p n k v cur lg = loop d o t p n k v cur lg.
  Proof.
    induction n as [|n IH]; intros k v cur lg; cbn [Solver.loop]; [reflexivity|].
    cbn [set_offset errors catch_first min_iter tol].
    destruct (ev t (errors o) (catch_first o) k v) as [v' [c|]]; [reflexivity|].
    rewrite !IH. reflexivity.
  Qed.

  Theorem offset_out_of_span_rejected d o t s p :
    min_iter o <= max_iter o ->
    py_pos (length (status s)) t = Some p -> feasible d (length (status s)) p = true ->
    offset o <> 0 ->
    (Z.of_nat p + offset o < 0 \/ Z.of_nat (length (status s)) <= Z.of_nat p + offset o) ->
    solve_t_M d o t s = (s, Raise IndexError).
  Proof.
    intros Hmm Hp Hfeas Hoff Hout. unfold Solver.solve_t_M.
    replace (max_iter o <? min_iter o) with false by lia. rewrite Hp. rewrite Hfeas. cbn [negb].
    replace (offset o =? 0) with false by lia.
    destruct (Z.of_nat p + offset o <? 0) eqn:E1; [reflexivity|].
    replace (Z.of_nat (length (status s)) <=? Z.of_nat p + offset o) with true by lia. reflexivity.
  Qed.

  (* a non-zero in-span offset = the offset-free call on the store in which the endogenous
     values of period t+offset were copied into period t *)
  Theorem offset_seeds d o t s p :
    py_pos (length (status s)) t = Some p -> feasible d (length (status s)) p = true ->
    offset o <> 0 ->
    0 <= Z.of_nat p + offset o < Z.of_nat (length (status s)) ->
    solve_t_M d o t s =
    (if max_iter o <? min_iter o then (s, Raise ValueError) else
     solve_t_M d (set_offset o 0) t
       (mkState (copy_endo d (vals_of s) p (Z.to_nat (Z.of_nat p + offset o))) (status s) (iters s) (log s))).
  Proof.
    intros Hp Hfeas Hoff Hin. unfold Solver.solve_t_M.
    change (offset (set_offset o 0)) with 0. change (max_iter (set_offset o 0)) with (max_iter o).
    change (min_iter (set_offset o 0)) with (min_iter o). change (errors (set_offset o 0)) with (errors o).
    change (catch_first (set_offset o 0)) with (catch_first o).
    change (fail_raise (set_offset o 0)) with (fail_raise o).
    cbn [status iters vals_of log].
    destruct (max_iter o <? min_iter o); [reflexivity|]. rewrite Hp.
    rewrite Hfeas. cbn [negb].
    replace (offset o =? 0) with false by lia. cbn [Z.eqb].
    replace (Z.of_nat p + offset o <? 0) with false by lia.
    replace (Z.of_nat (length (status s)) <=? Z.of_nat p + offset o) with false by lia.
    unfold with_vals, stamp. cbn [status iters vals_of log].
    destruct (is_raise (errors o) && _); [reflexivity|].
    destruct (before _ _ _ _ _) as [v1 [c|]]; [reflexivity|]. rewrite loop_set_offset. reflexivity.
  Qed.

  (* The C02 statement for offset = 0 (offset_seeds reduces the other case to it). *)
  Theorem solve_t_finite_spec d o t s p v1 :
    min_iter o <= max_iter o -> 0 <= max_iter o ->
    py_pos (length (status s)) t = Some p -> feasible d (length (status s)) p = true ->
    offset o = 0 ->
    let c0 := get_check d (vals_of s) p in
    let N := Z.to_nat (max_iter o) in
    before t (errors o) (catch_first o) 0%nat (vals_of s) = (v1, None) ->
    (forall i, (1 <= i <= N)%nat -> snd (evk o t i (st_after o t v1 (i - 1))) = None) ->
    (forall i, (i <= N)%nat -> all_finite (chkseq d o t p c0 v1 i) = true) ->
    solve_t_M d o t s =
    match find_first (convk d o t p c0 v1) 1 N with
    | Some k0 =>
        match afterk o t k0 (st_after o t v1 k0) with
        | (v'', Some c) =>
            (mkState v'' (status s) (iters s)
                     (log s ++ [EvBefore t] ++ pass_events t 1 k0 ++ [EvAfter t k0]),
             Raise (SolutionError (Some c)))
        | (v'', None) =>
            (mkState v'' (upd p Solved (status s)) (upd p (Z.of_nat k0) (iters s))
                     (log s ++ [EvBefore t] ++ pass_events t 1 k0 ++ [EvAfter t k0]),
             Ret true)
        end
    | None =>
        (mkState (st_after o t v1 N) (upd p Failed (status s)) (upd p (max_iter o) (iters s))
                 (log s ++ [EvBefore t] ++ pass_events t 1 N),
         if fail_raise o then Raise NonConvergenceError else Ret false)
    end.
  Proof.
    intros Hmm Hpos Hp Hfeas Hoff c0 N Hbefore Hev Hfin.
    unfold Solver.solve_t_M. replace (max_iter o <? min_iter o) with false by lia. rewrite Hp. rewrite Hfeas. cbn [negb].
    rewrite Hoff. cbn [Z.eqb]. fold c0.
    assert (Hc0 : all_finite c0 = true) by (apply (Hfin 0%nat); lia).
    rewrite Hc0. cbn [negb]. rewrite andb_false_r. rewrite Hbefore.
    fold N. pose proof (loop_spec d o t p c0 v1 N 0 (log s ++ [EvBefore t])) as HL.
    cbn [st_after chkseq] in HL. rewrite HL; clear HL.
    - unfold Solver.finish. destruct (find_first (convk d o t p c0 v1) 1 N) as [k0|] eqn:EF.
      + replace (k0 - 0)%nat with k0 by lia.
        destruct (afterk o t k0 (st_after o t v1 k0)) as [v'' [c|]].
        * unfold with_vals. rewrite <- !app_assoc. reflexivity.
        * cbn [st_eqb andb]. unfold stamp. rewrite <- !app_assoc. reflexivity.
      + cbn [st_eqb andb Nat.add]. unfold stamp. replace (Z.of_nat N) with (max_iter o) by lia.
        rewrite <- !app_assoc. destruct (fail_raise o); reflexivity.
    - intros i Hi. apply Hev. lia.
    - intros i Hi. apply Hfin. lia.
  Qed.

  (* readable corollaries: the return value, status and iteration count *)
  Corollary solve_t_converges_at_least_k d o t s p v1 k0 :
    min_iter o <= max_iter o -> 0 <= max_iter o ->
    py_pos (length (status s)) t = Some p -> feasible d (length (status s)) p = true -> offset o = 0 ->
    let c0 := get_check d (vals_of s) p in
    let N := Z.to_nat (max_iter o) in
    before t (errors o) (catch_first o) 0%nat (vals_of s) = (v1, None) ->
    (forall i, (1 <= i <= N)%nat -> snd (evk o t i (st_after o t v1 (i - 1))) = None) ->
    (forall i, (i <= N)%nat -> all_finite (chkseq d o t p c0 v1 i) = true) ->
    (forall k v, snd (afterk o t k v) = None) ->
    (* k0 is the least pass in [max 1 min_iter, max_iter] at which all check variables moved < tol *)
    (1 <= k0 <= N)%nat -> convk d o t p c0 v1 k0 = true ->
    (forall j, (1 <= j < k0)%nat -> convk d o t p c0 v1 j = false) ->
    let r := solve_t_M d o t s in
    snd r = Ret true /\
    nth_error (status (fst r)) p = Some Solved /\
    nth_error (iters (fst r)) p = (if (p <? length (iters s))%nat then Some (Z.of_nat k0) else None) /\
    log (fst r) = log s ++ [EvBefore t] ++ pass_events t 1 k0 ++ [EvAfter t k0] /\
    (forall q, q <> p -> nth_error (status (fst r)) q = nth_error (status s) q
                      /\ nth_error (iters (fst r)) q = nth_error (iters s) q).
  Proof.
    intros Hmm Hpos Hp Hfeas Hoff c0 N Hb Hev Hfin Haft Hk0 Hconv Hleast r.
    assert (EF : find_first (convk d o t p c0 v1) 1 N = Some k0).
    { apply find_first_some. repeat split; try lia; auto. }
    subst r. rewrite (solve_t_finite_spec d o t s p v1 Hmm Hpos Hp Hfeas Hoff Hb Hev Hfin). fold c0 N. rewrite EF.
    specialize (Haft k0 (st_after o t v1 k0)).
    destruct (afterk o t k0 (st_after o t v1 k0)) as [v'' r']. cbn [snd] in Haft. subst r'.
    cbn [fst snd status iters log]. pose proof (py_pos_lt _ _ _ Hp) as Hlt.
    repeat split.
    - apply nth_error_upd_eq; exact Hlt.
    - destruct (p <? length (iters s))%nat eqn:E.
      + apply nth_error_upd_eq. apply Nat.ltb_lt; exact E.
      + apply nth_error_None. rewrite upd_length. apply Nat.ltb_ge; exact E.
    - apply nth_error_upd_neq; auto.
    - apply nth_error_upd_neq; auto.
  Qed.

  Corollary solve_t_fails_when_no_k d o t s p v1 :
    min_iter o <= max_iter o -> 0 <= max_iter o ->
    py_pos (length (status s)) t = Some p -> feasible d (length (status s)) p = true -> offset o = 0 ->
    let c0 := get_check d (vals_of s) p in
    let N := Z.to_nat (max_iter o) in
    before t (errors o) (catch_first o) 0%nat (vals_of s) = (v1, None) ->
    (forall i, (1 <= i <= N)%nat -> snd (evk o t i (st_after o t v1 (i - 1))) = None) ->
    (forall i, (i <= N)%nat -> all_finite (chkseq d o t p c0 v1 i) = true) ->
    (forall j, (1 <= j <= N)%nat -> convk d o t p c0 v1 j = false) ->
    let r := solve_t_M d o t s in
    snd r = (if fail_raise o then Raise NonConvergenceError else Ret false) /\
    nth_error (status (fst r)) p = Some Failed /\
    log (fst r) = log s ++ [EvBefore t] ++ pass_events t 1 N /\
    vals_of (fst r) = st_after o t v1 N /\
    (forall q, q <> p -> nth_error (status (fst r)) q = nth_error (status s) q
                      /\ nth_error (iters (fst r)) q = nth_error (iters s) q).
  Proof.
    intros Hmm Hpos Hp Hfeas Hoff c0 N Hb Hev Hfin Hnone r.
    assert (EF : find_first (convk d o t p c0 v1) 1 N = None).
    { apply find_first_none. intros j Hj. apply Hnone. lia. }
    subst r. rewrite (solve_t_finite_spec d o t s p v1 Hmm Hpos Hp Hfeas Hoff Hb Hev Hfin). fold c0 N. rewrite EF.
    cbn [fst snd status iters log vals_of]. pose proof (py_pos_lt _ _ _ Hp) as Hlt.
    repeat split.
    - apply nth_error_upd_eq; exact Hlt.
    - apply nth_error_upd_neq; auto.
    - apply nth_error_upd_neq; auto.
  Qed.

  (* max_iter = 0 (repaired by the fix for finding #1): no pass, 'F', iterations = 0 = max_iter *)
  Theorem solve_t_maxiter0 d o t s p v1 :
    min_iter o <= max_iter o -> max_iter o = 0 ->
    py_pos (length (status s)) t = Some p -> feasible d (length (status s)) p = true -> offset o = 0 ->
    all_finite (get_check d (vals_of s) p) = true ->
    before t (errors o) (catch_first o) 0%nat (vals_of s) = (v1, None) ->
    solve_t_M d o t s =
      (mkState v1 (upd p Failed (status s)) (upd p (max_iter o) (iters s)) (log s ++ [EvBefore t]),
       if fail_raise o then Raise NonConvergenceError else Ret false).
  Proof.
    intros Hmm Hmax Hp Hfeas Hoff Hfin Hb. unfold Solver.solve_t_M.
    replace (max_iter o <? min_iter o) with false by lia. rewrite Hp, Hfeas, Hoff. cbn [Z.eqb negb].
    rewrite Hfin. cbn [negb]. rewrite andb_false_r, Hb.
    rewrite Hmax. cbn [Z.to_nat Solver.loop Solver.finish Nat.sub st_eqb andb stamp Z.of_nat].
    destruct (fail_raise o); reflexivity.
  Qed.

End Facts.
