(* SolverFacts2.v — the error / failure policy state machine of solve_t (property C06),
   for every number type, evaluation oracle and hook. *)
From Coq Require Import ZArith List Bool Lia.
Import ListNotations.
Require Import PyBase Solver SolverFacts.
Open Scope Z_scope.

Section Facts2.
  Variable num : Type.
  Variables (sub : num -> num -> num) (absf : num -> num) (ltb : num -> num -> bool)
            (isfin : num -> bool) (zero : num).
  Variables (ev before after : hook num).

  Notation loop := (loop num sub absf ltb isfin zero ev after).
  Notation solve_t_M := (solve_t_M num sub absf ltb isfin zero ev before after).
  Notation get_check := (get_check num zero).
  Notation all_finite := (all_finite num isfin).
  Notation conv := (conv num sub absf ltb).
  Notation finish := (finish num).

  (* the straight-line prefix of solve_t: guards passed, pre-hook returned *)
  Lemma solve_t_M_run d o t s p v1 :
    min_iter o <= max_iter o ->
    py_pos (length (status s)) t = Some p -> feasible d (length (status s)) p = true -> offset o = 0 ->
    is_raise (errors o) && negb (all_finite (get_check d (vals_of s) p)) = false ->
    before t (errors o) (catch_first o) 0%nat (vals_of s) = (v1, None) ->
    solve_t_M d o t s =
    finish o s p (loop d o t p (Z.to_nat (max_iter o)) 1%nat v1 (get_check d (vals_of s) p) (log s ++ [EvBefore t])).
  Proof.
    intros Hmm Hp Hfeas Hoff Hpre Hb. unfold Solver.solve_t_M.
    replace (max_iter o <? min_iter o) with false by lia. rewrite Hp, Hfeas, Hoff. cbn [Z.eqb negb].
    rewrite Hpre, Hb. reflexivity.
  Qed.

  Section OnePeriod.
    Variables (d : mdesc) (o : opts num) (t : Z) (p : nat).
    Variable c0 : list num.
    Variable v1 : vals num.
    Notation evk := (evk num ev o t).
    Notation afterk := (afterk num after o t).
    Notation st_after := (st_after num ev o t v1).
    Notation chkseq := (chkseq num zero ev d o t p c0 v1).
    Notation convk := (convk num sub absf ltb zero ev d o t p c0 v1).
    Notation pass_events := (pass_events t).

    (* passes j+1 .. j+m are "quiet": they return, leave finite check values and do not converge *)
    Lemma loop_prefix : forall m n j lg,
      (forall i, (j < i <= j + m)%nat -> snd (evk i (st_after (i - 1))) = None) ->
      (forall i, (j <= i <= j + m)%nat -> all_finite (chkseq i) = true) ->
      (forall i, (j < i <= j + m)%nat -> convk i = false) ->
      loop d o t p (m + n) (S j) (st_after j) (chkseq j) lg
      = loop d o t p n (S (j + m)) (st_after (j + m)) (chkseq (j + m)) (lg ++ pass_events (S j) m).
    Proof.
      induction m as [|m IH]; intros n j lg Hev Hfin Hnc.
      - cbn [Nat.add SolverFacts.pass_events seq map]. rewrite app_nil_r, Nat.add_0_r. reflexivity.
      - cbn [Nat.add Solver.loop].
        assert (Hs : snd (evk (S j) (st_after j)) = None).
        { specialize (Hev (S j)). replace (S j - 1)%nat with j in Hev by lia. apply Hev; lia. }
        fold (SolverFacts.evk num ev o t (S j) (st_after j)).
        destruct (evk (S j) (st_after j)) as [v' r] eqn:E. cbn [snd] in Hs. subst r.
        assert (Hv' : v' = st_after (S j)) by (cbn [SolverFacts.st_after]; rewrite E; reflexivity).
        assert (Hc' : get_check d v' p = chkseq (S j)) by (rewrite Hv'; reflexivity).
        rewrite Hc'. rewrite (Hfin j) by lia. rewrite (Hfin (S j)) by lia. cbn [negb].
        pose proof (Hnc (S j) ltac:(lia)) as Hn. unfold SolverFacts.convk in Hn.
        replace (S j - 1)%nat with j in Hn by lia.
        assert (Hgo : (if Z.of_nat (S j) <? min_iter o then loop d o t p (m + n) (S (S j)) v' (chkseq (S j)) (lg ++ [EvPass t (S j)])
                       else if conv (tol o) (chkseq (S j)) (chkseq j)
                            then match after t (errors o) (catch_first o) (S j) v' with
                                 | (v'', Some c) => LRaise v'' None (SolutionError (Some c)) ((lg ++ [EvPass t (S j)]) ++ [EvAfter t (S j)])
                                 | (v'', None) => LDone v'' Solved (S j) ((lg ++ [EvPass t (S j)]) ++ [EvAfter t (S j)])
                                 end
                            else loop d o t p (m + n) (S (S j)) v' (chkseq (S j)) (lg ++ [EvPass t (S j)]))
                      = loop d o t p (m + n) (S (S j)) v' (chkseq (S j)) (lg ++ [EvPass t (S j)])).
        { destruct (Z.of_nat (S j) <? min_iter o) eqn:Emin; [reflexivity|].
          replace (min_iter o <=? Z.of_nat (S j)) with true in Hn by lia. cbn [andb] in Hn. rewrite Hn. reflexivity. }
        rewrite Hgo. rewrite Hv'. rewrite IH.
        + rewrite pass_events_S. rewrite <- app_assoc. replace (S j + m)%nat with (j + S m)%nat by lia. reflexivity.
        + intros i Hi. apply Hev; lia.
        + intros i Hi. apply Hfin; lia.
        + intros i Hi. apply Hnc; lia.
    Qed.

    Definition quiet (k : nat) : Prop :=       (* passes 1 .. k are quiet, the start vector is finite *)
      (forall i, (1 <= i <= k)%nat -> snd (evk i (st_after (i - 1))) = None) /\
      (forall i, (i <= k)%nat -> all_finite (chkseq i) = true) /\
      (forall i, (1 <= i <= k)%nat -> convk i = false).

    Lemma loop_reach k n lg : quiet k ->
      loop d o t p (k + n) 1 v1 c0 lg = loop d o t p n (S k) (st_after k) (chkseq k) (lg ++ pass_events 1 k).
    Proof.
      intros (Hev & Hfin & Hnc).
      pose proof (loop_prefix k n 0 lg) as H. cbn [Nat.add SolverFacts.st_after SolverFacts.chkseq] in H.
      apply H; intros i Hi; [apply Hev|apply Hfin|apply Hnc]; lia.
    Qed.

    (* pass k+1 returns and leaves a non-finite check vector after k quiet passes *)
    Lemma loop_first_nonfinite k n lg :
      quiet k ->
      snd (evk (S k) (st_after k)) = None ->
      all_finite (chkseq (S k)) = false ->
      loop d o t p (k + S n) 1 v1 c0 lg =
      let lg' := lg ++ pass_events 1 (S k) in
      match errors o with
      | ERaise => LRaise (st_after (S k)) (Some (ErrorSt, S k)) (SolutionError None) lg'
      | ESkip => LDone (st_after (S k)) Skipped (S k) lg'
      | EIgnore => match n with O => LDone (st_after (S k)) Failed (S k) lg'
                   | _ => loop d o t p n (S (S k)) (st_after (S k)) (chkseq (S k)) lg' end
      | EReplace => match n with O => LDone (st_after (S k)) Failed (S k) lg'
                    | _ => loop d o t p n (S (S k)) (st_after (S k)) (replace_nonfinite num isfin zero (chkseq (S k))) lg' end
      | EInvalid => LRaise (st_after (S k)) None ValueError lg'
      end.
    Proof.
      intros Hq Hs Hnf. rewrite (loop_reach k (S n) lg Hq). cbn [Solver.loop].
      fold (SolverFacts.evk num ev o t (S k) (st_after k)).
      destruct (evk (S k) (st_after k)) as [v' r] eqn:E. cbn [snd] in Hs. subst r.
      assert (Hv' : v' = st_after (S k)) by (cbn [SolverFacts.st_after]; rewrite E; reflexivity).
      assert (Hc' : get_check d v' p = chkseq (S k)) by (rewrite Hv'; reflexivity).
      rewrite Hc'. destruct Hq as (_ & Hfin & _). rewrite (Hfin k) by lia. rewrite Hnf. cbn [negb].
      assert (Hlg : (lg ++ pass_events 1 k) ++ [EvPass t (S k)] = lg ++ pass_events 1 (S k)).
      { rewrite <- app_assoc. f_equal. unfold SolverFacts.pass_events. rewrite seq_S, map_app. reflexivity. }
      rewrite Hlg, Hv'. cbv zeta. destruct (errors o); reflexivity.
    Qed.

    (* pass k+1 raises after k quiet passes *)
    Lemma loop_ev_raises k n lg v' c :
      quiet k ->
      evk (S k) (st_after k) = (v', Some c) ->
      loop d o t p (k + S n) 1 v1 c0 lg =
      LRaise v' (if is_raise (errors o) then Some (ErrorSt, S k) else None) (SolutionError (Some c))
             (lg ++ pass_events 1 (S k)).
    Proof.
      intros Hq E. rewrite (loop_reach k (S n) lg Hq). cbn [Solver.loop].
      fold (SolverFacts.evk num ev o t (S k) (st_after k)). rewrite E.
      rewrite <- app_assoc. do 3 f_equal. unfold SolverFacts.pass_events. rewrite seq_S, map_app. reflexivity.
    Qed.

    (* ---- errors = 'ignore': complete characterisation, no finiteness assumption at all ---- *)
    (* pass k is judged iff its own and the previous check vector are finite *)
    Definition jconvk (k : nat) : bool :=
      all_finite (chkseq (k - 1)) && all_finite (chkseq k) && convk k.

    Lemma loop_ignore_spec : errors o = EIgnore -> forall n j lg,
      (forall i, (j < i <= j + n)%nat -> snd (evk i (st_after (i - 1))) = None) ->
      loop d o t p n (S j) (st_after j) (chkseq j) lg =
      match find_first jconvk (S j) n with
      | Some k0 =>
          match afterk k0 (st_after k0) with
          | (v'', Some c) => LRaise v'' None (SolutionError (Some c)) (lg ++ pass_events (S j) (k0 - j) ++ [EvAfter t k0])
          | (v'', None) => LDone v'' Solved k0 (lg ++ pass_events (S j) (k0 - j) ++ [EvAfter t k0])
          end
      | None => LDone (st_after (j + n)) Failed (j + n) (lg ++ pass_events (S j) n)
      end.
    Proof.
      intros Hign. induction n as [|n IH]; intros j lg Hev.
      - cbn [Solver.loop find_first SolverFacts.pass_events seq map]. rewrite app_nil_r, Nat.add_0_r.
        replace (S j - 1)%nat with j by lia. reflexivity.
      - cbn [Solver.loop find_first].
        assert (Hs : snd (evk (S j) (st_after j)) = None).
        { specialize (Hev (S j)). replace (S j - 1)%nat with j in Hev by lia. apply Hev; lia. }
        fold (SolverFacts.evk num ev o t (S j) (st_after j)).
        destruct (evk (S j) (st_after j)) as [v' r] eqn:E. cbn [snd] in Hs. subst r.
        assert (Hv' : v' = st_after (S j)) by (cbn [SolverFacts.st_after]; rewrite E; reflexivity).
        assert (Hc' : get_check d v' p = chkseq (S j)) by (rewrite Hv'; reflexivity).
        rewrite Hc'.
        (* the continuation, common to every `continue` branch *)
        assert (Hcont : forall b, b = false -> jconvk (S j) = b ->
                  loop d o t p n (S (S j)) v' (chkseq (S j)) (lg ++ [EvPass t (S j)]) =
                  match (if jconvk (S j) then Some (S j) else find_first jconvk (S (S j)) n) with
                  | Some k0 =>
                      match afterk k0 (st_after k0) with
                      | (v'', Some c) => LRaise v'' None (SolutionError (Some c)) (lg ++ pass_events (S j) (k0 - j) ++ [EvAfter t k0])
                      | (v'', None) => LDone v'' Solved k0 (lg ++ pass_events (S j) (k0 - j) ++ [EvAfter t k0])
                      end
                  | None => LDone (st_after (j + S n)) Failed (j + S n) (lg ++ pass_events (S j) (S n))
                  end).
        { intros b -> Hj. rewrite Hj, Hv', IH by (intros i Hi; apply Hev; lia).
          destruct (find_first jconvk (S (S j)) n) as [k0|] eqn:EF.
          - apply find_first_some in EF as (Hr & _ & _).
            replace (k0 - j)%nat with (S (k0 - S j)) by lia. rewrite pass_events_S.
            destruct (afterk k0 (st_after k0)) as [v'' [c|]]; rewrite <- !app_assoc; reflexivity.
          - rewrite pass_events_S. rewrite <- app_assoc. replace (S j + n)%nat with (j + S n)%nat by lia. reflexivity. }
        destruct (all_finite (chkseq j)) eqn:Fp; cbn [negb].
        + destruct (all_finite (chkseq (S j))) eqn:Fc; cbn [negb].
          * destruct (Z.of_nat (S j) <? min_iter o) eqn:Emin.
            -- apply (Hcont false eq_refl). unfold jconvk, SolverFacts.convk.
               replace (min_iter o <=? Z.of_nat (S j)) with false by lia. rewrite !andb_false_r. reflexivity.
            -- destruct (conv (tol o) (chkseq (S j)) (chkseq j)) eqn:Ec.
               ++ assert (Hj : jconvk (S j) = true).
                  { unfold jconvk, SolverFacts.convk. replace (S j - 1)%nat with j by lia.
                    rewrite Fp, Fc, Ec. replace (min_iter o <=? Z.of_nat (S j)) with true by lia. reflexivity. }
                  rewrite Hj. fold (SolverFacts.afterk num after o t (S j) v'). rewrite Hv'.
                  replace (S j - j)%nat with 1%nat by lia. cbn [SolverFacts.pass_events seq map].
                  destruct (afterk (S j) (st_after (S j))) as [v'' [c|]]; rewrite <- !app_assoc; reflexivity.
               ++ apply (Hcont false eq_refl). unfold jconvk, SolverFacts.convk. replace (S j - 1)%nat with j by lia.
                  rewrite Ec. rewrite !andb_false_r. reflexivity.
          * assert (Hj : jconvk (S j) = false).
            { unfold jconvk. rewrite Fc. rewrite andb_false_r. reflexivity. }
            rewrite Hign. destruct n as [|n'].
            -- rewrite Hj. cbn [find_first SolverFacts.pass_events seq map]. rewrite Hv'.
               replace (j + 1)%nat with (S j) by lia. reflexivity.
            -- apply (Hcont false eq_refl Hj).
        + apply (Hcont false eq_refl). unfold jconvk. replace (S j - 1)%nat with j by lia. rewrite Fp. reflexivity.
    Qed.
  End OnePeriod.

  (* ---- statuses the loop can produce, for ALL oracles, options and stores ---- *)
  Lemma loop_done_status d o t p : forall n k v cur lg v' x k' lg',
    loop d o t p n k v cur lg = LDone v' x k' lg' ->
    x = Solved \/ x = Failed \/ (x = Skipped /\ errors o = ESkip).
  Proof.
    induction n as [|n IH]; intros k v cur lg v' x k' lg' H; cbn [Solver.loop] in H.
    - inversion H; subst. auto.
    - destruct (ev t (errors o) (catch_first o) k v) as [v2 [c|]]; [discriminate|].
      destruct (negb (all_finite cur)); [eapply IH; exact H|].
      destruct (negb (all_finite (get_check d v2 p))).
      + destruct (errors o) eqn:Ee; try discriminate.
        * inversion H; subst. auto.
        * destruct n; [inversion H; subst; auto | eapply IH; exact H].
        * destruct n; [inversion H; subst; auto | eapply IH; exact H].
      + destruct (Z.of_nat k <? min_iter o); [eapply IH; exact H|].
        destruct (conv (tol o) (get_check d v2 p) cur); [|eapply IH; exact H].
        destruct (after t (errors o) (catch_first o) k v2) as [v3 [c|]]; [discriminate|].
        inversion H; subst. auto.
  Qed.

  Lemma loop_raise_cases d o t p : forall n k v cur lg v' wr e lg',
    loop d o t p n k v cur lg = LRaise v' wr e lg' ->
    (wr = None \/ exists k', wr = Some (ErrorSt, k') /\ errors o = ERaise) /\
    (e = ValueError \/ exists c, e = SolutionError c).
  Proof.
    induction n as [|n IH]; intros k v cur lg v' wr e lg' H; cbn [Solver.loop] in H.
    - discriminate.
    - destruct (ev t (errors o) (catch_first o) k v) as [v2 [c|]].
      + inversion H; subst. split; [|right; eauto]. destruct (errors o); cbn; eauto.
      + destruct (negb (all_finite cur)); [eapply IH; exact H|].
        destruct (negb (all_finite (get_check d v2 p))).
        * destruct (errors o) eqn:Ee; try discriminate.
          -- inversion H; subst. split; [right; eauto | right; eauto].
          -- destruct n; [discriminate | eapply IH; exact H].
          -- destruct n; [discriminate | eapply IH; exact H].
          -- inversion H; subst. split; [left; reflexivity | left; reflexivity].
        * destruct (Z.of_nat k <? min_iter o); [eapply IH; exact H|].
          destruct (conv (tol o) (get_check d v2 p) cur); [|eapply IH; exact H].
          destruct (after t (errors o) (catch_first o) k v2) as [v3 [c|]]; [|discriminate].
          inversion H; subst. split; [left; reflexivity | right; eauto].
  Qed.

  (* the solved flag is True only for '.', and then '.' is what is recorded at t *)
  Theorem solved_flag_iff_dot d o t s s' b p :
    py_pos (length (status s)) t = Some p ->
    solve_t_M d o t s = (s', Ret b) ->
    exists x, nth_error (status s') p = Some x /\ b = st_eqb x Solved /\
              (x = Solved \/ x = Failed \/ (x = Skipped /\ errors o = ESkip)).
  Proof.
    intros Hp H. pose proof (py_pos_lt _ _ _ Hp) as Hlt. unfold Solver.solve_t_M in H.
    destruct (max_iter o <? min_iter o); [discriminate|]. rewrite Hp in H.
    destruct (negb (feasible d (length (status s)) p)); [discriminate|].
    match type of H with context [match ?pre with inl _ => _ | inr _ => _ end] => destruct pre as [v0|e] end; [|discriminate].
    destruct (is_raise (errors o) && negb (all_finite (get_check d v0 p))); [discriminate|].
    destruct (before t (errors o) (catch_first o) 0%nat v0) as [v1 [c|]]; [discriminate|].
    unfold Solver.finish in H.
    destruct (loop d o t p (Z.to_nat (max_iter o)) 1 v1 (get_check d v0 p) (log s ++ [EvBefore t])) as [v' x k lg|v' wr e lg] eqn:EL;
      [|discriminate].
    pose proof (loop_done_status _ _ _ _ _ _ _ _ _ _ _ _ _ EL) as Hx.
    destruct (st_eqb x Failed && fail_raise o); [discriminate|].
    inversion H; subst. exists x. cbn [status stamp]. split; [apply nth_error_upd_eq; exact Hlt|]. split; [reflexivity|exact Hx].
  Qed.

  (* every exception solve_t can raise, and what it has recorded at t when it does *)
  Theorem raise_classes d o t s s' e p :
    py_pos (length (status s)) t = Some p ->
    solve_t_M d o t s = (s', Raise e) ->
    (e = ValueError \/ e = IndexError \/ e = NonConvergenceError \/ exists c, e = SolutionError c) /\
    (forall x, nth_error (status s') p = Some x ->
       Some x = nth_error (status s) p \/ (x = ErrorSt /\ errors o = ERaise) \/ (x = Failed /\ e = NonConvergenceError)).
  Proof.
    intros Hp H. pose proof (py_pos_lt _ _ _ Hp) as Hlt. unfold Solver.solve_t_M in H.
    destruct (max_iter o <? min_iter o); [inversion H; subst; split; auto|]. rewrite Hp in H.
    destruct (negb (feasible d (length (status s)) p)); [inversion H; subst; split; auto|].
    match type of H with context [match ?pre with inl _ => _ | inr _ => _ end] => destruct pre as [v0|e0] eqn:Epre end.
    2:{ inversion H; subst. split; [|auto].
        destruct (offset o =? 0); [discriminate|].
        destruct (Z.of_nat p + offset o <? 0); [inversion Epre; auto|].
        destruct (Z.of_nat (length (status s')) <=? Z.of_nat p + offset o); [inversion Epre; auto|discriminate]. }
    destruct (is_raise (errors o) && negb (all_finite (get_check d v0 p))).
    { inversion H; subst. cbn [status with_vals]. split; [right; right; right; eauto|auto]. }
    destruct (before t (errors o) (catch_first o) 0%nat v0) as [v1 [c|]].
    { inversion H; subst. cbn [status with_vals]. split; [right; right; right; eauto|auto]. }
    unfold Solver.finish in H.
    destruct (loop d o t p (Z.to_nat (max_iter o)) 1 v1 (get_check d v0 p) (log s ++ [EvBefore t])) as [v' x k lg|v' wr e' lg] eqn:EL.
    - destruct (st_eqb x Failed && fail_raise o) eqn:Ef; [|discriminate].
      inversion H; subst. cbn [status stamp]. split; [auto|].
      intros x' Hx'. rewrite nth_error_upd_eq in Hx' by exact Hlt. inversion Hx'; subst.
      apply andb_true_iff in Ef as [Ef _]. destruct x'; try discriminate. auto.
    - pose proof (loop_raise_cases _ _ _ _ _ _ _ _ _ _ _ _ _ EL) as (Hwr & He).
      inversion H; subst. split.
      + destruct He as [->|[c ->]]; eauto.
      + intros x Hx. destruct Hwr as [->|(k' & -> & Hr)].
        * cbn [status with_vals] in Hx. auto.
        * cbn [status stamp] in Hx. rewrite nth_error_upd_eq in Hx by exact Hlt. inversion Hx; subst. auto.
  Qed.

  (* ---------------- top level: the C06 clauses ---------------- *)
  Section Top.
    Variables (d : mdesc) (o : opts num) (t : Z) (s : mstate num) (p : nat) (v1 : vals num).
    Hypothesis Hmm : min_iter o <= max_iter o.
    Hypothesis Hp : py_pos (length (status s)) t = Some p.
    Hypothesis Hfeas : feasible d (length (status s)) p = true.
    Hypothesis Hoff : offset o = 0.
    Let c0 := get_check d (vals_of s) p.
    Let N := Z.to_nat (max_iter o).

    (* pre-existing non-finite check values under 'raise': rejected before any pass or hook, nothing changes *)
    Theorem preexisting_nonfinite_rejected :
      errors o = ERaise -> all_finite c0 = false ->
      solve_t_M d o t s = (mkState (vals_of s) (status s) (iters s) (log s), Raise (SolutionError None)).
    Proof.
      intros He Hnf. unfold Solver.solve_t_M. replace (max_iter o <? min_iter o) with false by lia.
      rewrite Hp, Hfeas, Hoff. cbn [Z.eqb negb]. fold c0. rewrite He, Hnf. reflexivity.
    Qed.

    (* an exception in the pre-hook: SolutionError chained to it, no status / iteration recorded *)
    Theorem before_exception_surfaces v' c :
      is_raise (errors o) && negb (all_finite c0) = false ->
      before t (errors o) (catch_first o) 0%nat (vals_of s) = (v', Some c) ->
      solve_t_M d o t s = (mkState v' (status s) (iters s) (log s ++ [EvBefore t]), Raise (SolutionError (Some c))).
    Proof.
      intros Hpre Hb. unfold Solver.solve_t_M. replace (max_iter o <? min_iter o) with false by lia.
      rewrite Hp, Hfeas, Hoff. cbn [Z.eqb negb]. fold c0. rewrite Hpre, Hb. reflexivity.
    Qed.

    Hypothesis Hpre : is_raise (errors o) && negb (all_finite c0) = false.
    Hypothesis Hb : before t (errors o) (catch_first o) 0%nat (vals_of s) = (v1, None).

    (* first non-finite pass k+1 (k quiet passes before it, k+1 <= max_iter) *)
    Theorem first_nonfinite_policy k :
      (S k <= N)%nat ->
      quiet d o t p c0 v1 k ->
      snd (evk num ev o t (S k) (st_after num ev o t v1 k)) = None ->
      all_finite (chkseq num zero ev d o t p c0 v1 (S k)) = false ->
      let lg' := log s ++ [EvBefore t] ++ pass_events t 1 (S k) in
      let v' := st_after num ev o t v1 (S k) in
      match errors o with
      | ERaise => solve_t_M d o t s =
                  (mkState v' (upd p ErrorSt (status s)) (upd p (Z.of_nat (S k)) (iters s)) lg', Raise (SolutionError None))
      | ESkip => solve_t_M d o t s =
                 (mkState v' (upd p Skipped (status s)) (upd p (Z.of_nat (S k)) (iters s)) lg', Ret false)
      | EInvalid => solve_t_M d o t s = (mkState v' (status s) (iters s) lg', Raise ValueError)
      | EIgnore | EReplace =>
          (* keeps iterating: never 'E' or 'S', never a SolutionError for the non-finite value itself *)
          S k = N ->
          solve_t_M d o t s =
          (mkState v' (upd p Failed (status s)) (upd p (Z.of_nat (S k)) (iters s)) lg',
           if fail_raise o then Raise NonConvergenceError else Ret false)
      end.
    Proof.
      intros Hk Hq Hs Hnf lg' v'.
      rewrite (solve_t_M_run d o t s p v1 Hmm Hp Hfeas Hoff Hpre Hb). fold c0 N.
      replace N with (k + S (N - S k))%nat by lia.
      rewrite (loop_first_nonfinite d o t p c0 v1 k (N - S k) _ Hq Hs Hnf). cbv zeta.
      subst lg' v'. rewrite <- !app_assoc.
      destruct (errors o) eqn:Ee; cbn [Solver.finish stamp with_vals st_eqb andb]; try reflexivity.
      - intros HN. replace (N - S k)%nat with 0%nat by lia. cbn [Solver.finish stamp st_eqb andb].
        destruct (fail_raise o); reflexivity.
      - intros HN. replace (N - S k)%nat with 0%nat by lia. cbn [Solver.finish stamp st_eqb andb].
        destruct (fail_raise o); reflexivity.
    Qed.

    (* an exception inside evaluation pass k+1: SolutionError chained to it; 'E' and the pass number iff errors='raise' *)
    Theorem ev_exception_surfaces k v' c :
      (S k <= N)%nat ->
      quiet d o t p c0 v1 k ->
      evk num ev o t (S k) (st_after num ev o t v1 k) = (v', Some c) ->
      solve_t_M d o t s =
      (if is_raise (errors o)
       then mkState v' (upd p ErrorSt (status s)) (upd p (Z.of_nat (S k)) (iters s)) (log s ++ [EvBefore t] ++ pass_events t 1 (S k))
       else mkState v' (status s) (iters s) (log s ++ [EvBefore t] ++ pass_events t 1 (S k)),
       Raise (SolutionError (Some c))).
    Proof.
      intros Hk Hq E.
      rewrite (solve_t_M_run d o t s p v1 Hmm Hp Hfeas Hoff Hpre Hb). fold c0 N.
      replace N with (k + S (N - S k))%nat by lia.
      rewrite (loop_ev_raises d o t p c0 v1 k (N - S k) _ v' c Hq E). rewrite <- !app_assoc.
      destruct (is_raise (errors o)); reflexivity.
    Qed.

    (* errors = 'ignore': the period ends '.' at the first JUDGED converging pass, else 'F' at max_iter *)
    Theorem ignore_policy :
      errors o = EIgnore ->
      (forall i, (1 <= i <= N)%nat -> snd (evk num ev o t i (st_after num ev o t v1 (i - 1))) = None) ->
      solve_t_M d o t s =
      match find_first (jconvk d o t p c0 v1) 1 N with
      | Some k0 =>
          match afterk num after o t k0 (st_after num ev o t v1 k0) with
          | (v'', Some c) =>
              (mkState v'' (status s) (iters s) (log s ++ [EvBefore t] ++ pass_events t 1 k0 ++ [EvAfter t k0]),
               Raise (SolutionError (Some c)))
          | (v'', None) =>
              (mkState v'' (upd p Solved (status s)) (upd p (Z.of_nat k0) (iters s))
                       (log s ++ [EvBefore t] ++ pass_events t 1 k0 ++ [EvAfter t k0]), Ret true)
          end
      | None =>
          (mkState (st_after num ev o t v1 N) (upd p Failed (status s)) (upd p (Z.of_nat N) (iters s))
                   (log s ++ [EvBefore t] ++ pass_events t 1 N),
           if fail_raise o then Raise NonConvergenceError else Ret false)
      end.
    Proof.
      intros Hign Hev.
      rewrite (solve_t_M_run d o t s p v1 Hmm Hp Hfeas Hoff Hpre Hb). fold c0 N.
      pose proof (loop_ignore_spec d o t p c0 v1 Hign N 0 (log s ++ [EvBefore t])) as HL.
      cbn [SolverFacts.st_after SolverFacts.chkseq] in HL. rewrite HL by (intros i Hi; apply Hev; lia). clear HL.
      destruct (find_first _ 1 N) as [k0|].
      - replace (k0 - 0)%nat with k0 by lia.
        destruct (afterk num after o t k0 (st_after num ev o t v1 k0)) as [v'' [c|]];
          cbn [Solver.finish stamp with_vals st_eqb andb]; rewrite <- !app_assoc; reflexivity.
      - cbn [Solver.finish stamp st_eqb andb Nat.add]. rewrite <- !app_assoc. destruct (fail_raise o); reflexivity.
    Qed.
  End Top.

End Facts2.
