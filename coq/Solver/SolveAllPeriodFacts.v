(* SolveAllPeriodFacts.v — what solve() / solve_period() make of PeriodIndex lookups (full labels, year strings). *)
From Coq Require Import ZArith List Bool Lia.
Import ListNotations.
Require Import PyBase Solver SolverFacts SolveAll SolveAllFacts SolveAllSpan SolveAllSpanFacts SolveAllPeriod.
Open Scope Z_scope.

(* full labels (Period objects or full strings) of an index without repeats resolve to their own positions *)
Theorem locate_qindex_ok span : NoDup span -> (forall z, In z span -> 0 <= z) -> locate_ok Z (locate_qindex span) span.
Proof.
  intros Hnd Hpos i x Hx. unfold locate_qindex.
  replace (x <? 0) with false by (symmetry; apply Z.ltb_ge; apply Hpos; exact (nth_error_In _ _ Hx)).
  exact (locate_getloc_ok span Hnd i x Hx).
Qed.

(* a year string never resolves to a single position: a slice when some quarter of that year is in the index (one or several),
   KeyError when none is *)
Theorem locate_qindex_year span y : 0 < y ->
  locate_qindex span (year_key y) = if existsb (fun z => year_of z =? y) span then LOther else LFail.
Proof.
  intros Hy. unfold locate_qindex, year_key. replace (- y <? 0) with true by (symmetry; apply Z.ltb_lt; lia).
  replace (- - y) with y by lia. reflexivity.
Qed.
Corollary locate_qindex_year_not_int span y : 0 < y -> is_int (locate_qindex span (year_key y)) = false.
Proof. intros Hy. rewrite (locate_qindex_year span y Hy). destruct (existsb _ span); reflexivity. Qed.

(* a full label that is not in the index: KeyError from the lookup *)
Theorem locate_qindex_unknown span z : 0 <= z -> ~ In z span -> locate_qindex span z = LFail.
Proof.
  intros Hz Hn. unfold locate_qindex. replace (z <? 0) with false by (symmetry; apply Z.ltb_ge; exact Hz).
  unfold locate_getloc. rewrite (count_of_absent span z Hn). reflexivity.
Qed.

Section PeriodSolve.
  Variable num : Type.
  Variables (sub : num -> num -> num) (absf : num -> num) (ltb : num -> num -> bool)
            (isfin : num -> bool) (zero : num).
  Variables (ev before after : hook num).
  Notation solve_t_M := (solve_t_M num sub absf ltb isfin zero ev before after).
  Notation run_periods := (run_periods num sub absf ltb isfin zero ev before after Z).
  Notation solve_M span := (solve_M num sub absf ltb isfin zero ev before after Z (locate_qindex span)).
  Notation solve_period_M span := (solve_period_M num sub absf ltb isfin zero ev before after Z (locate_qindex span)).

  (* solve(start='YYYY', ...) / solve(..., end='YYYY') / solve_period('YYYY') on a quarterly PeriodIndex: KeyError before
     anything is solved, whether the year matches several quarters, one quarter or none *)
  Theorem solve_year_start_keyerror span d o y end_ s :
    min_iter o <= max_iter o -> 0 < y -> solve_M span d o span (Some (year_key y)) end_ s = (s, Raise KeyError).
  Proof. intros Hmm Hy. apply solve_bad_start; [exact Hmm|exact (locate_qindex_year_not_int span y Hy)]. Qed.
  Theorem solve_year_end_keyerror span d o y start s :
    min_iter o <= max_iter o -> 0 < y -> solve_M span d o span start (Some (year_key y)) s = (s, Raise KeyError).
  Proof. intros Hmm Hy. apply solve_bad_end; [exact Hmm|exact (locate_qindex_year_not_int span y Hy)]. Qed.
  Theorem solve_period_year_keyerror span d o y s :
    0 < y -> solve_period_M span d o (year_key y) s = (s, Raise KeyError).
  Proof. intros Hy. apply solve_period_bad_label. exact (locate_qindex_year_not_int span y Hy). Qed.

  (* full labels: the fold over the positions, and solve_period = solve_t at the position *)
  Theorem solve_qindex span d o start end_ s a b :
    min_iter o <= max_iter o -> NoDup span -> (forall z, In z span -> 0 <= z) ->
    resolves_start Z d span start a -> resolves_end Z d span end_ b ->
    solve_M span d o span start end_ s =
    match run_periods d o (periods Z span a b) s [] with
    | (s', Ret vs) => (s', Ret (mkRes (S b - a) vs))
    | (s', Raise e) => (s', Raise e)
    end.
  Proof.
    intros Hmm Hnd Hpos Hs He.
    exact (solve_eq_fold num sub absf ltb isfin zero ev before after Z (locate_qindex span) d o span start end_ s a b Hmm
             (locate_qindex_ok span Hnd Hpos) Hs He).
  Qed.
  Theorem solve_period_qindex span d o lab i s :
    NoDup span -> (forall z, In z span -> 0 <= z) -> nth_error span i = Some lab ->
    solve_period_M span d o lab s = solve_t_M d o (Z.of_nat i) s.
  Proof.
    intros Hnd Hpos Hi.
    exact (solve_period_eq_solve_t num sub absf ltb isfin zero ev before after Z (locate_qindex span) d o span lab i s
             (locate_qindex_ok span Hnd Hpos) Hi).
  Qed.
End PeriodSolve.
