(* ContainerExamples.v — instances of the container theorems for the NumPy tables measured on this image,
   refutation witnesses for the two kept findings, and satisfiability of the theorems' hypotheses. *)
From Coq Require Import ZArith List Bool Lia String Ascii.
Import ListNotations.
Require Import PyBase Container ContainerFacts.
Open Scope string_scope.
Open Scope list_scope.
Open Scope nat_scope.

(* every operation of a closed history is in scope: decided by computation *)
Ltac scoped := repeat (constructor; try exact I; try (vm_compute; reflexivity)).

Definition li (l : list Z) : operand := OSeq KList (map (fun z => OScalar (PInt z)) l).

(* a container over periods 10,11,12 with an int64 series X = [1,2,3] and a float64 series F = [1.5,2,3] *)
Definition w0 : state :=
  np_run [AddVariable "X" (li [1; 2; 3]%Z) None;
          AddVariable "F" (OSeq KList [OScalar (PFlt (FHalf 3)); OScalar (PInt 2); OScalar (PInt 3)]) None]
         (init_vc [10; 11; 12]%Z false).

Example w0_series :
  index w0 = ["X"; "F"] /\
  assoc "X" (vars w0) = Some (mkVar DInt [3] [PInt 1; PInt 2; PInt 3]%Z) /\
  assoc "F" (vars w0) = Some (mkVar DFloat [3] [PFlt (FHalf 3); PFlt (FHalf 4); PFlt (FHalf 6)]%Z).
Proof. vm_compute. repeat split. Qed.

Example w0_inv : Inv w0.
Proof. apply reachable_inv; [scoped|apply inv_init_vc]. Qed.

(* the hypotheses of reachable_invD are satisfiable: a history with list, scalar and (consistent) ndarray operands *)
Example w0_invD :
  InvD (np_run [SetAttr "X" (OArr [3] DFloat [PFlt (FHalf 1); PFlt (FHalf 2); PFlt (FHalf 3)]%Z) None;
                SetItem (KSlice "F" (Some 10%Z) (Some 11%Z) None) (li [7; 8]%Z);
                SetAttr "values" (OArr [2; 3] DInt [PInt 1; PInt 2; PInt 3; PInt 4; PInt 5; PInt 6]%Z) None] w0).
Proof.
  apply reachable_invD.
  - repeat constructor.
  - scoped.
  - apply reachable_invD; [repeat constructor|scoped|apply invD_init_vc].
Qed.

(* ---- NumPy's casts raise only ValueError / TypeError / OverflowError *)
Lemma np_cast_classes py d v e :
  np_cast py d v = Raise e -> e = ValueError \/ e = TypeError \/ e = OverflowError.
Proof.
  destruct d; destruct v as [z|f|b|x|]; try destruct f; destruct py; simpl;
    try destruct (parse_half x); try destruct (parse_int x); repeat match goal with |- context [if ?c then _ else _] => destruct c end;
    intros H; inversion H; auto.
Qed.

(* text cells convert when they spell a number of the kind asked for; a cell that does not convert fails the WHOLE assignment
   (C09_failed_single_assignment_no_change): array(['13', '13.5', '7']) into an int series raises, the series keeps [1; 2; 3] *)
Example text_cells :
  np_cast false DFloat (PStr "1.5") = Ret (PFlt (FHalf 3)) /\ np_cast false DFloat (PStr "-3") = Ret (PFlt (FHalf (-6))) /\
  np_cast false DFloat (PStr "7.0") = Ret (PFlt (FHalf 14)) /\ np_cast false DFloat (PStr "n/a") = Raise ValueError /\
  np_cast false DInt (PStr "13") = Ret (PInt 13) /\ np_cast false DInt (PStr "13.5") = Raise ValueError /\
  np_step (SetAttr "X" (OArr [3] (DStr 4) [PStr "13"; PStr "13.5"; PStr "7"]) None) w0 = (w0, Raise ValueError) /\
  np_step (SetItem (KSlice "X" (Some 10%Z) (Some 11%Z) None) (OArr [2] (DStr 4) [PStr "13"; PStr "13.5"])) w0 = (w0, Raise ValueError) /\
  snd (np_step (SetAttr "X" (OArr [3] (DStr 2) [PStr "13"; PStr "-3"; PStr "7"]) None) w0) = Ret tt.
Proof. vm_compute. repeat split. Qed.

(* the NumPy tables of this image satisfy the three hypotheses *)
Theorem np_no_other_error o s : in_scope (kind s) o -> Inv s -> snd (np_step o s) <> Raise OtherError.
Proof.
  apply no_other_error.
  - intros d c C. apply np_cast_classes in C. destruct C as [C|[C|C]]; discriminate C.
  - intros src d c C. apply np_cast_classes in C. destruct C as [C|[C|C]]; discriminate C.
  - intros d. destruct d; discriminate.
Qed.

(* the read-only hooks on w0 *)
Example hooks_on_w0 :
  read QCompletions w0 = (w0, Ret (VNames ["X"; "F"])) /\
  read (QContains "F") w0 = (w0, Ret (VBool true)) /\ read (QContains "attributes") w0 = (w0, Ret (VBool false)) /\
  read QNbytes w0 = (w0, Ret (VNat 48)) /\
  read QDir w0 = (w0, Ret (VNames ["X"; "F"; "_attributes"; "span"; "index"; "_strict"])).
Proof. vm_compute. repeat split. Qed.

(* ---- the repaired defect (fix 5dde979): an element cast failing part-way through an in-place copy leaves the series as it was *)
Example in_place_assignments_are_atomic :
  np_step (SetItem (KSlice "X" (Some 10%Z) (Some 12%Z) None) (OSeq KList [OScalar (PInt 7); OScalar (PInt 8); OScalar (PFlt FNaN)])) w0
    = (w0, Raise ValueError) /\
  np_step (SetItem (KSlice "X" (Some 10%Z) (Some 11%Z) None) (OSeq KList [OScalar (PInt 8); OScalar PNone])) w0 = (w0, Raise TypeError) /\
  np_step (SetAttr "X" (OArr [3] DObj [PInt 7; PInt 8; PNone]%Z) None) w0 = (w0, Raise TypeError) /\
  np_step (SetAttr "X" (OSeq KList [OScalar (PInt 7); OScalar (PInt 8); OScalar (PFlt FNaN)]) None) w0 = (w0, Raise ValueError) /\
  (* ... and an assignment that goes through is what it was *)
  assoc "X" (vars (fst (np_step (SetItem (KSlice "X" (Some 10%Z) (Some 11%Z) None) (OSeq KList [OScalar (PInt 8); OScalar (PInt 9)])) w0)))
    = Some (mkVar DInt [3] [PInt 8; PInt 9; PInt 3]%Z).
Proof. vm_compute. repeat split. Qed.

(* ---- the repaired defect (fix 216fc36): obj[name, label] = v with `name` no variable is rejected, also for the names of the
   object's own bookkeeping ('attributes' -> _attributes, 'strict' -> _strict), whatever the label *)
Example unknown_name_item_assignments_rejected :
  np_step (SetItem (KLabel "attributes" 10%Z) (OScalar (PStr "zz"))) w0 = (w0, Raise KeyError) /\
  np_step (SetItem (KLabel "strict" 99%Z) (OScalar (PInt 1))) w0 = (w0, Raise KeyError) /\
  np_step (SetItem (KSlice "attributes" None None None) (li [1; 2; 3]%Z)) w0 = (w0, Raise KeyError) /\
  mem "attributes" (index w0) = false.
Proof. vm_compute. repeat split. Qed.

(* ---- the repaired defect (fix 3167e13): a nested list whose outer length equals the span is rejected *)
Example rank2_whole_series_rejected :
  np_step (SetAttr "X" (OSeq KList [li [1; 2]%Z; li [3; 4]%Z; li [5; 6]%Z]) None) w0 = (w0, Raise DimensionError).
Proof. vm_compute. reflexivity. Qed.

Example wrong_length_rejected :
  np_step (SetAttr "X" (li [1; 2]%Z) None) w0 = (w0, Raise DimensionError) /\
  np_step (AddVariable "N" (li [1; 2]%Z) (Some RFloat)) w0 = (w0, Raise DimensionError) /\
  np_step (AddVariable "X" (li [1; 2; 3]%Z) None) w0 = (w0, Raise DuplicateNameError) /\
  np_step (SetItem (KName "Q") (li [1; 2; 3]%Z)) w0 = (w0, Raise KeyError).
Proof. vm_compute. repeat split. Qed.

(* add_variable flattens regular nesting before the length test *)
Example add_variable_flattens :
  dtype_of (fst (np_step (AddVariable "N" (OSeq KList [li [1]%Z; li [2]%Z; li [3]%Z]) (Some RFloat)) w0)) "N" = Some DFloat /\
  snd (np_step (AddVariable "N" (OSeq KList [li [1; 2]%Z; li [3; 4]%Z; li [5; 6]%Z]) None) w0) = Raise DimensionError /\
  snd (np_step (AddVariable "N" (OSeq KList [li [1; 2]%Z; li [3]%Z]) None) w0) = Raise ValueError.
Proof. vm_compute. repeat split. Qed.

(* dtype is kept: a float into an int series is truncated, a string array into a float series is rejected *)
Example dtype_kept_examples :
  assoc "X" (vars (fst (np_step (SetAttr "X" (OScalar (PFlt (FHalf 5))) None) w0))) = Some (mkVar DInt [3] [PInt 2; PInt 2; PInt 2]%Z) /\
  snd (np_step (SetAttr "F" (OArr [3] (DStr 1) [PStr "a"; PStr "b"; PStr "c"]) None) w0) = Raise ValueError /\
  dtype_of (fst (np_step (SetAttr "F" (OArr [3] (DStr 1) [PStr "a"; PStr "b"; PStr "c"]) None) w0)) "F" = Some DFloat.
Proof. vm_compute. repeat split. Qed.

(* ---- bulk operations are applied up to the first failure *)
Example replace_values_partially_applied :
  let r := np_step (ReplaceValues [("F", OScalar (PInt 9)); ("X", li [1; 2]%Z)]) w0 in
  snd r = Raise DimensionError /\
  assoc "F" (vars (fst r)) = Some (mkVar DFloat [3] [PFlt (FHalf 18); PFlt (FHalf 18); PFlt (FHalf 18)]%Z) /\
  assoc "X" (vars (fst r)) = assoc "X" (vars w0).
Proof. vm_compute. repeat split. Qed.

Example values_setter_partially_applied :
  let r := np_step (SetAttr "values" (OScalar PNone) None) (np_run [AddVariable "X" (li [1; 2; 3]%Z) None] (np_run [AddVariable "G" (OScalar (PFlt (FHalf 1))) None] (init_vc [10; 11; 12]%Z false))) in
  snd r = Raise TypeError /\
  assoc "G" (vars (fst r)) = Some (mkVar DFloat [3] [PFlt FNaN; PFlt FNaN; PFlt FNaN]) /\
  assoc "X" (vars (fst r)) = Some (mkVar DInt [3] [PInt 1; PInt 2; PInt 3]%Z).
Proof. vm_compute. repeat split. Qed.

(* values_setter_array_content: hypotheses satisfiable; float rows into an int64 and a float64 series *)
Example values_setter_content_instance :
  let a := OArr [2; 3] DFloat [PFlt (FHalf 1); PFlt (FHalf 2); PFlt (FHalf 3); PFlt (FHalf 5); PFlt (FHalf 6); PFlt (FHalf 7)]%Z in
  NoDup (row_names w0) /\ InvD w0 /\
  values_setter np_pycast np_arrcast np_infer a w0 = (fst (values_setter np_pycast np_arrcast np_infer a w0), Ret tt) /\
  assoc "X" (vars (fst (values_setter np_pycast np_arrcast np_infer a w0))) = Some (mkVar DInt [3] [PInt 0; PInt 1; PInt 1]%Z) /\
  assoc "F" (vars (fst (values_setter np_pycast np_arrcast np_infer a w0))) = Some (mkVar DFloat [3] [PFlt (FHalf 5); PFlt (FHalf 6); PFlt (FHalf 7)]%Z).
Proof.
  split; [vm_compute; repeat constructor; simpl; intros C; repeat (destruct C as [C|C]; [discriminate C|]); exact C|].
  split; [apply reachable_invD; [repeat constructor|scoped|apply invD_init_vc]|].
  vm_compute. repeat split.
Qed.

(* ---- strict *)
Definition w_strict : state := fst (np_step (SetAttr "strict" (OScalar (PBool true)) None) w0).

Example strict_hypotheses_satisfiable :
  strict w_strict = true /\ is_property (kind w_strict) "Fx" = false /\ mem "Fx" (index w_strict) = false /\ reg_mem "Fx" (registry w_strict) = false /\
  np_step (SetAttr "Fx" (OScalar (PInt 1)) (Some "f")) w_strict = (w_strict, Raise AttributeError) /\
  alternatives (Some "f") (row_names w_strict) = ["F"] /\
  (* an existing series and add_variable still work *)
  snd (np_step (SetAttr "F" (OScalar (PInt 1)) None) w_strict) = Ret tt /\
  snd (np_step (AddVariable "N" (OScalar (PInt 1)) None) w_strict) = Ret tt.
Proof. vm_compute. repeat split. Qed.

(* ---- the repaired defect (fix 49a73ab): with strict=True the `values` replacement works (properties of the class pass the guard);
   a property without a setter is still refused by Python itself *)
Example values_setter_works_under_strict :
  strict w_strict = true /\ reg_mem "values" (registry w_strict) = false /\
  snd (np_step (SetAttr "values" (OScalar (PInt 6)) None) w_strict) = Ret tt /\
  assoc "X" (vars (fst (np_step (SetAttr "values" (OScalar (PInt 6)) None) w_strict))) = Some (mkVar DInt [3] [PInt 6; PInt 6; PInt 6]%Z) /\
  reg_mem "values" (registry (fst (np_step (SetAttr "values" (OScalar (PInt 6)) None) w_strict))) = true /\
  np_step (SetAttr "size" (OScalar (PInt 6)) None) w_strict = (w_strict, Raise AttributeError).
Proof. vm_compute. repeat split. Qed.

Example ambiguous_closest_match :
  let s := fst (np_step (SetAttr "strict" (OScalar (PBool true)) None)
                 (np_run [AddVariable "x" (OScalar (PInt 1)) None; AddVariable "X" (OScalar (PInt 1)) None] (init_vc [1; 2]%Z false))) in
  np_step (SetAttr "xx" (OScalar (PInt 1)) (Some "x")) s = (s, Raise NotImplementedError).
Proof. vm_compute. reflexivity. Qed.

(* ---- models: constructor, names / values / size *)
Definition m0 : res :=
  np_init_model CModel [2000; 2001; 2002]%Z false RFloat (OScalar (PFlt (FHalf 0))) ["Y"; "C"]
                [("C", li [1; 2; 3]%Z); ("Q", OScalar (PInt 5))].

Example m0_constructed :
  snd m0 = Ret tt /\ index (fst m0) = ["status"; "iterations"; "Y"; "C"] /\ names (fst m0) = ["Y"; "C"] /\
  dtype_of (fst m0) "status" = Some (DStr 1) /\ dtype_of (fst m0) "iterations" = Some DInt /\
  assoc "C" (vars (fst m0)) = Some (mkVar DFloat [3] [PFlt (FHalf 2); PFlt (FHalf 4); PFlt (FHalf 6)]%Z) /\
  values_shape (fst m0) = Ret [2; 3] /\ size_of (fst m0) = 6.
Proof. vm_compute. repeat split. Qed.

Example m0_inv : Inv (fst m0).
Proof.
  apply (inv_init_model_fst np_pycast np_arrcast np_infer np_astype_dt); [discriminate | vm_compute; reflexivity].
Qed.

Example strict_init_rejects_unlisted :
  snd (np_init_model CModel [1; 2]%Z true RFloat (OScalar (PFlt (FHalf 0))) ["Y"] [("Q", OScalar (PInt 5))]) = Raise InitialisationError /\
  snd (np_init_model CModel [1; 2]%Z false RFloat (OScalar (PFlt (FHalf 0))) ["Y"; "Y"] []) = Raise DuplicateNameError.
Proof. vm_compute. split; reflexivity. Qed.

(* ==== assignments to the object's own bookkeeping are OUTSIDE the property's operations: the hypothesis `in_scope` of the
   invariant theorems is necessary.  Each is accepted by the real object (also under strict=True: the names are registered). *)
Definition w_s : state := fst (np_step (SetAttr "strict" (OScalar (PBool true)) None) w0).

(* c.span = [1]: accepted; afterwards every series has 3 cells for a span of 1 period *)
Theorem span_assignment_needs_scope_refuted :
  exists s o, Inv s /\ strict s = true /\ ~ in_scope (kind s) o /\ snd (np_step o s) = Ret tt /\
    span (fst (np_step o s)) <> span s /\ ~ Inv (fst (np_step o s)).
Proof.
  exists w_s, (SetAttr "span" (li [1]%Z) None).
  split; [apply step_preserves_inv; [vm_compute; reflexivity|exact w0_inv]|].
  split; [vm_compute; reflexivity|]. split; [vm_compute; discriminate|]. split; [vm_compute; reflexivity|].
  split; [vm_compute; discriminate|].
  intros [[_ [_ HV]] _]. specialize (HV "X" (mkVar DInt [3] [PInt 1; PInt 2; PInt 3]%Z)). vm_compute in HV.
  specialize (HV eq_refl). discriminate HV.
Qed.

(* c.index = ['X', 'X'] / c.index = ['Q']: accepted; the index holds a name twice / a name without a series *)
Theorem index_assignment_needs_scope_refuted :
  exists s o, Inv s /\ ~ in_scope (kind s) o /\ snd (np_step o s) = Ret tt /\ ~ Inv (fst (np_step o s)).
Proof.
  exists w0, (SetAttr "index" (OSeq KList [OScalar (PStr "Q")]) None).
  split; [exact w0_inv|]. split; [vm_compute; discriminate|]. split; [vm_compute; reflexivity|].
  intros [[_ [HI _]] _]. apply (HI "Q"); [vm_compute; left; reflexivity|vm_compute; reflexivity].
Qed.

(* m.names = ['C']: accepted by a model; `values` then has 1 row although 2 variables were declared, `size` 3 instead of 6;
   m.dtype = int: accepted; add_variable without dtype then creates int64 series *)
Theorem names_assignment_needs_scope_refuted :
  exists s o, Inv s /\ ~ in_scope (kind s) o /\ snd (np_step o s) = Ret tt /\
    values_shape s = Ret [2; 3] /\ values_shape (fst (np_step o s)) = Ret [1; 3] /\ size_of (fst (np_step o s)) = 3.
Proof.
  exists (fst m0), (SetAttr "names" (OSeq KList [OScalar (PStr "C")]) None).
  split; [exact m0_inv|]. split; [vm_compute; discriminate|]. vm_compute. repeat split.
Qed.

Theorem dtype_assignment_needs_scope_refuted :
  exists s o, Inv s /\ ~ in_scope (kind s) o /\ snd (np_step o s) = Ret tt /\
    dtype_of (fst (np_step (AddVariable "N" (OScalar (PFlt (FHalf 3))) None) s)) "N" = Some DFloat /\
    dtype_of (fst (np_step (AddVariable "N" (OScalar (PFlt (FHalf 3))) None) (fst (np_step o s)))) "N" = Some DInt.
Proof.
  exists (fst m0), (SetAttr "dtype" (OScalar (PStr "int")) None).
  split; [exact m0_inv|]. split; [vm_compute; discriminate|]. vm_compute. repeat split.
Qed.

(* c._X = np.array([1., 2.]) (strict off, accepted): the series object of X itself is replaced by the caller's array - X then has 2
   cells of dtype float on a span of 3 periods although it was created with 3 int cells: length AND dtype are lost.
   (c._X = 5, something that is no array, is outside the model: OtherError) *)
Theorem underscore_assignment_needs_scope_refuted :
  exists s o, Inv s /\ ~ in_scope (kind s) o /\ snd (np_step o s) = Ret tt /\ span (fst (np_step o s)) = span s /\
    assoc "X" (vars s) = Some (mkVar DInt [3] [PInt 1; PInt 2; PInt 3]%Z) /\
    assoc "X" (vars (fst (np_step o s))) = Some (mkVar DFloat [2] [PFlt (FHalf 2); PFlt (FHalf 4)]%Z) /\
    ~ Inv (fst (np_step o s)).
Proof.
  exists w0, (SetAttr "_X" (OArr [2] DFloat [PFlt (FHalf 2); PFlt (FHalf 4)]%Z) None).
  split; [exact w0_inv|]. split; [vm_compute; discriminate|]. split; [vm_compute; reflexivity|]. split; [vm_compute; reflexivity|].
  split; [vm_compute; reflexivity|]. split; [vm_compute; reflexivity|].
  intros [[_ [_ HV]] _]. specialize (HV "X" (mkVar DFloat [2] [PFlt (FHalf 2); PFlt (FHalf 4)]%Z)). vm_compute in HV.
  specialize (HV eq_refl). discriminate HV.
Qed.

(* a linker keeps `submodels` and `name` in the same __dict__, neither registered in _attributes: l.submodels = {} (strict off) is
   accepted and `size` no longer counts the submodels (9 -> 3 for one variable on 3 periods and a submodel of 6 elements): the
   "kind" the span theorem keeps and size = rows * periods + extra of the values theorem both fail;
   l.name = 'A' (the id of a submodel: `size` then raises TypeError) is outside the model (OtherError) *)
Definition l0 : res :=
  np_init_model (CLinker 6) [2000; 2001; 2002]%Z false RFloat (OScalar (PFlt (FHalf 0))) ["G"] [].

Example l0_inv : Inv (fst l0).
Proof.
  apply (inv_init_model_fst np_pycast np_arrcast np_infer np_astype_dt); [discriminate | vm_compute; reflexivity].
Qed.

Theorem submodels_assignment_needs_scope_refuted :
  exists s o, Inv s /\ ~ in_scope (kind s) o /\ snd (np_step o s) = Ret tt /\
    size_of s = 9 /\ size_of (fst (np_step o s)) = 3 /\ kind (fst (np_step o s)) <> kind s /\
    snd (np_step (SetAttr "name" (OScalar (PStr "A")) None) s) = Raise OtherError /\
    ~ in_scope (kind s) (SetAttr "name" (OScalar (PStr "A")) None).
Proof.
  exists (fst l0), (SetAttr "submodels" (OSeq KList []) None).
  split; [exact l0_inv|]. split; [vm_compute; discriminate|]. vm_compute. repeat split; discriminate.
Qed.

(* ---- the repaired defect (fix cf99a8a): a sub-array dtype ('2f8') adds a dimension: refused, nothing changes *)
Example subarray_dtype_rejected_np :
  np_step (AddVariable "N" (OScalar (PInt 0)) (Some RSub)) w0 = (w0, Raise DimensionError) /\
  np_step (AddVariable "N" (li [1; 2; 3]%Z) (Some RSub)) w0 = (w0, Raise DimensionError) /\
  snd (np_init_model CModel [1; 2; 3]%Z false RSub (OScalar (PFlt (FHalf 0))) ["Y"] []) = Raise DimensionError /\
  (let m := np_init_model CModel [1; 2; 3]%Z false RSub (OScalar (PFlt (FHalf 0))) [] [] in
   snd m = Ret tt /\ np_step (AddVariable "N" (OScalar (PInt 0)) None) (fst m) = (fst m, Raise DimensionError) /\
   snd (np_step (AddVariable "N" (OScalar (PInt 0)) (Some RFloat)) (fst m)) = Ret tt).
Proof. vm_compute. repeat split. Qed.

(* ---- the repaired defect (fix d82b358): add_variable refuses a name whose storage key is taken *)
Example reserved_names_rejected :
  np_step (AddVariable "attributes" (OScalar (PInt 0)) None) w0 = (w0, Raise DuplicateNameError) /\
  np_step (AddVariable "strict" (li [1; 0; 1]%Z) None) w0 = (w0, Raise DuplicateNameError) /\
  (let s := fst (np_step (SetAttr "_q" (OScalar (PInt 1)) None) w0) in
   np_step (AddVariable "q" (OScalar (PInt 0)) None) s = (s, Raise DuplicateNameError)) /\
  snd (np_step (AddVariable "span" (OScalar (PInt 0)) None) w0) = Ret tt.
Proof. vm_compute. repeat split. Qed.

(* the hypotheses of strict_creates_nothing are satisfiable: strict=True, an item assignment and a values replacement *)
Example strict_creates_nothing_instances :
  let s := fst (np_step (SetAttr "strict" (OScalar (PBool true)) None) (fst (np_step (SetAttr "values" (OScalar (PInt 5)) None) w0))) in
  strict s = true /\
  registry (fst (np_step (SetItem (KLabel "X" 10%Z) (OScalar (PInt 1))) s)) = registry s /\
  registry (fst (np_step (SetAttr "values" (OScalar (PInt 6)) None) s)) = registry s /\
  np_step (SetAttr "fooo" (OScalar (PInt 1)) None) s = (s, Raise AttributeError).
Proof. vm_compute. repeat split. Qed.
