(* AliasExamples.v — instances of the alias theorems (hypotheses satisfiable, non-trivially), and the refutation witness
   of the kept finding (an alias named like an existing variable). *)
From Coq Require Import ZArith List Bool Lia String Ascii.
Import ListNotations.
Require Import PyBase Container ContainerFacts Alias AliasFacts.
Open Scope string_scope.
Open Scope list_scope.
Open Scope nat_scope.

Definition fl0 : operand := OScalar (PFlt (FHalf 0)).
Definition ints (l : list Z) : operand := OSeq KList (map (fun z => OScalar (PInt z)) l).

(* ---- a chain of length 3 (A -> B -> C -> X), a second alias of X, a self-map: accepted, every alias points at X *)
Definition AL3 : amap_t := [("A", "B"); ("B", "C"); ("Q", "Q"); ("C", "X"); ("D", "X"); ("y", "Y")].

Example chain3_constructed :
  alias_construct AL3 ["A"; "y"] =
    Ret (mkAobj [("A", "X"); ("B", "X"); ("C", "X"); ("D", "X"); ("y", "Y")] ["A"; "y"]).
Proof. vm_compute. reflexivity. Qed.

Example chain3_hypotheses :
  NoDup (akeys AL3) /\
  (forall k, In k (akeys (drop_self AL3)) ->
             ~ In (follow (length (drop_self AL3)) (drop_self AL3) k) (akeys (drop_self AL3))) /\
  follow (length AL3) AL3 "A" = "X" /\ follow (length AL3) AL3 "Q" = "Q" /\ follow (length AL3) AL3 "Y" = "Y".
Proof.
  split; [|split].
  - vm_compute. repeat constructor; simpl; intros C; repeat (destruct C as [C|C]; [discriminate C|]); exact C.
  - intros k H. vm_compute in H.
    repeat (destruct H as [<-|H]; [vm_compute; intros C; repeat (destruct C as [C|C]; [discriminate C|]); exact C|]).
    contradiction.
  - vm_compute. repeat split.
Qed.

Definition am3 : aobj := mkAobj [("A", "X"); ("B", "X"); ("C", "X"); ("D", "X"); ("y", "Y")] ["A"; "y"].

Example am3_wf : WFam am3 /\ NoDup (akeys (amap am3)).
Proof.
  split; [split|].
  - vm_compute. reflexivity.
  - vm_compute. repeat constructor; simpl; intros C; repeat (destruct C as [C|C]; [discriminate C|]); exact C.
  - vm_compute. repeat constructor; simpl; intros C; repeat (destruct C as [C|C]; [discriminate C|]); exact C.
Qed.

(* ---- cycles are rejected (fix adac991); the hypothesis of shorten_cyclic is satisfiable *)
Definition CYC : amap_t := [("X", "Y"); ("Y", "X"); ("A", "Z")].

Example cycle_rejected :
  alias_construct CYC [] = Raise InitialisationError /\
  alias_construct [("Y", "Y")] [] = Ret (mkAobj [] []) /\
  alias_construct [("X", "Y"); ("Y", "Z"); ("Z", "X")] [] = Raise InitialisationError.
Proof. vm_compute. repeat split. Qed.

Example cycle_hypothesis :
  In "X" (akeys (drop_self CYC)) /\ forall n, In (follow n (drop_self CYC) "X") (akeys (drop_self CYC)).
Proof.
  split; [vm_compute; left; reflexivity|].
  assert (H : forall n, (follow n (drop_self CYC) "X" = "X" \/ follow n (drop_self CYC) "X" = "Y") /\
                        (follow n (drop_self CYC) "Y" = "X" \/ follow n (drop_self CYC) "Y" = "Y")).
  { induction n as [|n [IHx IHy]]; [split; [left|right]; reflexivity|].
    split; [exact IHy|exact IHx]. }
  intros n. destruct (H n) as [[E|E] _]; rewrite E; vm_compute; auto.
Qed.

(* ---- ambiguous preferences are rejected at construction *)
Example ambiguous_preferences_rejected :
  alias_construct [("A", "X"); ("B", "X")] ["A"; "B"] = Raise ValueError /\
  alias_construct [("A", "X")] ["A"; "X"] = Raise ValueError /\
  alias_construct [("A", "B"); ("B", "X")] ["X"; "A"] = Raise ValueError /\
  alias_construct [("A", "X"); ("B", "X")] ["B"] = Ret (mkAobj [("A", "X"); ("B", "X")] ["B"]).
Proof. vm_compute. repeat split. Qed.

(* ---- an aliased model: X, Y, Z over 3 periods; constructor keywords through aliases *)
Definition mA : res :=
  alias_init_model [] am3 CModel [2000; 2001; 2002]%Z false RFloat fl0 ["X"; "Y"; "Z"]
                   [("B", ints [1; 2; 3]%Z); ("Z", OScalar (PInt 7)); ("X", ints [4; 5; 6]%Z)].

Example mA_constructed :
  snd mA = Ret tt /\ index (fst mA) = ["status"; "iterations"; "X"; "Y"; "Z"] /\
  (* B and X name the same variable: the later keyword wins, no second series *)
  assoc "X" (vars (fst mA)) = Some (mkVar DFloat [3] [PFlt (FHalf 8); PFlt (FHalf 10); PFlt (FHalf 12)]%Z) /\
  assoc "B" (vars (fst mA)) = None /\ assoc "A" (vars (fst mA)) = None.
Proof. vm_compute. repeat split. Qed.

Lemma mA_plain : mA = np_init_model CModel [2000; 2001; 2002]%Z false RFloat fl0 ["X"; "Y"; "Z"] (resolve_kwargs am3
                       [("B", ints [1; 2; 3]%Z); ("Z", OScalar (PInt 7)); ("X", ints [4; 5; 6]%Z)]).
Proof. vm_compute. reflexivity. Qed.

Example mA_inv : Inv (fst mA).
Proof.
  rewrite mA_plain.
  apply (inv_init_model_fst np_pycast np_arrcast np_infer np_astype_dt); [discriminate | vm_compute; reflexivity].
Qed.

(* writes through the far end of the chain land in X; reads through any name of X agree *)
Example chain_write_read :
  let s1 := fst (alias_step am3 (SetItem (KLabel "A" 2001%Z) (OScalar (PInt 9))) (fst mA)) in
  let s2 := fst (alias_step am3 (SetAttr "D" (ints [1; 1; 1]%Z) None) s1) in
  let s3 := fst (alias_step am3 (ReplaceValues [("y", OScalar (PInt 2)); ("C", OScalar (PInt 3))]) s2) in
  assoc "X" (vars s1) = Some (mkVar DFloat [3] [PFlt (FHalf 8); PFlt (FHalf 18); PFlt (FHalf 12)]%Z) /\
  alias_getitem am3 (KName "B") s2 = Ret [PFlt (FHalf 2); PFlt (FHalf 2); PFlt (FHalf 2)]%Z /\
  alias_getitem am3 (KLabel "X" 2000%Z) s3 = Ret [PFlt (FHalf 6)]%Z /\
  alias_getattr_var am3 "y" s3 = Ret [PFlt (FHalf 4); PFlt (FHalf 4); PFlt (FHalf 4)]%Z /\
  map fst (vars s3) = map fst (vars (fst mA)).
Proof. vm_compute. repeat split. Qed.

(* ---- export: the preferred alias A for X, the preferred alias y for Y, Z has no alias *)
Example export_renames_only :
  export am3 (fst mA) = Ret [("A", "X"); ("y", "Y"); ("Z", "Z"); ("status", "status"); ("iterations", "iterations")] /\
  export (mkAobj (amap am3) []) (fst mA) = Ret [("D", "X"); ("y", "Y"); ("Z", "Z"); ("status", "status"); ("iterations", "iterations")] /\
  NoDup (base_columns (fst mA)) /\
  (forall c, In c (base_columns (fst mA)) -> ~ In c (akeys (amap am3))).
Proof.
  split; [vm_compute; reflexivity|]. split; [vm_compute; reflexivity|]. split.
  - vm_compute. repeat constructor; simpl; intros C; repeat (destruct C as [C|C]; [discriminate C|]); exact C.
  - intros c H. vm_compute in H.
    repeat (destruct H as [<-|H]; [vm_compute; intros C; repeat (destruct C as [C|C]; [discriminate C|]); exact C|]).
    contradiction.
Qed.

(* ---- the repaired defect (fix 4e03fd0): an alias named like a variable, like an attribute of the object, or like the status column
   is refused by the constructor *)
Example clashing_aliases_rejected :
  snd (alias_init_model [] (mkAobj [("Z", "Y")] []) CModel [2000; 2001; 2002]%Z false RFloat fl0 ["X"; "Y"; "Z"] []) = Raise InitialisationError /\
  snd (alias_init_model [] (mkAobj [("lags", "X")] []) CModel [2000; 2001; 2002]%Z false RFloat fl0 ["X"; "Y"; "Z"] []) = Raise InitialisationError /\
  snd (alias_init_model [] (mkAobj [("status", "X")] []) CModel [2000; 2001; 2002]%Z false RFloat fl0 ["X"; "Y"; "Z"] []) = Raise InitialisationError /\
  snd (alias_init_model ["solve"] (mkAobj [("solve", "X")] []) CModel [2000; 2001; 2002]%Z false RFloat fl0 ["X"; "Y"; "Z"] []) = Raise InitialisationError /\
  snd (alias_init_model ["solve"] (mkAobj [("A", "X")] []) CModel [2000; 2001; 2002]%Z false RFloat fl0 ["X"; "Y"; "Z"] []) = Ret tt.
Proof. vm_compute. repeat split. Qed.

(* ---- kept finding: the one door left open - add_variable (not wrapped by the mixin) accepts the name of an alias AFTER
   construction; the new variable A is then unreachable by name (m['A'] is X) and exported twice under the title A *)
Theorem add_variable_alias_name_refuted :
  exists am s o l,
    WFam am /\ NoDup (akeys (amap am)) /\ Inv s /\ In "A" (akeys (amap am)) /\ o = AddVariable "A" (OScalar (PInt 9)) None /\
    snd (alias_step am o s) = Ret tt /\
    export am (fst (alias_step am o s)) = Ret l /\
    ~ NoDup (map fst l) /\
    alias_getitem am (KName "A") (fst (alias_step am o s)) = alias_getitem am (KName "X") (fst (alias_step am o s)).
Proof.
  exists am3, (fst mA), (AddVariable "A" (OScalar (PInt 9)) None).
  eexists. split; [exact (proj1 am3_wf)|]. split; [exact (proj2 am3_wf)|]. split; [exact mA_inv|].
  split; [vm_compute; left; reflexivity|]. split; [reflexivity|]. split; [vm_compute; reflexivity|].
  split; [vm_compute; reflexivity|]. split; [|vm_compute; reflexivity].
  vm_compute. intros ND. inversion ND as [|? ? H1 ND1]; subst. apply H1. simpl. auto 10.
Qed.

(* ---- kept finding, the same door through add_attribute (not wrapped by the mixin either; accepted under strict=True as well):
   m.add_attribute('A', 99) stores an entry under the ALIAS name - m.A then reads that entry (99; Python finds the instance
   attribute before __getattr__ is asked) while m['A'] is X, and m.A = 5 overwrites X while the entry A stays 99 *)
Theorem add_attribute_alias_name_refuted :
  exists am s o,
    WFam am /\ NoDup (akeys (amap am)) /\ Inv s /\ In "A" (akeys (amap am)) /\ o = AddAttribute "A" (OScalar (PInt 99)) /\
    snd (alias_step am o s) = Ret tt /\
    (let s1 := fst (alias_step am o s) in
     assoc "A" (adict s1) = Some (OScalar (PInt 99)) /\
     alias_getitem am (KName "A") s1 = alias_getitem am (KName "X") s1 /\
     let s2 := fst (alias_step am (SetAttr "A" (OScalar (PInt 5)) None) s1) in
     snd (alias_step am (SetAttr "A" (OScalar (PInt 5)) None) s1) = Ret tt /\
     assoc "A" (adict s2) = Some (OScalar (PInt 99)) /\
     alias_getitem am (KName "X") s2 = Ret [PFlt (FHalf 10); PFlt (FHalf 10); PFlt (FHalf 10)]%Z /\
     alias_getitem am (KName "X") s2 <> alias_getitem am (KName "X") s1).
Proof.
  exists am3, (fst mA), (AddAttribute "A" (OScalar (PInt 99))).
  split; [exact (proj1 am3_wf)|]. split; [exact (proj2 am3_wf)|]. split; [exact mA_inv|].
  split; [vm_compute; left; reflexivity|]. split; [reflexivity|]. split; [vm_compute; reflexivity|].
  vm_compute. repeat split. discriminate.
Qed.

(* ---- kept finding (same family): an alias named like a constructor keyword that is no attribute of the object passes the clash
   check; M(span, default_value=5) then silently becomes M(span, X=5): X is 5, Y keeps 0.0, where the class without that alias
   fills both with 5 *)
Theorem alias_named_like_keyword_refuted :
  exists am,
    amap am = [("default_value", "X")] /\
    (let r := keyword_call [] am CModel [10; 11; 12]%Z false RFloat ["X"; "Y"] [("default_value", OScalar (PInt 5))] in
     let r0 := keyword_call [] (mkAobj [] []) CModel [10; 11; 12]%Z false RFloat ["X"; "Y"] [("default_value", OScalar (PInt 5))] in
     snd r = Ret tt /\ snd r0 = Ret tt /\
     getitem (KName "X") (fst r) = Ret [PFlt (FHalf 10); PFlt (FHalf 10); PFlt (FHalf 10)]%Z /\
     getitem (KName "Y") (fst r) = Ret [PFlt (FHalf 0); PFlt (FHalf 0); PFlt (FHalf 0)]%Z /\
     getitem (KName "Y") (fst r0) = Ret [PFlt (FHalf 10); PFlt (FHalf 10); PFlt (FHalf 10)]%Z).
Proof. exists (mkAobj [("default_value", "X")] []). vm_compute. repeat split. Qed.

(* the hypotheses of preferred_title are satisfiable (A is the preferred name of X, declared through a chain of three) *)
Example preferred_title_hypotheses :
  In "A" (apref am3) /\ aget (amap am3) "A" = "X" /\ ~ In "X" (akeys (amap am3)) /\
  rename_columns am3 ["X"; "Y"; "Z"] = Ret ["A"; "y"; "Z"].
Proof.
  split; [left; reflexivity|]. split; [vm_compute; reflexivity|]. split; [|vm_compute; reflexivity].
  vm_compute. intros C. repeat (destruct C as [C|C]; [discriminate C|]). exact C.
Qed.

(* shorten_acyclic_unbounded: every chain of AL3 reaches a name that is no alias *)
Example chain3_leaves :
  forall k, In k (akeys (drop_self AL3)) -> exists n, ~ In (follow n (drop_self AL3) k) (akeys (drop_self AL3)).
Proof.
  intros k H. exists 3. vm_compute in H.
  repeat (destruct H as [<-|H]; [vm_compute; intros C; repeat (destruct C as [C|C]; [discriminate C|]); exact C|]).
  contradiction.
Qed.

(* ---- the read-only hooks on the aliased model mA *)
Example hooks_on_mA :
  alias_read am3 QCompletions (fst mA) = (fst mA, Ret (VNames ["status"; "iterations"; "X"; "Y"; "Z"; "A"; "B"; "C"; "D"; "y"])) /\
  alias_read am3 QNbytes (fst mA) = (fst mA, Ret (VNat (3 * (4 + 8 + 8 + 8 + 8)))) /\
  (forall x, In x (index (fst mA)) -> ~ In x (akeys (amap am3))).
Proof.
  split; [vm_compute; reflexivity|]. split; [vm_compute; reflexivity|].
  intros x H. vm_compute in H.
  repeat (destruct H as [<-|H]; [vm_compute; intros C; repeat (destruct C as [C|C]; [discriminate C|]); exact C|]).
  contradiction.
Qed.

(* ---- the repaired defect (fix 0f38318): `in` answers for an alias what it answers for its variable *)
Example alias_is_a_member :
  snd (alias_read am3 (QContains "A") (fst mA)) = Ret (VBool true) /\
  snd (alias_read am3 (QContains "y") (fst mA)) = Ret (VBool true) /\
  snd (alias_read am3 (QContains "X") (fst mA)) = Ret (VBool true) /\
  snd (alias_read am3 (QContains "Q") (fst mA)) = Ret (VBool false) /\
  snd (alias_read (mkAobj [("A", "Q")] []) (QContains "A") (fst mA)) = Ret (VBool false).
Proof. vm_compute. repeat split. Qed.

(* ---- reindex() of the aliased model mA onto periods 2001..2003: hypotheses of alias_reindex_twin / reindex_plain_inv satisfiable *)
Example reindex_mA :
  let r := alias_reindex am3 (np_fill CModel) [2001; 2002; 2003]%Z (fst mA) in
  (forall x, In x (index (fst mA)) -> ~ In x (akeys (amap am3))) /\
  (forall x, assoc x (vars (fst mA)) <> None -> In x (index (fst mA))) /\
  (exists s', r = Ret s' /\ span s' = [2001; 2002; 2003]%Z /\
     assoc "X" (vars s') = Some (mkVar DFloat [3] [PFlt (FHalf 10); PFlt (FHalf 12); PFlt FNaN]%Z) /\
     assoc "status" (vars s') = Some (mkVar (DStr 1) [3] [PStr "-"; PStr "-"; PStr "-"]) /\
     assoc "iterations" (vars s') = Some (mkVar DInt [3] [PInt (-1); PInt (-1); PInt (-1)]%Z) /\
     assoc "A" (vars s') = None).
Proof.
  split; [exact (proj2 (proj2 hooks_on_mA))|]. split.
  - intros x H. replace (index (fst mA)) with (map fst (vars (fst mA))) by (vm_compute; reflexivity).
    destruct (in_dec string_dec x (map fst (vars (fst mA)))) as [I|N]; [exact I|].
    exfalso. apply H. apply assoc_none_iff. exact N.
  - eexists. split; [vm_compute; reflexivity|]. vm_compute. repeat split.
Qed.

(* export with other column selections: to_dataframe(use_aliases=True, status=False, include_internal=True) *)
Example export_with_selections :
  export_with am3 false true true (fst mA) = Ret [("A", "X"); ("y", "Y"); ("Z", "Z"); ("iterations", "iterations")] /\
  export_with am3 false false false (fst mA) = Ret [("A", "X"); ("y", "Y"); ("Z", "Z")].
Proof. vm_compute. split; reflexivity. Qed.
