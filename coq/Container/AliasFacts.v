(* AliasFacts.v — theorems about the alias model (Alias.v): chain shortening, resolution, transparency of every
   operation over arbitrary histories (refinement to the canonical twin), storage, and the renamed export. *)
From Coq Require Import ZArith List Bool Lia String Ascii PeanoNat.
Import ListNotations.
Require Import PyBase Container ContainerFacts Alias.
Open Scope string_scope.
Open Scope list_scope.
Open Scope nat_scope.
Notation length := List.length (only parsing).

(* ------------------------------------------------------------------ following a chain of aliases *)
(* follow n a x = the name reached from x after n look-ups `a.get(., .)`  (names that are no alias stay put) *)
Fixpoint follow (n : nat) (a : amap_t) (x : string) : string :=
  match n with O => x | S n' => follow n' a (aget a x) end.

Lemma assoc_none_iff {A} x (a : list (string * A)) : assoc x a = None <-> ~ In x (map fst a).
Proof.
  induction a as [|[k v] a IH]; simpl.
  - split; [intros _ []|reflexivity].
  - destruct (String.eqb x k) eqn:E.
    + apply String.eqb_eq in E. subst. split; [discriminate|]. intros H. exfalso. apply H. left. reflexivity.
    + apply String.eqb_neq in E. rewrite IH. split.
      * intros H [C|C]; [apply E; symmetry; exact C | exact (H C)].
      * intros H C. apply H. right. exact C.
Qed.

Lemma assoc_In {A} x (v : A) a : assoc x a = Some v -> In (x, v) a.
Proof.
  induction a as [|[k w] a IH]; simpl; [discriminate|].
  destruct (String.eqb x k) eqn:E.
  - apply String.eqb_eq in E. subst. intros H. inversion H. left. reflexivity.
  - intros H. right. apply IH. exact H.
Qed.

Lemma In_assoc_nodup {A} x (v : A) a : NoDup (map fst a) -> In (x, v) a -> assoc x a = Some v.
Proof.
  induction a as [|[k w] a IH]; simpl; intros ND H; [contradiction|].
  inversion ND as [|? ? Hk ND']; subst.
  destruct H as [H|H].
  - inversion H; subst. rewrite String.eqb_refl. reflexivity.
  - destruct (String.eqb x k) eqn:E.
    + apply String.eqb_eq in E. subst. exfalso. apply Hk. apply in_map_iff. exists (k, v). split; [reflexivity|exact H].
    + apply IH; assumption.
Qed.

Lemma aget_nonkey a x : ~ In x (akeys a) -> aget a x = x.
Proof. intros H. unfold aget. apply assoc_none_iff in H. rewrite H. reflexivity. Qed.

Lemma aget_key_in_vals a k : In k (akeys a) -> In (aget a k) (avals a).
Proof.
  intros H. unfold aget. destruct (assoc k a) as [v|] eqn:E.
  - apply assoc_In in E. unfold avals. apply in_map_iff. exists (k, v). split; [reflexivity|exact E].
  - apply assoc_none_iff in E. contradiction.
Qed.

Lemma follow_nonkey n a x : ~ In x (akeys a) -> follow n a x = x.
Proof. intros H. induction n as [|n IH]; simpl; [reflexivity|]. rewrite (aget_nonkey _ _ H). exact IH. Qed.

Lemma follow_add m n a x : follow (m + n) a x = follow n a (follow m a x).
Proof. revert x. induction m as [|m IH]; intros x; simpl; [reflexivity|apply IH]. Qed.

(* once the chain has left the alias names it stays where it is *)
Lemma follow_stable m m' a x : ~ In (follow m a x) (akeys a) -> m <= m' -> follow m' a x = follow m a x.
Proof.
  intros H L. replace m' with (m + (m' - m)) by lia. rewrite follow_add. apply follow_nonkey. exact H.
Qed.

Lemma follow_ext a b : (forall x, aget a x = aget b x) -> forall n x, follow n a x = follow n b x.
Proof. intros E n. induction n as [|n IH]; intros x; simpl; [reflexivity|]. rewrite E. apply IH. Qed.

(* ------------------------------------------------------------------ one substitution pass *)
Lemma assoc_map_snd (f : string -> string) k (a : amap_t) :
  assoc k (map (fun kv => (fst kv, f (snd kv))) a) = option_map f (assoc k a).
Proof.
  induction a as [|[k0 v0] a IH]; simpl; [reflexivity|].
  destruct (String.eqb k k0); [reflexivity|exact IH].
Qed.

Lemma aget_subst a x : aget (subst a) x = aget a (aget a x).
Proof.
  unfold aget at 1 3. unfold subst. rewrite assoc_map_snd.
  destruct (assoc x a) as [v|] eqn:E; simpl; [reflexivity|].
  unfold aget. rewrite E. reflexivity.
Qed.

Lemma akeys_subst a : akeys (subst a) = akeys a.
Proof. unfold akeys, subst. rewrite map_map. reflexivity. Qed.

Lemma length_subst a : length (subst a) = length a.
Proof. unfold subst. apply map_length. Qed.

Lemma follow_subst n a x : follow n (subst a) x = follow (2 * n) a x.
Proof.
  revert x. induction n as [|n IH]; intros x; [reflexivity|].
  replace (2 * S n) with (S (S (2 * n))) by lia. simpl follow at 1. rewrite IH, aget_subst. reflexivity.
Qed.

(* ------------------------------------------------------------------ `chained` *)
Lemma chained_true_iff a : chained a = true <-> exists k, In k (akeys a) /\ In k (avals a).
Proof.
  unfold chained. rewrite existsb_exists. split; intros [k [H1 H2]]; exists k; (split; [exact H1|]); apply mem_In; exact H2.
Qed.

Lemma unchained_vals a : chained a = false -> forall v, In v (avals a) -> ~ In v (akeys a).
Proof.
  intros H v Hv Hk. assert (C : chained a = true) by (apply chained_true_iff; exists v; split; assumption). congruence.
Qed.

(* an unchained map sends every name to a name that is no alias: resolution is idempotent *)
Lemma unchained_aget_nonkey a : chained a = false -> forall x, ~ In (aget a x) (akeys a).
Proof.
  intros H x. destruct (in_dec string_dec x (akeys a)) as [K|K].
  - apply (unchained_vals _ H). apply aget_key_in_vals. exact K.
  - rewrite (aget_nonkey _ _ K). exact K.
Qed.

Lemma unchained_idempotent a : chained a = false -> forall x, aget a (aget a x) = aget a x.
Proof. intros H x. apply aget_nonkey. apply unchained_aget_nonkey. exact H. Qed.

Lemma unchained_follow a : chained a = false -> forall n x, follow (S n) a x = aget a x.
Proof. intros H n x. simpl. apply follow_nonkey. apply unchained_aget_nonkey. exact H. Qed.

Lemma depth_unchained a :
  NoDup (akeys a) -> (forall k, In k (akeys a) -> ~ In (aget a k) (akeys a)) -> chained a = false.
Proof.
  intros ND H. destruct (chained a) eqn:C; [|reflexivity]. exfalso.
  apply chained_true_iff in C as [k [K V]].
  unfold avals in V. apply in_map_iff in V as [[k0 v0] [E Hin]]. simpl in E. subst v0.
  assert (K0 : In k0 (akeys a)) by (unfold akeys; apply in_map_iff; exists (k0, k); split; [reflexivity|exact Hin]).
  apply (H k0 K0). unfold aget. rewrite (In_assoc_nodup _ _ _ ND Hin). exact K.
Qed.

(* ------------------------------------------------------------------ the bounded shortening loop *)
(* If every chain leaves the alias names within d <= 2^p look-ups, p+1 passes suffice, the keys are kept and every
   name is sent to the end of its chain. *)
Lemma shorten_loop_roots p : forall a d,
  NoDup (akeys a) -> d <= 2 ^ p ->
  (forall k, In k (akeys a) -> ~ In (follow d a k) (akeys a)) ->
  exists a', shorten_loop (S p) a = Some a' /\ akeys a' = akeys a /\ length a' = length a /\ chained a' = false /\
             forall x, aget a' x = follow d a x.
Proof.
  induction p as [|p IH]; intros a d ND Hd Hdepth.
  - (* one pass: d <= 1 *)
    assert (U : chained a = false).
    { apply depth_unchained; [exact ND|]. intros k K. specialize (Hdepth k K).
      destruct d as [|[|d]]; simpl in Hd; [|exact Hdepth|lia].
      simpl in Hdepth. contradiction. }
    exists a. split; [simpl; rewrite U; reflexivity|]. split; [reflexivity|]. split; [reflexivity|]. split; [exact U|].
    intros x. destruct d as [|d].
    + simpl. destruct (in_dec string_dec x (akeys a)) as [K|K]; [exfalso; exact (Hdepth x K K)|apply aget_nonkey; exact K].
    + symmetry. apply unchained_follow. exact U.
  - change (shorten_loop (S (S p)) a) with (if chained a then shorten_loop (S p) (subst a) else Some a).
    destruct (chained a) eqn:C.
    + set (d' := Nat.div2 (S d)).
      assert (D2 : d <= 2 * d' /\ d' <= 2 ^ p).
      { unfold d'. pose proof (Nat.div2_odd (S d)) as E. destruct (Nat.odd (S d)); simpl Nat.b2n in E.
        - split; [lia|]. simpl in Hd. lia.
        - split; [lia|]. simpl in Hd. lia. }
      destruct D2 as [D2a D2b].
      destruct (IH (subst a) d') as [a' [L [K' [Len [U' G]]]]].
      * rewrite akeys_subst. exact ND.
      * exact D2b.
      * intros k K. rewrite akeys_subst in *. rewrite follow_subst.
        rewrite (follow_stable d (2 * d') a k (Hdepth k K) D2a). apply Hdepth. exact K.
      * exists a'. split; [exact L|]. split; [rewrite K'; apply akeys_subst|]. split; [rewrite Len; apply length_subst|].
        split; [exact U'|].
        intros x. rewrite G, follow_subst.
        destruct (in_dec string_dec x (akeys a)) as [K|K].
        -- apply follow_stable; [apply Hdepth; exact K|exact D2a].
        -- rewrite !(follow_nonkey _ _ _ K). reflexivity.
    + exists a. split; [reflexivity|]. split; [reflexivity|]. split; [reflexivity|]. split; [exact C|].
      intros x. destruct d as [|d].
      * simpl. destruct (in_dec string_dec x (akeys a)) as [K|K]; [exfalso; exact (Hdepth x K K)|apply aget_nonkey; exact K].
      * symmetry. apply unchained_follow. exact C.
Qed.

(* a name whose chain never leaves the alias names (a cycle) keeps the map chained for ever: the loop runs out *)
Lemma shorten_loop_cycle passes : forall a k,
  In k (akeys a) -> (forall n, In (follow n a k) (akeys a)) -> shorten_loop passes a = None.
Proof.
  induction passes as [|p IH]; intros a k K Hcyc; [reflexivity|].
  simpl. assert (C : chained a = true).
  { apply chained_true_iff. exists (aget a k). split; [exact (Hcyc 1)|apply aget_key_in_vals; exact K]. }
  rewrite C. apply (IH (subst a) k).
  - rewrite akeys_subst. exact K.
  - intros n. rewrite akeys_subst, follow_subst. apply Hcyc.
Qed.

(* ------------------------------------------------------------------ dropping self-maps *)
Lemma filter_all {A} (f : A -> bool) l : (forall x, In x l -> f x = true) -> filter f l = l.
Proof.
  induction l as [|x l IH]; simpl; intros H; [reflexivity|].
  rewrite (H x (or_introl eq_refl)). f_equal. apply IH. intros y Hy. apply H. right. exact Hy.
Qed.

Lemma akeys_filter_incl f (a : amap_t) : incl (akeys (filter f a)) (akeys a).
Proof.
  intros k H. unfold akeys in *. apply in_map_iff in H as [kv [E Hin]]. apply filter_In in Hin as [Hin _].
  apply in_map_iff. exists kv. split; assumption.
Qed.

Lemma nodup_keys_filter f (a : amap_t) : NoDup (akeys a) -> NoDup (akeys (filter f a)).
Proof.
  induction a as [|[k v] a IH]; simpl; intros ND; [constructor|].
  inversion ND as [|? ? Hk ND']; subst.
  destruct (f (k, v)); simpl; [|apply IH; exact ND'].
  constructor; [|apply IH; exact ND']. intros C. apply Hk. apply (akeys_filter_incl f a). exact C.
Qed.

Lemma length_filter_le {A} (f : A -> bool) l : length (filter f l) <= length l.
Proof. induction l as [|x l IH]; simpl; [lia|]. destruct (f x); simpl; lia. Qed.

Lemma aget_drop_self a x : NoDup (akeys a) -> aget (drop_self a) x = aget a x.
Proof.
  intros ND. unfold aget. destruct (assoc x a) as [v|] eqn:E.
  - destruct (assoc x (drop_self a)) as [w|] eqn:F.
    + apply assoc_In in F. apply filter_In in F as [F _].
      rewrite (In_assoc_nodup _ _ _ ND F) in E. congruence.
    + destruct (string_dec x v) as [->|N]; [reflexivity|]. exfalso.
      apply assoc_none_iff in F. apply F. apply in_map_iff. exists (x, v). split; [reflexivity|].
      apply filter_In. split; [apply assoc_In; exact E|]. simpl. apply negb_true_iff. apply String.eqb_neq. exact N.
  - apply assoc_none_iff in E.
    assert (F : assoc x (drop_self a) = None).
    { apply assoc_none_iff. intros C. apply E. unfold drop_self in C. apply (akeys_filter_incl _ a _ C). }
    rewrite F. reflexivity.
Qed.

Lemma drop_self_unchained a : chained a = false -> drop_self a = a.
Proof.
  intros U. apply filter_all. intros [k v] Hin. simpl. apply negb_true_iff. apply String.eqb_neq. intros ->.
  apply (unchained_vals a U v).
  - unfold avals. apply in_map_iff. exists (v, v). split; [reflexivity|exact Hin].
  - unfold akeys. apply in_map_iff. exists (v, v). split; [reflexivity|exact Hin].
Qed.

(* ================================================================== AliasMixin.__init__: chain shortening *)
(* ACYCLIC declaration (after the self-maps are dropped every chain leaves the alias names): the constructor's loop
   succeeds within its bound, keeps exactly the non-trivial aliases, and maps every alias - however long its chain -
   directly to the END of its chain in the declared ALIASES; the stored map is unchained. *)
Theorem shorten_acyclic ALIASES :
  NoDup (akeys ALIASES) ->
  (forall k, In k (akeys (drop_self ALIASES)) ->
             ~ In (follow (length (drop_self ALIASES)) (drop_self ALIASES) k) (akeys (drop_self ALIASES))) ->
  exists a, shorten ALIASES = Ret a /\ akeys a = akeys (drop_self ALIASES) /\ chained a = false /\
            (forall x, aget a x = follow (length ALIASES) ALIASES x).
Proof.
  intros ND Hd. set (a1 := drop_self ALIASES) in *.
  assert (ND1 : NoDup (akeys a1)) by (apply nodup_keys_filter; exact ND).
  destruct (shorten_loop_roots (length a1) a1 (length a1) ND1) as [a' [L [K [_ [U G]]]]].
  - apply Nat.lt_le_incl. apply Nat.pow_gt_lin_r. lia.
  - exact Hd.
  - exists a'. unfold shorten. fold a1. rewrite L. rewrite (drop_self_unchained _ U).
    split; [reflexivity|]. split; [exact K|]. split; [exact U|].
    intros x. rewrite G.
    rewrite <- (follow_ext a1 ALIASES (fun y => aget_drop_self ALIASES y ND)).
    symmetry. apply follow_stable; [|apply length_filter_le].
    destruct (in_dec string_dec x (akeys a1)) as [Kx|Kx]; [apply Hd; exact Kx|].
    rewrite (follow_nonkey _ _ _ Kx). exact Kx.
Qed.

(* CYCLIC declaration (some alias whose chain never leaves the alias names, e.g. X -> Y, Y -> X): rejected *)
Theorem shorten_cyclic ALIASES k :
  In k (akeys (drop_self ALIASES)) ->
  (forall n, In (follow n (drop_self ALIASES) k) (akeys (drop_self ALIASES))) ->
  shorten ALIASES = Raise InitialisationError.
Proof.
  intros K H. unfold shorten. rewrite (shorten_loop_cycle _ _ k K H). reflexivity.
Qed.

(* ------------------------------------------------------------------ a chain that leaves at all leaves within |a| look-ups *)
Lemma dup_or_nodup (f : nat -> string) m :
  NoDup (map f (seq 0 m)) \/ exists i j, i < j /\ j < m /\ f i = f j.
Proof.
  induction m as [|m IH]; [left; constructor|].
  destruct IH as [ND|[i [j [Hij [Hj E]]]]]; [|right; exists i, j; repeat split; [exact Hij|lia|exact E]].
  rewrite seq_S, map_app. simpl.
  destruct (in_dec string_dec (f m) (map f (seq 0 m))) as [Hin|Hout].
  - right. apply in_map_iff in Hin as [i [E Hi]]. apply in_seq in Hi. exists i, m. repeat split; [lia|lia|exact E].
  - left. apply nodup_snoc; assumption.
Qed.

Lemma follow_in_prefix a k m :
  In (follow m a k) (akeys a) -> forall t, t <= m -> In (follow t a k) (akeys a).
Proof.
  intros H t L. destruct (in_dec string_dec (follow t a k) (akeys a)) as [Hin|Hout]; [exact Hin|].
  exfalso. rewrite (follow_stable t m a k Hout L) in H. exact (Hout H).
Qed.

Lemma follow_periodic a k i j :
  i < j -> follow i a k = follow j a k ->
  (forall t, t <= j -> In (follow t a k) (akeys a)) ->
  forall n, In (follow n a k) (akeys a).
Proof.
  intros Hij E Hpre n. induction n as [n IH] using lt_wf_ind.
  destruct (Nat.le_gt_cases n j) as [L|G]; [apply Hpre; exact L|].
  replace n with (j + (n - j)) by lia. rewrite follow_add, <- E, <- follow_add. apply IH. lia.
Qed.

Theorem follow_escape_bound a k :
  In (follow (length a) a k) (akeys a) -> forall n, In (follow n a k) (akeys a).
Proof.
  intros H.
  pose proof (follow_in_prefix a k (length a) H) as Hpre.
  destruct (dup_or_nodup (fun t => follow t a k) (S (length a))) as [ND|[i [j [Hij [Hj E]]]]].
  - exfalso.
    assert (I : incl (map (fun t => follow t a k) (seq 0 (S (length a)))) (akeys a)).
    { intros x Hx. apply in_map_iff in Hx as [t [<- Ht]]. apply in_seq in Ht. apply Hpre. lia. }
    pose proof (NoDup_incl_length ND I) as L. rewrite map_length, seq_length in L. unfold akeys in L. rewrite map_length in L. lia.
  - apply (follow_periodic a k i j Hij E). intros t Ht. apply Hpre. lia.
Qed.

(* the two hypotheses of shorten_acyclic / shorten_cyclic are complementary, and decidable *)
Lemma chains_decidable a :
  (forall k, In k (akeys a) -> ~ In (follow (length a) a k) (akeys a)) \/
  (exists k, In k (akeys a) /\ forall n, In (follow n a k) (akeys a)).
Proof.
  assert (D : forall ks, (forall k, In k ks -> ~ In (follow (length a) a k) (akeys a)) \/
                         (exists k, In k ks /\ In (follow (length a) a k) (akeys a))).
  { induction ks as [|k ks IH]; [left; intros k []|].
    destruct (in_dec string_dec (follow (length a) a k) (akeys a)) as [Hin|Hout].
    - right. exists k. split; [left; reflexivity|exact Hin].
    - destruct IH as [IH|[k' [I1 I2]]].
      + left. intros k0 [<-|H0]; [exact Hout|apply IH; exact H0].
      + right. exists k'. split; [right; exact I1|exact I2]. }
  destruct (D (akeys a)) as [H|[k [K H]]]; [left; exact H|right].
  exists k. split; [exact K|apply follow_escape_bound; exact H].
Qed.

(* the constructor's verdict, completely: InitialisationError exactly for the declarations in which some alias chain never
   reaches a name that is no alias *)
Theorem shorten_raises_iff ALIASES :
  NoDup (akeys ALIASES) ->
  (shorten ALIASES = Raise InitialisationError <->
   exists k, In k (akeys (drop_self ALIASES)) /\ forall n, In (follow n (drop_self ALIASES) k) (akeys (drop_self ALIASES))).
Proof.
  intros ND. split.
  - intros R. destruct (chains_decidable (drop_self ALIASES)) as [H|H]; [|exact H].
    destruct (shorten_acyclic ALIASES ND H) as [a [S _]]. rewrite S in R. discriminate.
  - intros [k [K H]]. eapply shorten_cyclic; eassumption.
Qed.

(* acyclicity stated without a bound: every chain reaches, sooner or later, a name that is no alias *)
Theorem shorten_acyclic_unbounded ALIASES :
  NoDup (akeys ALIASES) ->
  (forall k, In k (akeys (drop_self ALIASES)) -> exists n, ~ In (follow n (drop_self ALIASES) k) (akeys (drop_self ALIASES))) ->
  exists a, shorten ALIASES = Ret a /\ akeys a = akeys (drop_self ALIASES) /\ chained a = false /\
            (forall x, aget a x = follow (length ALIASES) ALIASES x).
Proof.
  intros ND H. apply shorten_acyclic; [exact ND|].
  intros k K C. destruct (H k K) as [n Hn]. apply Hn. apply follow_escape_bound. exact C.
Qed.

(* whatever the declaration: a map that the constructor stores is unchained and has no self-map *)
Lemma shorten_loop_some passes : forall a a', shorten_loop passes a = Some a' -> chained a' = false /\ akeys a' = akeys a.
Proof.
  induction passes as [|p IH]; intros a a' H; [discriminate|].
  simpl in H. destruct (chained a) eqn:C.
  - apply IH in H as [U K]. split; [exact U|]. rewrite K. apply akeys_subst.
  - inversion H; subst. split; [exact C|reflexivity].
Qed.

Theorem shorten_ret_unchained ALIASES a :
  shorten ALIASES = Ret a -> chained a = false /\ incl (akeys a) (akeys ALIASES).
Proof.
  unfold shorten. intros H.
  destruct (shorten_loop (S (length (drop_self ALIASES))) (drop_self ALIASES)) as [a2|] eqn:L; [|discriminate].
  inversion H; subst. apply shorten_loop_some in L as [U K].
  rewrite (drop_self_unchained _ U). split; [exact U|]. rewrite K. apply akeys_filter_incl.
Qed.

Theorem shorten_exn ALIASES e : shorten ALIASES = Raise e -> e = InitialisationError.
Proof.
  unfold shorten. destruct (shorten_loop _ _); intros H; inversion H; reflexivity.
Qed.

(* ================================================================== PREFERRED_NAMES validation *)
Lemma pref_check_ret a : forall pref seen,
  pref_check a pref seen = Ret tt ->
  NoDup (map (aget a) pref) /\ (forall t, In t (map (aget a) pref) -> ~ In t seen).
Proof.
  induction pref as [|nm r IH]; intros seen H; simpl.
  - split; [constructor|intros t []].
  - simpl in H. destruct (mem (aget a nm) seen) eqn:M; [discriminate|].
    apply IH in H as [ND Hs]. apply mem_false in M. split.
    + constructor; [|exact ND]. intros C. apply (Hs _ C). apply in_app_iff. right. left. reflexivity.
    + intros t [<-|Ht]; [exact M|]. intros C. apply (Hs _ Ht). apply in_app_iff. left. exact C.
Qed.

Lemma pref_check_raise a : forall pref seen e, pref_check a pref seen = Raise e -> e = ValueError.
Proof.
  induction pref as [|nm r IH]; intros seen e H; simpl in H; [discriminate|].
  destruct (mem (aget a nm) seen); [inversion H; reflexivity|]. eapply IH. exact H.
Qed.

(* two distinct preferred names for one variable (an alias and its target, or two aliases of it): rejected *)
Theorem ambiguous_preference_rejected a pref x y :
  In x pref -> In y pref -> x <> y -> aget a x = aget a y -> pref_check a pref [] = Raise ValueError.
Proof.
  intros Hx Hy N E. destruct (pref_check a pref []) as [[]|e] eqn:P.
  - exfalso. apply pref_check_ret in P as [ND _].
    clear - Hx Hy N E ND. induction pref as [|p r IH]; [contradiction|].
    simpl in ND. inversion ND as [|? ? Hn ND']; subst.
    destruct Hx as [->|Hx], Hy as [->|Hy].
    + apply N. reflexivity.
    + apply Hn. rewrite E. apply in_map. exact Hy.
    + apply Hn. rewrite <- E. apply in_map. exact Hx.
    + apply IH; assumption.
  - apply pref_check_raise in P. subst. reflexivity.
Qed.

(* ================================================================== the constructed alias object *)
Definition WFam (am : aobj) : Prop :=
  chained (amap am) = false /\ NoDup (map (aget (amap am)) (apref am)).

Theorem alias_construct_wf ALIASES PREFERRED am :
  alias_construct ALIASES PREFERRED = Ret am ->
  WFam am /\ incl (akeys (amap am)) (akeys ALIASES) /\ apref am = PREFERRED.
Proof.
  unfold alias_construct. intros H.
  destruct (shorten ALIASES) as [a|e] eqn:S; [|discriminate].
  destruct (pref_check a PREFERRED []) as [[]|e] eqn:P; [|discriminate].
  inversion H; subst. simpl. apply shorten_ret_unchained in S as [U K]. apply pref_check_ret in P as [ND _].
  split; [split; assumption|]. split; [exact K|reflexivity].
Qed.

Theorem alias_construct_exn ALIASES PREFERRED e :
  alias_construct ALIASES PREFERRED = Raise e -> e = InitialisationError \/ e = ValueError.
Proof.
  unfold alias_construct. intros H.
  destruct (shorten ALIASES) as [a|e0] eqn:S.
  - destruct (pref_check a PREFERRED []) as [[]|e1] eqn:P; [discriminate|].
    inversion H; subst. right. eapply pref_check_raise. exact P.
  - inversion H; subst. left. eapply shorten_exn. exact S.
Qed.

(* resolution through a constructed object is idempotent and ends outside the alias names: an alias of an alias
   of X is resolved to X in ONE step, by every wrapper *)
Theorem resolve_idempotent am x : WFam am -> resolve am (resolve am x) = resolve am x.
Proof. intros [U _]. unfold resolve. apply unchained_idempotent. exact U. Qed.

Theorem resolve_not_alias am x : WFam am -> ~ In (resolve am x) (akeys (amap am)).
Proof. intros [U _]. unfold resolve. apply unchained_aget_nonkey. exact U. Qed.

(* for an acyclic declaration the resolved name is the end of the declared chain *)
Theorem resolve_is_chain_end ALIASES PREFERRED am x :
  NoDup (akeys ALIASES) ->
  (forall k, In k (akeys (drop_self ALIASES)) ->
             ~ In (follow (length (drop_self ALIASES)) (drop_self ALIASES) k) (akeys (drop_self ALIASES))) ->
  alias_construct ALIASES PREFERRED = Ret am ->
  resolve am x = follow (length ALIASES) ALIASES x.
Proof.
  intros ND Hd H. destruct (shorten_acyclic ALIASES ND Hd) as [a [S [_ [_ G]]]].
  unfold alias_construct in H. rewrite S in H.
  destruct (pref_check a PREFERRED []) as [[]|e]; [|discriminate]. inversion H; subst. unfold resolve. simpl. apply G.
Qed.

(* ================================================================== frames: which names an operation can add *)
Lemma good_vars_keys s s' : good s s' ->
  forall x, assoc x (vars s') <> None -> assoc x (vars s) <> None \/ In x (index s').
Proof.
  induction 1 as [s|s s' Hs Hi Hv Hk Hn|s name v0 v' HA HD HS|s name v HN HS|s x0 Hx|s1 s2 s3 G1 IH1 G2 IH2]; intros x H.
  - left. exact H.
  - left. rewrite <- Hv. exact H.
  - simpl in H. destruct (string_dec x name) as [->|Ne].
    + left. rewrite HA. discriminate.
    + rewrite (assoc_set_neq _ _ _ _ Ne) in H. left. exact H.
  - simpl in H |- *. destruct (string_dec x name) as [->|Ne].
    + right. apply in_app_iff. right. left. reflexivity.
    + rewrite (assoc_set_neq _ _ _ _ Ne) in H. left. exact H.
  - left. exact H.
  - destruct (IH2 x H) as [H2|H2]; [|right; exact H2].
    destruct (IH1 x H2) as [H1|H1]; [left; exact H1|right].
    apply (proj1 (good_mono _ _ G2)). exact H1.
Qed.

Section Frames.
  Variable pycast : dtype -> pyval -> outcome pyval.
  Variable arrcast : dtype -> dtype -> pyval -> outcome pyval.
  Variable infer : list pyval -> dtype.
  Variable astype_dt : dtype -> list pyval -> dreq -> dtype.
  Variable itemseq_exn : dtype -> exn.

  Notation setattr_var := (setattr_var pycast arrcast).
  Notation set_rows_arr := (set_rows_arr pycast arrcast).
  Notation set_rows_full := (set_rows_full pycast arrcast infer).
  Notation values_setter := (values_setter pycast arrcast infer).
  Notation obj_setattr := (obj_setattr pycast arrcast infer).
  Notation add_attribute := (add_attribute pycast arrcast infer).
  Notation setattr := (setattr pycast arrcast infer).
  Notation setitem := (setitem pycast arrcast infer itemseq_exn).
  Notation replace_values := (replace_values pycast arrcast infer itemseq_exn).
  Notation base_add_variable := (base_add_variable pycast arrcast infer astype_dt).
  Notation add_variable := (add_variable pycast arrcast infer astype_dt).
  Notation step := (step pycast arrcast infer astype_dt itemseq_exn).
  Notation run := (run pycast arrcast infer astype_dt itemseq_exn).
  Notation run_trace := (run_trace pycast arrcast infer astype_dt itemseq_exn).
  Notation init_model := (init_model pycast arrcast infer astype_dt).
  Notation init_vars := (init_vars pycast arrcast infer astype_dt).
  Notation alias_step := (gen_alias_step pycast arrcast infer astype_dt itemseq_exn).
  Notation alias_run := (gen_alias_run pycast arrcast infer astype_dt itemseq_exn).
  Notation alias_init_model := (gen_alias_init_model pycast arrcast infer astype_dt).

  Definition keeps_index (f : state -> res) : Prop :=
    forall s, index (fst (f s)) = index s /\ names (fst (f s)) = names s.

  Lemma setattr_var_ki name value : keeps_index (setattr_var name value).
  Proof.
    intros s. unfold Container.setattr_var.
    destruct (assoc name (vars s)) as [v|]; [|simpl; auto].
    destruct (is_sequence value).
    - destruct (as_array value) as [[sh cells]|e0]; [|simpl; auto].
      destruct (cast_all (pycast (vdtype v)) cells) as [cells'|e0]; [|simpl; auto].
      destruct (negb (Nat.eqb (length sh) 1) || negb (Nat.eqb (hd 0 sh) (n_of s)))%bool; simpl; auto.
    - destruct (vshape v) as [|m [|m' r]]; simpl; auto.
      destruct (Container.assign_inplace pycast arrcast v (seq 0 m) value) as [v' eo]. simpl. auto.
  Qed.

  Lemma bind_ki (f : state -> res) (g : state -> res) :
    keeps_index f -> keeps_index g ->
    keeps_index (fun s => match f s with (s', Ret _) => g s' | (s', Raise e) => (s', Raise e) end).
  Proof.
    intros F G s. specialize (F s). destruct (f s) as [s' [u|e]]; simpl in *; [|exact F].
    destruct (G s') as [G1 G2]. destruct F as [F1 F2]. split; congruence.
  Qed.

  Lemma set_rows_arr_ki src nms : forall rws, keeps_index (set_rows_arr src nms rws).
  Proof.
    induction nms as [|x nms IH]; intros rws s; simpl; [auto|].
    destruct rws as [|r rr]; [simpl; auto|].
    destruct (assoc x (vars s)) as [v|]; [|simpl; auto].
    destruct (cast_all (arrcast src (vdtype v)) r) as [r'|e]; [|simpl; auto].
    pose proof (setattr_var_ki x (OArr [length r'] (vdtype v) r') s) as F.
    destruct (setattr_var x (OArr [length r'] (vdtype v) r') s) as [s' [u|e]]; simpl in *; [|exact F].
    destruct (IH rr s') as [G1 G2]. destruct F as [F1 F2]. split; congruence.
  Qed.

  Lemma set_rows_full_ki value nms : keeps_index (set_rows_full nms value).
  Proof.
    induction nms as [|x nms IH]; intros s; simpl; [auto|].
    destruct (assoc x (vars s)) as [v|]; [|simpl; auto].
    destruct (natural pycast infer value) as [[[src sh] cells]|e]; [|simpl; auto].
    destruct (bcast_arr (prod_shape (vshape v)) sh cells) as [cs|]; [|simpl; auto].
    destruct (cast_all (arrcast src (vdtype v)) cs) as [cs'|e]; [|simpl; auto].
    pose proof (setattr_var_ki x (OArr (vshape v) (vdtype v) cs') s) as F.
    destruct (setattr_var x (OArr (vshape v) (vdtype v) cs') s) as [s' [u|e]]; simpl in *; [|exact F].
    destruct (IH s') as [G1 G2]. destruct F as [F1 F2]. split; congruence.
  Qed.

  Lemma values_setter_ki value : keeps_index (values_setter value).
  Proof.
    intros s. unfold Container.values_setter. destruct value; try apply set_rows_full_ki.
    destruct (values_shape s) as [vsh|e]; [|simpl; auto].
    destruct (list_eq_dec Nat.eq_dec sh vsh); [|simpl; auto].
    destruct sh as [|r [|m [|q t]]]; simpl; auto.
    apply set_rows_arr_ki.
  Qed.

  Lemma obj_setattr_ki name value s :
    bookkeeping (kind s) name = false -> index (fst (obj_setattr name value s)) = index s /\ names (fst (obj_setattr name value s)) = names s.
  Proof.
    intros B. unfold Container.obj_setattr. rewrite B.
    destruct (String.eqb name "strict").
    - destruct (truthy value); simpl; auto.
    - destruct (String.eqb name "values"); [apply values_setter_ki|].
      destruct (String.eqb name "size" || String.eqb name "nbytes")%bool; [simpl; auto|].
      match goal with |- context [if ?c then _ else _] => destruct c end; simpl; auto.
  Qed.

  Lemma add_attribute_ki name value s :
    bookkeeping (kind s) name = false -> index (fst (add_attribute name value s)) = index s /\ names (fst (add_attribute name value s)) = names s.
  Proof.
    intros B. unfold Container.add_attribute.
    destruct (mem name (index s)); [simpl; auto|].
    destruct (reg_mem name (registry s)); [simpl; auto|].
    pose proof (obj_setattr_ki name value s B) as F.
    destruct (obj_setattr name value s) as [s' [u|e]]; simpl in *; exact F.
  Qed.

  Lemma setattr_ki name value hint s :
    bookkeeping (kind s) name = false \/ mem name (index s) = true ->
    index (fst (setattr name value hint s)) = index s /\ names (fst (setattr name value hint s)) = names s.
  Proof.
    intros B. unfold Container.setattr.
    match goal with |- context [if ?c then _ else _] => destruct c end.
    - destruct (alternatives hint (row_names s)) as [|a [|b r]]; simpl; auto.
    - destruct (mem name (index s)) eqn:M; cbn [negb].
      + apply setattr_var_ki.
      + destruct B as [B|B]; [|discriminate B].
        destruct (reg_mem name (registry s)); [apply obj_setattr_ki | apply add_attribute_ki]; exact B.
  Qed.

  Lemma setitem_ki k value : keeps_index (setitem k value).
  Proof.
    intros s. unfold Container.setitem. destruct k as [name|name l|name a b st| |]; try (simpl; auto; fail).
    - destruct (mem name (index s)) eqn:Mn; cbn [negb]; [apply setattr_ki; right; exact Mn | simpl; auto].
    - destruct (negb (mem name (index s))); [simpl; auto|].
      destruct (locate (span s) l) as [p|e]; [|simpl; auto].
      destruct (assoc name (vars s)) as [v|]; [|simpl; auto].
      destruct (Container.assign_item pycast arrcast itemseq_exn v p value) as [v' e]. simpl. auto.
    - destruct (negb (mem name (index s))); [simpl; auto|].
      destruct (resolve_slice (span s) a b st) as [[[sl el] stp]|e]; [|simpl; auto].
      destruct (assoc name (vars s)) as [v|]; [|simpl; auto].
      destruct (vshape v) as [|m [|m' r]]; try (simpl; auto; fail).
      destruct (slice_positions m sl el stp) as [ps|]; [|simpl; auto].
      destruct (Container.assign_inplace pycast arrcast v ps value) as [v' e]. simpl. auto.
  Qed.

  Lemma replace_values_ki kvs : keeps_index (replace_values kvs).
  Proof.
    induction kvs as [|[k v] kvs IH]; intros s; [simpl; auto|].
    change (replace_values ((k, v) :: kvs) s) with
      (match setitem (KName k) v s with (s1, Ret _) => replace_values kvs s1 | (s1, Raise e1) => (s1, Raise e1) end).
    pose proof (setitem_ki (KName k) v s) as F.
    destruct (setitem (KName k) v s) as [s' [u|e]]; simpl in *; [|exact F].
    destruct (IH s') as [G1 G2]. destruct F as [F1 F2]. split; congruence.
  Qed.

  Lemma base_add_variable_index name value dt s :
    let s' := fst (base_add_variable name value dt s) in
    (index s' = index s \/ index s' = index s ++ [name]) /\ names s' = names s.
  Proof.
    destruct (base_add_variable name value dt s) as [s' [u|e]] eqn:B; simpl.
    - apply base_add_variable_ret in B as [BI [BN _]]. split; [right; exact BI|exact BN].
    - apply base_add_variable_raise in B. subst. auto.
  Qed.

  Lemma add_variable_index name value dt s :
    let s' := fst (add_variable name value dt s) in
    index s' = index s \/ index s' = index s ++ [name].
  Proof.
    unfold Container.add_variable.
    destruct (kind s); [apply base_add_variable_index| |];
      (pose proof (base_add_variable_index name value (match dt with None => dflt s | Some _ => dt end) s) as [F _];
       destruct (base_add_variable name value (match dt with None => dflt s | Some _ => dt end) s) as [s' [u|e]]; simpl in *; exact F).
  Qed.

  (* the index grows only by the name of an accepted add_variable *)
  Theorem step_index o s :
    in_scope (kind s) o ->
    incl (index (fst (step o s))) (index s ++ match o with AddVariable n _ _ => [n] | _ => [] end).
  Proof.
    destruct o as [name v dt|name v hint|k v|kvs|name v|q]; simpl; intros SC.
    - destruct (add_variable_index name v dt s) as [E|E]; rewrite E; [apply incl_appl|]; apply incl_refl.
    - rewrite (proj1 (setattr_ki name v hint s (or_introl SC))), app_nil_r. apply incl_refl.
    - rewrite (proj1 (setitem_ki k v s)), app_nil_r. apply incl_refl.
    - rewrite (proj1 (replace_values_ki kvs s)), app_nil_r. apply incl_refl.
    - rewrite (proj1 (add_attribute_ki name v s SC)), app_nil_r. apply incl_refl.
    - rewrite read_frame, app_nil_r. apply incl_refl.
  Qed.

  Lemma scope_tail o ops s : Forall (in_scope (kind s)) (o :: ops) -> in_scope (kind s) o /\ Forall (in_scope (kind (fst (step o s)))) ops.
  Proof.
    intros F. inversion F as [|? ? Fo Fr]; subst. split; [exact Fo|].
    rewrite (proj2 (good_span _ _ (step_good pycast arrcast infer astype_dt itemseq_exn o s Fo))). exact Fr.
  Qed.

  Theorem run_index ops : forall s x,
    Forall (in_scope (kind s)) ops ->
    In x (index (run ops s)) -> In x (index s) \/ exists v dt, In (AddVariable x v dt) ops.
  Proof.
    induction ops as [|o ops IH]; intros s x F H; simpl in H; [left; exact H|].
    destruct (scope_tail _ _ _ F) as [Fo Fr].
    destruct (IH _ _ Fr H) as [H1|[v [dt H1]]]; [|right; exists v, dt; right; exact H1].
    apply (step_index o s Fo) in H1. apply in_app_iff in H1 as [H1|H1]; [left; exact H1|].
    destruct o; try contradiction. destruct H1 as [<-|[]]. right. eexists _, _. left. reflexivity.
  Qed.

  (* NO ADDITIONAL STORAGE, for a plain container and hence (alias_run_twin below) for an aliased one: a history creates a
     series only under the names it passes to add_variable - never under a name merely USED in an assignment *)
  Theorem run_no_new_series ops s k :
    Forall (in_scope (kind s)) ops ->
    assoc k (vars s) = None -> ~ In k (index s) ->
    (forall v dt, ~ In (AddVariable k v dt) ops) ->
    assoc k (vars (run ops s)) = None /\ ~ In k (index (run ops s)).
  Proof.
    intros SC A NI NA.
    assert (NI' : ~ In k (index (run ops s))).
    { intros C. apply (run_index _ _ _ SC) in C as [C|[v [dt C]]]; [exact (NI C)|exact (NA v dt C)]. }
    split; [|exact NI'].
    destruct (assoc k (vars (run ops s))) as [v|] eqn:E; [|reflexivity]. exfalso.
    destruct (good_vars_keys _ _ (run_good pycast arrcast infer astype_dt itemseq_exn ops s SC) k) as [H|H].
    - rewrite E. discriminate.
    - rewrite A in H. apply H. reflexivity.
    - exact (NI' H).
  Qed.

  (* ================================================================ transparency *)
  Lemma resolve_key_idem am k : WFam am -> resolve_key am (resolve_key am k) = resolve_key am k.
  Proof. intros W. destruct k; simpl; try reflexivity; rewrite (resolve_idempotent _ _ W); reflexivity. Qed.

  Lemma resolve_op_idem am o : WFam am -> resolve_op am (resolve_op am o) = resolve_op am o.
  Proof.
    intros W. destruct o as [name v dt|name v hint|k v|kvs|name v|q]; simpl; try reflexivity.
    - rewrite (resolve_idempotent _ _ W). reflexivity.
    - rewrite (resolve_key_idem _ _ W). reflexivity.
    - f_equal. rewrite map_map. apply map_ext. intros [k v]. simpl. rewrite (resolve_idempotent _ _ W). reflexivity.
  Qed.

  (* an operation made through an alias (or an alias of an alias ...) has exactly the effect - new state AND outcome - of the
     same operation made through the underlying name, on the same aliased object *)
  Lemma alias_read_frame am q s : fst (alias_read am q s) = s.
  Proof. destruct q; reflexivity. Qed.

  Lemma alias_step_unfold am o s : alias_step am o s = step (resolve_op am o) s.
  Proof. destruct o as [name v dt|name v hint|k v|kvs|name v|q]; try reflexivity. destruct q; reflexivity. Qed.

  Theorem alias_op_eq_root_op am o s : WFam am -> alias_step am o s = alias_step am (resolve_op am o) s.
  Proof. intros W. rewrite !alias_step_unfold. rewrite (resolve_op_idem _ _ W). reflexivity. Qed.

  (* two operations that differ only in WHICH alias of a variable they use are indistinguishable *)
  Theorem alias_ops_same_target am o1 o2 s :
    resolve_op am o1 = resolve_op am o2 -> alias_step am o1 s = alias_step am o2 s.
  Proof. intros E. rewrite !alias_step_unfold. rewrite E. reflexivity. Qed.

  (* refinement to the canonical twin (a model WITHOUT aliases operated through the underlying names only), over
     arbitrary histories: same final state, same outcome and state after every operation *)
  Theorem alias_run_twin am ops : forall s, alias_run am ops s = run (map (resolve_op am) ops) s.
  Proof. induction ops as [|o ops IH]; intros s; simpl; [reflexivity|]. rewrite IH, alias_step_unfold. reflexivity. Qed.

  Fixpoint alias_trace (am : aobj) (ops : list op) (s : state) : list res :=
    match ops with [] => [] | o :: r => let x := alias_step am o s in x :: alias_trace am r (fst x) end.

  Theorem alias_trace_twin am ops : forall s, alias_trace am ops s = run_trace (map (resolve_op am) ops) s.
  Proof. induction ops as [|o ops IH]; intros s; simpl; [reflexivity|]. rewrite IH, alias_step_unfold. reflexivity. Qed.

  (* the twin's operations are canonical: they mention no alias at all *)
  Definition op_names (o : op) : list string :=
    match o with
    | AddVariable _ _ _ | AddAttribute _ _ | Query _ => []  (* not wrapped: the name is taken literally *)
    | SetAttr n _ _ => [n]
    | SetItem (KName n) _ | SetItem (KLabel n _) _ | SetItem (KSlice n _ _ _) _ => [n]
    | SetItem _ _ => []
    | ReplaceValues kvs => map fst kvs
    end.

  Theorem twin_ops_mention_no_alias am o x :
    WFam am -> In x (op_names (resolve_op am o)) -> ~ In x (akeys (amap am)).
  Proof.
    intros W H. destruct o as [name v dt|name v hint|k v|kvs|name v|q]; simpl in H; try contradiction.
    - destruct H as [<-|[]]. apply resolve_not_alias. exact W.
    - destruct k; simpl in H; try contradiction; destruct H as [<-|[]]; apply resolve_not_alias; exact W.
    - rewrite map_map in H. apply in_map_iff in H as [[k v] [<- _]]. simpl. apply resolve_not_alias. exact W.
  Qed.

  (* the C09 invariant holds for aliased objects too, through any history *)
  (* (the scope hypothesis is about the RESOLVED operations: an alias of `span` is an assignment to `span`) *)
  Theorem alias_run_inv am ops s :
    Forall (in_scope (kind s)) (map (resolve_op am) ops) -> Inv s -> Inv (alias_run am ops s).
  Proof. intros SC H. rewrite alias_run_twin. apply reachable_inv; assumption. Qed.

  (* ... and so does "one cell per period" (resolving a name does not touch the operand) *)
  Lemma wf_resolve_op am o : wf_key_op o -> wf_key_op (resolve_op am o).
  Proof.
    destruct o as [name v dt|name v hint|k v|kvs|name v|q]; simpl; try (intros H; exact H).
    intros H. apply Forall_forall. intros kv Hin. apply in_map_iff in Hin as [[k0 v0] [<- Hin]]. simpl.
    rewrite Forall_forall in H. exact (H _ Hin).
  Qed.

  Theorem alias_run_invD am ops s :
    Forall wf_key_op ops -> Forall (in_scope (kind s)) (map (resolve_op am) ops) -> InvD s -> InvD (alias_run am ops s).
  Proof.
    intros W SC D. rewrite alias_run_twin. apply reachable_invD; [|exact SC|exact D].
    apply Forall_forall. intros o Hin. apply in_map_iff in Hin as [o0 [<- Hin]]. apply wf_resolve_op.
    rewrite Forall_forall in W. exact (W _ Hin).
  Qed.

  (* aliases create no additional storage: through any history, no series (and no index entry) ever appears under an
     alias name, unless the caller explicitly add_variable's that very name *)
  Theorem alias_no_extra_storage am ops s k :
    Forall (in_scope (kind s)) (map (resolve_op am) ops) ->
    In k (akeys (amap am)) -> assoc k (vars s) = None -> ~ In k (index s) ->
    (forall v dt, ~ In (AddVariable k v dt) ops) ->
    assoc k (vars (alias_run am ops s)) = None /\ ~ In k (index (alias_run am ops s)).
  Proof.
    intros SC _ A NI NA. rewrite alias_run_twin. apply run_no_new_series; [exact SC|exact A|exact NI|].
    intros v dt C. apply in_map_iff in C as [o [E Hin]].
    destruct o; simpl in E; try discriminate. inversion E; subst. exact (NA _ _ Hin).
  Qed.

  (* ---------------------------------------------------------------- reads *)
  Theorem alias_read_eq_root_read am k s :
    WFam am -> alias_getitem am k s = alias_getitem am (resolve_key am k) s.
  Proof. intros W. unfold alias_getitem. rewrite (resolve_key_idem _ _ W). reflexivity. Qed.

  Theorem alias_getattr_eq_root am n s :
    WFam am -> alias_getattr_var am n s = alias_getattr_var am (resolve am n) s.
  Proof. intros W. unfold alias_getattr_var. rewrite (resolve_idempotent _ _ W). reflexivity. Qed.

  (* what is written through one alias is read back through any other name of the same variable, after any history *)
  Theorem alias_reads_agree am k1 k2 s :
    resolve_key am k1 = resolve_key am k2 -> alias_getitem am k1 s = alias_getitem am k2 s.
  Proof. intros E. unfold alias_getitem. rewrite E. reflexivity. Qed.

  (* ---------------------------------------------------------------- constructor keywords *)
  Definition last_for (am : aobj) (x : string) (kw : list (string * operand)) (init : option operand) : option operand :=
    fold_left (fun acc kv => if String.eqb x (resolve am (fst kv)) then Some (snd kv) else acc) kw init.

  Lemma resolve_kwargs_assoc am x kw : forall acc,
    assoc x (fold_left (fun acc kv => assoc_set (resolve am (fst kv)) (snd kv) acc) kw acc) = last_for am x kw (assoc x acc).
  Proof.
    induction kw as [|[k v] kw IH]; intros acc; simpl; [reflexivity|].
    rewrite IH. unfold last_for. simpl. f_equal.
    destruct (String.eqb x (resolve am k)) eqn:E.
    - apply String.eqb_eq in E. subst. apply assoc_set_eq.
    - apply String.eqb_neq in E. apply assoc_set_neq. exact E.
  Qed.

  (* the value a variable is initialised with is the LAST keyword that names it, by whatever alias *)
  Theorem resolve_kwargs_spec am x kw : assoc x (resolve_kwargs am kw) = last_for am x kw None.
  Proof. unfold resolve_kwargs. rewrite resolve_kwargs_assoc. reflexivity. Qed.

  Lemma resolve_kwargs_keys am kw : forall (acc : list (string * operand)) x,
    In x (map fst (fold_left (fun acc kv => assoc_set (resolve am (fst kv)) (snd kv) acc) kw acc)) ->
    In x (map fst acc) \/ In x (map (fun kv => resolve am (fst kv)) kw).
  Proof.
    induction kw as [|[k v] kw IH]; intros acc x H; simpl in *; [left; exact H|].
    destruct (IH _ _ H) as [H1|H1]; [|right; right; exact H1].
    destruct (string_dec x (resolve am k)) as [->|N]; [right; left; reflexivity|].
    left. destruct (assoc x acc) as [w|] eqn:A.
    - apply assoc_In in A. apply in_map_iff. exists (x, w). split; [reflexivity|exact A].
    - exfalso. apply (proj1 (assoc_none_iff x _)) in H1; [exact H1|]. rewrite (assoc_set_neq _ _ _ _ N). exact A.
  Qed.

  (* the keywords the wrapped constructor receives mention no alias *)
  Theorem resolve_kwargs_mention_no_alias am kw x :
    WFam am -> In x (map fst (resolve_kwargs am kw)) -> ~ In x (akeys (amap am)).
  Proof.
    intros W H. apply resolve_kwargs_keys in H as [[]|H].
    apply in_map_iff in H as [[k v] [<- _]]. simpl. apply resolve_not_alias. exact W.
  Qed.
End Frames.

(* ================================================================== to_dataframe(use_aliases=True) *)
Lemma dedupe_In x l : In x (dedupe l) <-> In x l.
Proof.
  induction l as [|y l IH]; simpl; [reflexivity|]. split.
  - intros [H|H]; [left; exact H|]. apply filter_In in H as [H _]. right. apply IH. exact H.
  - intros [H|H]; [left; exact H|]. destruct (string_dec y x) as [E|N]; [left; exact E|].
    right. apply filter_In. split; [apply IH; exact H|]. apply negb_true_iff. apply String.eqb_neq. exact N.
Qed.

Lemma dedupe_NoDup l : NoDup (dedupe l).
Proof.
  induction l as [|y l IH]; simpl; constructor.
  - intros C. apply filter_In in C as [_ C]. rewrite String.eqb_refl in C. discriminate.
  - apply NoDup_filter. exact IH.
Qed.

Lemma nodup_map_inj {A B} (f : A -> B) l x y : NoDup (map f l) -> In x l -> In y l -> f x = f y -> x = y.
Proof.
  induction l as [|p r IH]; intros ND Hx Hy E; [contradiction|].
  simpl in ND. inversion ND as [|? ? Hn ND']; subst.
  destruct Hx as [->|Hx], Hy as [->|Hy].
  - reflexivity.
  - exfalso. apply Hn. rewrite E. apply in_map. exact Hy.
  - exfalso. apply Hn. rewrite <- E. apply in_map. exact Hx.
  - apply IH; assumption.
Qed.

Lemma group_of_In a t k : In k (group_of a t) <-> In (k, t) a.
Proof.
  unfold group_of. rewrite in_map_iff. split.
  - intros [[k0 v0] [E H]]. apply filter_In in H as [H Ev]. simpl in *. apply String.eqb_eq in Ev. subst. exact H.
  - intros H. exists (k, t). split; [reflexivity|]. apply filter_In. split; [exact H|]. simpl. apply String.eqb_refl.
Qed.

Lemma last_alias_some c (l : amap_t) : forall acc k,
  fold_left (fun acc kv => if String.eqb (snd kv) c then Some (fst kv) else acc) l acc = Some k ->
  acc = Some k \/ In (k, c) l.
Proof.
  induction l as [|[k0 v0] l IH]; intros acc k H; simpl in H; [left; exact H|].
  destruct (IH _ _ H) as [E|E]; [|right; right; exact E].
  simpl in E. destruct (String.eqb v0 c) eqn:Ev; [|left; exact E].
  apply String.eqb_eq in Ev. inversion E; subst. right. left. reflexivity.
Qed.

Section Export.
  Variable am : aobj.
  Hypothesis W : WFam am.
  Hypothesis NDK : NoDup (akeys (amap am)).        (* self.aliases is a dict: no key twice *)

  Notation a := (amap am).
  Notation pref := (apref am).

  Lemma alias_resolves k t : In (k, t) a -> aget a k = t.
  Proof. intros H. unfold aget. rewrite (In_assoc_nodup _ _ _ NDK H). reflexivity. Qed.

  (* candidates of a group all resolve to the group's target *)
  Lemma candidates_resolve t ks x :
    (forall k, In k ks -> In (k, t) a) -> ~ In t (akeys a) -> In x (ks ++ [t]) -> aget a x = t.
  Proof.
    intros Hks Ht H. apply in_app_iff in H as [H|[<-|[]]].
    - apply alias_resolves. apply Hks. exact H.
    - apply aget_nonkey. exact Ht.
  Qed.

  Lemma at_most_one_preferred t ks x y r :
    (forall k, In k ks -> In (k, t) a) -> ~ In t (akeys a) ->
    filter (fun z => mem z pref) (dedupe (ks ++ [t])) = x :: y :: r -> False.
  Proof.
    intros Hks Ht F.
    assert (Hx : In x (x :: y :: r)) by (left; reflexivity).
    assert (Hy : In y (x :: y :: r)) by (right; left; reflexivity).
    rewrite <- F in Hx, Hy. apply filter_In in Hx as [Hx Px]. apply filter_In in Hy as [Hy Py].
    apply (proj1 (dedupe_In _ _)) in Hx. apply (proj1 (dedupe_In _ _)) in Hy. apply mem_In in Px. apply mem_In in Py.
    assert (E : x = y).
    { apply (nodup_map_inj (aget a) pref); [exact (proj2 W)|exact Px|exact Py|].
      rewrite (candidates_resolve t ks x Hks Ht Hx), (candidates_resolve t ks y Hks Ht Hy). reflexivity. }
    subst y.
    pose proof (NoDup_filter (fun z => mem z pref) (dedupe_NoDup (ks ++ [t]))) as ND.
    rewrite F in ND. inversion ND as [|? ? Hn _]; subst. apply Hn. left. reflexivity.
  Qed.

  (* the ValueError branch of to_dataframe is dead once __init__ has accepted PREFERRED_NAMES *)
  Lemma group_choice_total t : ~ In t (akeys a) -> exists c, group_choice am t = Ret c.
  Proof.
    intros Ht. unfold group_choice.
    assert (Hks : forall k, In k (group_of a t) -> In (k, t) a) by (intros k; apply group_of_In).
    destruct (group_of a t) as [|k [|k2 r]].
    - destruct (filter (fun z => mem z pref) (dedupe ([] ++ [t]))) as [|x [|y r']] eqn:F; eauto.
      exfalso. exact (at_most_one_preferred t [] x y r' Hks Ht F).
    - destruct (mem t pref); eauto.
    - destruct (filter (fun z => mem z pref) (dedupe ((k :: k2 :: r) ++ [t]))) as [|x [|y r']] eqn:F; eauto.
      exfalso. exact (at_most_one_preferred t _ x y r' Hks Ht F).
  Qed.

  (* whatever is chosen for a target is one of its aliases, or the target itself *)
  Lemma group_choice_some t x : group_choice am t = Ret (Some x) -> x = t \/ In (x, t) a.
  Proof.
    unfold group_choice. intros H.
    assert (FILT : forall ks, filter (fun z => mem z pref) (dedupe (ks ++ [t])) = [x] -> x = t \/ In x ks).
    { intros ks F. assert (Hx : In x [x]) by (left; reflexivity). rewrite <- F in Hx.
      apply filter_In in Hx as [Hx _]. apply (proj1 (dedupe_In _ _)) in Hx. apply in_app_iff in Hx as [Hx|[Hx|[]]]; auto. }
    destruct (group_of a t) as [|k [|k2 r]] eqn:G.
    - destruct (filter (fun z => mem z pref) (dedupe ([] ++ [t]))) as [|y [|y2 r']] eqn:F; inversion H; subst.
      destruct (FILT [] F) as [E|[]]. left. exact E.
    - destruct (mem t pref); inversion H; subst. right. apply group_of_In. rewrite G. left. reflexivity.
    - destruct (filter (fun z => mem z pref) (dedupe ((k :: k2 :: r) ++ [t]))) as [|y [|y2 r']] eqn:F; inversion H; subst.
      destruct (FILT _ F) as [E|E]; [left; exact E|]. right. apply group_of_In. rewrite G. exact E.
  Qed.

  Lemma replacements_total ts : (forall t, In t ts -> ~ In t (akeys a)) -> exists rep, replacements am ts = Ret rep.
  Proof.
    induction ts as [|t ts IH]; intros H; simpl; [eauto|].
    destruct (group_choice_total t (H t (or_introl eq_refl))) as [c ->].
    destruct IH as [rep ->]; [intros t' Ht'; apply H; right; exact Ht'|]. eauto.
  Qed.

  Lemma replacements_In ts : forall rep t x,
    replacements am ts = Ret rep -> In (t, x) rep -> In t ts /\ group_choice am t = Ret (Some x).
  Proof.
    induction ts as [|t0 ts IH]; intros rep t x H Hin; simpl in H.
    - inversion H; subst. contradiction.
    - destruct (group_choice am t0) as [c|e] eqn:G; [|discriminate].
      destruct (replacements am ts) as [l|e] eqn:R; [|discriminate]. inversion H; subst.
      destruct c as [x0|].
      + destruct Hin as [E|Hin].
        * inversion E; subst. split; [left; reflexivity|exact G].
        * destruct (IH _ _ _ eq_refl Hin) as [I1 I2]. split; [right; exact I1|exact I2].
      + destruct (IH _ _ _ eq_refl Hin) as [I1 I2]. split; [right; exact I1|exact I2].
  Qed.

  (* a title is the column's own name or one of the column's aliases *)
  Definition title_ok (c t : string) : Prop := t = c \/ In (t, c) a.

  Theorem rename_columns_spec cols :
    exists titles, rename_columns am cols = Ret titles /\ Forall2 title_ok cols titles.
  Proof.
    unfold rename_columns. destruct pref as [|p0 pr] eqn:P.
    - eexists. split; [reflexivity|].
      induction cols as [|c cols IH]; simpl; constructor; [|exact IH].
      unfold last_alias. destruct (fold_left _ a None) as [k|] eqn:F; [|left; reflexivity].
      apply last_alias_some in F as [F|F]; [discriminate|right; exact F].
    - destruct (replacements_total (dedupe (avals a))) as [rep R].
      { intros t Ht. apply (proj1 (dedupe_In _ _)) in Ht. apply (unchained_vals _ (proj1 W)). exact Ht. }
      rewrite R. eexists. split; [reflexivity|].
      induction cols as [|c cols IH]; simpl; constructor; [|exact IH].
      unfold aget. destruct (assoc c rep) as [x|] eqn:A; [|left; reflexivity].
      apply assoc_In in A. destruct (replacements_In _ _ _ _ R A) as [_ G].
      apply group_choice_some in G. exact G.
  Qed.

  Lemma title_ok_inj c1 c2 t :
    ~ In c1 (akeys a) -> ~ In c2 (akeys a) -> title_ok c1 t -> title_ok c2 t -> c1 = c2.
  Proof.
    intros K1 K2 [E1|E1] [E2|E2].
    - congruence.
    - subst t. exfalso. apply K1. unfold akeys. apply in_map_iff. exists (c1, c2). split; [reflexivity|exact E2].
    - subst t. exfalso. apply K2. unfold akeys. apply in_map_iff. exists (c2, c1). split; [reflexivity|exact E1].
    - apply alias_resolves in E1. apply alias_resolves in E2. congruence.
  Qed.

  Lemma forall2_nodup cols : forall titles,
    Forall2 title_ok cols titles -> NoDup cols -> (forall c, In c cols -> ~ In c (akeys a)) -> NoDup titles.
  Proof.
    induction cols as [|c cols IH]; intros titles F ND NK; inversion F as [|? t ? ts Hct Fr]; subst; constructor.
    - intros C. inversion ND as [|? ? Hc _]; subst. apply Hc.
      assert (EX : exists c2, In c2 cols /\ title_ok c2 t).
      { clear - Fr C. induction Fr as [|c' t' cs' ts' H' F' IH']; [contradiction|].
        destruct C as [<-|C]; [exists c'; split; [left; reflexivity|exact H']|].
        destruct (IH' C) as [c2 [I2 T2]]. exists c2. split; [right; exact I2|exact T2]. }
      destruct EX as [c2 [I2 T2]].
      rewrite (title_ok_inj c c2 t); [exact I2| | |exact Hct|exact T2].
      + apply NK. left. reflexivity.
      + apply NK. right. exact I2.
    - inversion ND; subst. apply IH; [exact Fr|assumption|]. intros c0 H0. apply NK. right. exact H0.
  Qed.

  Lemma map_snd_combine {A B} (l1 : list A) : forall (l2 : list B), length l1 = length l2 -> map snd (combine l1 l2) = l2.
  Proof.
    induction l1 as [|x l1 IH]; intros [|y l2] H; simpl in *; try discriminate; [reflexivity|].
    f_equal. apply IH. lia.
  Qed.

  Lemma map_fst_combine {A B} (l1 : list A) : forall (l2 : list B), length l1 = length l2 -> map fst (combine l1 l2) = l1.
  Proof.
    induction l1 as [|x l1 IH]; intros [|y l2] H; simpl in *; try discriminate; [reflexivity|].
    f_equal. apply IH. lia.
  Qed.

  Lemma forall2_length {A B} (R : A -> B -> Prop) l1 l2 : Forall2 R l1 l2 -> length l1 = length l2.
  Proof. induction 1; simpl; congruence. Qed.

  (* EXPORT ONLY RENAMES.  When no alias is named like an exported column (the code does not check this: see
     alias_named_like_variable_refuted in AliasExamples.v) the export never raises, every column keeps its own data
     (same variables, same order, none dropped), no two columns get the same title, and a title is the column's
     name or one of its aliases. *)
  Theorem export_cols_rename_only cols :
    NoDup cols ->
    (forall c, In c cols -> ~ In c (akeys a)) ->
    exists l, export_cols am cols = Ret l /\
      map snd l = cols /\
      NoDup (map fst l) /\
      Forall2 title_ok cols (map fst l).
  Proof.
    intros ND NK. unfold export_cols.
    destruct (rename_columns_spec cols) as [titles [R F]]. rewrite R.
    assert (RES : map (resolve am) cols = cols).
    { rewrite <- (map_id cols) at 2. apply map_ext_in. intros c Hc. apply aget_nonkey. apply NK. exact Hc. }
    rewrite RES. pose proof (forall2_length _ _ _ F) as L.
    eexists. split; [reflexivity|].
    rewrite map_snd_combine, map_fst_combine by (symmetry; exact L).
    split; [reflexivity|]. split; [|exact F].
    eapply forall2_nodup; eassumption.
  Qed.

  Theorem export_rename_only s :
    NoDup (base_columns s) ->
    (forall c, In c (base_columns s) -> ~ In c (akeys a)) ->
    exists l, export am s = Ret l /\
      map snd l = base_columns s /\
      NoDup (map fst l) /\
      Forall2 title_ok (base_columns s) (map fst l).
  Proof. apply export_cols_rename_only. Qed.

  (* in every case (even with an alias named like a variable), whatever columns are selected (status / iterations / internal
     variables in or out): one column per exported variable, never raises *)
  Theorem export_cols_total cols : exists l, export_cols am cols = Ret l /\ length l = length cols.
  Proof.
    unfold export_cols. destruct (rename_columns_spec cols) as [titles [R F]]. rewrite R.
    eexists. split; [reflexivity|]. rewrite combine_length, map_length, <- (forall2_length _ _ _ F). apply Nat.min_id.
  Qed.

  Theorem export_total s : exists l, export am s = Ret l /\ length l = length (base_columns s).
  Proof. apply export_cols_total. Qed.
End Export.

Lemma replacements_assoc am ts : forall rep c,
  replacements am ts = Ret rep -> NoDup ts ->
  (In c ts -> exists ch, group_choice am c = Ret ch /\ assoc c rep = ch) /\ (~ In c ts -> assoc c rep = None).
Proof.
  induction ts as [|t ts IH]; intros rep c H ND; simpl in H.
  - inversion H; subst. split; [intros []|reflexivity].
  - destruct (group_choice am t) as [ch0|e] eqn:G; [|discriminate].
    destruct (replacements am ts) as [l|e] eqn:R; [|discriminate]. inversion H; subst. clear H.
    inversion ND as [|? ? Ht ND']; subst.
    destruct (IH l c eq_refl ND') as [I1 I2].
    destruct (string_dec c t) as [->|Ne].
    + split; [|intros C; exfalso; apply C; left; reflexivity].
      intros _. exists ch0. split; [exact G|].
      destruct ch0 as [x|]; simpl; [rewrite String.eqb_refl; reflexivity|].
      destruct (IH l t eq_refl ND') as [_ I2']. apply I2'. exact Ht.
    + assert (E : assoc c (match ch0 with Some x => (t, x) :: l | None => l end) = assoc c l).
      { destruct ch0 as [x|]; [|reflexivity]. simpl. apply String.eqb_neq in Ne. rewrite Ne. reflexivity. }
      rewrite E. split.
      * intros [C|C]; [congruence|apply I1; exact C].
      * intros C. apply I2. intros C'. apply C. right. exact C'.
Qed.

(* CHOOSING THE PREFERRED NAME: a column whose variable has a declared preferred name (the variable's own name or any of its
   aliases) is titled with exactly that name *)
Theorem preferred_title am :
  WFam am -> NoDup (akeys (amap am)) ->
  forall cols titles c p,
  rename_columns am cols = Ret titles ->
  In p (apref am) -> aget (amap am) p = c -> ~ In c (akeys (amap am)) ->
  Forall2 (fun c' t => c' = c -> t = p) cols titles.
Proof.
  intros W NDK cols titles c p R Hp Hpc Hc.
  assert (PK : p = c \/ In (p, c) (amap am)).
  { unfold aget in Hpc. destruct (assoc p (amap am)) as [v|] eqn:A; [|left; exact Hpc].
    right. subst v. apply assoc_In. exact A. }
  unfold rename_columns in R. destruct (apref am) as [|p0 pr] eqn:P; [contradiction|]. rewrite <- P in *.
  destruct (replacements am (dedupe (avals (amap am)))) as [rep|e] eqn:RP; [|discriminate].
  inversion R; subst titles. clear R.
  assert (T : aget rep c = p).
  { destruct (replacements_assoc am _ rep c RP (dedupe_NoDup _)) as [I1 I2].
    destruct (in_dec string_dec c (avals (amap am))) as [Hv|Hv].
    - destruct (I1 (proj2 (dedupe_In _ _) Hv)) as [ch [G A]]. unfold aget. rewrite A. clear I1 I2 A.
      unfold group_choice in G.
      assert (Hks : forall k, In k (group_of (amap am) c) -> In (k, c) (amap am)) by (intros k; apply group_of_In).
      assert (Pin : In p (group_of (amap am) c ++ [c])).
      { apply in_app_iff. destruct PK as [->|PK]; [right; left; reflexivity|left; apply group_of_In; exact PK]. }
      assert (MULTI : forall ks, ks = group_of (amap am) c ->
                match filter (fun x => mem x (apref am)) (dedupe (ks ++ [c])) with
                | [] => Ret None | [x] => Ret (Some x) | _ :: _ :: _ => Raise ValueError end = Ret ch ->
                match ch with Some x => x | None => c end = p).
      { intros ks -> G'.
        assert (Fin : In p (filter (fun x => mem x (apref am)) (dedupe (group_of (amap am) c ++ [c])))).
        { apply filter_In. split; [apply dedupe_In; exact Pin|apply mem_In; exact Hp]. }
        destruct (filter (fun x => mem x (apref am)) (dedupe (group_of (amap am) c ++ [c]))) as [|x [|y r]] eqn:F.
        - contradiction.
        - inversion G'; subst. destruct Fin as [E|[]]. exact E.
        - discriminate. }
      destruct (group_of (amap am) c) as [|k [|k2 r]] eqn:GO.
      + apply (MULTI []); [reflexivity|exact G].
      + destruct (mem c (apref am)) eqn:M; inversion G; subst ch.
        * (* the variable's own name is preferred: p must be it *)
          destruct PK as [E|PK]; [symmetry; exact E|]. exfalso.
          apply mem_In in M.
          assert (E : p = c).
          { apply (nodup_map_inj (aget (amap am)) (apref am)); [exact (proj2 W)|exact Hp|exact M|].
            rewrite Hpc. symmetry. apply aget_nonkey. exact Hc. }
          subst p. apply Hc. apply in_map_iff. exists (c, c). split; [reflexivity|exact PK].
        * destruct PK as [E|PK].
          -- subst p. apply mem_In in Hp. congruence.
          -- assert (In p [k]) by (rewrite <- GO; apply group_of_In; exact PK). destruct H as [E|[]]. exact E.
      + apply (MULTI (k :: k2 :: r)); [reflexivity|exact G].
    - unfold aget. rewrite I2; [|intros C; apply Hv; apply (proj1 (dedupe_In _ _)); exact C].
      destruct PK as [E|PK]; [symmetry; exact E|]. exfalso. apply Hv. apply in_map_iff. exists (p, c). split; [reflexivity|exact PK]. }
  clear RP. induction cols as [|c' cols IH]; simpl; constructor; [|exact IH].
  intros ->. exact T.
Qed.

(* ================================================================== the canonical twin, defined from the DECLARATION alone *)
(* chain_end ALIASES x: follow the declared chain of x as far as it goes (what a reader of the class body would do by hand; the
   harness's oracle builds its twin with exactly this function) *)
Definition chain_end (ALIASES : amap_t) (x : string) : string := follow (length ALIASES) ALIASES x.

Definition canon_key (ALIASES : amap_t) (k : key) : key :=
  match k with
  | KName n => KName (chain_end ALIASES n)
  | KLabel n l => KLabel (chain_end ALIASES n) l
  | KSlice n a b st => KSlice (chain_end ALIASES n) a b st
  | KTuple3 => KTuple3
  | KOther => KOther
  end.

Definition canon_op (ALIASES : amap_t) (o : op) : op :=
  match o with
  | SetAttr n v h => SetAttr (chain_end ALIASES n) v h
  | SetItem k v => SetItem (canon_key ALIASES k) v
  | ReplaceValues kvs => ReplaceValues (map (fun kv => (chain_end ALIASES (fst kv), snd kv)) kvs)
  | AddVariable _ _ _ | AddAttribute _ _ | Query _ => o
  end.

Definition canon_kwargs (ALIASES : amap_t) (kw : list (string * operand)) : list (string * operand) :=
  fold_left (fun acc kv => assoc_set (chain_end ALIASES (fst kv)) (snd kv) acc) kw [].

Definition acyclic (ALIASES : amap_t) : Prop :=
  forall k, In k (akeys (drop_self ALIASES)) -> exists n, ~ In (follow n (drop_self ALIASES) k) (akeys (drop_self ALIASES)).

Section Canonical.
  Variable pycast : dtype -> pyval -> outcome pyval.
  Variable arrcast : dtype -> dtype -> pyval -> outcome pyval.
  Variable infer : list pyval -> dtype.
  Variable astype_dt : dtype -> list pyval -> dreq -> dtype.
  Variable itemseq_exn : dtype -> exn.
  Notation run := (run pycast arrcast infer astype_dt itemseq_exn).
  Notation run_trace := (run_trace pycast arrcast infer astype_dt itemseq_exn).
  Notation init_model := (init_model pycast arrcast infer astype_dt).
  Notation alias_run := (gen_alias_run pycast arrcast infer astype_dt itemseq_exn).
  Notation alias_trace := (alias_trace pycast arrcast infer astype_dt itemseq_exn).
  Notation alias_init_model := (gen_alias_init_model pycast arrcast infer astype_dt).

  Variable ALIASES : amap_t.
  Variable PREFERRED : list string.
  Variable am : aobj.
  Hypothesis ND : NoDup (akeys ALIASES).
  Hypothesis AC : acyclic ALIASES.
  Hypothesis CON : alias_construct ALIASES PREFERRED = Ret am.

  Lemma resolve_chain_end x : resolve am x = chain_end ALIASES x.
  Proof.
    apply (resolve_is_chain_end ALIASES PREFERRED am x ND); [|exact CON].
    intros k K C. destruct (AC k K) as [n Hn]. apply Hn. apply follow_escape_bound. exact C.
  Qed.

  Lemma resolve_op_canon o : resolve_op am o = canon_op ALIASES o.
  Proof.
    destruct o as [name v dt|name v hint|k v|kvs|name v|q]; simpl; try reflexivity.
    - rewrite resolve_chain_end. reflexivity.
    - destruct k; simpl; try reflexivity; rewrite resolve_chain_end; reflexivity.
    - f_equal. apply map_ext. intros [k v]. simpl. rewrite resolve_chain_end. reflexivity.
  Qed.

  (* REFINEMENT TO THE CANONICAL TWIN.  For every acyclic declaration the constructor accepts and every history, the aliased
     object operated through ANY names goes through exactly the states and outcomes of an alias-free object operated through the
     ends of the declared chains *)
  Theorem alias_run_canonical_twin ops s : alias_run am ops s = run (map (canon_op ALIASES) ops) s.
  Proof.
    rewrite alias_run_twin. f_equal. apply map_ext. intros o. apply resolve_op_canon.
  Qed.

  Theorem alias_trace_canonical_twin ops s : alias_trace am ops s = run_trace (map (canon_op ALIASES) ops) s.
  Proof.
    rewrite alias_trace_twin. f_equal. apply map_ext. intros o. apply resolve_op_canon.
  Qed.

  Lemma fold_ext_kwargs (kw : list (string * operand)) : forall acc : list (string * operand),
    fold_left (fun acc kv => assoc_set (resolve am (fst kv)) (snd kv) acc) kw acc =
    fold_left (fun acc kv => assoc_set (chain_end ALIASES (fst kv)) (snd kv) acc) kw acc.
  Proof.
    induction kw as [|[k v] kw IH]; intros acc; simpl; [reflexivity|]. rewrite resolve_chain_end. apply IH.
  Qed.

  (* ... and is constructed like it: keywords through aliases = the same keywords through the chain ends *)
  (* (when the constructor succeeds, i.e. no alias clashes with a variable / attribute: fix 4e03fd0) *)
  Theorem alias_init_canonical_twin ca k sp st d default NAMES kwargs s u :
    alias_init_model ca am k sp st d default NAMES kwargs = (s, Ret u) ->
    init_model k sp st d default NAMES (canon_kwargs ALIASES kwargs) = (s, Ret u).
  Proof.
    unfold gen_alias_init_model, resolve_kwargs, canon_kwargs. rewrite fold_ext_kwargs. intros H.
    destruct (init_model k sp st d default NAMES
                (fold_left (fun acc kv => assoc_set (chain_end ALIASES (fst kv)) (snd kv) acc) kwargs [])) as [s1 [u1|e]];
      [|discriminate H].
    destruct (alias_clash ca am s1); [discriminate H|exact H].
  Qed.

  (* reads through any name = reads of the chain end on the twin *)
  Theorem alias_read_canonical_twin k s : alias_getitem am k s = getitem (canon_key ALIASES k) s.
  Proof.
    unfold alias_getitem. f_equal. destruct k; simpl; try reflexivity; rewrite resolve_chain_end; reflexivity.
  Qed.

  Theorem alias_getattr_canonical_twin n s : alias_getattr_var am n s = getattr_var (chain_end ALIASES n) s.
  Proof. unfold alias_getattr_var. rewrite resolve_chain_end. reflexivity. Qed.
End Canonical.

(* ================================================================== the read-only hooks of the mixin *)
(* FRAME: calling _ipython_key_completions_, dir(), `in` or nbytes on an aliased object changes NOTHING - in particular the
   container's own `index` list is not the list handed out (the answer is a concatenation, hence a new list) *)
Theorem alias_hooks_change_nothing am q s : fst (alias_read am q s) = s.
Proof. destruct q; reflexivity. Qed.

(* what the completion hook offers: the variables, then the aliases the object holds ... *)
Theorem alias_completions am s :
  snd (alias_read am QCompletions s) = Ret (VNames (index s ++ akeys (amap am))) /\
  snd (alias_read am QCompletions s) =
    match snd (read QCompletions s) with Ret (VNames l) => Ret (VNames (l ++ akeys (amap am))) | r => r end.
Proof. split; reflexivity. Qed.

(* ... which, for an accepted acyclic declaration, are exactly the declared aliases that are no self-maps, in dict order *)
Theorem alias_completions_declared ALIASES PREFERRED am s :
  NoDup (akeys ALIASES) -> acyclic ALIASES -> alias_construct ALIASES PREFERRED = Ret am ->
  snd (alias_read am QCompletions s) = Ret (VNames (index s ++ akeys (drop_self ALIASES))).
Proof.
  intros ND AC CON. simpl.
  destruct (shorten_acyclic_unbounded ALIASES ND AC) as [a [S [K _]]].
  unfold alias_construct in CON. rewrite S in CON.
  destruct (pref_check a PREFERRED []) as [[]|e]; [|discriminate]. inversion CON; subst. simpl. rewrite K. reflexivity.
Qed.

(* every alias offered by the hook whose chain ends at a variable can be used as a key, and reads that variable *)
Theorem alias_completion_usable am s n :
  In n (akeys (amap am)) -> mem (resolve am n) (index s) = true ->
  alias_getitem am (KName n) s = getitem (KName (resolve am n)) s /\ alias_getitem am (KName n) s <> Raise KeyError \/
  assoc (resolve am n) (vars s) = None.
Proof.
  intros _ M. destruct (assoc (resolve am n) (vars s)) as [v|] eqn:A; [left|right; reflexivity].
  split; [reflexivity|]. unfold alias_getitem. simpl. rewrite M, A. discriminate.
Qed.

(* `name in m` (fix 0f38318): for an alias, membership of the variable it names; for any other name, the plain object's answer;
   and it agrees with item access: `n in m` iff m[n] does not raise KeyError (on an object satisfying the invariant) *)
Theorem alias_contains am n s :
  snd (alias_read am (QContains n) s) = snd (read (QContains (resolve am n)) s) /\
  (~ In n (akeys (amap am)) -> snd (alias_read am (QContains n) s) = snd (read (QContains n) s)).
Proof.
  split; [reflexivity|]. intros H. simpl. unfold resolve. rewrite (aget_nonkey _ _ H). reflexivity.
Qed.

Theorem alias_contains_same_target am n1 n2 s :
  resolve am n1 = resolve am n2 -> snd (alias_read am (QContains n1) s) = snd (alias_read am (QContains n2) s).
Proof. intros E. simpl. rewrite E. reflexivity. Qed.

Theorem alias_member_is_readable am n s :
  Inv s -> snd (alias_read am (QContains n) s) = Ret (VBool true) -> alias_getitem am (KName n) s <> Raise KeyError.
Proof.
  intros I H. simpl in H. inversion H as [M]. apply mem_In in M.
  assert (Hin : In (resolve am n) (index s)).
  { pose proof (row_names_incl s I) as RI. apply RI. exact M. }
  unfold alias_getitem. simpl. rewrite (proj2 (mem_In _ _) Hin).
  destruct (assoc (resolve am n) (vars s)) as [v|] eqn:A; [discriminate|].
  exfalso. exact (proj1 (proj2 (proj1 I)) _ Hin A).
Qed.

Theorem alias_dir am s :
  snd (alias_read am QDir s) =
    match snd (read QDir s) with Ret (VNames l) => Ret (VNames (l ++ akeys (amap am))) | r => r end.
Proof. simpl. rewrite app_assoc. reflexivity. Qed.

(* nbytes of an aliased object = nbytes of the plain object, provided no alias is named like a variable *)
Theorem alias_nbytes am s :
  (forall x, In x (index s) -> ~ In x (akeys (amap am))) ->
  snd (alias_read am QNbytes s) = snd (read QNbytes s).
Proof.
  intros H. simpl. unfold nbytes_of.
  assert (G : forall l, incl l (index s) ->
    fold_right (fun x acc => match acc with
                             | Raise e => Raise e
                             | Ret a => match assoc (resolve am x) (vars s) with
                                        | Some v => if mem (resolve am x) (index s) then Ret (prod_shape (vshape v) * itemsize (vdtype v) + a) else Raise KeyError
                                        | None => Raise KeyError
                                        end
                             end) (Ret 0) l =
    fold_right (fun x acc => match acc with
                             | Raise e => Raise e
                             | Ret a => match assoc x (vars s) with
                                        | Some v => if mem x (index s) then Ret (prod_shape (vshape v) * itemsize (vdtype v) + a) else Raise KeyError
                                        | None => Raise KeyError
                                        end
                             end) (Ret 0) l).
  { induction l as [|x l IH]; intros Hl; [reflexivity|]. simpl.
    rewrite IH by (intros y Hy; apply Hl; right; exact Hy).
    unfold resolve. rewrite (aget_nonkey _ _ (H x (Hl x (or_introl eq_refl)))). reflexivity. }
  rewrite (G (index s) (incl_refl _)). reflexivity.
Qed.

(* ================================================================== the rows of `values` are pairwise different variables *)
Section RowNames.
  Variable pycast : dtype -> pyval -> outcome pyval.
  Variable arrcast : dtype -> dtype -> pyval -> outcome pyval.
  Variable infer : list pyval -> dtype.
  Variable astype_dt : dtype -> list pyval -> dreq -> dtype.
  Variable itemseq_exn : dtype -> exn.
  Notation step := (step pycast arrcast infer astype_dt itemseq_exn).
  Notation run := (run pycast arrcast infer astype_dt itemseq_exn).
  Notation add_variable := (add_variable pycast arrcast infer astype_dt).
  Notation base_add_variable := (base_add_variable pycast arrcast infer astype_dt).
  Notation init_model := (init_model pycast arrcast infer astype_dt).
  Notation init_vars := (init_vars pycast arrcast infer astype_dt).

  Lemma step_names o s :
    in_scope (kind s) o ->
    names (fst (step o s)) = names s \/
    exists name v dt, o = AddVariable name v dt /\ names (fst (step o s)) = names s ++ [name] /\ mem name (index s) = false.
  Proof.
    destruct o as [name v dt|name v hint|k v|kvs|name v|q]; simpl; intros SC.
    - destruct (add_variable name v dt s) as [s' [u|e]] eqn:A.
      + pose proof (add_variable_appends pycast arrcast infer astype_dt name v dt s s' u A) as [_ N].
        pose proof (add_variable_ret pycast arrcast infer astype_dt name v dt s s' u A) as [_ [M _]].
        simpl. destruct (kind s); [left; rewrite N, app_nil_r; reflexivity| |];
          (right; exists name, v, dt; split; [reflexivity|split; [exact N|exact M]]).
      + apply add_variable_err in A. subst. left. reflexivity.
    - left. exact (proj2 (setattr_ki pycast arrcast infer name v hint s (or_introl SC))).
    - left. exact (proj2 (setitem_ki pycast arrcast infer itemseq_exn k v s)).
    - left. exact (proj2 (replace_values_ki pycast arrcast infer itemseq_exn kvs s)).
    - left. exact (proj2 (add_attribute_ki pycast arrcast infer name v s SC)).
    - left. rewrite read_frame. reflexivity.
  Qed.

  (* InvU: for models / linkers `names` holds no name twice *)
  Definition InvU (s : state) : Prop := kind s <> CVC -> NoDup (names s).

  Theorem step_preserves_invU o s : in_scope (kind s) o -> Inv s -> InvU s -> InvU (fst (step o s)).
  Proof.
    intros SC I U K'.
    assert (K : kind s <> CVC).
    { destruct (good_span _ _ (step_good pycast arrcast infer astype_dt itemseq_exn o s SC)) as [_ E]. rewrite <- E. exact K'. }
    destruct (step_names o s SC) as [E|[name [v [dt [_ [E M]]]]]]; rewrite E; [exact (U K)|].
    apply nodup_snoc; [exact (U K)|]. apply mem_false in M. intros C. apply M. apply (proj2 I K). exact C.
  Qed.

  Theorem reachable_invU ops : forall s, Forall (in_scope (kind s)) ops -> Inv s -> InvU s -> InvU (run ops s).
  Proof.
    induction ops as [|o ops IH]; intros s F I U; simpl; [exact U|].
    destruct (scope_tail pycast arrcast infer astype_dt itemseq_exn _ _ _ F) as [Fo Fr].
    apply IH; [exact Fr|apply step_preserves_inv; assumption|apply step_preserves_invU; assumption].
  Qed.

  (* hence: the rows of `values` (index for a container, names for a model) are pairwise different on every reachable object *)
  Theorem row_names_nodup s : Inv s -> InvU s -> NoDup (row_names s).
  Proof.
    intros I U. unfold row_names. destruct (kind s) eqn:K; [exact (proj1 (proj1 I))| |]; apply U; congruence.
  Qed.

  Lemma dup_free_nodup l : dup_free l = true -> NoDup l.
  Proof.
    induction l as [|x l IH]; simpl; intros H; constructor.
    - apply andb_true_iff in H as [H _]. apply negb_true_iff in H. apply mem_false. exact H.
    - apply IH. apply andb_true_iff in H as [_ H]. exact H.
  Qed.

  Lemma init_vars_names nms ivs default d : forall s, names (fst (init_vars nms ivs default d s)) = names s.
  Proof.
    induction nms as [|x nms IH]; intros s; simpl; [reflexivity|].
    pose proof (base_add_variable_index pycast arrcast infer astype_dt x (match assoc x ivs with Some v => v | None => default end) (Some d) s) as [_ N].
    destruct (base_add_variable x (match assoc x ivs with Some v => v | None => default end) (Some d) s) as [s' [u|e]]; simpl in *; [|exact N].
    rewrite IH. exact N.
  Qed.

  (* a constructed model / linker: `names` is the class's NAMES, which the constructor has checked for duplicates *)
  Theorem init_model_names k sp st d default NAMES ivs s u :
    init_model k sp st d default NAMES ivs = (s, Ret u) -> names s = NAMES /\ NoDup NAMES.
  Proof.
    intros H. unfold Container.init_model in H.
    apply bind_ret in H as (s1 & u1 & H1 & H).
    apply bind_ret in H as (s2 & u2 & H2 & H).
    apply bind_ret in H as (s3 & u3 & H3 & H).
    destruct (negb (dup_free NAMES)) eqn:DF; [inversion H|].
    match type of H with context [if ?c then _ else _] => destruct c end; [inversion H|].
    apply bind_ret in H as (s4 & u4 & H4 & H).
    apply bind_ret in H as (s5 & u5 & H5 & H).
    apply bind_ret in H as (s6 & u6 & H6 & H).
    apply bind_ret in H as (s7 & u7 & H7 & H).
    apply bind_ret in H as (s8 & u8 & H8 & H).
    apply bind_ret in H as (s9 & u9 & H9 & H).
    split; [|apply dup_free_nodup; apply negb_false_iff; exact DF].
    assert (N5 : names s5 = NAMES).
    { pose proof (init_vars_names NAMES ivs default d (set_names s4 NAMES)) as N. rewrite H5 in N. exact N. }
    assert (KA : forall nm v sa sb ub, (forall k0, bookkeeping k0 nm = false) ->
                 add_attribute pycast arrcast infer nm v sa = (sb, Ret ub) -> names sb = names sa).
    { intros nm v sa sb ub B E. pose proof (proj2 (add_attribute_ki pycast arrcast infer nm v sa (B _))) as N. rewrite E in N. exact N. }
    assert (BK : forall nm, nm = "lags" \/ nm = "leads" \/ nm = "endogenous" \/ nm = "check" \/ nm = "engine" -> forall k0, bookkeeping k0 nm = false).
    { intros nm [->|[->|[->|[->| ->]]]] k0; destruct k0; reflexivity. }
    assert (N9 : names s9 = NAMES).
    { rewrite (KA _ _ _ _ _ (BK _ (or_intror (or_intror (or_intror (or_introl eq_refl))))) H9),
              (KA _ _ _ _ _ (BK _ (or_intror (or_intror (or_introl eq_refl)))) H8),
              (KA _ _ _ _ _ (BK _ (or_intror (or_introl eq_refl))) H7),
              (KA _ _ _ _ _ (BK _ (or_introl eq_refl)) H6). exact N5. }
    destruct k; [inversion H; subst; exact N9
                |rewrite (KA _ _ _ _ _ (BK _ (or_intror (or_intror (or_intror (or_intror eq_refl))))) H); exact N9
                |inversion H; subst; exact N9].
  Qed.
End RowNames.

(* ================================================================== strict=True and writes through aliases *)
Section StrictAlias.
  Variable pycast : dtype -> pyval -> outcome pyval.
  Variable arrcast : dtype -> dtype -> pyval -> outcome pyval.
  Variable infer : list pyval -> dtype.
  Variable astype_dt : dtype -> list pyval -> dreq -> dtype.
  Variable itemseq_exn : dtype -> exn.
  Notation alias_step := (gen_alias_step pycast arrcast infer astype_dt itemseq_exn).

  (* an alias of a variable is as good as the variable under strict=True: attribute and item assignment reach the series *)
  Theorem alias_update_keeps_working am a value hint s :
    mem (resolve am a) (index s) = true ->
    alias_step am (SetAttr a value hint) s = setattr_var pycast arrcast (resolve am a) value s /\
    alias_step am (SetItem (KName a) value) s = setattr_var pycast arrcast (resolve am a) value s.
  Proof.
    intros M. unfold gen_alias_step. simpl.
    exact (strict_updates_keep_working pycast arrcast infer itemseq_exn (resolve am a) value hint s M).
  Qed.

  (* a name that resolves to no variable and no registered attribute cannot create anything under strict=True *)
  Theorem alias_strict_blocks_new_attributes am a value hint s :
    strict s = true -> is_property (kind s) (resolve am a) = false ->
    mem (resolve am a) (index s) = false -> reg_mem (resolve am a) (registry s) = false ->
    alias_step am (SetAttr a value hint) s =
      (s, Raise (match alternatives hint (row_names s) with _ :: _ :: _ => NotImplementedError | _ => AttributeError end)).
  Proof.
    intros S N M R. unfold gen_alias_step. simpl.
    exact (strict_blocks_new_attributes pycast arrcast infer (resolve am a) value hint s S N M R).
  Qed.
End StrictAlias.

(* ================================================================== reindex() of plain and aliased objects *)
Lemma fold_left_ext_in {A B} (f g : A -> B -> A) l : (forall a x, In x l -> f a x = g a x) -> forall a, fold_left f l a = fold_left g l a.
Proof.
  induction l as [|x l IH]; intros H a; [reflexivity|]. simpl. rewrite (H a x (or_introl eq_refl)).
  apply IH. intros a' y Hy. apply H. right. exact Hy.
Qed.

(* EQUALS THE TWIN'S reindex: when no alias is named like a variable, reindexing the aliased object is reindexing the plain one *)
Theorem alias_reindex_twin am fill new_span s :
  (forall x, In x (index s) -> ~ In x (akeys (amap am))) ->
  alias_reindex am fill new_span s = reindex_plain fill new_span s.
Proof.
  intros H. unfold alias_reindex, reindex_plain, reindex_with.
  rewrite (fold_left_ext_in (reindex_name (resolve am) fill new_span s) (reindex_name (fun x => x) fill new_span s)); [reflexivity|].
  intros a x Hx. unfold reindex_name. unfold resolve. rewrite (aget_nonkey _ _ (H x Hx)). reflexivity.
Qed.

(* FRAME + storage: the result has the new span, the same index / names / attributes / strict flag / kind, and series only under
   names that had one or are variables: nothing under alias names *)
Lemma reindex_name_keys rn fill new_span s acc name vs :
  reindex_name rn fill new_span s acc name = Ret vs ->
  exists vs0, acc = Ret vs0 /\ forall x, assoc x vs <> None -> assoc x vs0 <> None \/ x = name.
Proof.
  unfold reindex_name. destruct acc as [vs0|e]; [|discriminate].
  destruct (negb (mem (rn name) (index s))); [discriminate|].
  destruct (assoc (rn name) (vars s)) as [src|]; [|discriminate].
  destruct (assoc (rn name) (assoc_set name _ vs0)) as [tgt|] eqn:T; [|discriminate].
  intros H. inversion H; subst. exists vs0. split; [reflexivity|]. intros x Hx.
  destruct (string_dec x name) as [->|N1]; [right; reflexivity|left].
  destruct (string_dec x (rn name)) as [->|N2].
  - rewrite (assoc_set_neq _ _ _ _ N1) in T. rewrite T. discriminate.
  - rewrite (assoc_set_neq _ _ _ _ N2), (assoc_set_neq _ _ _ _ N1) in Hx. exact Hx.
Qed.

Lemma reindex_fold_keys rn fill new_span s : forall l acc vs,
  fold_left (reindex_name rn fill new_span s) l acc = Ret vs ->
  exists vs0, acc = Ret vs0 /\ forall x, assoc x vs <> None -> assoc x vs0 <> None \/ In x l.
Proof.
  induction l as [|n l IH]; intros acc vs H; simpl in H.
  - exists vs. split; [exact H|]. intros x Hx. left. exact Hx.
  - destruct (IH _ _ H) as [vs1 [E1 K1]]. destruct (reindex_name_keys _ _ _ _ _ _ _ E1) as [vs0 [E0 K0]].
    exists vs0. split; [exact E0|]. intros x Hx. destruct (K1 x Hx) as [H1|H1]; [|right; right; exact H1].
    destruct (K0 x H1) as [H0|H0]; [left; exact H0|right; left; symmetry; exact H0].
Qed.

Theorem reindex_frame rn fill new_span s s' :
  reindex_with rn fill new_span s = Ret s' ->
  span s' = new_span /\ index s' = index s /\ names s' = names s /\ registry s' = registry s /\ adict s' = adict s /\
  strict s' = strict s /\ kind s' = kind s /\
  (forall x, assoc x (vars s') <> None -> assoc x (vars s) <> None \/ In x (index s)).
Proof.
  unfold reindex_with. intros H.
  destruct (fold_left (reindex_name rn fill new_span s) (index s) (Ret (vars s))) as [vs|e] eqn:F; [|discriminate].
  inversion H; subst. simpl. repeat split.
  destruct (reindex_fold_keys _ _ _ _ _ _ _ F) as [vs0 [E K]]. inversion E; subst. exact K.
Qed.

(* a reindexed aliased object holds no series under an alias name (unless a variable of that very name was declared) *)
Theorem alias_reindex_no_storage_under_aliases am fill new_span s s' k :
  alias_reindex am fill new_span s = Ret s' ->
  In k (akeys (amap am)) -> assoc k (vars s) = None -> ~ In k (index s) ->
  assoc k (vars s') = None /\ ~ In k (index s').
Proof.
  intros H _ A NI. destruct (reindex_frame _ _ _ _ _ H) as [_ [EI [_ [_ [_ [_ [_ K]]]]]]].
  split; [|rewrite EI; exact NI].
  destruct (assoc k (vars s')) eqn:E; [|reflexivity]. exfalso.
  destruct (K k) as [C|C]; [rewrite E; discriminate|apply C; exact A|exact (NI C)].
Qed.

(* ---------------------------------------------------------------- what reindex computes (plain object) *)
Lemma assoc_set_twice {A} k (a b : A) l : assoc_set k b (assoc_set k a l) = assoc_set k b l.
Proof.
  induction l as [|[k0 v0] l IH]; simpl.
  - rewrite String.eqb_refl. reflexivity.
  - destruct (String.eqb k k0) eqn:E; simpl; [rewrite String.eqb_refl; reflexivity|]. rewrite E, IH. reflexivity.
Qed.

Definition reindexed_var (fill : string -> dtype -> pyval) (old_span new_span : list Z) (name : string) (src : var) : var :=
  mkVar (vdtype src) [length new_span]
        (write_positions (vdata src) (positions old_span new_span) (repeat (fill name (vdtype src)) (length new_span))).

Lemma write_positions_length src ps : forall dst, length (write_positions src ps dst) = length dst.
Proof.
  unfold write_positions. induction ps as [|p ps IH]; intros dst; simpl; [reflexivity|].
  rewrite IH. destruct (nth_error src (snd p)); [apply upd_length|reflexivity].
Qed.

Lemma reindex_name_plain fill new_span s vs name src :
  mem name (index s) = true -> assoc name (vars s) = Some src ->
  reindex_name (fun x => x) fill new_span s (Ret vs) name = Ret (assoc_set name (reindexed_var fill (span s) new_span name src) vs).
Proof.
  intros M A. unfold reindex_name. rewrite M, A. simpl negb. cbv iota.
  rewrite assoc_set_eq. simpl. rewrite assoc_set_twice. reflexivity.
Qed.

Lemma reindex_fold_plain fill new_span s : forall l vs,
  (forall x, In x l -> mem x (index s) = true /\ assoc x (vars s) <> None) ->
  exists vs', fold_left (reindex_name (fun x => x) fill new_span s) l (Ret vs) = Ret vs' /\
    (forall x, ~ In x l -> assoc x vs' = assoc x vs) /\
    (NoDup l -> forall x src, In x l -> assoc x (vars s) = Some src -> assoc x vs' = Some (reindexed_var fill (span s) new_span x src)).
Proof.
  induction l as [|n l IH]; intros vs H.
  - exists vs. split; [reflexivity|]. split; [reflexivity|]. intros _ x src [].
  - destruct (H n (or_introl eq_refl)) as [M A]. destruct (assoc n (vars s)) as [src|] eqn:An; [|contradiction].
    cbn [fold_left]. rewrite (reindex_name_plain fill new_span s vs n src M An).
    destruct (IH (assoc_set n (reindexed_var fill (span s) new_span n src) vs)) as [vs' [F [K1 K2]]];
      [intros x Hx; apply H; right; exact Hx|].
    exists vs'. split; [exact F|]. split.
    + intros x Hx. rewrite K1 by (intros C; apply Hx; right; exact C).
      apply assoc_set_neq. intros ->. apply Hx. left. reflexivity.
    + intros ND x src' Hx Ax. inversion ND as [|? ? Hn ND']; subst.
      destruct Hx as [<-|Hx].
      * rewrite K1 by exact Hn. rewrite assoc_set_eq. congruence.
      * apply K2; assumption.
Qed.

(* reindex of a plain object satisfying the invariant never raises; every variable becomes: the fill cell in periods that are new,
   its old cell (found by the period's label, first occurrence) in periods that were there; dtype kept; everything else as it was.
   The result satisfies the invariant for the NEW span, with one cell per period. *)
Theorem reindex_plain_spec fill new_span s :
  InvV s ->
  exists s', reindex_plain fill new_span s = Ret s' /\
    span s' = new_span /\ index s' = index s /\
    (forall x src, In x (index s) -> assoc x (vars s) = Some src ->
                   assoc x (vars s') = Some (reindexed_var fill (span s) new_span x src)) /\
    (forall x, ~ In x (index s) -> assoc x (vars s') = assoc x (vars s)).
Proof.
  intros [ND [HI _]]. unfold reindex_plain, reindex_with.
  destruct (reindex_fold_plain fill new_span s (index s) (vars s)) as [vs' [F [K1 K2]]].
  { intros x Hx. split; [apply mem_In; exact Hx|apply HI; exact Hx]. }
  rewrite F. eexists. split; [reflexivity|]. simpl. split; [reflexivity|]. split; [reflexivity|]. split.
  - intros x src Hx A. apply (K2 ND x src Hx A).
  - exact K1.
Qed.

Theorem reindex_plain_inv fill new_span s s' :
  Inv s -> (forall x, assoc x (vars s) <> None -> In x (index s)) ->
  reindex_plain fill new_span s = Ret s' -> Inv s' /\ InvD s'.
Proof.
  intros I KS H. destruct (reindex_plain_spec fill new_span s (proj1 I)) as [s2 [H2 [SP [IX [V1 V2]]]]].
  rewrite H in H2. inversion H2; subst s2. clear H2.
  destruct (reindex_frame _ _ _ _ _ H) as [_ [_ [EN [_ [_ [_ [EK _]]]]]]].
  assert (VAR : forall x v, assoc x (vars s') = Some v -> exists src, In x (index s) /\ assoc x (vars s) = Some src /\
                                                         v = reindexed_var fill (span s) new_span x src).
  { intros x v A. destruct (in_dec string_dec x (index s)) as [Hx|Hx].
    - destruct (assoc x (vars s)) as [src|] eqn:As; [|exfalso; exact (proj1 (proj2 (proj1 I)) x Hx As)].
      exists src. split; [exact Hx|]. split; [reflexivity|]. rewrite (V1 x src Hx As) in A. inversion A. reflexivity.
    - exfalso. rewrite (V2 x Hx) in A. apply Hx. apply KS. rewrite A. discriminate. }
  split; [split; [repeat split|]|].
  - rewrite IX. exact (proj1 (proj1 I)).
  - intros x Hx A. rewrite IX in Hx.
    destruct (assoc x (vars s)) as [src|] eqn:As; [|exact (proj1 (proj2 (proj1 I)) x Hx As)].
    rewrite (V1 x src Hx As) in A. discriminate.
  - intros x v A. destruct (VAR x v A) as [src [_ [_ ->]]]. unfold n_of. rewrite SP. reflexivity.
  - intros K. rewrite EN, IX. apply (proj2 I). rewrite <- EK. exact K.
  - intros x v A. destruct (VAR x v A) as [src [_ [_ ->]]]. unfold n_of. rewrite SP. simpl.
    rewrite write_positions_length. apply repeat_length.
Qed.

(* ================================================================== re-entry *)
(* The base class calls self.__setattr__(name, ...) / self[name] again from the values setter, nbytes, reindex and to_dataframe, with the
   names of `index` / `names`; on an aliased object these calls go through the mixin's wrappers a second time.  Unless an alias is named
   like a variable (the kept finding) that second resolution is the identity - which is why the model may call the base operation
   directly there: *)
Theorem reentry_is_identity am s :
  (forall x, In x (index s) -> ~ In x (akeys (amap am))) -> Inv s ->
  forall x, In x (row_names s) \/ In x (index s) -> resolve am x = x.
Proof.
  intros H I x [Hx|Hx]; unfold resolve; apply aget_nonkey; apply H; [apply (row_names_incl s I); exact Hx|exact Hx].
Qed.

(* ================================================================== the constructor refuses clashing aliases (fix 4e03fd0) *)
Lemma shorten_keys_nodup ALIASES a : NoDup (akeys ALIASES) -> shorten ALIASES = Ret a -> NoDup (akeys a).
Proof.
  intros ND H. unfold shorten in H.
  destruct (shorten_loop (S (length (drop_self ALIASES))) (drop_self ALIASES)) as [a2|] eqn:L; [|discriminate].
  inversion H; subst. apply shorten_loop_some in L as [U K].
  rewrite (drop_self_unchained _ U), K. apply nodup_keys_filter. exact ND.
Qed.

Section Constructed.
  Variable pycast : dtype -> pyval -> outcome pyval.
  Variable arrcast : dtype -> dtype -> pyval -> outcome pyval.
  Variable infer : list pyval -> dtype.
  Variable astype_dt : dtype -> list pyval -> dreq -> dtype.
  Variable itemseq_exn : dtype -> exn.
  Notation init_model := (init_model pycast arrcast infer astype_dt).
  Notation init_vars := (init_vars pycast arrcast infer astype_dt).
  Notation base_add_variable := (base_add_variable pycast arrcast infer astype_dt).
  Notation add_attribute := (add_attribute pycast arrcast infer).
  Notation alias_init_model := (gen_alias_init_model pycast arrcast infer astype_dt).
  Notation alias_run := (gen_alias_run pycast arrcast infer astype_dt itemseq_exn).

  (* what a successfully constructed aliased object guarantees: it was built like the plain one, and no alias is the name of a
     variable, of an entry of the object's __dict__ (attributes included) or of an attribute of the class *)
  Theorem alias_init_no_clash ca am k sp st d default NAMES kwargs s u :
    alias_init_model ca am k sp st d default NAMES kwargs = (s, Ret u) ->
    init_model k sp st d default NAMES (resolve_kwargs am kwargs) = (s, Ret u) /\
    forall a, In a (akeys (amap am)) -> ~ In a (index s) /\ assoc a (adict s) = None /\ ~ In a ca.
  Proof.
    unfold gen_alias_init_model. intros H.
    destruct (init_model k sp st d default NAMES (resolve_kwargs am kwargs)) as [s1 [u1|e]]; [|discriminate H].
    destruct (alias_clash ca am s1) eqn:C; [discriminate H|]. inversion H; subst. split; [reflexivity|].
    intros a Ha. unfold alias_clash in C.
    assert (F : (mem a (index s) || dict_key s a || mem a ca)%bool = false).
    { destruct (mem a (index s) || dict_key s a || mem a ca)%bool eqn:E; [|reflexivity].
      assert (T : existsb (fun k0 => (mem k0 (index s) || dict_key s k0 || mem k0 ca)%bool) (akeys (amap am)) = true)
        by (apply existsb_exists; exists a; split; assumption).
      congruence. }
    apply orb_false_iff in F as [F F3]. apply orb_false_iff in F as [F1 F2].
    split; [apply mem_false; exact F1|]. split; [|apply mem_false; exact F3].
    unfold dict_key in F2. repeat (apply orb_false_iff in F2 as [F2 ?]).
    destruct (assoc a (adict s)); [discriminate|reflexivity].
  Qed.

  (* ... and the clash is what raises: a declared alias that is a variable of the model is refused *)
  Theorem alias_named_like_variable_rejected ca am k sp st d default NAMES kwargs s u a :
    init_model k sp st d default NAMES (resolve_kwargs am kwargs) = (s, Ret u) ->
    In a (akeys (amap am)) -> In a (index s) ->
    alias_init_model ca am k sp st d default NAMES kwargs = (s, Raise InitialisationError).
  Proof.
    intros H Ha Hi. unfold gen_alias_init_model. rewrite H.
    assert (C : alias_clash ca am s = true).
    { unfold alias_clash. apply existsb_exists. exists a. split; [exact Ha|]. rewrite (proj2 (mem_In _ _) Hi). reflexivity. }
    rewrite C. reflexivity.
  Qed.

  Theorem alias_named_like_attribute_rejected ca am k sp st d default NAMES kwargs s u a :
    init_model k sp st d default NAMES (resolve_kwargs am kwargs) = (s, Ret u) ->
    In a (akeys (amap am)) -> assoc a (adict s) <> None ->
    alias_init_model ca am k sp st d default NAMES kwargs = (s, Raise InitialisationError).
  Proof.
    intros H Ha Hd. unfold gen_alias_init_model. rewrite H.
    assert (C : alias_clash ca am s = true).
    { unfold alias_clash. apply existsb_exists. exists a. split; [exact Ha|]. unfold dict_key.
      destruct (assoc a (adict s)); [|contradiction]. rewrite !orb_true_r. reflexivity. }
    rewrite C. reflexivity.
  Qed.

  (* the index of a constructed model: the two solution-tracking series, then NAMES *)
  Lemma init_vars_index nms ivs default d : forall s s' u,
    init_vars nms ivs default d s = (s', Ret u) -> index s' = index s ++ nms.
  Proof.
    induction nms as [|x nms IH]; intros s s' u H; simpl in H; [inversion H; rewrite app_nil_r; reflexivity|].
    destruct (base_add_variable x (match assoc x ivs with Some v => v | None => default end) (Some d) s) as [s1 [u1|e]] eqn:B; [|discriminate H].
    apply (base_add_variable_ret pycast arrcast infer astype_dt) in B as [BI _].
    rewrite (IH _ _ _ H), BI, <- app_assoc. reflexivity.
  Qed.

  Theorem init_model_index k sp st d default NAMES ivs s u :
    init_model k sp st d default NAMES ivs = (s, Ret u) -> index s = "status" :: "iterations" :: NAMES.
  Proof.
    intros H. unfold Container.init_model in H.
    apply bind_ret in H as (s1 & u1 & H1 & H).
    apply bind_ret in H as (s2 & u2 & H2 & H).
    apply bind_ret in H as (s3 & u3 & H3 & H).
    destruct (negb (dup_free NAMES)); [inversion H|].
    match type of H with context [if ?c then _ else _] => destruct c end; [inversion H|].
    apply bind_ret in H as (s4 & u4 & H4 & H).
    apply bind_ret in H as (s5 & u5 & H5 & H).
    apply bind_ret in H as (s6 & u6 & H6 & H).
    apply bind_ret in H as (s7 & u7 & H7 & H).
    apply bind_ret in H as (s8 & u8 & H8 & H).
    apply bind_ret in H as (s9 & u9 & H9 & H).
    assert (I1 : index s1 = []).
    { pose proof (add_attribute_dtype_meta pycast arrcast infer (dreq_operand d)
                    (mkState sp [] [] core_registry [] st k [] None)) as M. rewrite H1 in M. simpl fst in M. exact (proj1 (proj2 M)). }
    apply (base_add_variable_ret pycast arrcast infer astype_dt) in H2 as [I2 _]. simpl in I2.
    apply (base_add_variable_ret pycast arrcast infer astype_dt) in H3 as [I3 _].
    assert (I4 : index s4 = index s3).
    { pose proof (add_attribute_names_meta pycast arrcast infer (OSeq KList (map (fun x => OScalar (PStr x)) NAMES)) s3) as M.
      rewrite H4 in M. simpl fst in M. exact (proj1 (proj2 M)). }
    apply init_vars_index in H5. simpl in H5.
    assert (KA : forall nm v sa sb ub, (forall k0, bookkeeping k0 nm = false) ->
                 add_attribute nm v sa = (sb, Ret ub) -> index sb = index sa).
    { intros nm v sa sb ub B E. pose proof (proj1 (add_attribute_ki pycast arrcast infer nm v sa (B _))) as N. rewrite E in N. exact N. }
    assert (BK : forall nm, nm = "lags" \/ nm = "leads" \/ nm = "endogenous" \/ nm = "check" \/ nm = "engine" -> forall k0, bookkeeping k0 nm = false).
    { intros nm [->|[->|[->|[->| ->]]]] k0; destruct k0; reflexivity. }
    assert (I9 : index s9 = "status" :: "iterations" :: NAMES).
    { rewrite (KA _ _ _ _ _ (BK _ (or_intror (or_intror (or_intror (or_introl eq_refl))))) H9),
              (KA _ _ _ _ _ (BK _ (or_intror (or_intror (or_introl eq_refl)))) H8),
              (KA _ _ _ _ _ (BK _ (or_intror (or_introl eq_refl))) H7),
              (KA _ _ _ _ _ (BK _ (or_introl eq_refl)) H6), H5, I4, I3, I2, I1. reflexivity. }
    destruct k; [inversion H; subst; exact I9
                |rewrite (KA _ _ _ _ _ (BK _ (or_intror (or_intror (or_intror (or_intror eq_refl))))) H); exact I9
                |inversion H; subst; exact I9].
  Qed.

  Lemma init_model_kind k sp st d default NAMES ivs s u :
    init_model k sp st d default NAMES ivs = (s, Ret u) -> kind s = k.
  Proof.
    intros H. unfold Container.init_model in H.
    apply bind_ret in H as (s1 & u1 & H1 & H).
    apply bind_ret in H as (s2 & u2 & H2 & H).
    apply bind_ret in H as (s3 & u3 & H3 & H).
    destruct (negb (dup_free NAMES)); [inversion H|].
    match type of H with context [if ?c then _ else _] => destruct c end; [inversion H|].
    apply bind_ret in H as (s4 & u4 & H4 & H).
    apply bind_ret in H as (s5 & u5 & H5 & H).
    apply bind_ret in H as (s6 & u6 & H6 & H).
    apply bind_ret in H as (s7 & u7 & H7 & H).
    apply bind_ret in H as (s8 & u8 & H8 & H).
    apply bind_ret in H as (s9 & u9 & H9 & H).
    assert (K1 : kind s1 = k).
    { pose proof (add_attribute_dtype_meta pycast arrcast infer (dreq_operand d)
                    (mkState sp [] [] core_registry [] st k [] None)) as M. rewrite H1 in M. simpl fst in M. exact (proj1 (proj2 (proj2 (proj2 M)))). }
    assert (GB : forall nm v dt sa sb ub, base_add_variable nm v dt sa = (sb, Ret ub) -> kind sb = kind sa).
    { intros nm v dt sa sb ub E. pose proof (base_add_variable_good pycast arrcast infer astype_dt nm v dt sa) as G. rewrite E in G.
      exact (proj2 (good_span _ _ G)). }
    assert (K3 : kind s3 = k) by (rewrite (GB _ _ _ _ _ _ H3), (GB _ _ _ _ _ _ H2); exact K1).
    assert (K4 : kind s4 = k).
    { pose proof (add_attribute_names_meta pycast arrcast infer (OSeq KList (map (fun x => OScalar (PStr x)) NAMES)) s3) as M.
      rewrite H4 in M. simpl fst in M. rewrite (proj2 (proj2 (proj2 M))). exact K3. }
    assert (K5 : kind s5 = k).
    { pose proof (init_vars_good pycast arrcast infer astype_dt NAMES ivs default d (set_names s4 NAMES)) as G. rewrite H5 in G.
      simpl fst in G. rewrite (proj2 (good_span _ _ G)). exact K4. }
    assert (GA : forall nm v sa sb ub, (forall k0, bookkeeping k0 nm = false) -> add_attribute nm v sa = (sb, Ret ub) -> kind sb = kind sa).
    { intros nm v sa sb ub B E. pose proof (add_attribute_good pycast arrcast infer nm v sa (B _)) as G. rewrite E in G.
      exact (proj2 (good_span _ _ G)). }
    assert (BK : forall nm, nm = "lags" \/ nm = "leads" \/ nm = "endogenous" \/ nm = "check" \/ nm = "engine" -> forall k0, bookkeeping k0 nm = false).
    { intros nm [->|[->|[->|[->| ->]]]] k0; destruct k0; reflexivity. }
    assert (K9 : kind s9 = k).
    { rewrite (GA _ _ _ _ _ (BK _ (or_intror (or_intror (or_intror (or_introl eq_refl))))) H9),
              (GA _ _ _ _ _ (BK _ (or_intror (or_intror (or_introl eq_refl)))) H8),
              (GA _ _ _ _ _ (BK _ (or_intror (or_introl eq_refl))) H7),
              (GA _ _ _ _ _ (BK _ (or_introl eq_refl)) H6). exact K5. }
    destruct k; [inversion H; subst; exact K9
                |rewrite (GA _ _ _ _ _ (BK _ (or_intror (or_intror (or_intror (or_intror eq_refl))))) H); exact K9
                |inversion H; subst; exact K9].
  Qed.

  (* EXPORT ONLY RENAMES, without any assumption about names: for an object that the constructor accepted (acyclic or not: whatever
     alias_construct returned) and ANY in-scope history that does not add_variable an alias name (the one door the constructor cannot
     close: see add_variable_alias_name_refuted in AliasExamples.v), every selection of columns is exported with its own data, in
     order, under pairwise different titles, each the column's name or one of its aliases *)
  Theorem export_only_renames_constructed ALIASES PREFERRED ca am k sp st d default NAMES kwargs s0 u ops :
    k <> CVC -> NoDup (akeys ALIASES) ->
    alias_construct ALIASES PREFERRED = Ret am ->
    alias_init_model ca am k sp st d default NAMES kwargs = (s0, Ret u) ->
    Forall (in_scope (kind s0)) (map (resolve_op am) ops) ->
    (forall a v dt, In a (akeys (amap am)) -> ~ In (AddVariable a v dt) ops) ->
    forall fs fi fincl,
    let s := alias_run am ops s0 in
    NoDup (base_columns_with fs fi fincl s) ->
    exists l, export_with am fs fi fincl s = Ret l /\
      map snd l = base_columns_with fs fi fincl s /\
      NoDup (map fst l) /\
      Forall2 (fun c t => t = c \/ In (t, c) (amap am)) (base_columns_with fs fi fincl s) (map fst l).
  Proof.
    intros KN ND CON INIT SC NA fs fi fincl s NDC.
    destruct (alias_construct_wf _ _ _ CON) as [W _].
    assert (NDK : NoDup (akeys (amap am))).
    { unfold alias_construct in CON. destruct (shorten ALIASES) as [a|] eqn:S; [|discriminate].
      destruct (pref_check a PREFERRED []) as [[]|]; [|discriminate]. inversion CON; subst. simpl.
      eapply shorten_keys_nodup; eassumption. }
    destruct (alias_init_no_clash _ _ _ _ _ _ _ _ _ _ _ INIT) as [INIT0 NC].
    pose proof (inv_init_model pycast arrcast infer astype_dt _ _ _ _ _ _ _ _ _ KN INIT0) as I0.
    pose proof (init_model_index _ _ _ _ _ _ _ _ _ INIT0) as IX0.
    assert (Is : Inv s) by (apply alias_run_inv; assumption).
    assert (KS : kind s <> CVC).
    { unfold s. rewrite alias_run_twin, (proj2 (span_kept pycast arrcast infer astype_dt itemseq_exn _ _ SC)),
        (init_model_kind _ _ _ _ _ _ _ _ _ INIT0). exact KN. }
    apply (export_cols_rename_only am W NDK); [exact NDC|].
    intros c Hc Ha.
    assert (Hi : In c (index s)).
    { unfold base_columns_with in Hc. apply in_app_iff in Hc as [Hc|Hc].
      - apply (proj2 Is KS). destruct fincl; [exact Hc|apply filter_In in Hc as [Hc _]; exact Hc].
      - assert (S0 : In c (index s0)).
        { rewrite IX0. apply in_app_iff in Hc as [Hc|Hc].
          - destruct fs; [destruct Hc as [<-|[]]; left; reflexivity|contradiction].
          - destruct fi; [destruct Hc as [<-|[]]; right; left; reflexivity|contradiction]. }
        unfold s. rewrite alias_run_twin.
        apply (proj1 (good_mono _ _ (run_good pycast arrcast infer astype_dt itemseq_exn _ _ SC))). exact S0. }
    unfold s in Hi. rewrite alias_run_twin in Hi.
    apply (run_index pycast arrcast infer astype_dt itemseq_exn _ _ _ SC) in Hi as [Hi|[v [dt Hi]]].
    - exact (proj1 (NC c Ha) Hi).
    - apply in_map_iff in Hi as [o [E Hin]]. destruct o; simpl in E; try discriminate. inversion E; subst.
      exact (NA _ _ _ Ha Hin).
  Qed.
End Constructed.
