(* ContainerFacts.v — theorems about the container model (Container.v), for EVERY casting table
   (pycast / arrcast / infer / astype_dt / itemseq_exn are Section variables: NumPy is an oracle). *)
From Coq Require Import ZArith List Bool Lia String Ascii.
Import ListNotations.
Require Import PyBase Container.
Open Scope string_scope.
Open Scope list_scope.
Open Scope nat_scope.
Notation length := List.length (only parsing).

Ltac dm := match goal with |- context [match ?x with _ => _ end] => destruct x eqn:? end.
Ltac dmh H := match type of H with context [match ?x with _ => _ end] => destruct x eqn:? end.

(* ------------------------------------------------------------------ lists, association lists *)
Lemma mem_In x l : mem x l = true <-> In x l.
Proof.
  unfold mem. rewrite existsb_exists. split.
  - intros [y [Hy E]]. apply String.eqb_eq in E. subst. exact Hy.
  - intros H. exists x. split; [exact H | apply String.eqb_refl].
Qed.

Lemma mem_false x l : mem x l = false <-> ~ In x l.
Proof.
  split; intros H.
  - intros C. apply mem_In in C. congruence.
  - destruct (mem x l) eqn:E; [|reflexivity]. exfalso. apply H. apply mem_In. exact E.
Qed.

Lemma assoc_set_eq {A} k (v : A) l : assoc k (assoc_set k v l) = Some v.
Proof.
  induction l as [|[k0 v0] l IH]; simpl.
  - rewrite String.eqb_refl. reflexivity.
  - destruct (String.eqb k k0) eqn:E; simpl.
    + rewrite String.eqb_refl. reflexivity.
    + rewrite E. exact IH.
Qed.

Lemma assoc_set_neq {A} k k' (v : A) l : k' <> k -> assoc k' (assoc_set k v l) = assoc k' l.
Proof.
  intros N. induction l as [|[k0 v0] l IH]; simpl.
  - apply String.eqb_neq in N. rewrite N. reflexivity.
  - destruct (String.eqb k k0) eqn:E; simpl.
    + apply String.eqb_eq in E. subst k0. apply String.eqb_neq in N. rewrite N. reflexivity.
    + destruct (String.eqb k' k0); [reflexivity | exact IH].
Qed.

Lemma assoc_set_same {A} k (v : A) l : assoc k l = Some v -> assoc_set k v l = l.
Proof.
  induction l as [|[k0 v0] l IH]; simpl; intros H; [discriminate|].
  destruct (String.eqb k k0) eqn:E.
  - apply String.eqb_eq in E. subst k0. inversion H. reflexivity.
  - rewrite (IH H). reflexivity.
Qed.

Lemma nodup_snoc (x : string) l : NoDup l -> ~ In x l -> NoDup (l ++ [x]).
Proof.
  induction l as [|a l IH]; simpl; intros ND NI.
  - constructor; [intros []|constructor].
  - inversion ND as [|? ? Ha ND']; subst. constructor.
    + rewrite in_app_iff. simpl. intros [C|[C|[]]]; [exact (Ha C)|]. subst. apply NI. left. reflexivity.
    + apply IH; [exact ND'|]. intros C. apply NI. right. exact C.
Qed.

Lemma shape_singleton (sh : list nat) n :
  (negb (Nat.eqb (length sh) 1) || negb (Nat.eqb (hd 0 sh) n))%bool = false -> sh = [n].
Proof.
  intros H. apply orb_false_iff in H as [H1 H2].
  apply negb_false_iff in H1, H2. apply Nat.eqb_eq in H1, H2.
  destruct sh as [|a [|b r]]; simpl in *; try discriminate. subst. reflexivity.
Qed.

Lemma state_eta s : mkState (span s) (index s) (vars s) (registry s) (adict s) (strict s) (kind s) (names s) (dflt s) = s.
Proof. destruct s; reflexivity. Qed.

Lemma set_vars_same s : set_vars s (vars s) = s.
Proof. destruct s; reflexivity. Qed.

(* ------------------------------------------------------------------ the invariant *)
(* InvV: index duplicate-free; every indexed name has a stored series; every stored series is one-dimensional
   with one cell per period.  InvN (ModelInterface objects): every name of `names` is a variable. *)
Definition InvV (s : state) : Prop :=
  NoDup (index s) /\
  (forall x, In x (index s) -> assoc x (vars s) <> None) /\
  (forall x v, assoc x (vars s) = Some v -> vshape v = [n_of s]).

Definition InvN (s : state) : Prop := kind s <> CVC -> incl (names s) (index s).

Definition Inv (s : state) : Prop := InvV s /\ InvN s.

Definition dtype_of (s : state) (x : string) : option dtype :=
  match assoc x (vars s) with Some v => Some (vdtype v) | None => None end.

(* one well-behaved change of the store *)
Inductive good : state -> state -> Prop :=
| gs_refl s : good s s
| gs_meta s s' :                      (* attributes, registry, strict flag: the series are not touched *)
    span s' = span s -> index s' = index s -> vars s' = vars s -> kind s' = kind s -> names s' = names s -> good s s'
| gs_var s name v0 v' :               (* one series replaced: same dtype, still rank 1 of span length *)
    assoc name (vars s) = Some v0 -> vdtype v' = vdtype v0 ->
    (vshape v0 = [n_of s] -> vshape v' = [n_of s]) ->
    good s (set_vars s (assoc_set name v' (vars s)))
| gs_add s name v :                   (* a new series of span length under a fresh name *)
    ~ In name (index s) -> vshape v = [n_of s] ->
    good s (set_index_vars s (index s ++ [name]) (assoc_set name v (vars s)))
| gs_names s x :                      (* ModelInterface.add_variable extends `names` with an existing variable *)
    In x (index s) -> good s (set_names s (names s ++ [x]))
| gs_trans s1 s2 s3 : good s1 s2 -> good s2 s3 -> good s1 s3.

Lemma good_span s s' : good s s' -> span s' = span s /\ kind s' = kind s.
Proof.
  induction 1; simpl; auto.
  destruct IHgood1, IHgood2. split; congruence.
Qed.

Lemma good_n s s' : good s s' -> n_of s' = n_of s.
Proof. intros G. unfold n_of. destruct (good_span _ _ G) as [E _]. rewrite E. reflexivity. Qed.

Lemma good_invV s s' : good s s' -> InvV s -> InvV s'.
Proof.
  induction 1 as [s|s s' Hs Hi Hv Hk Hn|s name v0 v' HA HD HS|s name v HN HS|s x Hx|s1 s2 s3 G1 IH1 G2 IH2]; intros [ND [HI HV]].
  - repeat split; assumption.
  - unfold InvV, n_of. rewrite Hs, Hi, Hv. repeat split; assumption.
  - unfold InvV. simpl. repeat split.
    + exact ND.
    + intros x Hx. destruct (string_dec x name) as [->|Ne].
      * rewrite assoc_set_eq. discriminate.
      * rewrite (assoc_set_neq _ _ _ _ Ne). apply HI. exact Hx.
    + intros x v. destruct (string_dec x name) as [->|Ne].
      * rewrite assoc_set_eq. intros E. inversion E; subst. apply HS. apply (HV name). exact HA.
      * rewrite (assoc_set_neq _ _ _ _ Ne). apply HV.
  - unfold InvV. simpl. repeat split.
    + apply nodup_snoc; assumption.
    + intros x Hx. destruct (string_dec x name) as [->|Ne].
      * rewrite assoc_set_eq. discriminate.
      * rewrite (assoc_set_neq _ _ _ _ Ne). apply HI.
        apply in_app_iff in Hx as [Hx|[Hx|[]]]; [exact Hx|]. congruence.
    + intros x v0. destruct (string_dec x name) as [->|Ne].
      * rewrite assoc_set_eq. intros E. inversion E; subst. exact HS.
      * rewrite (assoc_set_neq _ _ _ _ Ne). apply HV.
  - repeat split; assumption.
  - apply IH2. apply IH1. repeat split; assumption.
Qed.

(* variables are never removed and never change dtype; `names` only grows, by existing variables *)
Lemma good_mono s s' : good s s' ->
  incl (index s) (index s') /\
  (forall x, In x (index s) -> dtype_of s' x = dtype_of s x) /\
  (exists l, names s' = names s ++ l /\ incl l (index s')).
Proof.
  induction 1 as [s|s s' Hs Hi Hv Hk Hn|s name v0 v' HA HD HS|s name v HN HS|s x Hx|s1 s2 s3 G1 IH1 G2 IH2].
  - split; [apply incl_refl|]. split; [reflexivity|]. exists []. rewrite app_nil_r. split; [reflexivity|intros ? []].
  - split; [rewrite Hi; apply incl_refl|]. split.
    + intros x _. unfold dtype_of. rewrite Hv. reflexivity.
    + exists []. rewrite app_nil_r. split; [exact Hn|intros ? []].
  - split; [apply incl_refl|]. split.
    + intros x _. unfold dtype_of. simpl. destruct (string_dec x name) as [->|Ne].
      * rewrite assoc_set_eq, HA, HD. reflexivity.
      * rewrite (assoc_set_neq _ _ _ _ Ne). reflexivity.
    + exists []. rewrite app_nil_r. split; [reflexivity|intros ? []].
  - split; [simpl; apply incl_appl, incl_refl|]. split.
    + intros x Hx. unfold dtype_of. simpl. destruct (string_dec x name) as [->|Ne]; [contradiction|].
      rewrite (assoc_set_neq _ _ _ _ Ne). reflexivity.
    + exists []. rewrite app_nil_r. split; [reflexivity|intros ? []].
  - split; [apply incl_refl|]. split; [reflexivity|].
    exists [x]. split; [reflexivity|]. intros y [<-|[]]. exact Hx.
  - destruct IH1 as [I1 [D1 [l1 [N1 L1]]]]. destruct IH2 as [I2 [D2 [l2 [N2 L2]]]].
    split; [eapply incl_tran; eassumption|]. split.
    + intros x Hx. rewrite D2; [apply D1; exact Hx | apply I1; exact Hx].
    + exists (l1 ++ l2). split; [rewrite N2, N1, app_assoc; reflexivity|].
      apply incl_app; [eapply incl_tran; eassumption | exact L2].
Qed.

Lemma good_inv s s' : good s s' -> Inv s -> Inv s'.
Proof.
  intros G [HV HN]. split; [eapply good_invV; eassumption|].
  destruct (good_mono _ _ G) as [I [_ [l [N L]]]]. destruct (good_span _ _ G) as [_ K].
  intros HK. rewrite N. apply incl_app; [|exact L].
  eapply incl_tran; [apply HN; congruence | exact I].
Qed.

Section Facts.
  Variable pycast : dtype -> pyval -> outcome pyval.
  Variable arrcast : dtype -> dtype -> pyval -> outcome pyval.
  Variable infer : list pyval -> dtype.
  Variable astype_dt : dtype -> list pyval -> dreq -> dtype.
  Variable itemseq_exn : dtype -> exn.

  Notation assign_inplace := (assign_inplace pycast arrcast).
  Notation assign_item := (assign_item pycast arrcast itemseq_exn).
  Notation setattr_var := (setattr_var pycast arrcast).
  Notation set_rows_arr := (set_rows_arr pycast arrcast).
  Notation set_rows_full := (set_rows_full pycast arrcast infer).
  Notation values_setter := (values_setter pycast arrcast infer).
  Notation obj_setattr := (obj_setattr pycast arrcast infer).
  Notation add_attribute := (add_attribute pycast arrcast infer).
  Notation setattr := (setattr pycast arrcast infer).
  Notation setitem := (setitem pycast arrcast infer itemseq_exn).
  Notation replace_values := (replace_values pycast arrcast infer itemseq_exn).
  Notation base_add_variable := (base_add_variable pycast arrcast infer astype_dt).
  Notation add_variable := (add_variable pycast arrcast infer astype_dt).
  Notation step := (step pycast arrcast infer astype_dt itemseq_exn).
  Notation run := (run pycast arrcast infer astype_dt itemseq_exn).
  Notation run_trace := (run_trace pycast arrcast infer astype_dt itemseq_exn).
  Notation init_model := (init_model pycast arrcast infer astype_dt).
  Notation init_vars := (init_vars pycast arrcast infer astype_dt).
  Notation natural := (natural pycast infer).

  (* e is the class raised by some element cast of the table *)
  Definition CastFail (e : exn) : Prop :=
    exists d c, pycast d c = Raise e \/ exists src, arrcast src d c = Raise e.

  (* ---------------------------------------------------------------- in-place assignment keeps dtype and shape *)
  Lemma assign_inplace_meta v ps value v' e :
    assign_inplace v ps value = (v', e) -> vdtype v' = vdtype v /\ vshape v' = vshape v.
  Proof.
    unfold Container.assign_inplace. intros H.
    repeat dmh H; inversion H; subst; simpl; auto.
  Qed.

  Lemma assign_item_meta v p value v' e :
    assign_item v p value = (v', e) -> vdtype v' = vdtype v /\ vshape v' = vshape v.
  Proof.
    unfold Container.assign_item. intros H.
    repeat dmh H; inversion H; subst; simpl; auto.
  Qed.

  Lemma write_cells_err cast ps cs d d' e :
    write_cells cast ps cs d = (d', Some e) -> exists c, cast c = Raise e.
  Proof.
    revert cs d. induction ps as [|p ps IH]; intros cs d H; simpl in H; [inversion H|].
    destruct cs as [|c cs]; [inversion H|].
    destruct (cast c) eqn:E.
    - apply IH in H. exact H.
    - inversion H; subst. exists c. exact E.
  Qed.

  Lemma write_cells_id_ok ps cs d : snd (write_cells (fun x : pyval => Ret x) ps cs d) = None.
  Proof.
    revert cs d. induction ps as [|p ps IH]; intros cs d; simpl; [reflexivity|].
    destruct cs as [|c cs]; [reflexivity|]. apply IH.
  Qed.

  (* a raising in-place assignment has changed nothing unless an element cast raised that class *)
  Lemma assign_inplace_err v ps value v' e :
    assign_inplace v ps value = (v', Some e) -> v' = v \/ CastFail e.
  Proof.
    unfold Container.assign_inplace. intros H.
    assert (SEQ : forall sh cells,
      (if (if list_eq_dec Nat.eq_dec sh [length ps] then true else false)
       then let '(d, e0) := write_cells (pycast (vdtype v)) ps cells (vdata v) in (with_data v d, e0)
       else match cast_all (pycast (vdtype v)) cells with
            | Raise e0 => (v, Some e0)
            | Ret cells' => match bcast_seq (length ps) sh cells' with
                            | None => (v, Some ValueError)
                            | Some cs => (with_data v (fst (write_cells (fun x => Ret x) ps cs (vdata v))), None)
                            end
            end) = (v', Some e) -> v' = v \/ CastFail e).
    { intros sh cells H0. destruct (list_eq_dec Nat.eq_dec sh [length ps]) as [Esh|Nsh].
      - destruct (write_cells (pycast (vdtype v)) ps cells (vdata v)) as [dx ex] eqn:W.
        inversion H0; subst. right. apply write_cells_err in W as [c W]. exists (vdtype v), c. left. exact W.
      - destruct (cast_all (pycast (vdtype v)) cells) as [cells'|ex]; [|inversion H0; subst; left; reflexivity].
        destruct (bcast_seq (length ps) sh cells'); inversion H0; subst; left; reflexivity. }
    destruct value as [c|k items|a b c|sh dt cells]; cbv beta iota in H.
    - destruct (pycast (vdtype v) c); inversion H; subst; left; reflexivity.
    - destruct (as_array (OSeq k items)) as [[sh cells]|ex]; [apply (SEQ sh cells); exact H|inversion H; subst; left; reflexivity].
    - destruct (as_array (ORange a b c)) as [[sh cells]|ex]; [apply (SEQ sh cells); exact H|inversion H; subst; left; reflexivity].
    - destruct (bcast_arr (length ps) sh cells) as [cs|]; [|inversion H; subst; left; reflexivity].
      destruct (write_cells (arrcast dt (vdtype v)) ps cs (vdata v)) as [dx ex] eqn:W.
      inversion H; subst. right. apply write_cells_err in W as [c W]. exists (vdtype v), c. right. exists dt. exact W.
  Qed.

  Lemma assign_item_err v p value v' e :
    assign_item v p value = (v', Some e) -> v' = v.
  Proof.
    unfold Container.assign_item. intros H.
    repeat dmh H; inversion H; subst; auto.
  Qed.

  (* ---------------------------------------------------------------- every operation is a composition of good changes *)
  Lemma setattr_var_good name value s : good s (fst (setattr_var name value s)).
  Proof.
    unfold Container.setattr_var.
    destruct (assoc name (vars s)) as [v|] eqn:A; [|apply gs_refl].
    destruct (is_sequence value).
    - destruct (as_array value) as [[sh cells]|e]; [|apply gs_refl].
      destruct (cast_all (pycast (vdtype v)) cells) as [cells'|e]; [|apply gs_refl].
      destruct (negb (Nat.eqb (length sh) 1) || negb (Nat.eqb (hd 0 sh) (n_of s)))%bool eqn:C; [apply gs_refl|].
      apply shape_singleton in C. subst sh. simpl.
      eapply gs_var; [exact A|reflexivity|intros _; reflexivity].
    - destruct (vshape v) as [|m [|m' r]] eqn:SH; try apply gs_refl.
      destruct (assign_inplace v (seq 0 m) value) as [v' e] eqn:AI. simpl.
      destruct (assign_inplace_meta _ _ _ _ _ AI) as [D S'].
      eapply gs_var; [exact A|exact D|]. intros Hn. rewrite S'. exact Hn.
  Qed.

  Lemma bind_good (f : state -> res) s (r : res) :
    good s (fst r) -> (forall s', good s' (fst (f s'))) ->
    good s (fst (match r with (s', Ret _) => f s' | (s', Raise e) => (s', Raise e) end)).
  Proof.
    intros G F. destruct r as [s' [u|e]]; simpl in *; [|exact G].
    eapply gs_trans; [exact G | apply F].
  Qed.

  Lemma set_rows_arr_good src nms rws s : good s (fst (set_rows_arr src nms rws s)).
  Proof.
    revert rws s. induction nms as [|x nms IH]; intros rws s; simpl; [apply gs_refl|].
    destruct rws as [|r rr]; [apply gs_refl|].
    destruct (assoc x (vars s)) as [v|]; [|apply gs_refl].
    destruct (cast_all (arrcast src (vdtype v)) r) as [r'|e]; [|apply gs_refl].
    apply bind_good; [apply setattr_var_good | intros s'; apply IH].
  Qed.

  Lemma set_rows_full_good nms value s : good s (fst (set_rows_full nms value s)).
  Proof.
    revert s. induction nms as [|x nms IH]; intros s; simpl; [apply gs_refl|].
    destruct (assoc x (vars s)) as [v|]; [|apply gs_refl].
    destruct (natural value) as [[[src sh] cells]|e]; [|apply gs_refl].
    destruct (bcast_arr (prod_shape (vshape v)) sh cells) as [cs|]; [|apply gs_refl].
    destruct (cast_all (arrcast src (vdtype v)) cs) as [cs'|e]; [|apply gs_refl].
    apply bind_good; [apply setattr_var_good | intros s'; apply IH].
  Qed.

  Lemma values_setter_good value s : good s (fst (values_setter value s)).
  Proof.
    unfold Container.values_setter. destruct value; try apply set_rows_full_good.
    destruct (values_shape s) as [vsh|e]; [|apply gs_refl].
    destruct (list_eq_dec Nat.eq_dec sh vsh); [|apply gs_refl].
    destruct sh as [|r [|m [|q t]]]; try apply gs_refl.
    apply set_rows_arr_good.
  Qed.

  Lemma obj_setattr_good name value s : good s (fst (obj_setattr name value s)).
  Proof.
    unfold Container.obj_setattr.
    destruct (String.eqb name "strict").
    - destruct (truthy value); simpl; [|apply gs_refl]. apply gs_meta; reflexivity.
    - destruct (String.eqb name "values"); [apply values_setter_good|].
      destruct (String.eqb name "size" || String.eqb name "nbytes")%bool; [apply gs_refl|].
      match goal with |- context [if ?c then _ else _] => destruct c end; [apply gs_refl|].
      simpl. apply gs_meta; reflexivity.
  Qed.

  Lemma add_attribute_good name value s : good s (fst (add_attribute name value s)).
  Proof.
    unfold Container.add_attribute.
    destruct (mem name (index s)); [apply gs_refl|].
    destruct (reg_mem name (registry s)); [apply gs_refl|].
    pose proof (obj_setattr_good name value s) as G.
    destruct (obj_setattr name value s) as [s' [u|e]]; simpl in *; [|exact G].
    eapply gs_trans; [exact G|]. apply gs_meta; reflexivity.
  Qed.

  Lemma setattr_good name value hint s : good s (fst (setattr name value hint s)).
  Proof.
    unfold Container.setattr.
    match goal with |- context [if ?c then _ else _] => destruct c end.
    - destruct (alternatives hint (row_names s)) as [|a [|b r]]; apply gs_refl.
    - destruct (negb (mem name (index s))).
      + destruct (reg_mem name (registry s)); [apply obj_setattr_good | apply add_attribute_good].
      + apply setattr_var_good.
  Qed.

  Lemma setitem_good k value s : good s (fst (setitem k value s)).
  Proof.
    unfold Container.setitem. destruct k as [name|name l|name a b st| |]; try apply gs_refl.
    - destruct (negb (mem name (index s))); [apply gs_refl | apply setattr_good].
    - destruct (locate (span s) l) as [p|e]; [|apply gs_refl].
      destruct (assoc name (vars s)) as [v|] eqn:A.
      + destruct (assign_item v p value) as [v' e] eqn:AI. simpl.
        destruct (assign_item_meta _ _ _ _ _ AI) as [D S'].
        eapply gs_var; [exact A|exact D|]. intros Hn. rewrite S'. exact Hn.
      + destruct (hidden_lookup name s); try apply gs_refl.
        destruct (Nat.ltb p (length (registry s))); [|apply gs_refl].
        simpl. apply gs_meta; reflexivity.
    - destruct (resolve_slice (span s) a b st) as [[[sl el] stp]|e]; [|apply gs_refl].
      destruct (assoc name (vars s)) as [v|] eqn:A.
      + destruct (vshape v) as [|m [|m' r]] eqn:SH; try apply gs_refl.
        destruct (slice_positions m sl el stp) as [ps|]; [|apply gs_refl].
        destruct (assign_inplace v ps value) as [v' e] eqn:AI. simpl.
        destruct (assign_inplace_meta _ _ _ _ _ AI) as [D S'].
        eapply gs_var; [exact A|exact D|]. intros Hn. rewrite S'. exact Hn.
      + destruct (hidden_lookup name s); apply gs_refl.
  Qed.

  Lemma replace_values_good kvs s : good s (fst (replace_values kvs s)).
  Proof.
    revert s. induction kvs as [|[k v] kvs IH]; intros s; simpl; [apply gs_refl|].
    apply bind_good; [exact (setitem_good (KName k) v s) | intros s'; apply IH].
  Qed.

  Lemma base_add_variable_good name value dt s : good s (fst (base_add_variable name value dt s)).
  Proof.
    unfold Container.base_add_variable.
    destruct (mem name (index s)) eqn:M; [apply gs_refl|].
    apply mem_false in M.
    match goal with |- context [match ?x with Ret _ => _ | Raise _ => _ end] => destruct x as [[[d0 m0] cells0]|e] end; [|apply gs_refl].
    match goal with |- context [match ?x with Ret _ => _ | Raise _ => _ end] => destruct x as [[d1 cells1]|e] end; [|apply gs_refl].
    destruct (negb (Nat.eqb m0 (n_of s))) eqn:C; [apply gs_refl|].
    apply negb_false_iff, Nat.eqb_eq in C. subst m0.
    simpl. apply gs_add; [exact M|reflexivity].
  Qed.
End Facts.
