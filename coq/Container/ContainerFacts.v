(* ContainerFacts.v — theorems about the container model (Container.v), for EVERY casting table
   (pycast / arrcast / infer / astype_dt / itemseq_exn are Section variables: NumPy is an oracle). *)
From Coq Require Import ZArith List Bool Lia String Ascii.
Import ListNotations.
Require Import PyBase Container.
Open Scope string_scope.
Open Scope list_scope.
Open Scope nat_scope.
Notation length := List.length (only parsing).

Ltac dm := match goal with |- context [match ?x with _ => _ end] => destruct x eqn:? end.
Ltac dmh H := match type of H with context [match ?x with _ => _ end] => destruct x eqn:? end.

(* ------------------------------------------------------------------ lists, association lists *)
Lemma mem_In x l : mem x l = true <-> In x l.
Proof.
  unfold mem. rewrite existsb_exists. split.
  - intros [y [Hy E]]. apply String.eqb_eq in E. subst. exact Hy.
  - intros H. exists x. split; [exact H | apply String.eqb_refl].
Qed.

Lemma mem_false x l : mem x l = false <-> ~ In x l.
Proof.
  split; intros H.
  - intros C. apply mem_In in C. congruence.
  - destruct (mem x l) eqn:E; [|reflexivity]. exfalso. apply H. apply mem_In. exact E.
Qed.

Lemma assoc_set_eq {A} k (v : A) l : assoc k (assoc_set k v l) = Some v.
Proof.
  induction l as [|[k0 v0] l IH]; simpl.
  - rewrite String.eqb_refl. reflexivity.
  - destruct (String.eqb k k0) eqn:E; simpl.
    + rewrite String.eqb_refl. reflexivity.
    + rewrite E. exact IH.
Qed.

Lemma assoc_set_neq {A} k k' (v : A) l : k' <> k -> assoc k' (assoc_set k v l) = assoc k' l.
Proof.
  intros N. induction l as [|[k0 v0] l IH]; simpl.
  - apply String.eqb_neq in N. rewrite N. reflexivity.
  - destruct (String.eqb k k0) eqn:E; simpl.
    + apply String.eqb_eq in E. subst k0. apply String.eqb_neq in N. rewrite N. reflexivity.
    + destruct (String.eqb k' k0); [reflexivity | exact IH].
Qed.

Lemma assoc_set_same {A} k (v : A) l : assoc k l = Some v -> assoc_set k v l = l.
Proof.
  induction l as [|[k0 v0] l IH]; simpl; intros H; [discriminate|].
  destruct (String.eqb k k0) eqn:E.
  - apply String.eqb_eq in E. subst k0. inversion H. reflexivity.
  - rewrite (IH H). reflexivity.
Qed.

Lemma nodup_snoc (x : string) l : NoDup l -> ~ In x l -> NoDup (l ++ [x]).
Proof.
  induction l as [|a l IH]; simpl; intros ND NI.
  - constructor; [intros []|constructor].
  - inversion ND as [|? ? Ha ND']; subst. constructor.
    + rewrite in_app_iff. simpl. intros [C|[C|[]]]; [exact (Ha C)|]. subst. apply NI. left. reflexivity.
    + apply IH; [exact ND'|]. intros C. apply NI. right. exact C.
Qed.

Lemma shape_singleton (sh : list nat) n :
  (negb (Nat.eqb (length sh) 1) || negb (Nat.eqb (hd 0 sh) n))%bool = false -> sh = [n].
Proof.
  intros H. apply orb_false_iff in H as [H1 H2].
  apply negb_false_iff in H1, H2. apply Nat.eqb_eq in H1, H2.
  destruct sh as [|a [|b r]]; simpl in *; try discriminate. subst. reflexivity.
Qed.

Lemma state_eta s : mkState (span s) (index s) (vars s) (registry s) (adict s) (strict s) (kind s) (names s) (dflt s) = s.
Proof. destruct s; reflexivity. Qed.

Lemma set_vars_same s : set_vars s (vars s) = s.
Proof. destruct s; reflexivity. Qed.

(* ------------------------------------------------------------------ the invariant *)
(* InvV: index duplicate-free; every indexed name has a stored series; every stored series is one-dimensional
   with one cell per period.  InvN (ModelInterface objects): every name of `names` is a variable. *)
Definition InvV (s : state) : Prop :=
  NoDup (index s) /\
  (forall x, In x (index s) -> assoc x (vars s) <> None) /\
  (forall x v, assoc x (vars s) = Some v -> vshape v = [n_of s]).

Definition InvN (s : state) : Prop := kind s <> CVC -> incl (names s) (index s).

Definition Inv (s : state) : Prop := InvV s /\ InvN s.

Lemma inv_unfolded s :
  Inv s <->
  ((NoDup (index s) /\
    (forall x, In x (index s) -> assoc x (vars s) <> None) /\
    (forall x v, assoc x (vars s) = Some v -> vshape v = [length (span s)])) /\
   (kind s <> CVC -> incl (names s) (index s))).
Proof. split; intros H; exact H. Qed.

Definition dtype_of (s : state) (x : string) : option dtype :=
  match assoc x (vars s) with Some v => Some (vdtype v) | None => None end.

(* one well-behaved change of the store *)
Inductive good : state -> state -> Prop :=
| gs_refl s : good s s
| gs_meta s s' :                      (* attributes, registry, strict flag: the series are not touched *)
    span s' = span s -> index s' = index s -> vars s' = vars s -> kind s' = kind s -> names s' = names s -> good s s'
| gs_var s name v0 v' :               (* one series replaced: same dtype, still rank 1 of span length *)
    assoc name (vars s) = Some v0 -> vdtype v' = vdtype v0 ->
    (vshape v0 = [n_of s] -> vshape v' = [n_of s]) ->
    good s (set_vars s (assoc_set name v' (vars s)))
| gs_add s name v :                   (* a new series of span length under a fresh name *)
    ~ In name (index s) -> vshape v = [n_of s] ->
    good s (set_index_vars s (index s ++ [name]) (assoc_set name v (vars s)))
| gs_names s x :                      (* ModelInterface.add_variable extends `names` with an existing variable *)
    In x (index s) -> good s (set_names s (names s ++ [x]))
| gs_trans s1 s2 s3 : good s1 s2 -> good s2 s3 -> good s1 s3.

Lemma good_span s s' : good s s' -> span s' = span s /\ kind s' = kind s.
Proof.
  induction 1; simpl; auto.
  destruct IHgood1, IHgood2. split; congruence.
Qed.

Lemma good_n s s' : good s s' -> n_of s' = n_of s.
Proof. intros G. unfold n_of. destruct (good_span _ _ G) as [E _]. rewrite E. reflexivity. Qed.

Lemma good_invV s s' : good s s' -> InvV s -> InvV s'.
Proof.
  induction 1 as [s|s s' Hs Hi Hv Hk Hn|s name v0 v' HA HD HS|s name v HN HS|s x Hx|s1 s2 s3 G1 IH1 G2 IH2]; intros [ND [HI HV]].
  - repeat split; assumption.
  - unfold InvV, n_of. rewrite Hs, Hi, Hv. repeat split; assumption.
  - unfold InvV. simpl. repeat split.
    + exact ND.
    + intros x Hx. destruct (string_dec x name) as [->|Ne].
      * rewrite assoc_set_eq. discriminate.
      * rewrite (assoc_set_neq _ _ _ _ Ne). apply HI. exact Hx.
    + intros x v. destruct (string_dec x name) as [->|Ne].
      * rewrite assoc_set_eq. intros E. inversion E; subst. apply HS. apply (HV name). exact HA.
      * rewrite (assoc_set_neq _ _ _ _ Ne). apply HV.
  - unfold InvV. simpl. repeat split.
    + apply nodup_snoc; assumption.
    + intros x Hx. destruct (string_dec x name) as [->|Ne].
      * rewrite assoc_set_eq. discriminate.
      * rewrite (assoc_set_neq _ _ _ _ Ne). apply HI.
        apply in_app_iff in Hx as [Hx|[Hx|[]]]; [exact Hx|]. congruence.
    + intros x v0. destruct (string_dec x name) as [->|Ne].
      * rewrite assoc_set_eq. intros E. inversion E; subst. exact HS.
      * rewrite (assoc_set_neq _ _ _ _ Ne). apply HV.
  - repeat split; assumption.
  - apply IH2. apply IH1. repeat split; assumption.
Qed.

(* variables are never removed and never change dtype; `names` only grows, by existing variables *)
Lemma good_mono s s' : good s s' ->
  incl (index s) (index s') /\
  (forall x, In x (index s) -> dtype_of s' x = dtype_of s x) /\
  (exists l, names s' = names s ++ l /\ incl l (index s')).
Proof.
  induction 1 as [s|s s' Hs Hi Hv Hk Hn|s name v0 v' HA HD HS|s name v HN HS|s x Hx|s1 s2 s3 G1 IH1 G2 IH2].
  - split; [apply incl_refl|]. split; [reflexivity|]. exists []. rewrite app_nil_r. split; [reflexivity|intros ? []].
  - split; [rewrite Hi; apply incl_refl|]. split.
    + intros x _. unfold dtype_of. rewrite Hv. reflexivity.
    + exists []. rewrite app_nil_r. split; [exact Hn|intros ? []].
  - split; [apply incl_refl|]. split.
    + intros x _. unfold dtype_of. simpl. destruct (string_dec x name) as [->|Ne].
      * rewrite assoc_set_eq, HA, HD. reflexivity.
      * rewrite (assoc_set_neq _ _ _ _ Ne). reflexivity.
    + exists []. rewrite app_nil_r. split; [reflexivity|intros ? []].
  - split; [simpl; apply incl_appl, incl_refl|]. split.
    + intros x Hx. unfold dtype_of. simpl. destruct (string_dec x name) as [->|Ne]; [contradiction|].
      rewrite (assoc_set_neq _ _ _ _ Ne). reflexivity.
    + exists []. rewrite app_nil_r. split; [reflexivity|intros ? []].
  - split; [apply incl_refl|]. split; [reflexivity|].
    exists [x]. split; [reflexivity|]. intros y [<-|[]]. exact Hx.
  - destruct IH1 as [I1 [D1 [l1 [N1 L1]]]]. destruct IH2 as [I2 [D2 [l2 [N2 L2]]]].
    split; [eapply incl_tran; eassumption|]. split.
    + intros x Hx. rewrite D2; [apply D1; exact Hx | apply I1; exact Hx].
    + exists (l1 ++ l2). split; [rewrite N2, N1, app_assoc; reflexivity|].
      apply incl_app; [eapply incl_tran; eassumption | exact L2].
Qed.

Lemma good_inv s s' : good s s' -> Inv s -> Inv s'.
Proof.
  intros G [HV HN]. split; [eapply good_invV; eassumption|].
  destruct (good_mono _ _ G) as [I [_ [l [N L]]]]. destruct (good_span _ _ G) as [_ K].
  intros HK. rewrite N. apply incl_app; [|exact L].
  eapply incl_tran; [apply HN; congruence | exact I].
Qed.

(* ------------------------------------------------------------------ the operations the property speaks about *)
(* An attribute assignment / add_attribute that targets the object's own bookkeeping (`span`, `index`, a name starting with '_';
   for models also `names`, `dtype`) is NOT one of them: it edits the one __dict__ the object keeps everything in.  The invariant
   theorems carry `in_scope` as an explicit hypothesis; *_needs_scope_refuted (ContainerExamples.v) show that it is necessary. *)
Definition in_scope (k : ckind) (o : op) : Prop :=
  match o with
  | SetAttr n _ _ | AddAttribute n _ => bookkeeping k n = false
  | _ => True
  end.

Lemma bookkeeping_values k : bookkeeping k "values" = false.
Proof. destruct k; reflexivity. Qed.

Lemma bookkeeping_not_span k name : bookkeeping k name = false -> name <> "span".
Proof. intros B ->. destruct k; discriminate B. Qed.

Lemma bookkeeping_plain k name : bookkeeping k name = false -> (String.eqb name "span" || underscored name)%bool = false.
Proof.
  unfold bookkeeping. intros B. destruct (String.eqb name "span"); [discriminate B|].
  destruct (String.eqb name "index"); [discriminate B|]. destruct (underscored name); [discriminate B|]. reflexivity.
Qed.

Lemma bookkeeping_cases k name : bookkeeping k name = true -> underscored name = false ->
  name = "span" \/ name = "index" \/ name = "names" \/ name = "dtype" \/ name = "submodels" \/ name = "name".
Proof.
  unfold bookkeeping. intros B U. rewrite U in B.
  destruct (String.eqb name "span") eqn:E1; [apply String.eqb_eq in E1; left; exact E1|].
  destruct (String.eqb name "index") eqn:E2; [apply String.eqb_eq in E2; right; left; exact E2|].
  destruct (String.eqb name "names") eqn:E3; [apply String.eqb_eq in E3; right; right; left; exact E3|].
  destruct (String.eqb name "dtype") eqn:E4; [apply String.eqb_eq in E4; right; right; right; left; exact E4|].
  destruct (String.eqb name "submodels") eqn:E5; [apply String.eqb_eq in E5; right; right; right; right; left; exact E5|].
  destruct (String.eqb name "name") eqn:E6; [apply String.eqb_eq in E6; right; right; right; right; right; exact E6|].
  destruct k; discriminate B.
Qed.

Section Facts.
  Variable pycast : dtype -> pyval -> outcome pyval.
  Variable arrcast : dtype -> dtype -> pyval -> outcome pyval.
  Variable infer : list pyval -> dtype.
  Variable astype_dt : dtype -> list pyval -> dreq -> dtype.
  Variable itemseq_exn : dtype -> exn.

  Notation assign_inplace := (assign_inplace pycast arrcast).
  Notation assign_item := (assign_item pycast arrcast itemseq_exn).
  Notation setattr_var := (setattr_var pycast arrcast).
  Notation set_rows_arr := (set_rows_arr pycast arrcast).
  Notation set_rows_full := (set_rows_full pycast arrcast infer).
  Notation values_setter := (values_setter pycast arrcast infer).
  Notation obj_setattr := (obj_setattr pycast arrcast infer).
  Notation add_attribute := (add_attribute pycast arrcast infer).
  Notation setattr := (setattr pycast arrcast infer).
  Notation setitem := (setitem pycast arrcast infer itemseq_exn).
  Notation replace_values := (replace_values pycast arrcast infer itemseq_exn).
  Notation base_add_variable := (base_add_variable pycast arrcast infer astype_dt).
  Notation add_variable := (add_variable pycast arrcast infer astype_dt).
  Notation step := (step pycast arrcast infer astype_dt itemseq_exn).
  Notation run := (run pycast arrcast infer astype_dt itemseq_exn).
  Notation run_trace := (run_trace pycast arrcast infer astype_dt itemseq_exn).
  Notation init_model := (init_model pycast arrcast infer astype_dt).
  Notation init_vars := (init_vars pycast arrcast infer astype_dt).
  Notation natural := (natural pycast infer).

  (* e is the class raised by some element cast of the table *)
  Definition CastFail (e : exn) : Prop :=
    exists d c, pycast d c = Raise e \/ exists src, arrcast src d c = Raise e.

  (* ---------------------------------------------------------------- in-place assignment keeps dtype and shape *)
  Lemma assign_inplace_meta v ps value v' e :
    assign_inplace v ps value = (v', e) -> vdtype v' = vdtype v /\ vshape v' = vshape v.
  Proof.
    unfold Container.assign_inplace, Container.commit. intros H.
    repeat dmh H; inversion H; subst; simpl; auto.
  Qed.

  Lemma assign_item_meta v p value v' e :
    assign_item v p value = (v', e) -> vdtype v' = vdtype v /\ vshape v' = vshape v.
  Proof.
    unfold Container.assign_item. intros H.
    repeat dmh H; inversion H; subst; simpl; auto.
  Qed.

  Lemma write_cells_err cast ps cs d d' e :
    write_cells cast ps cs d = (d', Some e) -> exists c, cast c = Raise e.
  Proof.
    revert cs d. induction ps as [|p ps IH]; intros cs d H; simpl in H; [inversion H|].
    destruct cs as [|c cs]; [inversion H|].
    destruct (cast c) eqn:E.
    - apply IH in H. exact H.
    - inversion H; subst. exists c. exact E.
  Qed.

  Lemma write_cells_id_ok ps cs d : snd (write_cells (fun x : pyval => Ret x) ps cs d) = None.
  Proof.
    revert cs d. induction ps as [|p ps IH]; intros cs d; simpl; [reflexivity|].
    destruct cs as [|c cs]; [reflexivity|]. apply IH.
  Qed.

  (* a raising in-place assignment has changed nothing (fix 5dde979: the copy is committed only on success) *)
  Lemma assign_inplace_err v ps value v' e :
    assign_inplace v ps value = (v', Some e) -> v' = v.
  Proof.
    unfold Container.assign_inplace, Container.commit. intros H.
    repeat dmh H; inversion H; subst; auto.
  Qed.

  Lemma assign_item_err v p value v' e :
    assign_item v p value = (v', Some e) -> v' = v.
  Proof.
    unfold Container.assign_item. intros H.
    repeat dmh H; inversion H; subst; auto.
  Qed.

  (* ---------------------------------------------------------------- every operation is a composition of good changes *)
  Lemma setattr_var_good name value s : good s (fst (setattr_var name value s)).
  Proof.
    unfold Container.setattr_var.
    destruct (assoc name (vars s)) as [v|] eqn:A; [|apply gs_refl].
    destruct (is_sequence value).
    - destruct (as_array value) as [[sh cells]|e]; [|apply gs_refl].
      destruct (cast_all (pycast (vdtype v)) cells) as [cells'|e]; [|apply gs_refl].
      destruct (negb (Nat.eqb (length sh) 1) || negb (Nat.eqb (hd 0 sh) (n_of s)))%bool eqn:C; [apply gs_refl|].
      apply shape_singleton in C. subst sh. simpl.
      eapply gs_var; [exact A|reflexivity|intros _; reflexivity].
    - destruct (vshape v) as [|m [|m' r]] eqn:SH; try apply gs_refl.
      destruct (assign_inplace v (seq 0 m) value) as [v' e] eqn:AI. simpl.
      destruct (assign_inplace_meta _ _ _ _ _ AI) as [D S'].
      eapply gs_var; [exact A|exact D|]. intros Hn. rewrite S'. exact Hn.
  Qed.

  Lemma bind_good (f : state -> res) s (r : res) :
    good s (fst r) -> (forall s', good s' (fst (f s'))) ->
    good s (fst (match r with (s', Ret _) => f s' | (s', Raise e) => (s', Raise e) end)).
  Proof.
    intros G F. destruct r as [s' [u|e]]; simpl in *; [|exact G].
    eapply gs_trans; [exact G | apply F].
  Qed.

  Lemma set_rows_arr_good src nms rws s : good s (fst (set_rows_arr src nms rws s)).
  Proof.
    revert rws s. induction nms as [|x nms IH]; intros rws s; simpl; [apply gs_refl|].
    destruct rws as [|r rr]; [apply gs_refl|].
    destruct (assoc x (vars s)) as [v|]; [|apply gs_refl].
    destruct (cast_all (arrcast src (vdtype v)) r) as [r'|e]; [|apply gs_refl].
    apply bind_good; [apply setattr_var_good | intros s'; apply IH].
  Qed.

  Lemma set_rows_full_good nms value s : good s (fst (set_rows_full nms value s)).
  Proof.
    revert s. induction nms as [|x nms IH]; intros s; simpl; [apply gs_refl|].
    destruct (assoc x (vars s)) as [v|]; [|apply gs_refl].
    destruct (natural value) as [[[src sh] cells]|e]; [|apply gs_refl].
    destruct (bcast_arr (prod_shape (vshape v)) sh cells) as [cs|]; [|apply gs_refl].
    destruct (cast_all (arrcast src (vdtype v)) cs) as [cs'|e]; [|apply gs_refl].
    apply bind_good; [apply setattr_var_good | intros s'; apply IH].
  Qed.

  Lemma values_setter_good value s : good s (fst (values_setter value s)).
  Proof.
    unfold Container.values_setter. destruct value; try apply set_rows_full_good.
    destruct (values_shape s) as [vsh|e]; [|apply gs_refl].
    destruct (list_eq_dec Nat.eq_dec sh vsh); [|apply gs_refl].
    destruct sh as [|r [|m [|q t]]]; try apply gs_refl.
    apply set_rows_arr_good.
  Qed.

  Lemma obj_setattr_good name value s : bookkeeping (kind s) name = false -> good s (fst (obj_setattr name value s)).
  Proof.
    intros B. unfold Container.obj_setattr. rewrite B.
    destruct (String.eqb name "strict").
    - destruct (truthy value); simpl; [|apply gs_refl]. apply gs_meta; reflexivity.
    - destruct (String.eqb name "values"); [apply values_setter_good|].
      destruct (String.eqb name "size" || String.eqb name "nbytes")%bool; [apply gs_refl|].
      match goal with |- context [if ?c then _ else _] => destruct c end; [apply gs_refl|].
      simpl. apply gs_meta; reflexivity.
  Qed.

  Lemma add_attribute_good name value s : bookkeeping (kind s) name = false -> good s (fst (add_attribute name value s)).
  Proof.
    intros B. unfold Container.add_attribute.
    destruct (mem name (index s)); [apply gs_refl|].
    destruct (reg_mem name (registry s)); [apply gs_refl|].
    pose proof (obj_setattr_good name value s B) as G.
    destruct (obj_setattr name value s) as [s' [u|e]]; simpl in *; [|exact G].
    eapply gs_trans; [exact G|]. apply gs_meta; reflexivity.
  Qed.

  Lemma setattr_good name value hint s :
    bookkeeping (kind s) name = false \/ mem name (index s) = true -> good s (fst (setattr name value hint s)).
  Proof.
    intros B. unfold Container.setattr.
    match goal with |- context [if ?c then _ else _] => destruct c end.
    - destruct (alternatives hint (row_names s)) as [|a [|b r]]; apply gs_refl.
    - destruct (mem name (index s)) eqn:M; cbn [negb].
      + apply setattr_var_good.
      + destruct B as [B|B]; [|discriminate B].
        destruct (reg_mem name (registry s)); [apply obj_setattr_good | apply add_attribute_good]; exact B.
  Qed.

  Lemma setitem_good k value s : good s (fst (setitem k value s)).
  Proof.
    unfold Container.setitem. destruct k as [name|name l|name a b st| |]; try apply gs_refl.
    - destruct (mem name (index s)) eqn:M; cbn [negb]; [apply setattr_good; right; exact M | apply gs_refl].
    - destruct (negb (mem name (index s))); [apply gs_refl|].
      destruct (locate (span s) l) as [p|e]; [|apply gs_refl].
      destruct (assoc name (vars s)) as [v|] eqn:A; [|apply gs_refl].
      destruct (assign_item v p value) as [v' e] eqn:AI. simpl.
      destruct (assign_item_meta _ _ _ _ _ AI) as [D S'].
      eapply gs_var; [exact A|exact D|]. intros Hn. rewrite S'. exact Hn.
    - destruct (negb (mem name (index s))); [apply gs_refl|].
      destruct (resolve_slice (span s) a b st) as [[[sl el] stp]|e]; [|apply gs_refl].
      destruct (assoc name (vars s)) as [v|] eqn:A; [|apply gs_refl].
      destruct (vshape v) as [|m [|m' r]] eqn:SH; try apply gs_refl.
      destruct (slice_positions m sl el stp) as [ps|]; [|apply gs_refl].
      destruct (assign_inplace v ps value) as [v' e] eqn:AI. simpl.
      destruct (assign_inplace_meta _ _ _ _ _ AI) as [D S'].
      eapply gs_var; [exact A|exact D|]. intros Hn. rewrite S'. exact Hn.
  Qed.

  Lemma replace_values_good kvs s : good s (fst (replace_values kvs s)).
  Proof.
    revert s. induction kvs as [|[k v] kvs IH]; intros s; simpl; [apply gs_refl|].
    apply bind_good; [exact (setitem_good (KName k) v s) | intros s'; apply IH].
  Qed.

  Lemma base_add_variable_good name value dt s : good s (fst (base_add_variable name value dt s)).
  Proof.
    unfold Container.base_add_variable.
    destruct (mem name (index s)) eqn:M; [apply gs_refl|].
    destruct (storage_taken name s); [apply gs_refl|].
    apply mem_false in M.
    match goal with |- context [match ?x with Ret _ => _ | Raise _ => _ end] => destruct x as [[[d0 m0] cells0]|e] end; [|apply gs_refl].
    match goal with |- context [match ?x with Ret _ => _ | Raise _ => _ end] => destruct x as [[d1 cells1]|e] end; [|apply gs_refl].
    destruct (negb (Nat.eqb m0 (n_of s))) eqn:C; [apply gs_refl|].
    apply negb_false_iff, Nat.eqb_eq in C. subst m0.
    simpl. apply gs_add; [exact M|reflexivity].
  Qed.

  Lemma base_add_variable_ret name value dt s s' u :
    base_add_variable name value dt s = (s', Ret u) ->
    index s' = index s ++ [name] /\ names s' = names s /\ mem name (index s) = false /\
    exists v, vars s' = assoc_set name v (vars s) /\ vshape v = [n_of s].
  Proof.
    unfold Container.base_add_variable. intros H.
    destruct (mem name (index s)) eqn:M; [inversion H|].
    destruct (storage_taken name s) eqn:ST; [inversion H|].
    match type of H with context [match ?x with Ret _ => _ | Raise _ => _ end] => destruct x as [[[d0 m0] cells0]|e] end; [|inversion H].
    match type of H with context [match ?x with Ret _ => _ | Raise _ => _ end] => destruct x as [[d1 cells1]|e] end; [|inversion H].
    destruct (negb (Nat.eqb m0 (n_of s))) eqn:C; [inversion H|].
    apply negb_false_iff, Nat.eqb_eq in C. subst m0.
    inversion H; subst; simpl. repeat split. eexists. split; reflexivity.
  Qed.

  Lemma base_add_variable_raise name value dt s s' e :
    base_add_variable name value dt s = (s', Raise e) -> s' = s.
  Proof.
    unfold Container.base_add_variable. intros H.
    destruct (mem name (index s)) eqn:M; [inversion H; reflexivity|].
    destruct (storage_taken name s); [inversion H; reflexivity|].
    match type of H with context [match ?x with Ret _ => _ | Raise _ => _ end] => destruct x as [[[d0 m0] cells0]|e0] end; [|inversion H; reflexivity].
    match type of H with context [match ?x with Ret _ => _ | Raise _ => _ end] => destruct x as [[d1 cells1]|e0] end; [|inversion H; reflexivity].
    destruct (negb (Nat.eqb m0 (n_of s))); inversion H; reflexivity.
  Qed.

  Lemma add_variable_good name value dt s : good s (fst (add_variable name value dt s)).
  Proof.
    unfold Container.add_variable.
    destruct (kind s) eqn:K; [apply base_add_variable_good| |];
      (set (dt' := match dt with None => dflt s | Some _ => dt end);
       pose proof (base_add_variable_good name value dt' s) as G;
       destruct (base_add_variable name value dt' s) as [s' [u|e]] eqn:B; simpl in *; [|exact G];
       apply base_add_variable_ret in B as [BI _];
       eapply gs_trans; [exact G|]; apply gs_names; rewrite BI; apply in_app_iff; right; left; reflexivity).
  Qed.

  (* FRAME: a read-only hook leaves the object exactly as it was *)
  Lemma read_frame q s : fst (read q s) = s.
  Proof. destruct q; reflexivity. Qed.

  Lemma step_good o s : in_scope (kind s) o -> good s (fst (step o s)).
  Proof.
    destruct o; simpl; intros SC.
    - apply add_variable_good.
    - apply setattr_good. left. exact SC.
    - apply setitem_good.
    - apply replace_values_good.
    - apply add_attribute_good. exact SC.
    - rewrite read_frame. apply gs_refl.
  Qed.

  Lemma run_good ops : forall s, Forall (in_scope (kind s)) ops -> good s (run ops s).
  Proof.
    induction ops as [|o ops IH]; intros s F; simpl; [apply gs_refl|].
    inversion F as [|? ? Fo Fr]; subst.
    pose proof (step_good o s Fo) as G.
    eapply gs_trans; [exact G | apply IH]. rewrite (proj2 (good_span _ _ G)). exact Fr.
  Qed.

  (* ================================================================ the invariant over arbitrary histories *)
  Theorem step_preserves_inv o s : in_scope (kind s) o -> Inv s -> Inv (fst (step o s)).
  Proof. intros SC H. eapply good_inv; [apply step_good; exact SC | exact H]. Qed.

  Theorem reachable_inv ops s : Forall (in_scope (kind s)) ops -> Inv s -> Inv (run ops s).
  Proof. intros SC H. eapply good_inv; [apply run_good; exact SC | exact H]. Qed.

  Theorem reachable_inv_every_state ops : forall s,
    Forall (in_scope (kind s)) ops -> Inv s -> Forall (fun r => Inv (fst r)) (run_trace ops s).
  Proof.
    induction ops as [|o ops IH]; intros s F H; simpl; constructor; inversion F as [|? ? Fo Fr]; subst.
    - apply step_preserves_inv; assumption.
    - apply IH; [|apply step_preserves_inv; assumption].
      rewrite (proj2 (good_span _ _ (step_good o s Fo))). exact Fr.
  Qed.

  (* a variable, once in the index, stays there with the dtype it has *)
  Theorem dtype_kept ops s x :
    Forall (in_scope (kind s)) ops ->
    In x (index s) -> In x (index (run ops s)) /\ dtype_of (run ops s) x = dtype_of s x.
  Proof.
    intros SC Hx. destruct (good_mono _ _ (run_good ops s SC)) as [I [D _]].
    split; [apply I; exact Hx | apply D; exact Hx].
  Qed.

  Theorem span_kept ops s : Forall (in_scope (kind s)) ops -> span (run ops s) = span s /\ kind (run ops s) = kind s.
  Proof. intros SC. apply good_span. apply run_good. exact SC. Qed.

  Lemma add_variable_ret name value dt s s' u :
    add_variable name value dt s = (s', Ret u) ->
    In name (index s') /\ mem name (index s) = false /\ exists d, dtype_of s' name = Some d.
  Proof.
    unfold Container.add_variable. intros H.
    assert (B : forall dt0 s1 u1, base_add_variable name value dt0 s = (s1, Ret u1) ->
                In name (index s1) /\ mem name (index s) = false /\ exists d, dtype_of s1 name = Some d).
    { intros dt0 s1 u1 B. apply base_add_variable_ret in B as [BI [_ [M [v [BV _]]]]].
      split; [rewrite BI; apply in_app_iff; right; left; reflexivity|]. split; [exact M|].
      exists (vdtype v). unfold dtype_of. rewrite BV, assoc_set_eq. reflexivity. }
    destruct (kind s); [apply (B _ _ _ H)| |];
      (destruct (base_add_variable name value (match dt with None => dflt s | Some _ => dt end) s) as [s1 [u1|e]] eqn:E; [|inversion H];
       inversion H; subst; simpl; apply (B _ _ _ E)).
  Qed.

  (* "the dtype it was created with": after a successful add_variable, whatever follows keeps that dtype *)
  Theorem dtype_as_created name value dt s s1 u ops :
    add_variable name value dt s = (s1, Ret u) -> Forall (in_scope (kind s1)) ops ->
    exists d, dtype_of s1 name = Some d /\ dtype_of (run ops s1) name = Some d /\ In name (index (run ops s1)).
  Proof.
    intros H SC. apply add_variable_ret in H as [Hin [_ [d Hd]]].
    destruct (dtype_kept ops s1 name SC Hin) as [I D].
    exists d. split; [exact Hd|]. split; [rewrite D; exact Hd | exact I].
  Qed.

  (* ================================================================ values / size *)
  Lemma rows_inv nms s :
    InvV s -> incl nms (index s) ->
    exists l, rows nms (vars s) = Ret l /\ length l = length nms /\ Forall (fun v => vshape v = [n_of s]) l /\
              Forall2 (fun x v => assoc x (vars s) = Some v) nms l.
  Proof.
    intros [ND [HI HV]]. induction nms as [|x nms IH]; intros Hincl; simpl.
    - exists []. repeat split; constructor.
    - assert (Hx : In x (index s)) by (apply Hincl; left; reflexivity).
      destruct (assoc x (vars s)) as [v|] eqn:A; [|exfalso; exact (HI x Hx A)].
      destruct IH as [l [R [L [F F2]]]]; [intros y Hy; apply Hincl; right; exact Hy|].
      rewrite R. exists (v :: l). simpl. repeat split; [congruence| |].
      + constructor; [apply (HV x); exact A | exact F].
      + constructor; assumption.
  Qed.

  Lemma row_names_incl s : Inv s -> incl (row_names s) (index s).
  Proof.
    intros [_ HN]. unfold row_names. destruct (kind s) eqn:K; [apply incl_refl| |]; apply HN; congruence.
  Qed.

  (* `values` never raises on a reachable object; it is the rows-by-periods stack of the series in declaration
     order (index order; `names` order for models), and `size` is its element count (+ the submodels' sizes) *)
  Theorem values_stack s :
    Inv s ->
    values_shape s = Ret (match row_names s with [] => [0] | _ => [length (row_names s); n_of s] end) /\
    (exists l, rows (row_names s) (vars s) = Ret l /\ Forall2 (fun x v => assoc x (vars s) = Some v) (row_names s) l /\
               Forall (fun v => vshape v = [n_of s]) l) /\
    size_of s = length (row_names s) * n_of s + match kind s with CLinker extra => extra | _ => 0 end.
  Proof.
    intros H. pose proof (row_names_incl s H) as Hincl. destruct H as [HVV HNN].
    destruct (rows_inv _ _ HVV Hincl) as [l [R [L [F F2]]]].
    split; [|split].
    - unfold values_shape. rewrite R. destruct l as [|v0 r].
      + destruct (row_names s); [reflexivity|discriminate].
      + inversion F as [|? ? Hv0 Fr]; subst.
        assert (FB : forallb (fun v => if list_eq_dec Nat.eq_dec (vshape v) (vshape v0) then true else false) r = true).
        { apply forallb_forall. intros v Hv. rewrite Forall_forall in Fr. rewrite (Fr v Hv), Hv0.
          destruct (list_eq_dec Nat.eq_dec [n_of s] [n_of s]); [reflexivity|congruence]. }
        rewrite FB, Hv0. destruct (row_names s) as [|a t]; [discriminate|]. simpl in L. simpl.
        f_equal. f_equal. lia.
    - exists l. repeat split; assumption.
    - unfold size_of, row_names. destruct (kind s); lia.
  Qed.

  (* ================================================================ failed assignments *)
  Lemma setattr_var_err name value s s' e :
    setattr_var name value s = (s', Raise e) -> s' = s.
  Proof.
    unfold Container.setattr_var. intros H.
    destruct (assoc name (vars s)) as [v|] eqn:A; [|inversion H; reflexivity].
    destruct (is_sequence value).
    - destruct (as_array value) as [[sh cells]|e0]; [|inversion H; reflexivity].
      destruct (cast_all (pycast (vdtype v)) cells) as [cells'|e0]; [|inversion H; reflexivity].
      destruct (negb (Nat.eqb (length sh) 1) || negb (Nat.eqb (hd 0 sh) (n_of s)))%bool; inversion H; reflexivity.
    - destruct (vshape v) as [|m [|m' r]]; try (inversion H; reflexivity).
      destruct (assign_inplace v (seq 0 m) value) as [v' eo] eqn:AI.
      destruct eo as [ex|]; inversion H; subst.
      apply assign_inplace_err in AI. subst v'.
      rewrite (assoc_set_same _ _ _ A). apply set_vars_same.
  Qed.

  Lemma setattr_on_var name value hint s :
    mem name (index s) = true -> setattr name value hint s = setattr_var name value s.
  Proof.
    intros M. unfold Container.setattr. rewrite M.
    destruct (negb (is_property (kind s) name)), (strict s), (reg_mem name (registry s)); reflexivity.
  Qed.

  Lemma obj_setattr_err name value s s' e :
    name <> "values" -> obj_setattr name value s = (s', Raise e) -> s' = s.
  Proof.
    intros NV. unfold Container.obj_setattr. intros H.
    destruct (bookkeeping (kind s) name).
    { unfold Container.book_setattr in H. repeat dmh H; inversion H; reflexivity. }
    destruct (String.eqb name "strict").
    - destruct (truthy value); inversion H; reflexivity.
    - destruct (String.eqb name "values") eqn:E; [apply String.eqb_eq in E; contradiction|].
      destruct (String.eqb name "size" || String.eqb name "nbytes")%bool; [inversion H; reflexivity|].
      match type of H with context [if ?c then _ else _] => destruct c end; inversion H; reflexivity.
  Qed.

  Lemma add_attribute_err name value s s' e :
    name <> "values" -> add_attribute name value s = (s', Raise e) -> s' = s.
  Proof.
    intros NV. unfold Container.add_attribute. intros H.
    destruct (mem name (index s)); [inversion H; reflexivity|].
    destruct (reg_mem name (registry s)); [inversion H; reflexivity|].
    destruct (obj_setattr name value s) as [s1 [u|e1]] eqn:O; inversion H; subst.
    eapply obj_setattr_err; eassumption.
  Qed.

  Lemma setattr_err name value hint s s' e :
    name <> "values" -> setattr name value hint s = (s', Raise e) -> s' = s.
  Proof.
    intros NV. unfold Container.setattr. intros H.
    match type of H with context [if ?c then _ else _] => destruct c end.
    - destruct (alternatives hint (row_names s)) as [|a [|b r]]; inversion H; reflexivity.
    - destruct (negb (mem name (index s))).
      + destruct (reg_mem name (registry s)); [eapply obj_setattr_err; eassumption | eapply add_attribute_err; eassumption].
      + eapply setattr_var_err; eassumption.
  Qed.

  Lemma setitem_err k value s s' e :
    setitem k value s = (s', Raise e) -> s' = s.
  Proof.
    unfold Container.setitem. intros H. destruct k as [name|name l|name a b st| |]; try (inversion H; reflexivity).
    - destruct (negb (mem name (index s))) eqn:M; [inversion H; reflexivity|].
      apply negb_false_iff in M. rewrite (setattr_on_var _ _ _ _ M) in H. eapply setattr_var_err; eassumption.
    - destruct (negb (mem name (index s))); [inversion H; reflexivity|].
      destruct (locate (span s) l) as [p|e0]; [|inversion H; reflexivity].
      destruct (assoc name (vars s)) as [v|] eqn:A; [|inversion H; reflexivity].
      destruct (assign_item v p value) as [v' eo] eqn:AI.
      destruct eo as [ex|]; inversion H; subst.
      apply assign_item_err in AI. subst v'.
      rewrite (assoc_set_same _ _ _ A). apply set_vars_same.
    - destruct (negb (mem name (index s))); [inversion H; reflexivity|].
      destruct (resolve_slice (span s) a b st) as [[[sl el] stp]|e0]; [|inversion H; reflexivity].
      destruct (assoc name (vars s)) as [v|] eqn:A; [|inversion H; reflexivity].
      destruct (vshape v) as [|m [|m' r]]; try (inversion H; reflexivity).
      destruct (slice_positions m sl el stp) as [ps|]; [|inversion H; reflexivity].
      destruct (assign_inplace v ps value) as [v' eo] eqn:AI.
      destruct eo as [ex|]; inversion H; subst.
      apply assign_inplace_err in AI. subst v'.
      rewrite (assoc_set_same _ _ _ A). apply set_vars_same.
  Qed.

  Lemma add_variable_err name value dt s s' e :
    add_variable name value dt s = (s', Raise e) -> s' = s.
  Proof.
    unfold Container.add_variable. intros H.
    destruct (kind s); [eapply base_add_variable_raise; eassumption| |];
      (destruct (base_add_variable name value (match dt with None => dflt s | Some _ => dt end) s) as [s1 [u1|e1]] eqn:E;
       inversion H; subst; eapply base_add_variable_raise; eassumption).
  Qed.

  (* the single-variable operations: everything except the bulk ones (replace_values, the values setter) *)
  Definition single (o : op) : Prop :=
    match o with
    | AddVariable _ _ _ | SetItem _ _ => True
    | SetAttr n _ _ | AddAttribute n _ => n <> "values"
    | ReplaceValues _ => False
    | Query _ => True
    end.

  (* A RAISING SINGLE-VARIABLE OPERATION LEAVES THE WHOLE STATE UNCHANGED - whatever the reason it cannot fit: wrong length or shape,
     nesting, step 0, a value that cannot be cast (also part-way through an in-place copy: fix 5dde979 assigns into a copy and
     commits it only on success), an unknown, duplicate or reserved name, strict=True. *)
  Theorem failed_single_assignment_no_change o s s' e :
    single o -> step o s = (s', Raise e) -> s' = s.
  Proof.
    destruct o as [name v dt|name v hint|k v|kvs|name v|q]; simpl; intros S H.
    - eapply add_variable_err; eassumption.
    - eapply setattr_err; eassumption.
    - eapply setitem_err; eassumption.
    - contradiction.
    - eapply add_attribute_err; eassumption.
    - inversion H.
  Qed.

  (* add_variable is atomic *)
  Theorem add_variable_atomic name value dt s s' e :
    add_variable name value dt s = (s', Raise e) -> s' = s.
  Proof. apply add_variable_err. Qed.

  Theorem duplicate_name_rejected name value dt s :
    mem name (index s) = true -> add_variable name value dt s = (s, Raise DuplicateNameError).
  Proof.
    intros M. unfold Container.add_variable, Container.base_add_variable. rewrite M.
    destruct (kind s); reflexivity.
  Qed.

  (* fix d82b358: a name whose storage key '_' + name is taken already ('attributes', 'strict', a linker's 'LAGS' / 'LEADS', or any
     name shadowing an existing '_'-prefixed attribute) is refused, nothing changes *)
  Theorem reserved_name_rejected name value dt s :
    storage_taken name s = true -> exists e, add_variable name value dt s = (s, Raise e) /\ e = DuplicateNameError.
  Proof.
    intros T. exists DuplicateNameError. split; [|reflexivity].
    unfold Container.add_variable, Container.base_add_variable. rewrite T.
    destruct (kind s); destruct (mem name (index s)); reflexivity.
  Qed.

  Theorem attributes_and_strict_are_reserved s : storage_taken "attributes" s = true /\ storage_taken "strict" s = true.
  Proof. split; reflexivity. Qed.

  Theorem duplicate_attribute_rejected name value s :
    (mem name (index s) || reg_mem name (registry s))%bool = true ->
    add_attribute name value s = (s, Raise DuplicateNameError).
  Proof.
    intros M. unfold Container.add_attribute.
    destruct (mem name (index s)); [reflexivity|]. simpl in M. rewrite M. reflexivity.
  Qed.

  Theorem unknown_name_item_rejected name value s :
    mem name (index s) = false -> setitem (KName name) value s = (s, Raise KeyError).
  Proof. intros M. unfold Container.setitem. rewrite M. reflexivity. Qed.

  (* obj[name, label] = v and obj[name, a:b:s] = v with `name` not a variable: KeyError, whatever the label, the slice
     and the value, and nothing changes (fix 216fc36; before it, 'attributes' / 'strict' reached the object's own bookkeeping) *)
  Theorem unknown_name_label_rejected name l value s :
    mem name (index s) = false -> setitem (KLabel name l) value s = (s, Raise KeyError).
  Proof. intros M. unfold Container.setitem. rewrite M. reflexivity. Qed.

  Lemma locate_err sp l e : locate sp l = Raise e -> e = KeyError.
  Proof. unfold locate. destruct (find_pos l sp); intros H; inversion H; reflexivity. Qed.

  Lemma resolve_slice_err sp a b st e : resolve_slice sp a b st = Raise e -> e = KeyError \/ e = IndexError.
  Proof.
    unfold resolve_slice. intros H.
    destruct a as [a'|]; destruct b as [b'|]; destruct sp as [|x r]; cbv beta iota zeta in H;
      repeat (match type of H with
              | context [match locate ?s0 ?l0 with _ => _ end] =>
                  let E := fresh "E" in
                  destruct (locate s0 l0) eqn:E; [|apply locate_err in E; subst]; cbv beta iota zeta in H
              end);
      inversion H; subst; auto.
  Qed.

  Theorem unknown_name_slice_rejected name a b st value s :
    mem name (index s) = false -> setitem (KSlice name a b st) value s = (s, Raise KeyError).
  Proof. intros M. unfold Container.setitem. rewrite M. reflexivity. Qed.

  (* ================================================================ bulk operations: exactly a prefix is applied *)
  Theorem replace_values_prefix kvs s s' e :
    replace_values kvs s = (s', Raise e) ->
    exists pre k v post s1,
      kvs = pre ++ (k, v) :: post /\
      replace_values pre s = (s1, Ret tt) /\
      setitem (KName k) v s1 = (s', Raise e).
  Proof.
    revert s. induction kvs as [|[k v] kvs IH]; intros s H; [inversion H|].
    change (replace_values ((k, v) :: kvs) s) with
      (match setitem (KName k) v s with (s1, Ret _) => replace_values kvs s1 | (s1, Raise e1) => (s1, Raise e1) end) in H.
    destruct (setitem (KName k) v s) as [s1 [u|e1]] eqn:E.
    - destruct (IH _ H) as (pre & k' & v' & post & s2 & K & P & F).
      exists ((k, v) :: pre), k', v', post, s2. split; [rewrite K; reflexivity|]. split; [|exact F].
      change (replace_values ((k, v) :: pre) s) with
        (match setitem (KName k) v s with (s1, Ret _) => replace_values pre s1 | (s1, Raise e1) => (s1, Raise e1) end).
      rewrite E. exact P.
    - inversion H; subst. exists [], k, v, kvs, s. split; [reflexivity|]. split; [reflexivity|exact E].
  Qed.

  Theorem replace_values_all_applied kvs s s' :
    replace_values kvs s = (s', Ret tt) ->
    forall k v, In (k, v) kvs -> mem k (index s') = true.
  Proof.
    revert s. induction kvs as [|[k v] kvs IH]; intros s H k0 v0 Hin; [contradiction|].
    change (replace_values ((k, v) :: kvs) s) with
      (match setitem (KName k) v s with (s1, Ret _) => replace_values kvs s1 | (s1, Raise e1) => (s1, Raise e1) end) in H.
    destruct (setitem (KName k) v s) as [s1 [u|e1]] eqn:E; [|inversion H].
    destruct Hin as [Heq|Hin]; [|eapply IH; eassumption].
    inversion Heq; subst k0 v0.
    unfold Container.setitem in E. destruct (negb (mem k (index s))) eqn:M; [inversion E|].
    apply negb_false_iff, mem_In in M.
    pose proof (setitem_good (KName k) v s) as G1. unfold Container.setitem in G1. 
    assert (G : good s s').
    { eapply gs_trans; [exact (eq_ind _ (fun r => good s (fst r)) (setitem_good (KName k) v s) _ eq_refl)|].
      pose proof (replace_values_good kvs (fst (setitem (KName k) v s))) as G2.
      unfold Container.setitem in G2 |- *. rewrite (proj2 (negb_false_iff _) (proj2 (mem_In _ _) M)) in G2 |- *.
      rewrite E in G2 |- *. simpl in G2 |- *. rewrite H in G2. exact G2. }
    apply mem_In. apply (proj1 (good_mono _ _ G)). exact M.
  Qed.

  (* the values setter: a replacement array of the wrong shape is rejected before anything is touched *)
  Theorem values_setter_wrong_shape sh dt cells s vsh :
    values_shape s = Ret vsh -> sh <> vsh ->
    values_setter (OArr sh dt cells) s = (s, Raise DimensionError).
  Proof.
    intros V N. unfold Container.values_setter. rewrite V.
    destruct (list_eq_dec Nat.eq_dec sh vsh); [contradiction|reflexivity].
  Qed.

  (* ================================================================ strict *)
  (* with strict=True an assignment to a name that is neither a variable nor a registered attribute raises
     AttributeError (NotImplementedError when the closest match is ambiguous) and changes NOTHING; the suggestion is
     the candidate(s) whose lower-case form difflib picked (the oracle `hint`) *)
  Theorem strict_blocks_new_attributes name value hint s :
    strict s = true -> is_property (kind s) name = false ->
    mem name (index s) = false -> reg_mem name (registry s) = false ->
    setattr name value hint s =
      (s, Raise (match alternatives hint (row_names s) with _ :: _ :: _ => NotImplementedError | _ => AttributeError end)).
  Proof.
    intros S N M R. unfold Container.setattr. rewrite S, M, R, N. simpl.
    destruct (alternatives hint (row_names s)) as [|a [|b r]]; reflexivity.
  Qed.

  (* under strict, attribute assignment never extends the registry nor the attribute dictionary *)
  Lemma setattr_var_frame name value s :
    let s' := fst (setattr_var name value s) in
    registry s' = registry s /\ adict s' = adict s /\ strict s' = strict s /\ index s' = index s.
  Proof.
    unfold Container.setattr_var.
    destruct (assoc name (vars s)) as [v|]; [|simpl; auto].
    destruct (is_sequence value).
    - destruct (as_array value) as [[sh cells]|e0]; [|simpl; auto].
      destruct (cast_all (pycast (vdtype v)) cells) as [cells'|e0]; [|simpl; auto].
      destruct (negb (Nat.eqb (length sh) 1) || negb (Nat.eqb (hd 0 sh) (n_of s)))%bool; simpl; auto.
    - destruct (vshape v) as [|m [|m' r]]; simpl; auto.
      destruct (assign_inplace v (seq 0 m) value) as [v' eo]. simpl. auto.
  Qed.

  Theorem strict_updates_keep_working name value hint s :
    mem name (index s) = true ->
    setattr name value hint s = setattr_var name value s /\
    setitem (KName name) value s = setattr_var name value s.
  Proof.
    intros M. split; [apply setattr_on_var; exact M|].
    unfold Container.setitem. rewrite M. simpl. apply setattr_on_var. exact M.
  Qed.

  (* whole-series assignment and add_variable never read the strict flag *)
  Theorem setattr_var_ignores_strict name value s b :
    setattr_var name value (set_strict s b) =
    (set_strict (fst (setattr_var name value s)) b, snd (setattr_var name value s)).
  Proof.
    unfold Container.setattr_var. simpl.
    destruct (assoc name (vars s)) as [v|]; [|reflexivity].
    destruct (is_sequence value).
    - destruct (as_array value) as [[sh cells]|e0]; [|reflexivity].
      destruct (cast_all (pycast (vdtype v)) cells) as [cells'|e0]; [|reflexivity].
      unfold n_of. simpl.
      destruct (negb (Nat.eqb (length sh) 1) || negb (Nat.eqb (hd 0 sh) (length (span s))))%bool; reflexivity.
    - destruct (vshape v) as [|m [|m' r]]; try reflexivity.
      destruct (assign_inplace v (seq 0 m) value) as [v' eo]. reflexivity.
  Qed.

  Theorem add_variable_ignores_strict name value dt s b :
    add_variable name value dt (set_strict s b) =
    (set_strict (fst (add_variable name value dt s)) b, snd (add_variable name value dt s)).
  Proof.
    assert (B : forall dt0, base_add_variable name value dt0 (set_strict s b) =
                            (set_strict (fst (base_add_variable name value dt0 s)) b, snd (base_add_variable name value dt0 s))).
    { intros dt0. unfold Container.base_add_variable, n_of. simpl.
      destruct (mem name (index s)); [reflexivity|].
      change (storage_taken name (set_strict s b)) with (storage_taken name s).
      destruct (storage_taken name s); [reflexivity|].
      match goal with |- context [match ?x with Ret _ => _ | Raise _ => _ end] => destruct x as [[[d0 m0] cells0]|e] end; [|reflexivity].
      match goal with |- context [match ?x with Ret _ => _ | Raise _ => _ end] => destruct x as [[d1 cells1]|e] end; [|reflexivity].
      destruct (negb (Nat.eqb m0 (length (span s)))); reflexivity. }
    unfold Container.add_variable. simpl.
    destruct (kind s); [apply B| |];
      (rewrite B; destruct (base_add_variable name value (match dt with None => dflt s | Some _ => dt end) s) as [s1 [u|e]]; reflexivity).
  Qed.

  (* the values setter is reached (same outcome, same series) whatever the strict flag (fix 49a73ab: properties of the class pass
     the new-attribute guard) *)
  Lemma is_property_values k : is_property k "values" = true.
  Proof. destruct k; reflexivity. Qed.

  Theorem values_setter_reached value hint s :
    mem "values" (index s) = false ->
    snd (setattr "values" value hint s) = snd (values_setter value s) /\
    vars (fst (setattr "values" value hint s)) = vars (fst (values_setter value s)) /\
    index (fst (setattr "values" value hint s)) = index (fst (values_setter value s)).
  Proof.
    intros M. unfold Container.setattr. rewrite M, is_property_values. cbn [negb andb].
    destruct (reg_mem "values" (registry s)) eqn:R.
    - unfold Container.obj_setattr. rewrite bookkeeping_values. cbn [String.eqb Ascii.eqb Bool.eqb]. auto.
    - unfold Container.add_attribute. rewrite M, R.
      unfold Container.obj_setattr. rewrite bookkeeping_values. cbn [String.eqb Ascii.eqb Bool.eqb].
      destruct (values_setter value s) as [s' [u|e]]; simpl; auto. destruct u. auto.
  Qed.

  (* ================================================================ constructors *)
  Theorem inv_init_vc sp st : Inv (init_vc sp st).
  Proof.
    split; [|intros K; exfalso; apply K; reflexivity].
    repeat split; simpl; [constructor | intros x [] | intros x v E; discriminate].
  Qed.

  Lemma bind_ret (r : res) f s u :
    bind r f = (s, Ret u) -> exists s1 u1, r = (s1, Ret u1) /\ f s1 = (s, Ret u).
  Proof.
    unfold bind. destruct r as [s1 [u1|e]]; intros H; [|inversion H]. exists s1, u1. split; [reflexivity|exact H].
  Qed.

  Lemma init_vars_good nms ivs default d s : good s (fst (init_vars nms ivs default d s)).
  Proof.
    revert s. induction nms as [|x nms IH]; intros s; simpl; [apply gs_refl|].
    apply bind_good; [apply base_add_variable_good | intros s'; apply IH].
  Qed.

  Lemma init_vars_ret nms ivs default d s s' u :
    init_vars nms ivs default d s = (s', Ret u) -> incl nms (index s').
  Proof.
    revert s. induction nms as [|x nms IH]; intros s H; [intros ? []|].
    simpl in H.
    destruct (base_add_variable x (match assoc x ivs with Some v => v | None => default end) (Some d) s) as [s1 [u1|e1]] eqn:B; [|inversion H].
    apply base_add_variable_ret in B as [BI _].
    pose proof (init_vars_good nms ivs default d s1) as G. rewrite H in G. simpl in G.
    intros y [<-|Hy]; [|eapply IH; eassumption].
    apply (proj1 (good_mono _ _ G)). rewrite BI. apply in_app_iff. right. left. reflexivity.
  Qed.

  Lemma good_of (f : state -> res) s s' r : (forall s0, good s0 (fst (f s0))) -> f s = (s', r) -> good s s'.
  Proof. intros F E. pose proof (F s) as G. rewrite E in G. exact G. Qed.

  Lemma invV_set_names s nm : InvV s -> InvV (set_names s nm).
  Proof. intros H. exact H. Qed.

  Lemma good_at (f : state -> res) s s' r : good s (fst (f s)) -> f s = (s', r) -> good s s'.
  Proof. intros G E. rewrite E in G. exact G. Qed.

  (* the constructor's own registrations of `dtype` and `names` (bookkeeping entries of a model) touch no series *)
  Lemma add_attribute_dtype_meta value s :
    let s' := fst (add_attribute "dtype" value s) in
    span s' = span s /\ index s' = index s /\ vars s' = vars s /\ kind s' = kind s /\ names s' = names s.
  Proof.
    unfold Container.add_attribute.
    destruct (mem "dtype" (index s)); [simpl; auto 6|].
    destruct (reg_mem "dtype" (registry s)); [simpl; auto 6|].
    unfold Container.obj_setattr, Container.book_setattr.
    destruct (kind s) eqn:K; cbn [bookkeeping String.eqb Ascii.eqb Bool.eqb underscored orb]; rewrite ?K;
      try (destruct (as_dreq value)); simpl; auto 6.
  Qed.

  Lemma add_attribute_names_meta value s :
    let s' := fst (add_attribute "names" value s) in
    span s' = span s /\ index s' = index s /\ vars s' = vars s /\ kind s' = kind s.
  Proof.
    unfold Container.add_attribute.
    destruct (mem "names" (index s)); [simpl; auto|].
    destruct (reg_mem "names" (registry s)); [simpl; auto|].
    unfold Container.obj_setattr, Container.book_setattr.
    destruct (kind s) eqn:K; cbn [bookkeeping String.eqb Ascii.eqb Bool.eqb underscored orb]; rewrite ?K;
      try (destruct (as_str_list value)); simpl; auto.
  Qed.

  (* a successfully constructed BaseModel / BaseLinker satisfies the invariant *)
  Theorem inv_init_model k sp st d default NAMES ivs s u :
    k <> CVC ->
    init_model k sp st d default NAMES ivs = (s, Ret u) -> Inv s.
  Proof.
    intros KN H. unfold Container.init_model in H.
    apply bind_ret in H as (s1 & u1 & H1 & H).
    apply bind_ret in H as (s2 & u2 & H2 & H).
    apply bind_ret in H as (s3 & u3 & H3 & H).
    destruct (negb (dup_free NAMES)); [inversion H|].
    match type of H with context [if ?c then _ else _] => destruct c end; [inversion H|].
    apply bind_ret in H as (s4 & u4 & H4 & H).
    apply bind_ret in H as (s5 & u5 & H5 & H).
    apply bind_ret in H as (s6 & u6 & H6 & H).
    apply bind_ret in H as (s7 & u7 & H7 & H).
    apply bind_ret in H as (s8 & u8 & H8 & H).
    apply bind_ret in H as (s9 & u9 & H9 & H).
    set (s0 := mkState sp [] [] core_registry [] st k [] None) in *.
    assert (I0 : InvV s0) by (repeat split; simpl; [constructor | intros x [] | intros x v E; discriminate]).
    assert (G1 : good s0 s1).
    { pose proof (add_attribute_dtype_meta (dreq_operand d) s0) as M. rewrite H1 in M. simpl fst in M.
      destruct M as (M1 & M2 & M3 & M4 & M5). apply gs_meta; assumption. }
    set (s1' := mkState (span s1) (index s1) (vars s1) (registry s1) (adict s1) (strict s1) (kind s1) (names s1) (Some d)) in *.
    assert (G1' : good s1 s1') by (apply gs_meta; reflexivity).
    pose proof (good_of (base_add_variable "status" (OScalar (PStr "-")) None) _ _ _ (base_add_variable_good _ _ _) H2) as G2.
    pose proof (good_of (base_add_variable "iterations" (OScalar (PInt (-1))) None) _ _ _ (base_add_variable_good _ _ _) H3) as G3.
    assert (I4 : InvV (set_names s4 NAMES)).
    { apply invV_set_names.
      assert (I3 : InvV s3).
      { eapply good_invV; [|exact I0]. eapply gs_trans; [exact G1|]. eapply gs_trans; [exact G1'|]. eapply gs_trans; [exact G2|exact G3]. }
      pose proof (add_attribute_names_meta (OSeq KList (map (fun x => OScalar (PStr x)) NAMES)) s3) as M. rewrite H4 in M. simpl fst in M.
      destruct M as (M1 & M2 & M3 & M4). unfold InvV, n_of. rewrite M1, M2, M3. exact I3. }
    pose proof (good_of (init_vars NAMES ivs default d) _ _ _ (init_vars_good _ _ _ _) H5) as G5.
    assert (G6 : good s5 s6).
    { eapply (good_at (add_attribute "lags" (OScalar (PInt 0)))); [|exact H6]. apply add_attribute_good. destruct (kind s5); reflexivity. }
    assert (G7 : good s6 s7).
    { eapply (good_at (add_attribute "leads" (OScalar (PInt 0)))); [|exact H7]. apply add_attribute_good. destruct (kind s6); reflexivity. }
    assert (G8 : good s7 s8).
    { eapply (good_at (add_attribute "endogenous" (OSeq KList []))); [|exact H8]. apply add_attribute_good. destruct (kind s7); reflexivity. }
    assert (G9 : good s8 s9).
    { eapply (good_at (add_attribute "check" (OSeq KList []))); [|exact H9]. apply add_attribute_good. destruct (kind s8); reflexivity. }
    assert (G59 : good s5 s9) by (eapply gs_trans; [exact G6|]; eapply gs_trans; [exact G7|]; eapply gs_trans; [exact G8|exact G9]).
    assert (Gfin : good s9 s).
    { destruct k; [contradiction| |].
      - eapply (good_at (add_attribute "engine" (OScalar (PStr "python")))); [|exact H]. apply add_attribute_good. destruct (kind s9); reflexivity.
      - inversion H; subst. apply gs_refl. }
    assert (Gall : good (set_names s4 NAMES) s) by (eapply gs_trans; [exact G5|]; eapply gs_trans; [exact G59|exact Gfin]).
    split; [eapply good_invV; eassumption|].
    intros _. destruct (good_mono _ _ Gall) as [_ [_ [l [N L]]]]. simpl in N. rewrite N.
    apply incl_app; [|exact L].
    eapply incl_tran; [eapply init_vars_ret; exact H5|].
    apply (proj1 (good_mono _ _ (gs_trans _ _ _ G59 Gfin))).
  Qed.
  (* the same, stated on the constructor's result (convenient for closed instances) *)
  Theorem inv_init_model_fst k sp st d default NAMES ivs :
    k <> CVC ->
    snd (init_model k sp st d default NAMES ivs) = Ret tt -> Inv (fst (init_model k sp st d default NAMES ivs)).
  Proof.
    intros KN H. destruct (init_model k sp st d default NAMES ivs) as [s o] eqn:E. simpl in H. subst o.
    simpl. eapply inv_init_model; [exact KN | exact E].
  Qed.
End Facts.

(* ================================================================== what the read-only hooks return *)
Theorem completions_are_the_variables s : snd (read QCompletions s) = Ret (VNames (index s)).
Proof. reflexivity. Qed.

Theorem contains_spec n s : snd (read (QContains n) s) = Ret (VBool true) <-> In n (row_names s).
Proof.
  simpl. split.
  - intros H. inversion H as [H1]. apply mem_In. exact H1.
  - intros H. apply mem_In in H. rewrite H. reflexivity.
Qed.

Theorem dir_lists_variables_and_attributes s x :
  (exists l, snd (read QDir s) = Ret (VNames l) /\ (In x l <-> In x (index s) \/ reg_mem x (registry s) = true)).
Proof.
  eexists. split; [reflexivity|]. rewrite in_app_iff. split; (intros [H|H]; [left; exact H|right]).
  - unfold reg_names in H. apply in_map_iff in H as [[y] [<- Hy]]. unfold reg_mem. apply existsb_exists.
    exists (RName y). split; [exact Hy|apply String.eqb_refl].
  - unfold reg_mem in H. apply existsb_exists in H as [[y] [Hy E]]. apply String.eqb_eq in E. subst.
    unfold reg_names. apply in_map_iff. exists (RName y). split; [reflexivity|exact Hy].
Qed.

(* obj.nbytes never raises on an object satisfying the invariant and is the sum, over the variables, of one item per period *)
Theorem nbytes_spec s :
  InvV s ->
  snd (read QNbytes s) =
  Ret (VNat (fold_right (fun x acc => match dtype_of s x with Some d => n_of s * itemsize d + acc | None => acc end) 0 (index s))).
Proof.
  intros [_ [HI HV]]. simpl.
  assert (G : forall l, incl l (index s) ->
    fold_right (fun x acc => match acc with
                             | Raise e => Raise e
                             | Ret a => match assoc x (vars s) with
                                        | Some v => if mem x (index s) then Ret (prod_shape (vshape v) * itemsize (vdtype v) + a) else Raise KeyError
                                        | None => Raise KeyError
                                        end
                             end) (Ret 0) l =
    Ret (fold_right (fun x acc => match dtype_of s x with Some d => n_of s * itemsize d + acc | None => acc end) 0 l)).
  { induction l as [|x l IH]; intros Hl; [reflexivity|].
    simpl. rewrite IH by (intros y Hy; apply Hl; right; exact Hy).
    assert (Hx : In x (index s)) by (apply Hl; left; reflexivity).
    unfold dtype_of. destruct (assoc x (vars s)) as [v|] eqn:A; [|exfalso; exact (HI x Hx A)].
    rewrite (proj2 (mem_In _ _) Hx), (HV _ _ A). unfold prod_shape. simpl. rewrite Nat.mul_1_r. reflexivity. }
  unfold nbytes_of. rewrite (G (index s) (incl_refl _)). reflexivity.
Qed.

(* declaration order: the index (and `names`) only ever grow at the END - nothing is removed, nothing reordered *)
Lemma good_prefix s s' : good s s' -> (exists l, index s' = index s ++ l) /\ (exists l, names s' = names s ++ l).
Proof.
  induction 1 as [s|s s' Hs Hi Hv Hk Hn|s name v0 v' HA HD HS|s name v HN HS|s x Hx|s1 s2 s3 G1 IH1 G2 IH2].
  - split; exists []; rewrite app_nil_r; reflexivity.
  - split; exists []; rewrite app_nil_r; assumption.
  - split; exists []; rewrite app_nil_r; reflexivity.
  - split; [exists [name]; reflexivity|exists []; rewrite app_nil_r; reflexivity].
  - split; [exists []; rewrite app_nil_r; reflexivity|exists [x]; reflexivity].
  - destruct IH1 as [[l1 E1] [m1 F1]]. destruct IH2 as [[l2 E2] [m2 F2]].
    split; [exists (l1 ++ l2); rewrite E2, E1, app_assoc; reflexivity|exists (m1 ++ m2); rewrite F2, F1, app_assoc; reflexivity].
Qed.

Section Order.
  Variable pycast : dtype -> pyval -> outcome pyval.
  Variable arrcast : dtype -> dtype -> pyval -> outcome pyval.
  Variable infer : list pyval -> dtype.
  Variable astype_dt : dtype -> list pyval -> dreq -> dtype.
  Variable itemseq_exn : dtype -> exn.
  Notation run := (run pycast arrcast infer astype_dt itemseq_exn).
  Notation add_variable := (add_variable pycast arrcast infer astype_dt).

  Theorem declaration_order_kept ops s :
    Forall (in_scope (kind s)) ops ->
    (exists l, index (run ops s) = index s ++ l) /\ (exists l, names (run ops s) = names s ++ l).
  Proof. intros SC. apply good_prefix. apply run_good. exact SC. Qed.

  (* an accepted add_variable puts the new name LAST (in `index`, and in `names` for models) *)
  Theorem add_variable_appends name value dt s s' u :
    add_variable name value dt s = (s', Ret u) ->
    index s' = index s ++ [name] /\ names s' = names s ++ (match kind s with CVC => [] | _ => [name] end).
  Proof.
    unfold Container.add_variable. intros H.
    destruct (kind s) eqn:K.
    - apply base_add_variable_ret in H as [BI [BN _]]. rewrite app_nil_r. split; assumption.
    - destruct (base_add_variable pycast arrcast infer astype_dt name value (match dt with None => dflt s | Some _ => dt end) s) as [s1 [u1|e]] eqn:B; [|inversion H].
      inversion H; subst. simpl. apply base_add_variable_ret in B as [BI [BN _]]. rewrite BI, BN. split; reflexivity.
    - destruct (base_add_variable pycast arrcast infer astype_dt name value (match dt with None => dflt s | Some _ => dt end) s) as [s1 [u1|e]] eqn:B; [|inversion H].
      inversion H; subst. simpl. apply base_add_variable_ret in B as [BI [BN _]]. rewrite BI, BN. split; reflexivity.
  Qed.
End Order.

(* ------------------------------------------------------------------ np.array(nested sequence) fails only with ValueError *)
Section OperandInd.
  Variable P : operand -> Prop.
  Hypothesis Hs : forall v, P (OScalar v).
  Hypothesis Hq : forall k items, Forall P items -> P (OSeq k items).
  Hypothesis Hr : forall a b c, P (ORange a b c).
  Hypothesis Ha : forall sh dt cells, P (OArr sh dt cells).
  Fixpoint operand_ind' (o : operand) : P o :=
    match o with
    | OScalar v => Hs v
    | OSeq k items => Hq k items ((fix go (l : list operand) : Forall P l :=
                                     match l with [] => Forall_nil P | x :: r => Forall_cons x (operand_ind' x) (go r) end) items)
    | ORange a b c => Hr a b c
    | OArr sh dt cells => Ha sh dt cells
    end.
End OperandInd.

Lemma stack_err xs e : stack xs = Raise e -> e = ValueError.
Proof.
  unfold stack. destruct xs as [|[sh0 c0] r]; [discriminate|].
  destruct (all_eq_shape sh0 ((sh0, c0) :: r)); intros H; inversion H; reflexivity.
Qed.

Definition go_list (its : list operand) : outcome (list (list nat * list pyval)) :=
  (fix go (its : list operand) : outcome (list (list nat * list pyval)) :=
     match its with
     | [] => Ret []
     | i :: r => match as_array i with
                 | Raise e => Raise e
                 | Ret x => match go r with Raise e => Raise e | Ret xs => Ret (x :: xs) end
                 end
     end) its.

Lemma as_array_seq k items :
  as_array (OSeq k items) = match go_list items with Raise e => Raise e | Ret xs => stack xs end.
Proof. reflexivity. Qed.

Lemma go_list_cons i r :
  go_list (i :: r) = match as_array i with
                     | Raise e => Raise e
                     | Ret x => match go_list r with Raise e => Raise e | Ret xs => Ret (x :: xs) end
                     end.
Proof. reflexivity. Qed.

Lemma go_list_err items :
  Forall (fun o => forall e, as_array o = Raise e -> e = ValueError) items ->
  forall e, go_list items = Raise e -> e = ValueError.
Proof.
  induction 1 as [|x r Hx Hr IHr]; intros e G; [discriminate|].
  rewrite go_list_cons in G. destruct (as_array x) as [y|e1] eqn:A.
  - destruct (go_list r) as [ys|e2] eqn:G2; [discriminate|]. inversion G; subst. apply IHr. reflexivity.
  - inversion G; subst. apply Hx. reflexivity.
Qed.

Lemma as_array_err o : forall e, as_array o = Raise e -> e = ValueError.
Proof.
  induction o as [v|k items IH|a b c|sh dt cells] using operand_ind'; intros e H; try discriminate.
  rewrite as_array_seq in H. destruct (go_list items) as [xs|e0] eqn:G.
  - eapply stack_err. exact H.
  - inversion H; subst e0. eapply go_list_err; eassumption.
Qed.

(* ================================================================== the totalisation defaults are unreachable *)
(* `OtherError` marks behaviour outside the model.  Under the invariant it is produced by no operation, except the item
   assignment obj[name, ...] = v addressed at a name that is NOT a variable (the guard class of the kept finding
   unknown_name_accepted_refuted) - so no theorem above holds by virtue of a default branch. *)
Section NoOther.
  Variable pycast : dtype -> pyval -> outcome pyval.
  Variable arrcast : dtype -> dtype -> pyval -> outcome pyval.
  Variable infer : list pyval -> dtype.
  Variable astype_dt : dtype -> list pyval -> dreq -> dtype.
  Variable itemseq_exn : dtype -> exn.
  Hypothesis HP : forall d c, pycast d c <> Raise OtherError.
  Hypothesis HA : forall src d c, arrcast src d c <> Raise OtherError.
  Hypothesis HI : forall d, itemseq_exn d <> OtherError.

  Notation assign_inplace := (assign_inplace pycast arrcast).
  Notation assign_item := (assign_item pycast arrcast itemseq_exn).
  Notation setattr_var := (setattr_var pycast arrcast).
  Notation set_rows_arr := (set_rows_arr pycast arrcast).
  Notation set_rows_full := (set_rows_full pycast arrcast infer).
  Notation values_setter := (values_setter pycast arrcast infer).
  Notation obj_setattr := (obj_setattr pycast arrcast infer).
  Notation add_attribute := (add_attribute pycast arrcast infer).
  Notation setattr := (setattr pycast arrcast infer).
  Notation setitem := (setitem pycast arrcast infer itemseq_exn).
  Notation replace_values := (replace_values pycast arrcast infer itemseq_exn).
  Notation base_add_variable := (base_add_variable pycast arrcast infer astype_dt).
  Notation add_variable := (add_variable pycast arrcast infer astype_dt).
  Notation step := (step pycast arrcast infer astype_dt itemseq_exn).
  Notation natural := (natural pycast infer).

  Lemma cast_all_no_other f cs : (forall c, f c <> Raise OtherError) -> cast_all f cs <> Raise OtherError.
  Proof.
    intros Hf. induction cs as [|c cs IH]; simpl; [discriminate|].
    destruct (f c) as [c'|e] eqn:E; [|intros C; inversion C; subst; exact (Hf c E)].
    destruct (cast_all f cs) as [r|e]; [discriminate|]. intros C. inversion C; subst. apply IH. reflexivity.
  Qed.

  Lemma write_cells_no_other f : (forall c, f c <> Raise OtherError) ->
    forall ps cs d, snd (write_cells f ps cs d) <> Some OtherError.
  Proof.
    intros Hf. induction ps as [|p ps IH]; intros cs d; simpl; [discriminate|].
    destruct cs as [|c cs]; [discriminate|].
    destruct (f c) as [c'|e] eqn:E; [apply IH|]. simpl. intros C. inversion C; subst. exact (Hf c E).
  Qed.

  Lemma as_array_no_other o : as_array o <> Raise OtherError.
  Proof. intros C. apply as_array_err in C. discriminate. Qed.

  Lemma truthy_no_other o : truthy o <> Raise OtherError.
  Proof. destruct o as [v|k items|a b c|sh dt cells]; simpl; try discriminate. destruct cells as [|c [|c2 r]]; discriminate. Qed.

  Lemma commit_no_other v r : snd r <> Some OtherError -> snd (commit v r) <> Some OtherError.
  Proof. unfold Container.commit. destruct (snd r) as [e|]; simpl; [intros H; exact H|discriminate]. Qed.

  Lemma assign_inplace_no_other v ps value : snd (assign_inplace v ps value) <> Some OtherError.
  Proof.
    unfold Container.assign_inplace.
    assert (SEQ : forall r : outcome (list nat * list pyval), r <> Raise OtherError ->
      snd (match r with
           | Raise e => (v, Some e)
           | Ret (sh, cells) =>
               if (if list_eq_dec Nat.eq_dec sh [length ps] then true else false)
               then commit v (write_cells (pycast (vdtype v)) ps cells (vdata v))
               else if negb (Nat.eqb (length sh) 1) then (v, Some ValueError)
               else match cast_all (pycast (vdtype v)) cells with
                    | Raise e => (v, Some e)
                    | Ret cells' => match bcast_seq (length ps) sh cells' with
                                    | None => (v, Some ValueError)
                                    | Some cs => (with_data v (fst (write_cells (fun x => Ret x) ps cs (vdata v))), None)
                                    end
                    end
           end) <> Some OtherError).
    { intros r Hr. destruct r as [[sh cells]|e]; [|simpl; intros C; inversion C; subst; apply Hr; reflexivity].
      destruct (list_eq_dec Nat.eq_dec sh [length ps]) as [Esh|Nsh].
      - apply commit_no_other. apply (write_cells_no_other (pycast (vdtype v)) (HP (vdtype v))).
      - destruct (negb (Nat.eqb (length sh) 1)); [simpl; discriminate|].
        pose proof (cast_all_no_other (pycast (vdtype v)) cells (HP (vdtype v))) as Cc.
        destruct (cast_all (pycast (vdtype v)) cells) as [cells'|e]; [|simpl; intros C; inversion C; subst; apply Cc; reflexivity].
        destruct (bcast_seq (length ps) sh cells'); simpl; discriminate. }
    destruct value as [c|k items|a b c|sh dt cells].
    - destruct (pycast (vdtype v) c) as [c'|e] eqn:E; simpl; [discriminate|]. intros C. inversion C; subst. exact (HP _ _ E).
    - apply SEQ. apply as_array_no_other.
    - apply SEQ. apply as_array_no_other.
    - destruct (bcast_arr (length ps) sh cells) as [cs|]; [|simpl; discriminate].
      apply commit_no_other. apply (write_cells_no_other (arrcast dt (vdtype v)) (HA dt (vdtype v))).
  Qed.

  Lemma assign_item_no_other v p value : snd (assign_item v p value) <> Some OtherError.
  Proof.
    unfold Container.assign_item.
    destruct value as [c|k items|a b c|sh dt cells].
    - destruct (pycast (vdtype v) c) as [c'|e] eqn:E; simpl; [discriminate|]. intros C. inversion C; subst. exact (HP _ _ E).
    - destruct (vdtype v) eqn:D; simpl; intros C; inversion C as [C']; exact (HI _ C').
    - destruct (vdtype v) eqn:D; simpl; intros C; inversion C as [C']; exact (HI _ C').
    - assert (DEF : snd (match vdtype v with
                         | DBool => match truthy (OArr sh dt cells) with
                                    | Ret b => (with_data v (upd p (PBool b) (vdata v)), None)
                                    | Raise e => (v, Some e)
                                    end
                         | _ => (v, Some ValueError)
                         end) <> Some OtherError).
      { destruct (vdtype v); try (simpl; discriminate).
        pose proof (truthy_no_other (OArr sh dt cells)) as T. destruct (truthy (OArr sh dt cells)); simpl; [discriminate|].
        intros C. inversion C; subst. apply T. reflexivity. }
      destruct sh as [|d0 sh']; [|exact DEF].
      destruct cells as [|c [|c2 r]]; try exact DEF.
      destruct (arrcast dt (vdtype v) c) as [c'|e] eqn:E; simpl; [discriminate|]. intros C. inversion C; subst. exact (HA _ _ _ E).
  Qed.

  Lemma setattr_var_no_other name value s : InvV s -> snd (setattr_var name value s) <> Raise OtherError.
  Proof.
    intros [_ [_ HV]]. unfold Container.setattr_var.
    destruct (assoc name (vars s)) as [v|] eqn:A; [|simpl; discriminate].
    destruct (is_sequence value).
    - pose proof (as_array_no_other value) as AA.
      destruct (as_array value) as [[sh cells]|e]; [|simpl; intros C; inversion C; subst; apply AA; reflexivity].
      pose proof (cast_all_no_other (pycast (vdtype v)) cells (HP (vdtype v))) as Cc.
      destruct (cast_all (pycast (vdtype v)) cells) as [cells'|e]; [|simpl; intros C; inversion C; subst; apply Cc; reflexivity].
      destruct (negb (Nat.eqb (length sh) 1) || negb (Nat.eqb (hd 0 sh) (n_of s)))%bool; simpl; discriminate.
    - rewrite (HV _ _ A).
      pose proof (assign_inplace_no_other v (seq 0 (n_of s)) value) as AI.
      destruct (assign_inplace v (seq 0 (n_of s)) value) as [v' [e|]]; simpl in *; [|discriminate].
      intros C. inversion C; subst. apply AI. reflexivity.
  Qed.

  Lemma bind_no_other (f g : state -> res) (P : state -> Prop) s :
    P s -> (forall s0, P s0 -> snd (f s0) <> Raise OtherError /\ P (fst (f s0))) ->
    (forall s0, P s0 -> snd (g s0) <> Raise OtherError) ->
    snd (match f s with (s', Ret _) => g s' | (s', Raise e) => (s', Raise e) end) <> Raise OtherError.
  Proof.
    intros Ps F G. destruct (F s Ps) as [F1 F2]. destruct (f s) as [s' [u|e]]; simpl in *; [apply G; exact F2|exact F1].
  Qed.

  Lemma setattr_var_invV name value s : InvV s -> InvV (fst (setattr_var name value s)).
  Proof. apply good_invV. apply setattr_var_good. Qed.

  Lemma set_rows_arr_no_other src nms : forall rws s, InvV s -> snd (set_rows_arr src nms rws s) <> Raise OtherError.
  Proof.
    induction nms as [|x nms IH]; intros rws s I; simpl; [discriminate|].
    destruct rws as [|r rr]; [simpl; discriminate|].
    destruct (assoc x (vars s)) as [v|]; [|simpl; discriminate].
    pose proof (cast_all_no_other (arrcast src (vdtype v)) r (HA src (vdtype v))) as Cc.
    destruct (cast_all (arrcast src (vdtype v)) r) as [r'|e]; [|simpl; intros C; inversion C; subst; apply Cc; reflexivity].
    pose proof (setattr_var_no_other x (OArr [length r'] (vdtype v) r') s I) as S1.
    pose proof (setattr_var_invV x (OArr [length r'] (vdtype v) r') s I) as S2.
    destruct (setattr_var x (OArr [length r'] (vdtype v) r') s) as [s' [u|e]]; simpl in *; [apply IH; exact S2|exact S1].
  Qed.

  Lemma natural_no_other value : natural value <> Raise OtherError.
  Proof.
    unfold Container.natural. pose proof (as_array_no_other value) as AA.
    destruct (as_array value) as [[sh cells]|e]; [|intros C; inversion C; subst; apply AA; reflexivity].
    destruct value; try discriminate;
      (pose proof (cast_all_no_other (pycast (infer cells)) cells (HP (infer cells))) as Cc;
       destruct (cast_all (pycast (infer cells)) cells); [discriminate|intros C; inversion C; subst; apply Cc; reflexivity]).
  Qed.

  Lemma set_rows_full_no_other value nms : forall s, InvV s -> snd (set_rows_full nms value s) <> Raise OtherError.
  Proof.
    induction nms as [|x nms IH]; intros s I; simpl; [discriminate|].
    destruct (assoc x (vars s)) as [v|]; [|simpl; discriminate].
    pose proof (natural_no_other value) as NN.
    destruct (natural value) as [[[src sh] cells]|e]; [|simpl; intros C; inversion C; subst; apply NN; reflexivity].
    destruct (bcast_arr (prod_shape (vshape v)) sh cells) as [cs|]; [|simpl; discriminate].
    pose proof (cast_all_no_other (arrcast src (vdtype v)) cs (HA src (vdtype v))) as Cc.
    destruct (cast_all (arrcast src (vdtype v)) cs) as [cs'|e]; [|simpl; intros C; inversion C; subst; apply Cc; reflexivity].
    pose proof (setattr_var_no_other x (OArr (vshape v) (vdtype v) cs') s I) as S1.
    pose proof (setattr_var_invV x (OArr (vshape v) (vdtype v) cs') s I) as S2.
    destruct (setattr_var x (OArr (vshape v) (vdtype v) cs') s) as [s' [u|e]]; simpl in *; [apply IH; exact S2|exact S1].
  Qed.

  Lemma values_setter_no_other value s : Inv s -> snd (values_setter value s) <> Raise OtherError.
  Proof.
    intros I. pose proof (proj1 I) as IV. unfold Container.values_setter.
    destruct value as [c|k items|a b c|sh dt cells]; try (apply set_rows_full_no_other; exact IV).
    destruct (values_stack s I) as [VS _]. rewrite VS.
    destruct (list_eq_dec Nat.eq_dec sh _) as [E|N]; [|simpl; discriminate].
    subst sh. destruct (row_names s) as [|x r]; [simpl; discriminate|].
    apply set_rows_arr_no_other. exact IV.
  Qed.

  Lemma obj_setattr_no_other name value s :
    bookkeeping (kind s) name = false -> Inv s -> snd (obj_setattr name value s) <> Raise OtherError.
  Proof.
    intros B I. unfold Container.obj_setattr. rewrite B.
    destruct (String.eqb name "strict").
    - pose proof (truthy_no_other value) as T. destruct (truthy value); simpl; [discriminate|]. intros C. inversion C; subst. apply T. reflexivity.
    - destruct (String.eqb name "values"); [apply values_setter_no_other; exact I|].
      destruct (String.eqb name "size" || String.eqb name "nbytes")%bool; [simpl; discriminate|].
      match goal with |- context [if ?c then _ else _] => destruct c end; simpl; discriminate.
  Qed.

  Lemma add_attribute_no_other name value s :
    bookkeeping (kind s) name = false -> Inv s -> snd (add_attribute name value s) <> Raise OtherError.
  Proof.
    intros B I. unfold Container.add_attribute.
    destruct (mem name (index s)); [simpl; discriminate|].
    destruct (reg_mem name (registry s)); [simpl; discriminate|].
    pose proof (obj_setattr_no_other name value s B I) as O.
    destruct (obj_setattr name value s) as [s' [u|e]]; simpl in *; [discriminate|exact O].
  Qed.

  Lemma setattr_no_other name value hint s :
    bookkeeping (kind s) name = false \/ mem name (index s) = true -> Inv s -> snd (setattr name value hint s) <> Raise OtherError.
  Proof.
    intros B I. unfold Container.setattr.
    match goal with |- context [if ?c then _ else _] => destruct c end.
    - destruct (alternatives hint (row_names s)) as [|a [|b r]]; simpl; discriminate.
    - destruct (mem name (index s)) eqn:M; cbn [negb].
      + apply setattr_var_no_other. exact (proj1 I).
      + destruct B as [B|B]; [|discriminate B].
        destruct (reg_mem name (registry s)); [apply obj_setattr_no_other | apply add_attribute_no_other]; assumption.
  Qed.

  Lemma replace_values_no_other kvs : forall s, Inv s -> snd (replace_values kvs s) <> Raise OtherError.
  Proof.
    induction kvs as [|[k v] kvs IH]; intros s I; [simpl; discriminate|].
    change (replace_values ((k, v) :: kvs) s) with
      (match setitem (KName k) v s with (s1, Ret _) => replace_values kvs s1 | (s1, Raise e1) => (s1, Raise e1) end).
    assert (S1 : snd (setitem (KName k) v s) <> Raise OtherError).
    { unfold Container.setitem. destruct (mem k (index s)) eqn:Mk; cbn [negb]; [|simpl; discriminate].
      apply setattr_no_other; [right; exact Mk|exact I]. }
    pose proof (step_preserves_inv pycast arrcast infer astype_dt itemseq_exn (SetItem (KName k) v) s Logic.I I) as S2.
    change (Inv (fst (setitem (KName k) v s))) in S2.
    destruct (setitem (KName k) v s) as [s' [u|e]]; simpl in *; [apply IH; exact S2|exact S1].
  Qed.

  (* fix cf99a8a: a dtype that adds a dimension (sub-array dtypes such as '2f8') never creates a variable: the call raises and the
     object is exactly what it was; DimensionError whenever the name is free and the operand converts *)
  Theorem subarray_dtype_rejected name value r s :
    adds_dim r = true -> exists e, base_add_variable name value (Some r) s = (s, Raise e).
  Proof.
    intros A. unfold Container.base_add_variable.
    destruct (mem name (index s)); [eexists; reflexivity|].
    destruct (storage_taken name s); [eexists; reflexivity|].
    match goal with |- context [match ?x with Ret _ => _ | Raise _ => _ end] => destruct x as [[[d0 m0] cells0]|e] end; [|eexists; reflexivity].
    destruct (cast_all (arrcast d0 (astype_dt d0 cells0 r)) cells0) as [cs|e]; [|eexists; reflexivity].
    rewrite A. eexists; reflexivity.
  Qed.

  Theorem add_variable_subarray_rejected name value dt s :
    match dt with Some r => adds_dim r = true | None => kind s <> CVC /\ exists r, dflt s = Some r /\ adds_dim r = true end ->
    exists e, add_variable name value dt s = (s, Raise e).
  Proof.
    unfold Container.add_variable. destruct dt as [r|].
    - intros A. destruct (subarray_dtype_rejected name value r s A) as [e E].
      destruct (kind s); rewrite E; eexists; reflexivity.
    - intros [K [r [Dd A]]]. destruct (subarray_dtype_rejected name value r s A) as [e E].
      destruct (kind s); [contradiction| |]; rewrite Dd, E; eexists; reflexivity.
  Qed.

  Lemma base_add_variable_no_other name value dt s : snd (base_add_variable name value dt s) <> Raise OtherError.
  Proof.
    unfold Container.base_add_variable.
    destruct (mem name (index s)); [simpl; discriminate|].
    destruct (storage_taken name s); [simpl; discriminate|].
    pose proof (natural_no_other value) as NN.
    assert (FIRST : (if is_sequence value
                     then match natural value with
                          | Raise e => Raise e
                          | Ret (d, sh, cells) => Ret (d, prod_shape sh, cells)
                          end
                     else match natural value with
                          | Raise e => Raise e
                          | Ret (d, sh, cells) => match bcast_arr (n_of s) sh cells with
                                                  | None => Raise ValueError
                                                  | Some cs => Ret (d, n_of s, cs)
                                                  end
                          end) <> Raise OtherError).
    { destruct (is_sequence value); destruct (natural value) as [[[d sh] cells]|e]; try discriminate;
        try (intros C; inversion C; subst; apply NN; reflexivity).
      destruct (bcast_arr (n_of s) sh cells); discriminate. }
    match goal with |- context [match ?x with Ret _ => _ | Raise _ => _ end] => destruct x as [[[d0 m0] cells0]|e] end;
      [|simpl; intros C; inversion C; subst; apply FIRST; reflexivity].
    destruct dt as [r|].
    - pose proof (cast_all_no_other (arrcast d0 (astype_dt d0 cells0 r)) cells0 (HA d0 _)) as Cc.
      destruct (cast_all (arrcast d0 (astype_dt d0 cells0 r)) cells0) as [cs|e]; [|simpl; intros C; inversion C; subst; apply Cc; reflexivity].
      destruct (adds_dim r); [simpl; discriminate|].
      destruct (negb (Nat.eqb m0 (n_of s))); simpl; discriminate.
    - destruct (negb (Nat.eqb m0 (n_of s))); simpl; discriminate.
  Qed.

  Lemma add_variable_no_other name value dt s : snd (add_variable name value dt s) <> Raise OtherError.
  Proof.
    unfold Container.add_variable.
    destruct (kind s); [apply base_add_variable_no_other| |];
      (pose proof (base_add_variable_no_other name value (match dt with None => dflt s | Some _ => dt end) s) as B;
       destruct (base_add_variable name value (match dt with None => dflt s | Some _ => dt end) s) as [s' [u|e]]; simpl in *; [discriminate|exact B]).
  Qed.

  (* no operation leaves the model *)
  Theorem no_other_error o s : in_scope (kind s) o -> Inv s -> snd (step o s) <> Raise OtherError.
  Proof.
    intros SC I H. destruct o as [name v dt|name v hint|k v|kvs|name v|q]; simpl in H, SC.
    - exact (add_variable_no_other name v dt s H).
    - exact (setattr_no_other name v hint s (or_introl SC) I H).
    - destruct k as [name|name l|name a b st| |]; try (simpl in H; discriminate H).
      + unfold Container.setitem in H. destruct (mem name (index s)) eqn:Mn; cbn [negb] in H; [|discriminate H].
        exact (setattr_no_other name v None s (or_intror Mn) I H).
      + unfold Container.setitem in H. destruct (negb (mem name (index s))); [discriminate H|].
        destruct (locate (span s) l) as [p|e] eqn:L; [|simpl in H; inversion H; subst; apply locate_err in L; discriminate L].
        destruct (assoc name (vars s)) as [x|] eqn:A; [|discriminate H].
        pose proof (assign_item_no_other x p v) as AI.
        destruct (Container.assign_item pycast arrcast itemseq_exn x p v) as [x' [e|]]; simpl in *; [|discriminate H].
        inversion H; subst. apply AI. reflexivity.
      + unfold Container.setitem in H. destruct (negb (mem name (index s))); [discriminate H|].
        destruct (resolve_slice (span s) a b st) as [[[sl el] stp]|e] eqn:R;
          [|simpl in H; inversion H; subst; apply resolve_slice_err in R; destruct R; discriminate].
        destruct (assoc name (vars s)) as [x|] eqn:A; [|discriminate H].
        rewrite (proj2 (proj2 (proj1 I)) _ _ A) in H.
        destruct (slice_positions (n_of s) sl el stp) as [ps|]; [|simpl in H; discriminate H].
        pose proof (assign_inplace_no_other x ps v) as AI.
        destruct (Container.assign_inplace pycast arrcast x ps v) as [x' [e|]]; simpl in *; [|discriminate H].
        inversion H; subst. apply AI. reflexivity.
    - exact (replace_values_no_other kvs s I H).
    - exact (add_attribute_no_other name v s SC I H).
    - discriminate H.
  Qed.
End NoOther.

(* ================================================================== one CELL per period *)
(* In the model a series carries its shape and its cells separately; InvD ties them: every stored series holds exactly
   len(span) cells.  It is preserved by every operation whose ndarray operands are themselves consistent (as many cells as
   their shape says - true of every real ndarray). *)
Definition InvD (s : state) : Prop := forall x v, assoc x (vars s) = Some v -> length (vdata v) = n_of s.

Lemma invD_unfolded s : InvD s <-> (forall x v, assoc x (vars s) = Some v -> length (vdata v) = length (span s)).
Proof. split; intros H; exact H. Qed.

Fixpoint wf_operand (o : operand) : Prop :=
  match o with
  | OArr sh _ cells => length cells = prod_shape sh
  | OSeq _ items => (fix go (l : list operand) : Prop := match l with [] => True | x :: r => wf_operand x /\ go r end) items
  | _ => True
  end.

Definition wf_items (l : list operand) : Prop :=
  (fix go (l : list operand) : Prop := match l with [] => True | x :: r => wf_operand x /\ go r end) l.

Lemma wf_seq k items : wf_operand (OSeq k items) = wf_items items.
Proof. reflexivity. Qed.

Lemma wf_items_forall l : wf_items l -> Forall wf_operand l.
Proof. induction l as [|x r IH]; intros H; constructor; [exact (proj1 H)|apply IH; exact (proj2 H)]. Qed.

Definition wf_key_op (o : op) : Prop :=
  match o with
  | AddVariable _ v _ | SetAttr _ v _ | SetItem _ v | AddAttribute _ v => wf_operand v
  | ReplaceValues kvs => Forall (fun kv => wf_operand (snd kv)) kvs
  | Query _ => True
  end.

Definition consistent (x : list nat * list pyval) : Prop := length (snd x) = prod_shape (fst x).

Lemma concat_same_shape sh0 xs :
  Forall consistent xs -> all_eq_shape sh0 xs = true -> length (List.concat (map snd xs)) = length xs * prod_shape sh0.
Proof.
  induction xs as [|[sh c] xs IH]; intros F A; [reflexivity|].
  inversion F as [|? ? Hc Fr]; subst. unfold all_eq_shape in A. simpl in A.
  destruct (list_eq_dec Nat.eq_dec sh sh0) as [->|]; [|discriminate]. simpl in A.
  simpl. rewrite app_length, (IH Fr A). unfold consistent in Hc. simpl in Hc. rewrite Hc. reflexivity.
Qed.

Lemma stack_consistent xs r : Forall consistent xs -> stack xs = Ret r -> consistent r.
Proof.
  unfold stack. destruct xs as [|[sh0 c0] rest]; intros F H.
  - inversion H; subst. reflexivity.
  - destruct (all_eq_shape sh0 ((sh0, c0) :: rest)) eqn:A; inversion H; subst.
    unfold consistent. cbn [fst snd].
    change (c0 ++ List.concat (map snd rest)) with (List.concat (map snd ((sh0, c0) :: rest))).
    rewrite (concat_same_shape sh0 _ F A). reflexivity.
Qed.

Lemma go_list_consistent items : Forall (fun o => forall r, as_array o = Ret r -> consistent r) items ->
  forall xs, go_list items = Ret xs -> Forall consistent xs.
Proof.
  induction 1 as [|x r Hx Hr IHr]; intros xs G.
  - inversion G; subst. constructor.
  - rewrite go_list_cons in G. destruct (as_array x) as [y|e] eqn:A; [|discriminate].
    destruct (go_list r) as [ys|e] eqn:G2; [|discriminate]. inversion G; subst.
    constructor; [apply Hx; reflexivity|apply IHr; reflexivity].
Qed.

Lemma as_array_consistent o : wf_operand o -> forall r, as_array o = Ret r -> consistent r.
Proof.
  induction o as [v|k items IH|a b c|sh dt cells] using operand_ind'; intros W r H.
  - inversion H; subst. reflexivity.
  - rewrite as_array_seq in H. destruct (go_list items) as [xs|e] eqn:G; [|discriminate].
    apply (stack_consistent xs r); [|exact H].
    apply (go_list_consistent items); [|exact G].
    rewrite wf_seq in W. apply wf_items_forall in W.
    clear - IH W. induction IH as [|x r Hx Hr IHr]; constructor.
    + inversion W; subst. intros r0 A. apply Hx; assumption.
    + inversion W; subst. apply IHr. assumption.
  - simpl in H. inversion H; subst. unfold consistent. simpl. rewrite map_length. lia.
  - simpl in H. inversion H; subst. exact W.
Qed.

Lemma cast_all_length f cs cs' : cast_all f cs = Ret cs' -> length cs' = length cs.
Proof.
  revert cs'. induction cs as [|c cs IH]; intros cs' H; simpl in H; [inversion H; reflexivity|].
  destruct (f c); [|discriminate]. destruct (cast_all f cs) as [r|]; [|discriminate].
  inversion H; subst. simpl. rewrite (IH r eq_refl). reflexivity.
Qed.

Lemma write_cells_length f ps : forall cs d, length (fst (write_cells f ps cs d)) = length d.
Proof.
  induction ps as [|p ps IH]; intros cs d; simpl; [reflexivity|].
  destruct cs as [|c cs]; [reflexivity|]. destruct (f c); [|reflexivity]. rewrite IH. apply upd_length.
Qed.

Lemma prod_strip1 sh : prod_shape (strip1 sh) = prod_shape sh.
Proof.
  induction sh as [|a r IH]; [reflexivity|].
  destruct a as [|[|a]]; [reflexivity| |reflexivity].
  destruct r as [|b r']; [reflexivity|].
  change (strip1 (1 :: b :: r')) with (strip1 (b :: r')). rewrite IH. unfold prod_shape. simpl. lia.
Qed.

Lemma bcast_arr_length k sh cells cs :
  length cells = prod_shape sh -> bcast_arr k sh cells = Some cs -> length cs = k.
Proof.
  intros L. unfold bcast_arr. rewrite <- prod_strip1 in L.
  destruct (strip1 sh) as [|d [|d2 r]]; try discriminate.
  - destruct cells as [|c [|c2 r]]; try discriminate. intros H. inversion H. apply repeat_length.
  - destruct (Nat.eqb d k) eqn:E.
    + apply Nat.eqb_eq in E. intros H. inversion H; subst. rewrite L. unfold prod_shape. simpl. lia.
    + destruct (Nat.eqb d 1); [|discriminate]. destruct cells as [|c [|c2 r]]; try discriminate.
      intros H. inversion H. apply repeat_length.
Qed.

Section DataLength.
  Variable pycast : dtype -> pyval -> outcome pyval.
  Variable arrcast : dtype -> dtype -> pyval -> outcome pyval.
  Variable infer : list pyval -> dtype.
  Variable astype_dt : dtype -> list pyval -> dreq -> dtype.
  Variable itemseq_exn : dtype -> exn.

  Notation assign_inplace := (assign_inplace pycast arrcast).
  Notation assign_item := (assign_item pycast arrcast itemseq_exn).
  Notation setattr_var := (setattr_var pycast arrcast).
  Notation set_rows_arr := (set_rows_arr pycast arrcast).
  Notation set_rows_full := (set_rows_full pycast arrcast infer).
  Notation values_setter := (values_setter pycast arrcast infer).
  Notation obj_setattr := (obj_setattr pycast arrcast infer).
  Notation add_attribute := (add_attribute pycast arrcast infer).
  Notation setattr := (setattr pycast arrcast infer).
  Notation setitem := (setitem pycast arrcast infer itemseq_exn).
  Notation replace_values := (replace_values pycast arrcast infer itemseq_exn).
  Notation base_add_variable := (base_add_variable pycast arrcast infer astype_dt).
  Notation add_variable := (add_variable pycast arrcast infer astype_dt).
  Notation step := (step pycast arrcast infer astype_dt itemseq_exn).
  Notation run := (run pycast arrcast infer astype_dt itemseq_exn).
  Notation natural := (natural pycast infer).

  Lemma invD_set s name v' :
    InvD s -> length (vdata v') = n_of s -> InvD (set_vars s (assoc_set name v' (vars s))).
  Proof.
    intros D L x v. simpl. destruct (string_dec x name) as [->|Ne].
    - rewrite assoc_set_eq. intros E. inversion E; subst. exact L.
    - rewrite (assoc_set_neq _ _ _ _ Ne). apply D.
  Qed.

  Lemma commit_length v r : length (fst r) = length (vdata v) -> length (vdata (fst (commit v r))) = length (vdata v).
  Proof. unfold Container.commit. destruct (snd r); simpl; [reflexivity|intros H; exact H]. Qed.

  Lemma assign_inplace_length v ps value : length (vdata (fst (assign_inplace v ps value))) = length (vdata v).
  Proof.
    unfold Container.assign_inplace.
    destruct value as [c|k items|a b c|sh dt cells].
    - destruct (pycast (vdtype v) c); simpl; [apply write_cells_length|reflexivity].
    - destruct (as_array (OSeq k items)) as [[sh cells]|e]; [|reflexivity].
      destruct (list_eq_dec Nat.eq_dec sh [length ps]) as [E|N].
      + apply commit_length. apply write_cells_length.
      + destruct (negb (Nat.eqb (length sh) 1)); [reflexivity|].
        destruct (cast_all (pycast (vdtype v)) cells) as [cells'|e]; [|reflexivity].
        destruct (bcast_seq (length ps) sh cells'); simpl; [apply write_cells_length|reflexivity].
    - destruct (as_array (ORange a b c)) as [[sh cells]|e]; [|reflexivity].
      destruct (list_eq_dec Nat.eq_dec sh [length ps]) as [E|N].
      + apply commit_length. apply write_cells_length.
      + destruct (negb (Nat.eqb (length sh) 1)); [reflexivity|].
        destruct (cast_all (pycast (vdtype v)) cells) as [cells'|e]; [|reflexivity].
        destruct (bcast_seq (length ps) sh cells'); simpl; [apply write_cells_length|reflexivity].
    - destruct (bcast_arr (length ps) sh cells) as [cs|]; [|reflexivity].
      apply commit_length. apply write_cells_length.
  Qed.

  Lemma assign_item_length v p value : length (vdata (fst (assign_item v p value))) = length (vdata v).
  Proof.
    unfold Container.assign_item.
    destruct value as [c|k items|a b c|sh dt cells].
    - destruct (pycast (vdtype v) c); simpl; [apply upd_length|reflexivity].
    - destruct (vdtype v); simpl; try reflexivity. apply upd_length.
    - destruct (vdtype v); simpl; try reflexivity. apply upd_length.
    - assert (DEF : length (vdata (fst (match vdtype v with
                         | DBool => match truthy (OArr sh dt cells) with
                                    | Ret b => (with_data v (upd p (PBool b) (vdata v)), None)
                                    | Raise e => (v, Some e)
                                    end
                         | _ => (v, Some ValueError)
                         end))) = length (vdata v)).
      { destruct (vdtype v); try reflexivity. destruct (truthy (OArr sh dt cells)); simpl; [apply upd_length|reflexivity]. }
      destruct sh as [|d0 sh']; [|exact DEF].
      destruct cells as [|c [|c2 r]]; try exact DEF.
      destruct (arrcast dt (vdtype v) c); simpl; [apply upd_length|reflexivity].
  Qed.

  Lemma setattr_var_invD name value s : wf_operand value -> InvD s -> InvD (fst (setattr_var name value s)).
  Proof.
    intros W D. unfold Container.setattr_var.
    destruct (assoc name (vars s)) as [v|] eqn:A; [|exact D].
    destruct (is_sequence value).
    - destruct (as_array value) as [[sh cells]|e] eqn:AA; [|exact D].
      destruct (cast_all (pycast (vdtype v)) cells) as [cells'|e] eqn:C; [|exact D].
      destruct (negb (Nat.eqb (length sh) 1) || negb (Nat.eqb (hd 0 sh) (n_of s)))%bool eqn:G; [exact D|].
      apply shape_singleton in G. subst sh. simpl. apply invD_set; [exact D|]. simpl.
      rewrite (cast_all_length _ _ _ C). pose proof (as_array_consistent value W _ AA) as K. unfold consistent in K. simpl in K.
      rewrite K. unfold prod_shape. simpl. lia.
    - destruct (vshape v) as [|m [|m' r]]; try exact D.
      pose proof (assign_inplace_length v (seq 0 m) value) as L.
      destruct (assign_inplace v (seq 0 m) value) as [v' eo]. simpl in *. apply invD_set; [exact D|].
      rewrite L. apply (D name). exact A.
  Qed.

  Lemma natural_consistent value d sh cells :
    wf_operand value -> natural value = Ret (d, sh, cells) -> length cells = prod_shape sh.
  Proof.
    intros W. unfold Container.natural.
    destruct (as_array value) as [[sh0 cells0]|e] eqn:AA; [|discriminate].
    pose proof (as_array_consistent value W _ AA) as K. unfold consistent in K. simpl in K.
    destruct value; try (destruct (cast_all (pycast (infer cells0)) cells0) as [cs|] eqn:C; [|discriminate];
                         intros H; inversion H; subst; rewrite (cast_all_length _ _ _ C); exact K).
    intros H. inversion H; subst. exact K.
  Qed.

  Lemma set_rows_arr_invD src nms : forall rws s, InvD s -> InvD (fst (set_rows_arr src nms rws s)).
  Proof.
    induction nms as [|x nms IH]; intros rws s D; simpl; [exact D|].
    destruct rws as [|r rr]; [exact D|].
    destruct (assoc x (vars s)) as [v|]; [|exact D].
    destruct (cast_all (arrcast src (vdtype v)) r) as [r'|e]; [|exact D].
    assert (W : wf_operand (OArr [length r'] (vdtype v) r')) by (simpl; unfold prod_shape; simpl; lia).
    pose proof (setattr_var_invD x _ s W D) as S.
    destruct (setattr_var x (OArr [length r'] (vdtype v) r') s) as [s' [u|e]]; simpl in *; [apply IH; exact S|exact S].
  Qed.

  Lemma set_rows_full_invD value nms : wf_operand value -> forall s, InvD s -> InvD (fst (set_rows_full nms value s)).
  Proof.
    intros Wv. induction nms as [|x nms IH]; intros s D; simpl; [exact D|].
    destruct (assoc x (vars s)) as [v|]; [|exact D].
    destruct (natural value) as [[[src sh] cells]|e] eqn:N; [|exact D].
    destruct (bcast_arr (prod_shape (vshape v)) sh cells) as [cs|] eqn:B; [|exact D].
    destruct (cast_all (arrcast src (vdtype v)) cs) as [cs'|e] eqn:C; [|exact D].
    assert (W : wf_operand (OArr (vshape v) (vdtype v) cs')).
    { simpl. rewrite (cast_all_length _ _ _ C). apply (bcast_arr_length _ sh cells); [|exact B].
      eapply natural_consistent; eassumption. }
    pose proof (setattr_var_invD x _ s W D) as S.
    destruct (setattr_var x (OArr (vshape v) (vdtype v) cs') s) as [s' [u|e]]; simpl in *; [apply IH; exact S|exact S].
  Qed.

  Lemma values_setter_invD value s : wf_operand value -> InvD s -> InvD (fst (values_setter value s)).
  Proof.
    intros W D. unfold Container.values_setter.
    destruct value as [c|k items|a b c|sh dt cells]; try (apply set_rows_full_invD; assumption).
    destruct (values_shape s) as [vsh|e]; [|exact D].
    destruct (list_eq_dec Nat.eq_dec sh vsh); [|exact D].
    destruct sh as [|r [|m [|q t]]]; try exact D.
    apply set_rows_arr_invD. exact D.
  Qed.

  Lemma obj_setattr_invD name value s :
    (String.eqb name "span" || underscored name)%bool = false -> wf_operand value -> InvD s -> InvD (fst (obj_setattr name value s)).
  Proof.
    intros NS W D. apply orb_false_elim in NS. destruct NS as [E U]. unfold Container.obj_setattr.
    destruct (bookkeeping (kind s) name) eqn:BK.
    { destruct (bookkeeping_cases _ _ BK U) as [ -> | [ -> | [ -> | [ -> | [ -> | -> ] ] ] ] ]; [discriminate E| | | | |];
        unfold Container.book_setattr; simpl; repeat dm; exact D. }
    destruct (String.eqb name "strict"); [destruct (truthy value); exact D|].
    destruct (String.eqb name "values"); [apply values_setter_invD; assumption|].
    destruct (String.eqb name "size" || String.eqb name "nbytes")%bool; [exact D|].
    match goal with |- context [if ?c then _ else _] => destruct c end; exact D.
  Qed.

  Lemma add_attribute_invD name value s :
    (String.eqb name "span" || underscored name)%bool = false -> wf_operand value -> InvD s -> InvD (fst (add_attribute name value s)).
  Proof.
    intros NS W D. unfold Container.add_attribute.
    destruct (mem name (index s)); [exact D|].
    destruct (reg_mem name (registry s)); [exact D|].
    pose proof (obj_setattr_invD name value s NS W D) as O.
    destruct (obj_setattr name value s) as [s' [u|e]]; simpl in *; exact O.
  Qed.

  Lemma setattr_invD name value hint s :
    (String.eqb name "span" || underscored name)%bool = false \/ mem name (index s) = true ->
    wf_operand value -> InvD s -> InvD (fst (setattr name value hint s)).
  Proof.
    intros NS W D. unfold Container.setattr.
    match goal with |- context [if ?c then _ else _] => destruct c end.
    - destruct (alternatives hint (row_names s)) as [|a [|b r]]; exact D.
    - destruct (mem name (index s)) eqn:M; cbn [negb].
      + apply setattr_var_invD; assumption.
      + destruct NS as [NS|NS]; [|discriminate NS].
        destruct (reg_mem name (registry s)); [apply obj_setattr_invD | apply add_attribute_invD]; assumption.
  Qed.

  Lemma setitem_invD k value s : wf_operand value -> InvD s -> InvD (fst (setitem k value s)).
  Proof.
    intros W D. unfold Container.setitem. destruct k as [name|name l|name a b st| |]; try exact D.
    - destruct (mem name (index s)) eqn:Mn; cbn [negb]; [apply setattr_invD; [right; exact Mn|assumption|assumption] | exact D].
    - destruct (negb (mem name (index s))); [exact D|].
      destruct (locate (span s) l) as [p|e]; [|exact D].
      destruct (assoc name (vars s)) as [v|] eqn:A; [|exact D].
      pose proof (assign_item_length v p value) as L.
      destruct (Container.assign_item pycast arrcast itemseq_exn v p value) as [v' e]. simpl in *.
      apply invD_set; [exact D|]. rewrite L. apply (D name). exact A.
    - destruct (negb (mem name (index s))); [exact D|].
      destruct (resolve_slice (span s) a b st) as [[[sl el] stp]|e]; [|exact D].
      destruct (assoc name (vars s)) as [v|] eqn:A; [|exact D].
      destruct (vshape v) as [|m [|m' r]]; try exact D.
      destruct (slice_positions m sl el stp) as [ps|]; [|exact D].
      pose proof (assign_inplace_length v ps value) as L.
      destruct (Container.assign_inplace pycast arrcast v ps value) as [v' e]. simpl in *.
      apply invD_set; [exact D|]. rewrite L. apply (D name). exact A.
  Qed.

  Lemma replace_values_invD kvs : Forall (fun kv => wf_operand (snd kv)) kvs -> forall s, InvD s -> InvD (fst (replace_values kvs s)).
  Proof.
    induction 1 as [|[k v] kvs Wv Wr IH]; intros s D; [exact D|].
    change (replace_values ((k, v) :: kvs) s) with
      (match setitem (KName k) v s with (s1, Ret _) => replace_values kvs s1 | (s1, Raise e1) => (s1, Raise e1) end).
    pose proof (setitem_invD (KName k) v s Wv D) as S.
    destruct (setitem (KName k) v s) as [s' [u|e]]; simpl in *; [apply IH; exact S|exact S].
  Qed.

  Lemma base_add_variable_invD name value dt s : wf_operand value -> InvD s -> InvD (fst (base_add_variable name value dt s)).
  Proof.
    intros W D. unfold Container.base_add_variable.
    destruct (mem name (index s)); [exact D|].
    destruct (storage_taken name s); [exact D|].
    assert (FIRST : forall d0 m0 cells0,
      (if is_sequence value
       then match natural value with
            | Raise e => Raise e
            | Ret (d, sh, cells) => Ret (d, prod_shape sh, cells)
            end
       else match natural value with
            | Raise e => Raise e
            | Ret (d, sh, cells) => match bcast_arr (n_of s) sh cells with
                                    | None => Raise ValueError
                                    | Some cs => Ret (d, n_of s, cs)
                                    end
            end) = Ret (d0, m0, cells0) -> length cells0 = m0).
    { intros d0 m0 cells0. destruct (is_sequence value); destruct (natural value) as [[[d sh] cells]|e] eqn:N; try discriminate.
      - intros H. inversion H; subst. eapply natural_consistent; eassumption.
      - destruct (bcast_arr (n_of s) sh cells) as [cs|] eqn:B; [|discriminate]. intros H. inversion H; subst.
        apply (bcast_arr_length _ sh cells); [|exact B]. eapply natural_consistent; eassumption. }
    match goal with |- context [match ?x with Ret _ => _ | Raise _ => _ end] => destruct x as [[[d0 m0] cells0]|e] eqn:F end; [|exact D].
    clear F. pose proof (FIRST d0 m0 cells0 eq_refl) as F.
    destruct dt as [r|].
    - destruct (cast_all (arrcast d0 (astype_dt d0 cells0 r)) cells0) as [cs|e] eqn:C; [|exact D].
      destruct (adds_dim r); [exact D|].
      destruct (negb (Nat.eqb m0 (n_of s))) eqn:G; [exact D|].
      apply negb_false_iff, Nat.eqb_eq in G. simpl.
      intros x v. simpl. destruct (string_dec x name) as [->|Ne].
      + rewrite assoc_set_eq. intros E. inversion E; subst. simpl. rewrite (cast_all_length _ _ _ C). unfold n_of in *. simpl. lia.
      + rewrite (assoc_set_neq _ _ _ _ Ne). apply D.
    - destruct (negb (Nat.eqb m0 (n_of s))) eqn:G; [exact D|].
      apply negb_false_iff, Nat.eqb_eq in G. simpl.
      intros x v. simpl. destruct (string_dec x name) as [->|Ne].
      + rewrite assoc_set_eq. intros E. inversion E; subst. simpl. unfold n_of in *. simpl. lia.
      + rewrite (assoc_set_neq _ _ _ _ Ne). apply D.
  Qed.

  Lemma add_variable_invD name value dt s : wf_operand value -> InvD s -> InvD (fst (add_variable name value dt s)).
  Proof.
    intros W D. unfold Container.add_variable.
    destruct (kind s); [apply base_add_variable_invD; assumption| |];
      (pose proof (base_add_variable_invD name value (match dt with None => dflt s | Some _ => dt end) s W D) as B;
       destruct (base_add_variable name value (match dt with None => dflt s | Some _ => dt end) s) as [s' [u|e]]; simpl in *; exact B).
  Qed.

  Theorem step_preserves_invD o s : in_scope (kind s) o -> wf_key_op o -> InvD s -> InvD (fst (step o s)).
  Proof.
    destruct o as [name v dt|name v hint|k v|kvs|name v|q]; simpl; intros SC W D.
    - apply add_variable_invD; assumption.
    - apply setattr_invD; [left; eapply bookkeeping_plain; exact SC|assumption|assumption].
    - apply setitem_invD; assumption.
    - apply replace_values_invD; assumption.
    - apply add_attribute_invD; [eapply bookkeeping_plain; exact SC|assumption|assumption].
    - rewrite read_frame. exact D.
  Qed.

  (* through ANY history of in-scope operations with consistent ndarray operands: every series holds exactly one cell per period *)
  Theorem reachable_invD ops : Forall wf_key_op ops -> forall s, Forall (in_scope (kind s)) ops -> InvD s -> InvD (run ops s).
  Proof.
    induction 1 as [|o ops Wo Wr IH]; intros s F D; simpl; [exact D|].
    inversion F as [|? ? Fo Fr]; subst.
    apply IH; [|apply step_preserves_invD; assumption].
    rewrite (proj2 (good_span _ _ (step_good pycast arrcast infer astype_dt itemseq_exn o s Fo))). exact Fr.
  Qed.
End DataLength.

Theorem invD_init_vc sp st : InvD (init_vc sp st).
Proof. intros x v E. discriminate E. Qed.

Lemma assoc_In' {A} x (v : A) a : assoc x a = Some v -> In (x, v) a.
Proof.
  induction a as [|[k w] a IH]; simpl; [discriminate|].
  destruct (String.eqb x k) eqn:E.
  - apply String.eqb_eq in E. subst. intros H. inversion H. left. reflexivity.
  - intros H. right. apply IH. exact H.
Qed.

Section DataLengthInit.
  Variable pycast : dtype -> pyval -> outcome pyval.
  Variable arrcast : dtype -> dtype -> pyval -> outcome pyval.
  Variable infer : list pyval -> dtype.
  Variable astype_dt : dtype -> list pyval -> dreq -> dtype.
  Notation init_model := (init_model pycast arrcast infer astype_dt).
  Notation init_vars := (init_vars pycast arrcast infer astype_dt).
  Notation add_attribute := (add_attribute pycast arrcast infer).
  Notation base_add_variable := (base_add_variable pycast arrcast infer astype_dt).

  Lemma bind_invD (r : res) (f : state -> res) :
    InvD (fst r) -> (forall s', InvD s' -> InvD (fst (f s'))) -> InvD (fst (bind r f)).
  Proof. intros R F. unfold bind. destruct r as [s' [u|e]]; simpl in *; [apply F; exact R|exact R]. Qed.

  Lemma init_vars_invD nms ivs default d :
    wf_operand default -> Forall (fun kv : string * operand => wf_operand (snd kv)) ivs ->
    forall s, InvD s -> InvD (fst (init_vars nms ivs default d s)).
  Proof.
    intros Wd Wi. induction nms as [|x nms IH]; intros s D; simpl; [exact D|].
    assert (W : wf_operand (match assoc x ivs with Some v => v | None => default end)).
    { destruct (assoc x ivs) as [v|] eqn:A; [|exact Wd]. apply assoc_In' in A.
      rewrite Forall_forall in Wi. exact (Wi _ A). }
    pose proof (base_add_variable_invD pycast arrcast infer astype_dt x _ (Some d) s W D) as B.
    destruct (base_add_variable x (match assoc x ivs with Some v => v | None => default end) (Some d) s) as [s' [u|e]];
      simpl in *; [apply IH; exact B|exact B].
  Qed.

  Lemma wf_scalars (l : list string) : wf_operand (OSeq KList (map (fun x => OScalar (PStr x)) l)).
  Proof. rewrite wf_seq. induction l as [|x l IH]; simpl; [exact I|split; [exact I|exact IH]]. Qed.

  (* a constructed model / linker holds one cell per period in every series (keyword values being consistent operands) *)
  Theorem invD_init_model k sp st d default NAMES ivs :
    wf_operand default -> Forall (fun kv : string * operand => wf_operand (snd kv)) ivs ->
    InvD (fst (init_model k sp st d default NAMES ivs)).
  Proof.
    intros Wd Wi. unfold Container.init_model.
    apply bind_invD; [apply add_attribute_invD; [reflexivity|exact I|intros x v E; discriminate E]|]. intros s1 D1.
    apply bind_invD; [apply base_add_variable_invD; [exact I|exact D1]|]. intros s2 D2.
    apply bind_invD; [apply base_add_variable_invD; [exact I|exact D2]|]. intros s3 D3.
    destruct (negb (dup_free NAMES)); [exact D3|].
    match goal with |- context [if ?c then _ else _] => destruct c end; [exact D3|].
    apply bind_invD; [apply add_attribute_invD; [reflexivity|apply wf_scalars|exact D3]|]. intros s4 D4.
    apply bind_invD; [apply init_vars_invD; [exact Wd|exact Wi|exact D4]|]. intros s5 D5.
    apply bind_invD; [apply add_attribute_invD; [reflexivity|exact I|exact D5]|]. intros s6 D6.
    apply bind_invD; [apply add_attribute_invD; [reflexivity|exact I|exact D6]|]. intros s7 D7.
    apply bind_invD; [apply add_attribute_invD; [reflexivity|exact I|exact D7]|]. intros s8 D8.
    apply bind_invD; [apply add_attribute_invD; [reflexivity|exact I|exact D8]|]. intros s9 D9.
    destruct k; [exact D9|apply add_attribute_invD; [reflexivity|exact I|exact D9]|exact D9].
  Qed.
End DataLengthInit.

(* ================================================================== what the values setter writes *)
Lemma firstn_upd_snoc {A} k (x : A) : forall l, k < length l -> firstn (S k) (upd k x l) = firstn k l ++ [x].
Proof.
  induction k as [|k IH]; intros [|a l] H; simpl in H; try lia; [reflexivity|].
  simpl upd. change (firstn (S (S k)) (a :: upd k x l)) with (a :: firstn (S k) (upd k x l)).
  rewrite IH by lia. reflexivity.
Qed.

(* element-wise copy into positions k, k+1, ... of a long enough array, every cast succeeding: the prefix is kept, the cast
   cells follow *)
Lemma write_cells_all f cs : forall k data cs',
  cast_all f cs = Ret cs' -> k + length cs <= length data ->
  write_cells f (seq k (length cs)) cs data = (firstn k data ++ cs' ++ skipn (k + length cs) data, None).
Proof.
  induction cs as [|c cs IH]; intros k data cs' C L.
  - simpl in C. inversion C; subst. simpl. rewrite Nat.add_0_r, firstn_skipn. reflexivity.
  - simpl in C. destruct (f c) as [c'|] eqn:E; [|discriminate].
    destruct (cast_all f cs) as [r|] eqn:C2; [|discriminate]. inversion C; subst. clear C.
    simpl length. simpl seq. simpl write_cells. rewrite E.
    simpl in L.
    rewrite (IH (S k) (upd k c' data) r eq_refl) by (rewrite upd_length; lia).
    rewrite firstn_upd_snoc by lia. rewrite <- app_assoc. simpl. f_equal. f_equal. f_equal. f_equal.
    replace (S k + length cs) with (k + S (length cs)) by lia.
    (* beyond the written position the update is invisible *)
    clear. revert k. induction data as [|a data IHd]; intros k; [destruct k; reflexivity|].
    destruct k as [|k]; simpl; [reflexivity|]. apply IHd.
Qed.

Lemma write_cells_whole f cs data cs' :
  cast_all f cs = Ret cs' -> length data = length cs ->
  write_cells f (seq 0 (length cs)) cs data = (cs', None).
Proof.
  intros C L. rewrite (write_cells_all f cs 0 data cs' C) by lia.
  simpl. rewrite skipn_all2 by lia. rewrite app_nil_r. reflexivity.
Qed.

Lemma write_cells_none_cast f : forall ps cs data d',
  length ps = length cs -> write_cells f ps cs data = (d', None) -> exists cs', cast_all f cs = Ret cs'.
Proof.
  induction ps as [|p ps IH]; intros [|c cs] data d' L H; simpl in L; try discriminate.
  - exists []. reflexivity.
  - simpl in H. destruct (f c) as [c'|e] eqn:E; [|discriminate].
    destruct (IH cs (upd p c' data) d') as [r R]; [lia|exact H|]. exists (c' :: r). simpl. rewrite E, R. reflexivity.
Qed.

Lemma chunks_length m cnt : forall cells, length (chunks m cnt cells) = cnt.
Proof. induction cnt as [|c IH]; intros cells; simpl; [reflexivity|]. rewrite IH. reflexivity. Qed.

Lemma chunks_rows m cnt : forall cells, length cells = cnt * m -> Forall (fun row => length row = m) (chunks m cnt cells).
Proof.
  induction cnt as [|c IH]; intros cells L; simpl; constructor.
  - rewrite firstn_length. simpl in L. lia.
  - apply IH. rewrite skipn_length. simpl in L. lia.
Qed.

Section ValuesContent.
  Variable pycast : dtype -> pyval -> outcome pyval.
  Variable arrcast : dtype -> dtype -> pyval -> outcome pyval.
  Variable infer : list pyval -> dtype.
  Notation setattr_var := (setattr_var pycast arrcast).
  Notation set_rows_arr := (set_rows_arr pycast arrcast).
  Notation values_setter := (values_setter pycast arrcast infer).

  (* whole-series assignment of an ndarray row of the series' own dtype and length *)
  Lemma setattr_var_row x v c1 s s1 u :
    assoc x (vars s) = Some v -> vshape v = [n_of s] -> length (vdata v) = n_of s -> length c1 = n_of s ->
    setattr_var x (OArr [length c1] (vdtype v) c1) s = (s1, Ret u) ->
    exists c2, cast_all (arrcast (vdtype v) (vdtype v)) c1 = Ret c2 /\
               s1 = set_vars s (assoc_set x (mkVar (vdtype v) [n_of s] c2) (vars s)).
  Proof.
    intros A SH LD LC H. unfold Container.setattr_var in H. rewrite A in H. simpl is_sequence in H. cbv iota in H.
    rewrite SH in H. unfold Container.assign_inplace in H. rewrite seq_length in H.
    assert (B : bcast_arr (n_of s) [length c1] c1 = Some c1).
    { unfold bcast_arr. rewrite LC.
      assert (S1 : strip1 [n_of s] = [n_of s]) by (destruct (n_of s) as [|[|k]]; reflexivity).
      rewrite S1, Nat.eqb_refl. reflexivity. }
    rewrite B in H.
    destruct (write_cells (arrcast (vdtype v) (vdtype v)) (seq 0 (n_of s)) c1 (vdata v)) as [d eo] eqn:WC.
    destruct eo as [e|]; [discriminate H|].
    destruct (write_cells_none_cast _ _ _ _ _ (eq_trans (seq_length _ _) (eq_sym LC)) WC) as [c2 C2].
    exists c2. split; [exact C2|].
    rewrite <- LC in WC. rewrite (write_cells_whole _ _ _ _ C2) in WC by congruence.
    inversion WC; subst d. inversion H. unfold with_data. rewrite SH. reflexivity.
  Qed.

  (* obj.values = A (accepted): row i of A, cast to the dtype of the i-th declared variable, IS that variable afterwards
     (same dtype, one cell per period); every other series is untouched *)
  Theorem set_rows_arr_content src : forall nms rws s s',
    InvV s -> InvD s -> NoDup nms -> length nms = length rws -> Forall (fun row => length row = n_of s) rws ->
    set_rows_arr src nms rws s = (s', Ret tt) ->
    Forall2 (fun x row => exists v c1 c2,
               assoc x (vars s) = Some v /\ cast_all (arrcast src (vdtype v)) row = Ret c1 /\
               cast_all (arrcast (vdtype v) (vdtype v)) c1 = Ret c2 /\
               assoc x (vars s') = Some (mkVar (vdtype v) [n_of s] c2)) nms rws /\
    (forall y, ~ In y nms -> assoc y (vars s') = assoc y (vars s)).
  Proof.
    induction nms as [|x nms IH]; intros rws s s' IV ID ND L F H.
    - destruct rws; [|discriminate L]. simpl in H. inversion H; subst. split; [constructor|reflexivity].
    - destruct rws as [|row rws]; [discriminate L|]. simpl in H.
      destruct (assoc x (vars s)) as [v|] eqn:A; [|discriminate H].
      destruct (cast_all (arrcast src (vdtype v)) row) as [c1|e] eqn:C1; [|discriminate H].
      inversion F as [|? ? Lrow Frest]; subst. inversion ND as [|? ? Hx ND']; subst.
      destruct (setattr_var x (OArr [length c1] (vdtype v) c1) s) as [s1 [u|e]] eqn:SV; [|discriminate H].
      assert (LC : length c1 = n_of s) by (rewrite (cast_all_length _ _ _ C1); exact Lrow).
      destruct (setattr_var_row x v c1 s s1 u A (proj2 (proj2 IV) _ _ A) (ID _ _ A) LC SV) as [c2 [C2 E1]].
      assert (N1 : n_of s1 = n_of s) by (subst s1; reflexivity).
      assert (IV1 : InvV s1).
      { pose proof (setattr_var_good pycast arrcast x (OArr [length c1] (vdtype v) c1) s) as G. rewrite SV in G.
        eapply good_invV; eassumption. }
      assert (ID1 : InvD s1).
      { pose proof (setattr_var_invD pycast arrcast x (OArr [length c1] (vdtype v) c1) s) as G. rewrite SV in G.
        apply G; [simpl; unfold prod_shape; simpl; lia|exact ID]. }
      assert (OTH : forall y, y <> x -> assoc y (vars s1) = assoc y (vars s)).
      { intros y Ny. subst s1. simpl. apply assoc_set_neq. exact Ny. }
      destruct (IH rws s1 s' IV1 ID1 ND') as [F2 KEEP].
      + simpl in L. lia.
      + rewrite N1. exact Frest.
      + exact H.
      + split.
        * constructor.
          -- exists v, c1, c2. repeat split; try assumption.
             rewrite (KEEP x Hx). subst s1. simpl. apply assoc_set_eq.
          -- clear - F2 OTH Hx N1.
             induction F2 as [|y row' ys rows' Hy F2' IHF]; constructor.
             ++ destruct Hy as [v' [d1 [d2 [A' [C1' [C2' A2']]]]]].
                exists v', d1, d2. rewrite <- N1. repeat split; try assumption.
                rewrite <- A'. symmetry. apply OTH. intros ->. apply Hx. left. reflexivity.
             ++ apply IHF. intros C. apply Hx. right. exact C.
        * intros y Hy. rewrite (KEEP y); [|intros C; apply Hy; right; exact C].
          apply OTH. intros ->. apply Hy. left. reflexivity.
  Qed.

  Theorem values_setter_array_content r m dt cells s s' :
    Inv s -> InvD s -> NoDup (row_names s) -> length cells = r * m ->
    values_setter (OArr [r; m] dt cells) s = (s', Ret tt) ->
    Forall2 (fun x row => exists v c1 c2,
               assoc x (vars s) = Some v /\ cast_all (arrcast dt (vdtype v)) row = Ret c1 /\
               cast_all (arrcast (vdtype v) (vdtype v)) c1 = Ret c2 /\
               assoc x (vars s') = Some (mkVar (vdtype v) [n_of s] c2)) (row_names s) (chunks m r cells) /\
    (forall y, ~ In y (row_names s) -> assoc y (vars s') = assoc y (vars s)).
  Proof.
    intros I D ND LC H. unfold Container.values_setter in H.
    destruct (values_stack s I) as [VS _]. rewrite VS in H.
    destruct (list_eq_dec Nat.eq_dec [r; m] _) as [E|N]; [|discriminate H].
    destruct (row_names s) as [|x0 rest] eqn:RN; [discriminate E|].
    inversion E; subst r m. rewrite <- RN in *.
    apply set_rows_arr_content; try assumption.
    - exact (proj1 I).
    - rewrite chunks_length, RN. reflexivity.
    - apply chunks_rows. exact LC.
  Qed.
End ValuesContent.

(* ================================================================== strict=True: nothing unregistered is ever created *)
Section StrictFrame.
  Variable pycast : dtype -> pyval -> outcome pyval.
  Variable arrcast : dtype -> dtype -> pyval -> outcome pyval.
  Variable infer : list pyval -> dtype.
  Variable astype_dt : dtype -> list pyval -> dreq -> dtype.
  Variable itemseq_exn : dtype -> exn.
  Notation setattr_var := (setattr_var pycast arrcast).
  Notation set_rows_arr := (set_rows_arr pycast arrcast).
  Notation set_rows_full := (set_rows_full pycast arrcast infer).
  Notation values_setter := (values_setter pycast arrcast infer).
  Notation obj_setattr := (obj_setattr pycast arrcast infer).
  Notation add_attribute := (add_attribute pycast arrcast infer).
  Notation setattr := (setattr pycast arrcast infer).
  Notation setitem := (setitem pycast arrcast infer itemseq_exn).
  Notation replace_values := (replace_values pycast arrcast infer itemseq_exn).
  Notation base_add_variable := (base_add_variable pycast arrcast infer astype_dt).
  Notation add_variable := (add_variable pycast arrcast infer astype_dt).
  Notation step := (step pycast arrcast infer astype_dt itemseq_exn).

  (* "attribute frame": registry, attribute dictionary and strict flag are what they were *)
  Definition same_attrs (s s' : state) : Prop := registry s' = registry s /\ adict s' = adict s /\ strict s' = strict s.

  Lemma same_attrs_refl s : same_attrs s s. Proof. repeat split. Qed.
  Lemma same_attrs_trans s1 s2 s3 : same_attrs s1 s2 -> same_attrs s2 s3 -> same_attrs s1 s3.
  Proof. intros (A1 & A2 & A3) (B1 & B2 & B3). repeat split; congruence. Qed.

  Lemma setattr_var_sa name value s : same_attrs s (fst (setattr_var name value s)).
  Proof. destruct (setattr_var_frame pycast arrcast name value s) as (R & A & S & _). repeat split; assumption. Qed.

  Lemma set_rows_arr_sa src nms : forall rws s, same_attrs s (fst (set_rows_arr src nms rws s)).
  Proof.
    induction nms as [|x nms IH]; intros rws s; simpl; [apply same_attrs_refl|].
    destruct rws as [|r rr]; [apply same_attrs_refl|].
    destruct (assoc x (vars s)) as [v|]; [|apply same_attrs_refl].
    destruct (cast_all (arrcast src (vdtype v)) r) as [r'|e]; [|apply same_attrs_refl].
    pose proof (setattr_var_sa x (OArr [length r'] (vdtype v) r') s) as F.
    destruct (setattr_var x (OArr [length r'] (vdtype v) r') s) as [s' [u|e]]; simpl in *; [|exact F].
    eapply same_attrs_trans; [exact F|apply IH].
  Qed.

  Lemma set_rows_full_sa value nms : forall s, same_attrs s (fst (set_rows_full nms value s)).
  Proof.
    induction nms as [|x nms IH]; intros s; simpl; [apply same_attrs_refl|].
    destruct (assoc x (vars s)) as [v|]; [|apply same_attrs_refl].
    destruct (natural pycast infer value) as [[[src sh] cells]|e]; [|apply same_attrs_refl].
    destruct (bcast_arr (prod_shape (vshape v)) sh cells) as [cs|]; [|apply same_attrs_refl].
    destruct (cast_all (arrcast src (vdtype v)) cs) as [cs'|e]; [|apply same_attrs_refl].
    pose proof (setattr_var_sa x (OArr (vshape v) (vdtype v) cs') s) as F.
    destruct (setattr_var x (OArr (vshape v) (vdtype v) cs') s) as [s' [u|e]]; simpl in *; [|exact F].
    eapply same_attrs_trans; [exact F|apply IH].
  Qed.

  Lemma values_setter_sa value s : same_attrs s (fst (values_setter value s)).
  Proof.
    unfold Container.values_setter. destruct value; try apply set_rows_full_sa.
    destruct (values_shape s) as [vsh|e]; [|apply same_attrs_refl].
    destruct (list_eq_dec Nat.eq_dec sh vsh); [|apply same_attrs_refl].
    destruct sh as [|r [|m [|q t]]]; try apply same_attrs_refl. apply set_rows_arr_sa.
  Qed.

  Lemma setitem_sa k value s : match k with KName _ => False | _ => True end -> same_attrs s (fst (setitem k value s)).
  Proof.
    intros NK. unfold Container.setitem. destruct k as [name|name l|name a b st| |]; try contradiction; try apply same_attrs_refl.
    - destruct (negb (mem name (index s))); [apply same_attrs_refl|].
      destruct (locate (span s) l) as [p|e]; [|apply same_attrs_refl].
      destruct (assoc name (vars s)) as [v|]; [|apply same_attrs_refl].
      destruct (Container.assign_item pycast arrcast itemseq_exn v p value) as [v' e]. simpl. repeat split.
    - destruct (negb (mem name (index s))); [apply same_attrs_refl|].
      destruct (resolve_slice (span s) a b st) as [[[sl el] stp]|e]; [|apply same_attrs_refl].
      destruct (assoc name (vars s)) as [v|]; [|apply same_attrs_refl].
      destruct (vshape v) as [|m [|m' r]]; try apply same_attrs_refl.
      destruct (slice_positions m sl el stp) as [ps|]; [|apply same_attrs_refl].
      destruct (Container.assign_inplace pycast arrcast v ps value) as [v' e]. simpl. repeat split.
  Qed.

  Lemma setitem_name_sa name value s : same_attrs s (fst (setitem (KName name) value s)).
  Proof.
    unfold Container.setitem. destruct (mem name (index s)) eqn:M; cbn [negb]; [|apply same_attrs_refl].
    rewrite (setattr_on_var pycast arrcast infer _ _ _ _ M). apply setattr_var_sa.
  Qed.

  Lemma replace_values_sa kvs : forall s, same_attrs s (fst (replace_values kvs s)).
  Proof.
    induction kvs as [|[k v] kvs IH]; intros s; [apply same_attrs_refl|].
    change (replace_values ((k, v) :: kvs) s) with
      (match setitem (KName k) v s with (s1, Ret _) => replace_values kvs s1 | (s1, Raise e1) => (s1, Raise e1) end).
    pose proof (setitem_name_sa k v s) as F.
    destruct (setitem (KName k) v s) as [s' [u|e]]; simpl in *; [|exact F].
    eapply same_attrs_trans; [exact F|apply IH].
  Qed.

  Lemma base_add_variable_sa name value dt s : same_attrs s (fst (base_add_variable name value dt s)).
  Proof.
    destruct (base_add_variable name value dt s) as [s' [u|e]] eqn:B; simpl.
    - unfold Container.base_add_variable in B.
      destruct (mem name (index s)); [inversion B|]. destruct (storage_taken name s); [inversion B|].
      match type of B with context [match ?x with Ret _ => _ | Raise _ => _ end] => destruct x as [[[d0 m0] cells0]|e] end; [|inversion B].
      match type of B with context [match ?x with Ret _ => _ | Raise _ => _ end] => destruct x as [[d1 cells1]|e] end; [|inversion B].
      destruct (negb (Nat.eqb m0 (n_of s))); inversion B; subst; repeat split.
    - apply (base_add_variable_raise pycast arrcast infer astype_dt) in B. subst. apply same_attrs_refl.
  Qed.

  Lemma add_variable_sa name value dt s : same_attrs s (fst (add_variable name value dt s)).
  Proof.
    unfold Container.add_variable.
    destruct (kind s); [apply base_add_variable_sa| |];
      (pose proof (base_add_variable_sa name value (match dt with None => dflt s | Some _ => dt end) s) as F;
       destruct (base_add_variable name value (match dt with None => dflt s | Some _ => dt end) s) as [s' [u|e]]; simpl in *; exact F).
  Qed.

  (* an attribute assignment to a REGISTERED, in-scope name never extends the registry; the only attribute entry it can write is its own *)
  Lemma obj_setattr_reg name value s :
    bookkeeping (kind s) name = false ->
    registry (fst (obj_setattr name value s)) = registry s /\
    (forall x, assoc x (adict (fst (obj_setattr name value s))) <> None -> assoc x (adict s) <> None \/ x = name).
  Proof.
    intros B. unfold Container.obj_setattr. rewrite B.
    destruct (String.eqb name "strict").
    - destruct (truthy value); simpl; auto.
    - destruct (String.eqb name "values").
      + destruct (values_setter_sa value s) as (R & A & _). rewrite R, A. auto.
      + destruct (String.eqb name "size" || String.eqb name "nbytes")%bool; [simpl; auto|].
        match goal with |- context [if ?c then _ else _] => destruct c end; [simpl; auto|].
        simpl. split; [reflexivity|]. intros x H. destruct (string_dec x name) as [->|N]; [right; reflexivity|].
        left. rewrite (assoc_set_neq _ _ _ _ N) in H. exact H.
  Qed.

  (* WITH strict=True NO OPERATION OTHER THAN add_attribute (and the first assignment to a PROPERTY of the class - strict, values -
     which registers that name; fix 49a73ab) can create a non-variable attribute: the registry is what it was, and every attribute entry afterwards either was there or belongs
     to a name that was registered before *)
  Theorem strict_creates_nothing o s :
    strict s = true -> in_scope (kind s) o ->
    (forall n v, o <> AddAttribute n v) -> (forall n v h, o = SetAttr n v h -> is_property (kind s) n = false) ->
    registry (fst (step o s)) = registry s /\
    (forall x, assoc x (adict (fst (step o s))) <> None -> assoc x (adict s) <> None \/ reg_mem x (registry s) = true).
  Proof.
    intros ST SC NA NS.
    assert (SA : forall s', same_attrs s s' ->
                 registry s' = registry s /\ (forall x, assoc x (adict s') <> None -> assoc x (adict s) <> None \/ reg_mem x (registry s) = true)).
    { intros s' (R & A & _). rewrite R, A. auto. }
    destruct o as [name v dt|name v hint|k v|kvs|name v|q]; simpl.
    - apply SA. apply add_variable_sa.
    - simpl in SC. unfold Container.setattr. rewrite ST, (NS name v hint eq_refl).
      cbn [negb andb].
      destruct (mem name (index s)) eqn:M; cbn [negb andb].
      + apply SA. apply setattr_var_sa.
      + destruct (reg_mem name (registry s)) eqn:R; cbn [negb andb].
        * destruct (obj_setattr_reg name v s SC) as [R1 A1]. split; [exact R1|].
          intros x Hx. destruct (A1 x Hx) as [H|H]; [left; exact H|right; subst x; exact R].
        * destruct (alternatives hint (row_names s)) as [|a [|b r]]; simpl; auto.
    - destruct k as [name|name l|name a b st| |]; try (simpl; auto; fail).
      + apply SA. apply setitem_name_sa.
      + apply SA. apply (setitem_sa (KLabel name l) v s). exact I.
      + apply SA. apply (setitem_sa (KSlice name a b st) v s). exact I.
    - apply SA. apply replace_values_sa.
    - exfalso. exact (NA name v eq_refl).
    - rewrite read_frame. auto.
  Qed.
End StrictFrame.
