(* Container.v — executable model of fsic.core.containers.VectorContainer and of the
   ModelInterface / BaseModel / BaseLinker overrides (fsic/core/interfaces.py), as the code is NOW
   (after fix 3167e13: whole-series assignment rejects rank <> 1).

   Definitions only.  NumPy's behaviour (element casts, dtype inference) enters through Section
   variables, so every theorem of ContainerFacts.v holds for EVERY casting table; the concrete tables
   measured on this image (DESIGN.md Appendix D) are the `np_*` definitions at the end and are what the
   correspondence K runs (OCaml extraction).

   State = the object's __dict__ split by role:
     span, index, vars ('_'+name -> array), registry (= _attributes), adict (other attributes),
     strict (= _strict), and for ModelInterface objects: names, default dtype.                     *)
From Coq Require Import ZArith List Bool Lia String Ascii.
From Coq Require DecimalString.
Import ListNotations.
Require Import PyBase.
Open Scope string_scope.
Open Scope list_scope.
Open Scope Z_scope.
Open Scope nat_scope.
Notation length := List.length (only parsing).

(* ------------------------------------------------------------------ Python / NumPy values *)
Inductive fl : Type := FHalf (z : Z)   (* the float z/2 *) | FNaN | FPInf | FNInf.
Inductive pyval : Type := PInt (z : Z) | PFlt (f : fl) | PBool (b : bool) | PStr (s : string) | PNone.
Inductive dtype : Type := DFloat | DInt | DBool | DStr (k : nat) | DObj.
Inductive dreq : Type := RFloat | RInt | RBool | RStr   (* the `dtype=` argument: float, int, bool, str *)
  | RSub.                                               (* a sub-array dtype ('2f8', (float, 2)): astype() ADDS a dimension *)
Definition adds_dim (r : dreq) : bool := match r with RSub => true | _ => false end.
Inductive seqkind : Type := KList | KTuple.

(* what a caller can pass as `value` *)
Inductive operand : Type :=
| OScalar (v : pyval)                                   (* number, bool, str, None: NOT a Sequence for fsic *)
| OSeq (k : seqkind) (items : list operand)             (* list / tuple, arbitrarily nested *)
| ORange (a b c : Z)                                    (* range(a, b, c) *)
| OArr (sh : list nat) (dt : dtype) (cells : list pyval). (* ndarray: shape, dtype, row-major cells *)

Definition is_sequence (o : operand) : bool :=           (* isinstance(v, Sequence) and not isinstance(v, str) *)
  match o with OSeq _ _ | ORange _ _ _ => true | _ => false end.

Definition dtype_eqb (a b : dtype) : bool :=
  match a, b with
  | DFloat, DFloat | DInt, DInt | DBool, DBool | DObj, DObj => true
  | DStr k, DStr k' => Nat.eqb k k'
  | _, _ => false
  end.

Definition mem (x : string) (l : list string) : bool := existsb (String.eqb x) l.

Fixpoint assoc {A} (k : string) (l : list (string * A)) : option A :=
  match l with
  | [] => None
  | (k', v) :: r => if String.eqb k k' then Some v else assoc k r
  end.

Fixpoint assoc_set {A} (k : string) (v : A) (l : list (string * A)) : list (string * A) :=
  match l with
  | [] => [(k, v)]
  | (k', v') :: r => if String.eqb k k' then (k, v) :: r else (k', v') :: assoc_set k v r
  end.

Definition prod_shape (sh : list nat) : nat := fold_right Nat.mul 1 sh.

(* ------------------------------------------------------------------ range(a, b, c) *)
Definition range_len (a b c : Z) : nat :=
  if (0 <? c)%Z then Z.to_nat ((b - a + c - 1) / c)
  else if (c <? 0)%Z then Z.to_nat ((a - b - c - 1) / (- c))
  else 0.
Definition range_list (a b c : Z) : list Z :=
  map (fun i => (a + c * Z.of_nat i)%Z) (seq 0 (range_len a b c)).

(* ------------------------------------------------------------------ np.array(nested sequence): shape discovery *)
Definition all_eq_shape (sh : list nat) (xs : list (list nat * list pyval)) : bool :=
  forallb (fun x => if list_eq_dec Nat.eq_dec (fst x) sh then true else false) xs.

Definition stack (xs : list (list nat * list pyval)) : outcome (list nat * list pyval) :=
  match xs with
  | [] => Ret ([0], [])
  | (sh0, _) :: _ =>
      if all_eq_shape sh0 xs then Ret (length xs :: sh0, List.concat (map snd xs))
      else Raise ValueError            (* inhomogeneous (ragged) nesting *)
  end.

Fixpoint as_array (o : operand) : outcome (list nat * list pyval) :=
  match o with
  | OScalar v => Ret ([], [v])
  | ORange a b c => let l := range_list a b c in Ret ([length l], map PInt l)
  | OArr sh _ cells => Ret (sh, cells)
  | OSeq _ items =>
      match (fix go (its : list operand) : outcome (list (list nat * list pyval)) :=
               match its with
               | [] => Ret []
               | i :: r => match as_array i with
                           | Raise e => Raise e
                           | Ret x => match go r with Raise e => Raise e | Ret xs => Ret (x :: xs) end
                           end
               end) items with
      | Raise e => Raise e
      | Ret xs => stack xs
      end
  end.

(* ------------------------------------------------------------------ broadcasting into a rank-1 destination of k cells *)
Fixpoint strip1 (sh : list nat) : list nat :=            (* leading axes of length 1 are dropped while rank > 1 *)
  match sh with
  | 1 :: r => match r with [] => sh | _ :: _ => strip1 r end
  | _ => sh
  end.

(* ndarray operand (np.full, arr[...] = ndarray): leading 1-axes may be dropped *)
Definition bcast_arr (k : nat) (sh : list nat) (cells : list pyval) : option (list pyval) :=
  match strip1 sh with
  | [] => match cells with [c] => Some (repeat c k) | _ => None end
  | [d] => if Nat.eqb d k then Some cells
           else if Nat.eqb d 1 then match cells with [c] => Some (repeat c k) | _ => None end
           else None
  | _ => None
  end.

(* list/tuple/range operand of arr[a:b:s] = ...: rank must be exactly 1 *)
Definition bcast_seq (k : nat) (sh : list nat) (cells : list pyval) : option (list pyval) :=
  match sh with
  | [d] => if Nat.eqb d k then Some cells
           else if Nat.eqb d 1 then match cells with [c] => Some (repeat c k) | _ => None end
           else None
  | _ => None
  end.

(* ------------------------------------------------------------------ containers *)
Record var : Type := mkVar { vdtype : dtype; vshape : list nat; vdata : list pyval }.

Inductive regent : Type := RName (s : string).               (* an entry of the _attributes list: always a str *)
Definition reg_mem (x : string) (r : list regent) : bool :=
  existsb (fun e => match e with RName s => String.eqb x s end) r.
Definition reg_names (r : list regent) : list string := map (fun e => match e with RName s => s end) r.

Inductive ckind : Type := CVC | CModel | CLinker (extra : nat).   (* extra = sum of the submodels' sizes *)

Record state : Type := mkState {
  span : list Z;                       (* period labels *)
  index : list string;                 (* __dict__['index'] *)
  vars : list (string * var);          (* __dict__['_' + name] *)
  registry : list regent;              (* __dict__['_attributes'] *)
  adict : list (string * operand);     (* plain attributes stored by object.__setattr__ *)
  strict : bool;                       (* __dict__['_strict'] *)
  kind : ckind;
  names : list string;                 (* ModelInterface: __dict__['names'] *)
  dflt : option dreq                   (* ModelInterface: __dict__['dtype'] *)
}.

Definition set_vars (s : state) (v : list (string * var)) : state :=
  mkState (span s) (index s) v (registry s) (adict s) (strict s) (kind s) (names s) (dflt s).
Definition set_index_vars (s : state) (i : list string) (v : list (string * var)) : state :=
  mkState (span s) i v (registry s) (adict s) (strict s) (kind s) (names s) (dflt s).
Definition set_registry (s : state) (r : list regent) : state :=
  mkState (span s) (index s) (vars s) r (adict s) (strict s) (kind s) (names s) (dflt s).
Definition set_adict (s : state) (a : list (string * operand)) : state :=
  mkState (span s) (index s) (vars s) (registry s) a (strict s) (kind s) (names s) (dflt s).
Definition set_strict (s : state) (b : bool) : state :=
  mkState (span s) (index s) (vars s) (registry s) (adict s) b (kind s) (names s) (dflt s).
Definition set_kind (s : state) (k : ckind) : state :=
  mkState (span s) (index s) (vars s) (registry s) (adict s) (strict s) k (names s) (dflt s).
Definition set_names (s : state) (n : list string) : state :=
  mkState (span s) (index s) (vars s) (registry s) (adict s) (strict s) (kind s) n (dflt s).

Definition set_span (s : state) (sp : list Z) : state :=
  mkState sp (index s) (vars s) (registry s) (adict s) (strict s) (kind s) (names s) (dflt s).
Definition set_index (s : state) (i : list string) : state :=
  mkState (span s) i (vars s) (registry s) (adict s) (strict s) (kind s) (names s) (dflt s).
Definition set_dflt (s : state) (d : option dreq) : state :=
  mkState (span s) (index s) (vars s) (registry s) (adict s) (strict s) (kind s) (names s) d.

(* The object keeps EVERYTHING in one __dict__: the series under '_' + name, and its own bookkeeping under `span`, `index`,
   `_attributes`, `_strict` (models: `names`, `dtype`; linkers also `submodels` and `name`, neither of them registered in
   `_attributes`).  An attribute assignment that targets one of these names, or any name starting with '_', is an assignment to
   the bookkeeping, not one of the container operations the property lists. *)
Definition underscored (x : string) : bool :=
  match x with String c _ => Ascii.eqb c "_"%char | EmptyString => false end.
Definition bookkeeping (k : ckind) (name : string) : bool :=
  (String.eqb name "span" || String.eqb name "index" || underscored name ||
   match k with CVC => false | _ => (String.eqb name "names" || String.eqb name "dtype")%bool end ||
   match k with CLinker _ => (String.eqb name "submodels" || String.eqb name "name")%bool | _ => false end)%bool.

Definition as_int_list (o : operand) : option (list Z) :=
  match o with
  | OSeq _ items => fold_right (fun i acc => match i, acc with OScalar (PInt z), Some l => Some (z :: l) | _, _ => None end) (Some []) items
  | ORange a b c => Some (range_list a b c)
  | _ => None
  end.
Definition as_str_list (o : operand) : option (list string) :=
  match o with
  | OSeq _ items => fold_right (fun i acc => match i, acc with OScalar (PStr x), Some l => Some (x :: l) | _, _ => None end) (Some []) items
  | _ => None
  end.
Definition as_dreq (o : operand) : option dreq :=        (* the Python types float / int / bool / str are written as their names *)
  match o with
  | OScalar (PStr x) => if String.eqb x "float" then Some RFloat else if String.eqb x "int" then Some RInt
                        else if String.eqb x "bool" then Some RBool else if String.eqb x "str" then Some RStr
                        else if String.eqb x "2f8" then Some RSub else None
  | _ => None
  end.
Definition tail_of (x : string) : string := match x with String _ r => r | EmptyString => EmptyString end.

Definition res : Type := (state * outcome unit)%type.
Definition ok (s : state) : res := (s, Ret tt).
Definition err (s : state) (e : exn) : res := (s, Raise e).

(* keys of obj[...] = value *)
Inductive key : Type :=
| KName (name : string)                                        (* obj['X'] *)
| KLabel (name : string) (l : Z)                               (* obj['X', label] *)
| KSlice (name : string) (a b : option Z) (st : option Z)      (* obj['X', a:b:st] (labels) *)
| KTuple3                                                      (* a tuple whose length is not 2 *)
| KOther.                                                      (* neither str nor tuple *)

(* public read-only hooks *)
Inductive query : Type :=
| QCompletions                 (* obj._ipython_key_completions_() *)
| QDir                         (* dir(obj): the part that depends on the instance (the class's own dir is a constant) *)
| QContains (name : string)    (* name in obj *)
| QNbytes.                     (* obj.nbytes *)

Inductive qval : Type := VNames (l : list string) | VBool (b : bool) | VNat (n : nat).

Inductive op : Type :=
| AddVariable (name : string) (v : operand) (dt : option dreq)
| SetAttr (name : string) (v : operand) (hint : option string)  (* obj.name = v; hint = difflib's answer, see below *)
| SetItem (k : key) (v : operand)
| ReplaceValues (kvs : list (string * operand))
| AddAttribute (name : string) (v : operand)
| Query (q : query).                                             (* a public read-only hook is called (what it returns: `read`) *)
(* obj.values = v  is  SetAttr "values" v ;  obj.strict = b  is  SetAttr "strict" (OScalar (PBool b)) *)

(* ------------------------------------------------------------------ span lookup (list / range spans: .index) *)
Fixpoint find_pos (l : Z) (sp : list Z) : option nat :=
  match sp with
  | [] => None
  | x :: r => if (x =? l)%Z then Some 0 else match find_pos l r with Some p => Some (S p) | None => None end
  end.
Definition locate (sp : list Z) (l : Z) : outcome nat :=
  match find_pos l sp with Some p => Ret p | None => Raise KeyError end.

(* _resolve_period_slice: (start location, stop location + 1, step) *)
Definition resolve_slice (sp : list Z) (a b st : option Z) : outcome (nat * nat * Z) :=
  match (match a with Some x => Ret x | None => match sp with x :: _ => Ret x | [] => Raise IndexError end end) with
  | Raise e => Raise e
  | Ret a' =>
    match (match b with Some x => Ret x | None => match sp with [] => Raise IndexError | _ => Ret (last sp 0%Z) end end) with
    | Raise e => Raise e
    | Ret b' =>
      let step := match st with Some x => x | None => 1%Z end in
      match locate sp a' with
      | Raise e => Raise e
      | Ret sl => match locate sp b' with
                  | Raise e => Raise e
                  | Ret el => Ret (sl, S el, step)
                  end
      end
    end
  end.

(* positions addressed by arr[sl:el:step] on an array of n cells (sl, el >= 0); None = step 0 (ValueError) *)
Fixpoint count_up (fuel : nat) (a step stop : nat) : list nat :=
  match fuel with
  | O => []
  | S f => if Nat.ltb a stop then a :: count_up f (a + step) step stop else []
  end.
Fixpoint count_down (fuel : nat) (a : Z) (step : Z) (stop : Z) : list nat :=   (* step < 0 *)
  match fuel with
  | O => []
  | S f => if (stop <? a)%Z then Z.to_nat a :: count_down f (a + step)%Z step stop else []
  end.
Definition slice_positions (n sl el : nat) (step : Z) : option (list nat) :=
  if (step =? 0)%Z then None
  else if (0 <? step)%Z then Some (count_up n (Nat.min sl n) (Z.to_nat step) (Nat.min el n))
  else if Nat.eqb n 0 then Some []
  else Some (count_down n (Z.of_nat (Nat.min sl (n - 1))) step (Z.of_nat (Nat.min el (n - 1)))).

Definition lower_ascii (c : ascii) : ascii :=
  let n := nat_of_ascii c in if (Nat.leb 65 n && Nat.leb n 90)%bool then ascii_of_nat (n + 32) else c.
Fixpoint lower (s : string) : string :=
  match s with EmptyString => EmptyString | String c r => String (lower_ascii c) (lower r) end.

(* bool(value) as used by the `strict` setter *)
Definition truthy_val (v : pyval) : bool :=
  match v with
  | PInt z => negb (z =? 0)%Z
  | PFlt (FHalf z) => negb (z =? 0)%Z
  | PFlt _ => true
  | PBool b => b
  | PStr s => negb (String.eqb s "")
  | PNone => false
  end.
Definition truthy (o : operand) : outcome bool :=
  match o with
  | OScalar v => Ret (truthy_val v)
  | OSeq _ items => Ret (match items with [] => false | _ => true end)
  | ORange a b c => Ret (negb (Nat.eqb (range_len a b c) 0))
  | OArr _ _ cells => match cells with [c] => Ret (truthy_val c) | _ => Raise ValueError end
  end.

Section Model.
  (* ---- NumPy, as oracles ---- *)
  Variable pycast : dtype -> pyval -> outcome pyval.            (* a Python object stored into an array of that dtype *)
  Variable arrcast : dtype -> dtype -> pyval -> outcome pyval.  (* a cell of an array of dtype src cast to dtype dst *)
  Variable infer : list pyval -> dtype.                         (* np.array(python objects).dtype *)
  Variable astype_dt : dtype -> list pyval -> dreq -> dtype.    (* arr.astype(req).dtype *)
  Variable itemseq_exn : dtype -> exn.                          (* arr[i] = <sequence>: the class NumPy raises *)

  Fixpoint cast_all (cast : pyval -> outcome pyval) (cs : list pyval) : outcome (list pyval) :=
    match cs with
    | [] => Ret []
    | c :: r => match cast c with
                | Raise e => Raise e
                | Ret c' => match cast_all cast r with Raise e => Raise e | Ret r' => Ret (c' :: r') end
                end
    end.

  (* in-place element-by-element copy, as NumPy does it: cells before a failing cast stay written *)
  Fixpoint write_cells (cast : pyval -> outcome pyval) (ps : list nat) (cs : list pyval) (data : list pyval)
    : list pyval * option exn :=
    match ps, cs with
    | p :: ps', c :: cs' => match cast c with
                            | Ret c' => write_cells cast ps' cs' (upd p c' data)
                            | Raise e => (data, Some e)
                            end
    | _, _ => (data, None)
    end.

  Definition with_data (v : var) (d : list pyval) : var := mkVar (vdtype v) (vshape v) d.

  (* np.array(value) / np.asarray(value) with no dtype: (dtype, shape, cells); Python objects are converted to
     the inferred dtype, an ndarray is taken as it is *)
  Definition natural (value : operand) : outcome (dtype * list nat * list pyval) :=
    match as_array value with
    | Raise e => Raise e
    | Ret (sh, cells) =>
        match value with
        | OArr _ dt _ => Ret (dt, sh, cells)
        | _ => let d := infer cells in
               match cast_all (pycast d) cells with
               | Raise e => Raise e
               | Ret cs => Ret (d, sh, cs)
               end
        end
    end.

  (* fix 5dde979: the assignment is made on a COPY of the series (updated = series.copy(); updated[...] = value) and committed
     (series[...] = updated) only if it went through: a cast failing part-way leaves the series as it was *)
  Definition commit (v : var) (r : list pyval * option exn) : var * option exn :=
    match snd r with Some e => (v, Some e) | None => (with_data v (fst r), None) end.

  (* arr[ps] = value  for a rank-1 array (ps = the addressed positions; whole = arr[:]) *)
  Definition assign_inplace (v : var) (ps : list nat) (value : operand) : var * option exn :=
    let k := length ps in
    match value with
    | OScalar c =>
        match pycast (vdtype v) c with
        | Raise e => (v, Some e)
        | Ret c' => (with_data v (fst (write_cells (fun x => Ret x) ps (repeat c' k) (vdata v))), None)
        end
    | OArr sh dt cells =>
        match bcast_arr k sh cells with
        | None => (v, Some ValueError)
        | Some cs => commit v (write_cells (arrcast dt (vdtype v)) ps cs (vdata v))
        end
    | OSeq _ _ | ORange _ _ _ =>
        match as_array value with
        | Raise e => (v, Some e)
        | Ret (sh, cells) =>
            if (if list_eq_dec Nat.eq_dec sh [k] then true else false) then
              commit v (write_cells (pycast (vdtype v)) ps cells (vdata v))
            else if negb (Nat.eqb (length sh) 1) then (v, Some ValueError)   (* nesting deeper than the destination: rejected before any cast *)
            else
              match cast_all (pycast (vdtype v)) cells with
              | Raise e => (v, Some e)
              | Ret cells' =>
                  match bcast_seq k sh cells' with
                  | None => (v, Some ValueError)
                  | Some cs => (with_data v (fst (write_cells (fun x => Ret x) ps cs (vdata v))), None)
                  end
              end
        end
    end.

  (* arr[p] = value (one cell) *)
  Definition assign_item (v : var) (p : nat) (value : operand) : var * option exn :=
    match value with
    | OScalar c =>
        match pycast (vdtype v) c with
        | Raise e => (v, Some e)
        | Ret c' => (with_data v (upd p c' (vdata v)), None)
        end
    | OArr sh dt cells =>
        match sh, cells with
        | [], [c] => match arrcast dt (vdtype v) c with
                     | Raise e => (v, Some e)
                     | Ret c' => (with_data v (upd p c' (vdata v)), None)
                     end
        | _, _ => match vdtype v with
                  | DBool => match truthy value with
                             | Ret b => (with_data v (upd p (PBool b) (vdata v)), None)
                             | Raise e => (v, Some e)
                             end
                  | _ => (v, Some ValueError)
                  end
        end
    | OSeq _ _ | ORange _ _ _ =>
        match vdtype v with
        | DBool => match truthy value with
                   | Ret b => (with_data v (upd p (PBool b) (vdata v)), None)
                   | Raise e => (v, Some e)
                   end
        | d => (v, Some (itemseq_exn d))
        end
    end.

  Definition n_of (s : state) : nat := length (span s).

  (* the part of __setattr__ reached when `name in index` (lines 288-305) *)
  Definition setattr_var (name : string) (value : operand) (s : state) : res :=
    match assoc name (vars s) with
    | None => err s KeyError                                   (* self.__dict__['_' + name] *)
    | Some v =>
        if is_sequence value then
          match as_array value with                            (* np.array(value, dtype=series.dtype) *)
          | Raise e => err s e
          | Ret (sh, cells) =>
              match cast_all (pycast (vdtype v)) cells with
              | Raise e => err s e
              | Ret cells' =>
                  if (negb (Nat.eqb (length sh) 1) || negb (Nat.eqb (hd 0 sh) (n_of s)))%bool
                  then err s DimensionError
                  else ok (set_vars s (assoc_set name (mkVar (vdtype v) sh cells') (vars s)))
              end
          end
        else
          (* self.__dict__['_' + name][:] = value *)
          match vshape v with
          | [m] =>
              let '(v', e) := assign_inplace v (seq 0 m) value in
              (set_vars s (assoc_set name v' (vars s)), match e with Some x => Raise x | None => Ret tt end)
          | _ => err s OtherError                               (* a series that is not rank 1: outside the model (unreachable, see Inv) *)
          end
    end.

  (* the `values` property: np.array([series ...]).shape, or its exception *)
  Definition row_names (s : state) : list string :=
    match kind s with CVC => index s | _ => names s end.

  Fixpoint rows (nms : list string) (vs : list (string * var)) : outcome (list var) :=
    match nms with
    | [] => Ret []
    | x :: r => match assoc x vs with
                | None => Raise AttributeError                 (* self.__getattribute__('_' + name) *)
                | Some v => match rows r vs with Raise e => Raise e | Ret l => Ret (v :: l) end
                end
    end.

  Definition values_shape (s : state) : outcome (list nat) :=
    match rows (row_names s) (vars s) with
    | Raise e => Raise e
    | Ret [] => Ret [0]
    | Ret (v0 :: r) =>
        if forallb (fun v => if list_eq_dec Nat.eq_dec (vshape v) (vshape v0) then true else false) r
        then Ret (S (length r) :: vshape v0)
        else Raise ValueError
    end.

  Definition size_of (s : state) : nat :=
    match kind s with
    | CVC => length (index s) * n_of s
    | CModel => length (names s) * n_of s
    | CLinker extra => length (names s) * n_of s + extra
    end.

  (* rows k*n .. of a 2-D operand *)
  Fixpoint chunks (m : nat) (cnt : nat) (cells : list pyval) : list (list pyval) :=
    match cnt with
    | O => []
    | S c => firstn m cells :: chunks m c (skipn m cells)
    end.

  (* the values setter: per-row loop; a row that raises stops the loop, earlier rows stay replaced *)
  Fixpoint set_rows (nms : list string) (rws : list operand) (s : state) : res :=
    match nms, rws with
    | x :: nr, r :: rr =>
        match setattr_var x r s with
        | (s', Ret _) => set_rows nr rr s'
        | (s', Raise e) => (s', Raise e)
        end
    | _, _ => ok s
    end.

  (* series.astype(target dtype) for one row of the replacement array, then __setattr__(name, row) *)
  Fixpoint set_rows_arr (src : dtype) (nms : list string) (rws : list (list pyval)) (s : state) : res :=
    match nms, rws with
    | x :: nr, r :: rr =>
        match assoc x (vars s) with
        | None => err s AttributeError
        | Some v =>
            match cast_all (arrcast src (vdtype v)) r with
            | Raise e => err s e
            | Ret r' =>
                match setattr_var x (OArr [length r'] (vdtype v) r') s with
                | (s', Ret _) => set_rows_arr src nr rr s'
                | (s', Raise e) => (s', Raise e)
                end
            end
        end
    | _, _ => ok s
    end.

  (* np.full(series.shape, new_values, dtype=series.dtype) then __setattr__(name, that array) *)
  Fixpoint set_rows_full (nms : list string) (value : operand) (s : state) : res :=
    match nms with
    | [] => ok s
    | x :: nr =>
        match assoc x (vars s) with
        | None => err s AttributeError
        | Some v =>
            match natural value with
            | Raise e => err s e
            | Ret (src, sh, cells) =>
                match bcast_arr (prod_shape (vshape v)) sh cells with
                | None => err s ValueError
                | Some cs =>
                    match cast_all (arrcast src (vdtype v)) cs with
                    | Raise e => err s e
                    | Ret cs' =>
                        match setattr_var x (OArr (vshape v) (vdtype v) cs') s with
                        | (s', Ret _) => set_rows_full nr value s'
                        | (s', Raise e) => (s', Raise e)
                        end
                    end
                end
            end
        end
    end.

  Definition values_setter (value : operand) (s : state) : res :=
    match value with
    | OArr sh dt cells =>
        match values_shape s with
        | Raise e => err s e
        | Ret vsh =>
            if (if list_eq_dec Nat.eq_dec sh vsh then true else false) then
              match sh with
              | [r; m] => set_rows_arr dt (row_names s) (chunks m r cells) s
              | [_] => ok s                                     (* shape (0,) = no variables: zip over nothing *)
              | _ => err s OtherError                           (* a stack of rank > 2: some series is not rank 1 (unreachable, see Inv) *)
              end
            else err s DimensionError
        end
    | _ => set_rows_full (row_names s) value s
    end.

  (* object.__setattr__(name, value): data descriptors of the class first, then the instance dict *)
  (* an assignment to the object's own bookkeeping (see `bookkeeping`): what object.__setattr__ then does.  OtherError = the value is
     not of the kind the entry holds (or the entry is the attribute registry / a series object): outside the model *)
  Definition book_setattr (name : string) (value : operand) (s : state) : res :=
    if String.eqb name "span" then
      match as_int_list value with Some l => ok (set_span s l) | None => err s OtherError end
    else if String.eqb name "index" then
      match as_str_list value with Some l => ok (set_index s l) | None => err s OtherError end
    else if String.eqb name "names" then
      match as_str_list value with Some l => ok (set_adict (set_names s l) (assoc_set name value (adict s))) | None => err s OtherError end
    else if String.eqb name "dtype" then
      match as_dreq value with Some d => ok (set_adict (set_dflt s (Some d)) (assoc_set name value (adict s))) | None => err s OtherError end
    else if String.eqb name "submodels" then                       (* (a linker: see `bookkeeping`) l.submodels = {} : `size` no longer *)
      match value, kind s with                                     (* counts the submodels; OSeq _ [] stands for the empty mapping *)
      | OSeq _ [], CLinker _ => ok (set_kind s (CLinker 0))
      | _, _ => err s OtherError
      end
    else if String.eqb name "name" then err s OtherError           (* l.name = <a submodel's id>: `size` / `sizes` raise TypeError *)
    else if (String.eqb name "_attributes" || String.eqb name "_strict")%bool then err s OtherError
    else match assoc (tail_of name) (vars s) with
         | Some _ =>                                               (* '_' + X : the series object of X itself is replaced *)
             match value with
             | OArr sh dt cells => ok (set_vars s (assoc_set (tail_of name) (mkVar dt sh cells) (vars s)))   (* by another array *)
             | _ => err s OtherError                               (* by something that is no array: outside the model *)
             end
         | None => ok (set_adict s (assoc_set name value (adict s)))
         end.

  Definition obj_setattr (name : string) (value : operand) (s : state) : res :=
    if bookkeeping (kind s) name then book_setattr name value s else
    if String.eqb name "strict" then
      match truthy value with Ret b => ok (set_strict s b) | Raise e => err s e end
    else if String.eqb name "values" then values_setter value s
    else if (String.eqb name "size" || String.eqb name "nbytes")%bool then err s AttributeError   (* properties without a setter *)
    else if (match kind s with CLinker _ => (String.eqb name "sizes" || String.eqb name "LAGS" || String.eqb name "LEADS")%bool | _ => false end)
    then err s AttributeError
    else ok (set_adict s (assoc_set name value (adict s))).

  Definition add_attribute (name : string) (value : operand) (s : state) : res :=
    if mem name (index s) then err s DuplicateNameError
    else if reg_mem name (registry s) then err s DuplicateNameError
    else match obj_setattr name value s with
         | (s', Ret _) => ok (set_registry s' (registry s' ++ [RName name]))
         | (s', Raise e) => (s', Raise e)
         end.

  (* get_closest_match: candidates grouped by lower-case; `hint` = what difflib.get_close_matches
     answers for (name.lower(), the lower-case candidates) — difflib is an oracle, recorded by K *)
  Definition alternatives (hint : option string) (cands : list string) : list string :=
    match hint with
    | None => []
    | Some h => filter (fun x => String.eqb (lower x) h) cands
    end.

  (* isinstance(getattr(type(self), name, None), property) *)
  Definition is_property (k : ckind) (name : string) : bool :=
    (String.eqb name "strict" || String.eqb name "values" || String.eqb name "size" || String.eqb name "nbytes" ||
     match k with CLinker _ => (String.eqb name "sizes" || String.eqb name "LAGS" || String.eqb name "LEADS")%bool | _ => false end)%bool.

  Definition setattr (name : string) (value : operand) (hint : option string) (s : state) : res :=
    if (negb (is_property (kind s) name) && strict s && negb (mem name (index s)) && negb (reg_mem name (registry s)))%bool
    then
      match alternatives hint (row_names s) with
      | _ :: _ :: _ => err s NotImplementedError
      | _ => err s AttributeError
      end
    else if negb (mem name (index s)) then
      if reg_mem name (registry s) then obj_setattr name value s
      else add_attribute name value s
    else setattr_var name value s.

  Definition setitem (k : key) (value : operand) (s : state) : res :=
    match k with
    | KName name =>
        if negb (mem name (index s)) then err s KeyError
        else setattr name value None s          (* name is a variable: the strict branch (the only user of the hint) is not reached *)
    | KTuple3 => err s IndexError
    | KOther => err s TypeError
    | KLabel name l =>
        if negb (mem name (index s)) then err s KeyError          (* fix 216fc36: before anything is located or written *)
        else
        match locate (span s) l with
        | Raise e => err s e
        | Ret p =>
            match assoc name (vars s) with
            | Some v =>
                let '(v', e) := assign_item v p value in
                (set_vars s (assoc_set name v' (vars s)), match e with Some x => Raise x | None => Ret tt end)
            | None => err s KeyError                              (* self.__dict__['_' + name] *)
            end
        end
    | KSlice name a b st =>
        if negb (mem name (index s)) then err s KeyError
        else
        match resolve_slice (span s) a b st with
        | Raise e => err s e
        | Ret (sl, el, step) =>
            match assoc name (vars s) with
            | Some v =>
                match vshape v with
                | [m] =>
                    match slice_positions m sl el step with
                    | None => err s ValueError
                    | Some ps =>
                        let '(v', e) := assign_inplace v ps value in
                        (set_vars s (assoc_set name v' (vars s)), match e with Some x => Raise x | None => Ret tt end)
                    end
                | _ => err s OtherError                           (* a series that is not rank 1: unreachable, see no_other_error *)
                end
            | None => err s KeyError
            end
        end
    end.

  Fixpoint replace_values (kvs : list (string * operand)) (s : state) : res :=
    match kvs with
    | [] => ok s
    | (k, v) :: r =>
        match setitem (KName k) v s with
        | (s', Ret _) => replace_values r s'
        | (s', Raise e) => (s', Raise e)
        end
    end.

  (* VectorContainer.add_variable.  The array built by `np.array(value).flatten()` / `np.full(len(span), value)` is
     rank 1 by construction: it is described by its dtype, its number m0 of cells and the cells. *)
  (* '_' + name in self.__dict__ *)
  Definition storage_taken (name : string) (s : state) : bool :=
    (String.eqb name "attributes" || String.eqb name "strict" ||
     match kind s with CLinker _ => (String.eqb name "LAGS" || String.eqb name "LEADS")%bool | _ => false end ||
     match assoc name (vars s) with Some _ => true | None => false end ||
     match assoc (String "_" name) (adict s) with Some _ => true | None => false end)%bool.

  Definition base_add_variable (name : string) (value : operand) (dt : option dreq) (s : state) : res :=
    if mem name (index s) then err s DuplicateNameError
    else if storage_taken name s then err s DuplicateNameError       (* fix d82b358: the storage key is taken already *)
    else
      let n := n_of s in
      match (if is_sequence value then
               match natural value with                         (* np.array(value).flatten() *)
               | Raise e => Raise e
               | Ret (d, sh, cells) => Ret (d, prod_shape sh, cells)
               end
             else                                               (* np.full(len(span), value) *)
               match natural value with
               | Raise e => Raise e
               | Ret (d, sh, cells) =>
                   match bcast_arr n sh cells with
                   | None => Raise ValueError
                   | Some cs => Ret (d, n, cs)
                   end
               end) with
      | Raise e => err s e
      | Ret (d0, m0, cells0) =>
          match (match dt with
                 | None => Ret (d0, cells0)
                 | Some r => let d1 := astype_dt d0 cells0 r in     (* .astype(dtype) *)
                             match cast_all (arrcast d0 d1) cells0 with
                             | Raise e => Raise e
                             | Ret cs => if adds_dim r then Raise DimensionError   (* fix cf99a8a: value_as_array.ndim != 1 *)
                                         else Ret (d1, cs)
                             end
                 end) with
          | Raise e => err s e
          | Ret (d1, cells1) =>
              if negb (Nat.eqb m0 n) then err s DimensionError     (* value_as_array.shape[0] != len(span) *)
              else ok (set_index_vars s (index s ++ [name]) (assoc_set name (mkVar d1 [m0] cells1) (vars s)))
          end
      end.

  (* ModelInterface.add_variable: default dtype, then extend `names` *)
  Definition add_variable (name : string) (value : operand) (dt : option dreq) (s : state) : res :=
    match kind s with
    | CVC => base_add_variable name value dt s
    | _ =>
        let dt' := match dt with None => dflt s | Some _ => dt end in
        match base_add_variable name value dt' s with
        | (s', Ret _) => ok (set_names s' (names s' ++ [name]))
        | (s', Raise e) => (s', Raise e)
        end
    end.

  (* ---------------------------------------------------------------- read-only hooks: (state afterwards, what is returned) *)
  Definition itemsize (d : dtype) : nat :=
    match d with DFloat => 8 | DInt => 8 | DBool => 1 | DStr k => 4 * k | DObj => 8 end.
  Definition nbytes_of (rn : string -> string) (s : state) : outcome nat :=     (* sum(self[k].nbytes for k in index) *)
    fold_right (fun x acc => match acc with
                             | Raise e => Raise e
                             | Ret a => match assoc (rn x) (vars s) with
                                        | Some v => if mem (rn x) (index s)
                                                    then Ret (prod_shape (vshape v) * itemsize (vdtype v) + a)
                                                    else Raise KeyError
                                        | None => Raise KeyError
                                        end
                             end) (Ret 0) (index s).

  Definition read (q : query) (s : state) : state * outcome qval :=
    match q with
    | QCompletions => (s, Ret (VNames (index s)))                              (* return self.__dict__['index'] *)
    | QDir => (s, Ret (VNames (index s ++ reg_names (registry s))))            (* dir(type(self)) + index + _attributes *)
    | QContains n => (s, Ret (VBool (mem n (row_names s))))                    (* VectorContainer: index; ModelInterface: names *)
    | QNbytes => (s, match nbytes_of (fun x => x) s with Ret n => Ret (VNat n) | Raise e => Raise e end)
    end.

  Definition step (o : op) (s : state) : res :=
    match o with
    | Query q => (fst (read q s), Ret tt)       (* the call is made; its value / exception is `snd (read q s)` *)
    | AddVariable name v dt => add_variable name v dt s
    | SetAttr name v hint => setattr name v hint s
    | SetItem k v => setitem k v s
    | ReplaceValues kvs => replace_values kvs s
    | AddAttribute name v => add_attribute name v s
    end.

  (* a history: every operation is attempted, raising ones are caught by the caller *)
  Fixpoint run (ops : list op) (s : state) : state :=
    match ops with
    | [] => s
    | o :: r => run r (fst (step o s))
    end.
  Fixpoint run_trace (ops : list op) (s : state) : list (state * outcome unit) :=
    match ops with
    | [] => []
    | o :: r => let x := step o s in x :: run_trace r (fst x)
    end.

  (* ---------------------------------------------------------------- constructors *)
  Definition core_registry : list regent := [RName "_attributes"; RName "span"; RName "index"; RName "_strict"].
  Definition init_vc (sp : list Z) (st : bool) : state :=
    mkState sp [] [] core_registry [] st CVC [] None.

  Fixpoint dup_free (l : list string) : bool :=
    match l with [] => true | x :: r => (negb (mem x r) && dup_free r)%bool end.

  Definition dreq_operand (d : dreq) : operand :=
    OScalar (PStr (match d with RFloat => "float" | RInt => "int" | RBool => "bool" | RStr => "str" | RSub => "2f8" end)).

  (* for name in names: super().add_variable(name, initial_values.get(name, default_value), dtype=self.dtype) *)
  Fixpoint init_vars (nms : list string) (ivs : list (string * operand)) (default : operand) (d : dreq) (s : state) : res :=
    match nms with
    | [] => ok s
    | x :: r =>
        match base_add_variable x (match assoc x ivs with Some v => v | None => default end) (Some d) s with
        | (s', Ret _) => init_vars r ivs default d s'
        | (s', Raise e) => (s', Raise e)
        end
    end.

  Definition bind (r : res) (f : state -> res) : res :=
    match r with (s', Ret _) => f s' | (s', Raise e) => (s', Raise e) end.

  (* ModelInterface.__init__ followed by the SolverMixin / BaseModel / BaseLinker additions.
     `k` = CModel or CLinker; BaseLinker.__init__ has no `strict` parameter (always False). *)
  Definition init_model (k : ckind) (sp : list Z) (st : bool) (d : dreq) (default : operand)
             (NAMES : list string) (ivs : list (string * operand)) : res :=
    let s0 := mkState sp [] [] core_registry [] st k [] None in
    bind (add_attribute "dtype" (dreq_operand d) s0) (fun s1 =>
    let s1 := mkState (span s1) (index s1) (vars s1) (registry s1) (adict s1) (strict s1) (kind s1) (names s1) (Some d) in
    bind (base_add_variable "status" (OScalar (PStr "-")) None s1) (fun s2 =>
    bind (base_add_variable "iterations" (OScalar (PInt (-1))) None s2) (fun s3 =>
    if negb (dup_free NAMES) then err s3 DuplicateNameError
    else if (st && existsb (fun kv => negb (mem (fst kv) NAMES)) ivs)%bool then err s3 InitialisationError
    else
    bind (add_attribute "names" (OSeq KList (map (fun x => OScalar (PStr x)) NAMES)) s3) (fun s4 =>
    let s4 := set_names s4 NAMES in
    bind (init_vars NAMES ivs default d s4) (fun s5 =>
    bind (add_attribute "lags" (OScalar (PInt 0)) s5) (fun s6 =>
    bind (add_attribute "leads" (OScalar (PInt 0)) s6) (fun s7 =>
    bind (add_attribute "endogenous" (OSeq KList []) s7) (fun s8 =>
    bind (add_attribute "check" (OSeq KList []) s8) (fun s9 =>
    match k with
    | CModel => add_attribute "engine" (OScalar (PStr "python")) s9
    | _ => ok s9
    end))))))))).

  (* ---------------------------------------------------------------- observations *)
  Definition nbytes_own (s : state) : nat :=
    fold_right (fun x acc => match assoc x (vars s) with
                             | Some v => prod_shape (vshape v) * itemsize (vdtype v) + acc
                             | None => acc end) 0 (index s).
End Model.

(* ====================================================================== the NumPy tables measured on this
   image (NumPy 2.5.3): what K runs.  Assumptions about operands (the generator stays inside them):
   |ints| < 2^53, floats are halves of small integers or nan/+-inf, strings are not numeric literals. *)
Definition INT_MIN : Z := (- 9223372036854775808)%Z.

Definition string_of_Z (z : Z) : string := DecimalString.NilZero.string_of_int (Z.to_int z).

Definition str_of_fl (f : fl) : string :=
  match f with
  | FNaN => "nan" | FPInf => "inf" | FNInf => "-inf"
  | FHalf z =>
      let q := Z.quot (Z.abs z) 2 in
      let sign := if (z <? 0)%Z then "-" else "" in
      (sign ++ string_of_Z q ++ (if Z.even z then ".0" else ".5"))%string
  end.

Definition str_of_val (v : pyval) : string :=
  match v with
  | PInt z => string_of_Z z
  | PFlt f => str_of_fl f
  | PBool true => "True" | PBool false => "False"
  | PStr s => s
  | PNone => "None"
  end.

Fixpoint truncate (k : nat) (s : string) : string :=
  match k, s with
  | S k', String c r => String c (truncate k' r)
  | _, _ => EmptyString
  end.

(* which cell a cast into dtype d produces; `py` = the value is a Python object (assignment of a scalar or of
   list elements), otherwise a cell of an ndarray (astype / array-to-array copy, which never range-checks) *)
(* text cells: float('13'), float('-1.5'), int('13') convert; int('13.5') and words do not.  The literals the harness uses are
   [-]digits, [-]digits.0, [-]digits.5 (halves are exact); everything else counts as non-numeric text *)
Fixpoint parse_nat_acc (s : string) (acc : Z) : option Z :=
  match s with
  | EmptyString => Some acc
  | String c r => let n := Ascii.nat_of_ascii c in
                  if (Nat.leb 48 n && Nat.leb n 57)%bool then parse_nat_acc r (10 * acc + Z.of_nat (n - 48)) else None
  end.
Definition parse_nat (s : string) : option Z := match s with EmptyString => None | _ => parse_nat_acc s 0%Z end.
Fixpoint split_dot (s : string) : string * option string :=
  match s with
  | EmptyString => (EmptyString, None)
  | String c r => if Ascii.eqb c "."%char then (EmptyString, Some r)
                  else let (a, f) := split_dot r in (String c a, f)
  end.
Definition parse_signed (f : string -> option Z) (s : string) : option Z :=
  match s with
  | String c r => if Ascii.eqb c "-"%char then option_map Z.opp (f r) else f s
  | EmptyString => None
  end.
Definition parse_int (s : string) : option Z := parse_signed parse_nat s.
Definition parse_half (s : string) : option Z :=          (* twice the value *)
  parse_signed (fun b => let (a, f) := split_dot b in
                         match parse_nat a, f with
                         | Some n, None => Some (2 * n)%Z
                         | Some n, Some fr => if String.eqb fr "0" then Some (2 * n)%Z
                                              else if String.eqb fr "5" then Some (2 * n + 1)%Z else None
                         | None, _ => None
                         end) s.

Definition np_cast (py : bool) (d : dtype) (v : pyval) : outcome pyval :=
  match d with
  | DFloat =>
      match v with
      | PInt z => Ret (PFlt (FHalf (2 * z)))
      | PFlt f => Ret (PFlt f)
      | PBool b => Ret (PFlt (FHalf (if b then 2 else 0)))
      | PStr x => match parse_half x with                                                                  (* float(text) *)
                  | Some z => Ret (PFlt (FHalf z))
                  | None => if String.eqb x "nan" then Ret (PFlt FNaN) else if String.eqb x "inf" then Ret (PFlt FPInf)
                            else if String.eqb x "-inf" then Ret (PFlt FNInf) else Raise ValueError
                  end
      | PNone => Ret (PFlt FNaN)
      end
  | DInt =>
      match v with
      | PInt z => Ret (PInt z)
      | PFlt (FHalf z) => Ret (PInt (Z.quot z 2))       (* truncation towards zero *)
      | PFlt FNaN => if py then Raise ValueError else Ret (PInt INT_MIN)
      | PFlt _ => if py then Raise OverflowError else Ret (PInt INT_MIN)
      | PBool b => Ret (PInt (if b then 1 else 0))
      | PStr x => match parse_int x with Some z => Ret (PInt z) | None => Raise ValueError end            (* int(text) *)
      | PNone => Raise TypeError
      end
  | DBool => Ret (PBool (truthy_val v))
  | DStr k => Ret (PStr (truncate k (str_of_val v)))
  | DObj => Ret v
  end.

Definition np_pycast (d : dtype) (v : pyval) : outcome pyval := np_cast true d v.
(* cells of an object array are Python objects: they are converted as such *)
Definition np_arrcast (src dst : dtype) (v : pyval) : outcome pyval :=
  np_cast (match src with DObj => true | _ => false end) dst v.

Definition width_of (v : pyval) : nat :=
  match v with PInt _ => 21 | PFlt _ => 32 | PBool _ => 5 | PStr s => String.length s | PNone => 4 end.

Definition np_infer (cs : list pyval) : dtype :=
  if existsb (fun v => match v with PNone => true | _ => false end) cs then DObj
  else if existsb (fun v => match v with PStr _ => true | _ => false end) cs
       then DStr (fold_right (fun v acc => Nat.max (width_of v) acc) 1 cs)
  else if existsb (fun v => match v with PFlt _ => true | _ => false end) cs then DFloat
  else if existsb (fun v => match v with PInt _ => true | _ => false end) cs then DInt
  else match cs with [] => DFloat | _ => DBool end.

Definition np_astype_dt (src : dtype) (cells : list pyval) (r : dreq) : dtype :=
  match r with
  | RFloat | RSub => DFloat | RInt => DInt | RBool => DBool
  | RStr => match src with
            | DStr k => DStr k
            | DInt => DStr 21 | DFloat => DStr 32 | DBool => DStr 5
            | DObj => DStr (fold_right (fun v acc => Nat.max (String.length (str_of_val v)) acc) 1 cells)
            end
  end.

Definition np_itemseq_exn (d : dtype) : exn := match d with DInt => TypeError | _ => ValueError end.

Definition np_step := step np_pycast np_arrcast np_infer np_astype_dt np_itemseq_exn.
Definition np_run := run np_pycast np_arrcast np_infer np_astype_dt np_itemseq_exn.
Definition np_init_model := init_model np_pycast np_arrcast np_infer np_astype_dt.
Definition np_values_shape := values_shape.
