(* Alias.v — executable model of fsic.extensions.common.AliasMixin as the code is NOW (after fix adac991:
   self-maps dropped first, shortening loop bounded by len(aliases)+1 passes, for/else -> InitialisationError).
   Definitions only.  The mixin's wrappers resolve a name and then call the wrapped container operation
   (Container.v); reads are modelled by `getitem` / `getattr_var` below. *)
From Coq Require Import ZArith List Bool Lia String Ascii.
Import ListNotations.
Require Import PyBase Container.
Open Scope string_scope.
Open Scope list_scope.
Open Scope nat_scope.
Notation length := List.length (only parsing).

(* a Python dict str -> str: insertion-ordered association list (keys unique: a dict cannot hold a key twice) *)
Definition amap_t : Type := list (string * string).

Definition akeys (a : amap_t) : list string := map fst a.
Definition avals (a : amap_t) : list string := map snd a.

(* aliases.get(x, x) *)
Definition aget (a : amap_t) (x : string) : string :=
  match assoc x a with Some v => v | None => x end.

(* {k: v for k, v in aliases.items() if k != v} *)
Definition drop_self (a : amap_t) : amap_t :=
  filter (fun kv => negb (String.eqb (fst kv) (snd kv))) a.

(* len(set(aliases.keys()) & set(aliases.values())) != 0 *)
Definition chained (a : amap_t) : bool := existsb (fun k => mem k (avals a)) (akeys a).

(* {k: aliases.get(v, v) for k, v in aliases.items()} *)
Definition subst (a : amap_t) : amap_t := map (fun kv => (fst kv, aget a (snd kv))) a.

(* for _ in range(len(aliases) + 1): if not chained: break; aliases = subst(aliases)   else: raise
   `passes` = the number of iterations still available; None = the loop ran out (the for/else branch) *)
Fixpoint shorten_loop (passes : nat) (a : amap_t) : option amap_t :=
  match passes with
  | O => None
  | S p => if chained a then shorten_loop p (subst a) else Some a
  end.

Definition shorten (ALIASES : amap_t) : outcome amap_t :=
  let a1 := drop_self ALIASES in
  match shorten_loop (S (length a1)) a1 with
  | None => Raise InitialisationError
  | Some a2 => Ret (drop_self a2)
  end.

(* the PREFERRED_NAMES validation loop of __init__ *)
Fixpoint pref_check (a : amap_t) (pref : list string) (seen : list string) : outcome unit :=
  match pref with
  | [] => Ret tt
  | nm :: r => let t := aget a nm in
               if mem t seen then Raise ValueError else pref_check a r (seen ++ [t])
  end.

Record aobj : Type := mkAobj { amap : amap_t; apref : list string }.   (* self.aliases, self.preferred_names *)

Definition alias_construct (ALIASES : amap_t) (PREFERRED : list string) : outcome aobj :=
  match shorten ALIASES with
  | Raise e => Raise e
  | Ret a => match pref_check a PREFERRED [] with
             | Raise e => Raise e
             | Ret _ => Ret (mkAobj a PREFERRED)
             end
  end.

(* _resolve_alias *)
Definition resolve (am : aobj) (x : string) : string := aget (amap am) x.

(* {self._resolve_alias(k): v for k, v in kwargs.items()} : a later keyword replaces the value, the key keeps its place *)
Definition resolve_kwargs (am : aobj) (kw : list (string * operand)) : list (string * operand) :=
  fold_left (fun acc kv => assoc_set (resolve am (fst kv)) (snd kv) acc) kw [].

Definition resolve_key (am : aobj) (k : key) : key :=
  match k with
  | KName n => KName (resolve am n)
  | KLabel n l => KLabel (resolve am n) l
  | KSlice n a b st => KSlice (resolve am n) a b st
  | KTuple3 => KTuple3
  | KOther => KOther
  end.

(* which operation the wrapped class receives: __setattr__, __setitem__ (hence replace_values) resolve;
   add_variable and add_attribute are not wrapped *)
Definition resolve_op (am : aobj) (o : op) : op :=
  match o with
  | SetAttr n v h => SetAttr (resolve am n) v h
  | SetItem k v => SetItem (resolve_key am k) v
  | ReplaceValues kvs => ReplaceValues (map (fun kv => (resolve am (fst kv), snd kv)) kvs)
  | AddVariable _ _ _ | AddAttribute _ _ | Query _ => o
  end.

(* the read-only hooks of the mixin: (state afterwards, what is returned).
   _ipython_key_completions_ / __dir__ : the base class's answer + list(self.aliases.keys()), a NEW list (concatenation);
   __contains__ resolves the name first (fix 0f38318); nbytes walks `index` through the alias-resolving __getitem__ *)
Definition alias_read (am : aobj) (q : query) (s : state) : state * outcome qval :=
  match q with
  | QCompletions => (s, Ret (VNames (index s ++ akeys (amap am))))
  | QDir => (s, Ret (VNames (index s ++ reg_names (registry s) ++ akeys (amap am))))
  | QContains n => read (QContains (resolve am n)) s
  | QNbytes => (s, match nbytes_of (resolve am) s with Ret n => Ret (VNat n) | Raise e => Raise e end)
  end.

(* k in self.__dict__ *)
Definition dict_key (s : state) (k : string) : bool :=
  (mem k ["span"; "index"; "_strict"; "_attributes"; "aliases"; "preferred_names"] ||
   match kind s with CLinker _ => mem k ["submodels"; "name"; "_LAGS"; "_LEADS"] | _ => false end ||
   match assoc k (adict s) with Some _ => true | None => false end ||
   (underscored k && match assoc (tail_of k) (vars s) with Some _ => true | None => false end))%bool.

Definition alias_clash (classattrs : list string) (am : aobj) (s : state) : bool :=
  existsb (fun k => (mem k (index s) || dict_key s k || mem k classattrs)%bool) (akeys (amap am)).

Section AliasOps.
  Variable pycast : dtype -> pyval -> outcome pyval.
  Variable arrcast : dtype -> dtype -> pyval -> outcome pyval.
  Variable infer : list pyval -> dtype.
  Variable astype_dt : dtype -> list pyval -> dreq -> dtype.
  Variable itemseq_exn : dtype -> exn.

  Definition gen_alias_step (am : aobj) (o : op) (s : state) : res :=
    match o with
    | Query q => (fst (alias_read am q s), Ret tt)
    | _ => step pycast arrcast infer astype_dt itemseq_exn (resolve_op am o) s
    end.

  Fixpoint gen_alias_run (am : aobj) (ops : list op) (s : state) : state :=
    match ops with [] => s | o :: r => gen_alias_run am r (fst (gen_alias_step am o s)) end.

  (* fix 4e03fd0: after the wrapped constructor has run, an alias named like a variable, like an entry of the object's __dict__ or
     like an attribute of its class is refused.  `classattrs` = the names for which hasattr(type(self), name) holds (the class is
     Python's business: handed in, like difflib's answer) *)
  Definition gen_alias_init_model (classattrs : list string) (am : aobj) (k : ckind) (sp : list Z) (st : bool) (d : dreq)
             (default : operand) (NAMES : list string) (kwargs : list (string * operand)) : res :=
    match init_model pycast arrcast infer astype_dt k sp st d default NAMES (resolve_kwargs am kwargs) with
    | (s, Ret u) => if alias_clash classattrs am s then (s, Raise InitialisationError) else (s, Ret u)
    | r => r
    end.
End AliasOps.

Definition alias_step := gen_alias_step np_pycast np_arrcast np_infer np_astype_dt np_itemseq_exn.
Definition alias_init_model := gen_alias_init_model np_pycast np_arrcast np_infer np_astype_dt.

(* M(span, **keywords): Python binds the keywords AFTER AliasMixin.__init__ has renamed them through _resolve_alias - a keyword
   called default_value that is an alias reaches the base constructor under the variable's name (and default_value keeps 0.0) *)
Definition keyword_call (classattrs : list string) (am : aobj) (k : ckind) (sp : list Z) (st : bool) (d : dreq)
           (NAMES : list string) (rawkw : list (string * operand)) : res :=
  let kw := resolve_kwargs am rawkw in
  alias_init_model classattrs am k sp st d
    (match assoc "default_value" kw with Some v => v | None => OScalar (PFlt (FHalf 0)) end) NAMES
    (filter (fun kv => negb (String.eqb (fst kv) "default_value")) kw).

(* ---------------------------------------------------------------- reads *)
(* VectorContainer.__getitem__ (cells addressed), without aliases *)
Definition getitem (k : key) (s : state) : outcome (list pyval) :=
  match k with
  | KName n => if mem n (index s) then match assoc n (vars s) with Some v => Ret (vdata v) | None => Raise KeyError end
               else Raise KeyError
  | KTuple3 => Raise IndexError
  | KOther => Raise TypeError
  | KLabel n l =>
      if mem n (index s) then
        match assoc n (vars s) with
        | None => Raise KeyError
        | Some v => match locate (span s) l with
                    | Raise e => Raise e
                    | Ret p => match nth_error (vdata v) p with Some c => Ret [c] | None => Raise IndexError end
                    end
        end
      else Raise KeyError
  | KSlice n a b st =>
      if mem n (index s) then
        match assoc n (vars s) with
        | None => Raise KeyError
        | Some v => match resolve_slice (span s) a b st with
                    | Raise e => Raise e
                    | Ret (sl, el, step) =>
                        match slice_positions (length (vdata v)) sl el step with
                        | None => Raise ValueError
                        | Some ps => Ret (map (fun p => nth p (vdata v) PNone) ps)
                        end
                    end
        end
      else Raise KeyError
  end.

(* obj.name for a variable name (VectorContainer.__getattr__); other attributes are not series *)
Definition getattr_var (n : string) (s : state) : outcome (list pyval) :=
  if mem n (index s) then match assoc n (vars s) with Some v => Ret (vdata v) | None => Raise KeyError end
  else Raise AttributeError.

Definition alias_getitem (am : aobj) (k : key) (s : state) : outcome (list pyval) := getitem (resolve_key am k) s.
Definition alias_getattr_var (am : aobj) (n : string) (s : state) : outcome (list pyval) := getattr_var (resolve am n) s.

(* ---------------------------------------------------------------- to_dataframe(use_aliases=True) *)
Definition starts_underscore (x : string) : bool :=
  match x with String c _ => Ascii.eqb c "_"%char | EmptyString => false end.

(* columns of model_to_dataframe (status=True, iterations=True, include_internal=False) *)
(* columns of model_to_dataframe(status=st, iterations=it, include_internal=incl) *)
Definition base_columns_with (st it incl : bool) (s : state) : list string :=
  (if incl then names s else filter (fun x => negb (starts_underscore x)) (names s)) ++
  (if st then ["status"] else []) ++ (if it then ["iterations"] else []).
Definition base_columns (s : state) : list string := base_columns_with true true false s.

(* {v: k for k, v in aliases.items()}.get(c): the LAST alias of c wins *)
Definition last_alias (a : amap_t) (c : string) : option string :=
  fold_left (fun acc kv => if String.eqb (snd kv) c then Some (fst kv) else acc) a None.

Fixpoint dedupe (l : list string) : list string :=
  match l with [] => [] | x :: r => x :: filter (fun y => negb (String.eqb x y)) (dedupe r) end.

(* the aliases of one target, in dict order (sorted() is stable, groupby() then collects them) *)
Definition group_of (a : amap_t) (t : string) : list string :=
  map fst (filter (fun kv => String.eqb (snd kv) t) a).

(* the decision taken for one group: None = no replacement for this target *)
Definition group_choice (am : aobj) (t : string) : outcome (option string) :=
  match group_of (amap am) t with
  | [k] => if mem t (apref am) then Ret None else Ret (Some k)
  | ks => match filter (fun x => mem x (apref am)) (dedupe (ks ++ [t])) with
          | [] => Ret None
          | [x] => Ret (Some x)
          | _ => Raise ValueError
          end
  end.

Fixpoint replacements (am : aobj) (targets : list string) : outcome (list (string * string)) :=
  match targets with
  | [] => Ret []
  | t :: r => match group_choice am t with
              | Raise e => Raise e
              | Ret c => match replacements am r with
                         | Raise e => Raise e
                         | Ret l => Ret (match c with Some x => (t, x) :: l | None => l end)
                         end
              end
  end.

(* the column titles after df.rename(columns=...) *)
Definition rename_columns (am : aobj) (cols : list string) : outcome (list string) :=
  match apref am with
  | [] => Ret (map (fun c => match last_alias (amap am) c with Some k => k | None => c end) cols)
  | _ => match replacements am (dedupe (avals (amap am))) with
         | Raise e => Raise e
         | Ret rep => Ret (map (fun c => aget rep c) cols)
         end
  end.

(* an exported column: its title and the variable whose series fills it (model[k] resolves aliases) *)
Definition export_cols (am : aobj) (cols : list string) : outcome (list (string * string)) :=
  match rename_columns am cols with
  | Raise e => Raise e
  | Ret titles => Ret (combine titles (map (resolve am) cols))
  end.
Definition export (am : aobj) (s : state) : outcome (list (string * string)) := export_cols am (base_columns s).
Definition export_with (am : aobj) (st it incl : bool) (s : state) : outcome (list (string * string)) :=
  export_cols am (base_columns_with st it incl s).
Definition export_plain (s : state) : list (string * string) :=
  let cols := base_columns s in combine cols cols.

(* ---------------------------------------------------------------- reindex() *)
(* VectorContainer.reindex(span', fill) as AliasMixin objects run it: `rn` = the name resolution of self[...] (identity for a plain
   object).  For every name of `index`, in order: dtype and old cells are read through self[name] on the ORIGINAL; a fresh array
   of the fill cell is stored under '_' + name of the copy; the overlapping periods are then written through reindexed[name]. *)
Definition positions (old_span new_span : list Z) : list (nat * nat) :=
  List.concat (map (fun ip => match find_pos (snd ip) old_span with Some p => [(fst ip, p)] | None => [] end)
              (combine (seq 0 (length new_span)) new_span)).

Definition write_positions (src : list pyval) (ps : list (nat * nat)) (dst : list pyval) : list pyval :=
  fold_left (fun d np => match nth_error src (snd np) with Some c => upd (fst np) c d | None => d end) ps dst.

Definition reindex_name (rn : string -> string) (fill : string -> dtype -> pyval) (new_span : list Z) (s : state)
           (acc : outcome (list (string * var))) (name : string) : outcome (list (string * var)) :=
  match acc with
  | Raise e => Raise e
  | Ret vs =>
      if negb (mem (rn name) (index s)) then Raise KeyError            (* self[name] *)
      else match assoc (rn name) (vars s) with
           | None => Raise KeyError
           | Some src =>
               let fresh := mkVar (vdtype src) [length new_span] (repeat (fill name (vdtype src)) (length new_span)) in
               let vs1 := assoc_set name fresh vs in
               match assoc (rn name) vs1 with                            (* reindexed[name] *)
               | None => Raise KeyError
               | Some tgt => Ret (assoc_set (rn name) (mkVar (vdtype tgt) (vshape tgt)
                                               (write_positions (vdata src) (positions (span s) new_span) (vdata tgt))) vs1)
               end
           end
  end.

Definition reindex_with (rn : string -> string) (fill : string -> dtype -> pyval) (new_span : list Z) (s : state) : outcome state :=
  match fold_left (reindex_name rn fill new_span s) (index s) (Ret (vars s)) with
  | Raise e => Raise e
  | Ret vs => Ret (mkState new_span (index s) vs (registry s) (adict s) (strict s) (kind s) (names s) (dflt s))
  end.

Definition reindex_plain := reindex_with (fun x => x).
Definition alias_reindex (am : aobj) := reindex_with (resolve am).

(* the cell np.full(len(span), None-or-default, dtype) puts into new periods *)
Definition np_fill (k : ckind) (name : string) (d : dtype) : pyval :=
  match k, d with
  | CVC, _ => match d with DBool => PBool false | DInt => PInt 0 | DStr _ => PStr "" | DFloat => PFlt FNaN | DObj => PNone end
  | _, _ => if String.eqb name "status" then (match d with DStr w => PStr (truncate w "-") | DBool => PBool true | _ => PStr "-" end)
            else if String.eqb name "iterations" then (match d with DInt => PInt (-1) | DFloat => PFlt (FHalf (-2)) | DBool => PBool true | DStr w => PStr (truncate w "-1") | DObj => PInt (-1) end)
            else match d with DBool => PBool false | DInt => PInt 0 | DStr _ => PStr "" | DFloat => PFlt FNaN | DObj => PNone end
  end.

