(* LinkerExamples2.v — concrete instances for the theorems of LinkerFacts4 / LinkerFacts5: the hypotheses are
   satisfiable, `qualifies` is neither always true nor always false, and label-range runs of the executable model. *)
From Coq Require Import PrimFloat ZArith List Bool Lia.
Import ListNotations.
Require Import PyBase Solver SolverFacts SolverF SolveAll SolveAllFacts Linker LinkerFacts LinkerFacts2 LinkerFacts3 LinkerFacts4
               LinkerRange LinkerFacts5 LinkerFacts7 LinkerF LinkerExamples.
Open Scope Z_scope.

(* ---- C08_solved_iff_all_moved_lt_tol on the two-submodel example of LinkerExamples: iteration 4 qualifies, none
        before it does (A settles at 3; B and, through the cross-link, the linker's own variable at 4) ---- *)
Example lx_qualifies_at_4 :
  let o := lx_opts 0 6 in
  let sev := ls_sev 3 lx_ss in let eb := ls_hbefore 3 lx_hs in let ea := ls_hafter 3 lx_hs in
  let g := good float PrimFloat.sub PrimFloat.abs PrimFloat.ltb fzero sev eb ea None o 1 1%nat lx_state lx_s1 in
  g 4%nat /\ (forall j, (j < 4)%nat -> ~ g j) /\
  (* three containers are compared at every iteration: the linker, A and B, one check entry each *)
  map (@length float) (cvk float fzero sev eb ea None o 1 1%nat lx_state lx_s1 4) = [1; 1; 1]%nat.
Proof.
  cbv zeta.
  destruct lx_hypotheses_satisfiable as (Hids & Hwf & Hz & Hp & Hq & Hpost & H4 & Hlt).
  pose proof (lconvk_good float PrimFloat.sub PrimFloat.abs PrimFloat.ltb fzero (ls_sev 3 lx_ss) (ls_hpre 3 lx_hs)
                (ls_hbefore 3 lx_hs) (ls_hafter 3 lx_hs) None (lx_opts 0 6) 1 1%nat lx_state lx_subs1 lx_s1 Hwf Hz Hp) as G.
  split; [apply G; [cbn; lia|exact H4]|]. split; [|vm_compute; reflexivity].
  intros j Hj Hg. pose proof Hg as (Hr & _). apply G in Hg; [|exact Hr]. rewrite Hlt in Hg by lia. discriminate.
Qed.

(* ---- label ranges ---- *)
Definition lx_labels : list Z := [2000; 2001; 2002; 2003; 2004; 2005].
Lemma lx_labels_nodup : NoDup lx_labels.
Proof. repeat constructor; cbn; intuition discriminate. Qed.

(* hypotheses of C08_linker_solve_span_eq_fold: defaults with lags 2 / leads 1, and explicit labels *)
Example lx_span_hypotheses_satisfiable :
  locate_ok Z (locate_index lx_labels) lx_labels /\
  resolves_start Z (mkDesc [] [] 2 1) lx_labels None 2 /\ resolves_end Z (mkDesc [] [] 2 1) lx_labels None 4 /\
  resolves_start Z (mkDesc [] [] 2 1) lx_labels (Some 2001) 1 /\ resolves_end Z (mkDesc [] [] 2 1) lx_labels (Some 2005) 5 /\
  positions 2 4 = [2; 3; 4] /\ periods Z lx_labels 2 4 = [(2, 2002); (3, 2003); (4, 2004)] /\
  locate_index lx_labels 1999 = LFail.
Proof.
  split; [apply locate_index_ok; exact lx_labels_nodup|]. cbn. repeat split; lia.
Qed.

(* hypotheses of C08_default_range_fits_every_submodel: the second submodel has BOTH the longest lag and the longest lead *)
Definition lx_infos : list (sid * subinfo) :=
  [(0%nat, mkSub (mkSpan SList lx_labels) 0 0); (1%nat, mkSub (mkSpan SList lx_labels) 2 1); (2%nat, mkSub (mkSpan SList lx_labels) 1 0)].
Example lx_default_range_hypotheses_satisfiable :
  lx_infos <> [] /\ ctor_lags_leads lx_infos None = Ret (lx_labels, 2%nat, 1%nat) /\
  (forall ic, In ic lx_infos -> 0 <= si_LAGS (snd ic) /\ 0 <= si_LEADS (snd ic)) /\
  resolves_start Z (mkDesc [] [] 2 1) lx_labels None 2 /\ resolves_end Z (mkDesc [] [] 2 1) lx_labels None 4.
Proof.
  split; [discriminate|]. split; [reflexivity|]. split.
  - intros ic [<-|[<-|[<-|[]]]]; cbn; lia.
  - cbn. repeat split; lia.
Qed.

(* ---- the executable model over labels: three periods, B has LAGS 1 / LEADS 1 so the default range is period 1 alone
        (as lx_converges_at_4); solve(start=2001, end=2001) is the same; an unknown label raises KeyError; an explicit
        start at period 0 — no room for the linker's lag — is rejected by solve_t's own guard with IndexError ---- *)
Definition lx_labels3 : list Z := [2000; 2001; 2002].
Example lx_span_default_range :
  let r := f_linker_solve_span lx_ss lx_hs None (lx_opts 0 6) lx_labels3 None None lx_state in
  snd r = inr (1%nat, [(2001, 1, true)]) /\ lstate_eqb (fst r) (fst (lx_run None (lx_opts 0 6))) = true.
Proof. vm_compute. split; reflexivity. Qed.
Example lx_span_infeasible_start :
  f_linker_solve_span lx_ss lx_hs None (lx_opts 0 6) lx_labels3 (Some 2000) None lx_state = (lx_state, inl (LExn IndexError)).
Proof. vm_compute. reflexivity. Qed.
Example lx_span_one_period :
  let r := f_linker_solve_span lx_ss lx_hs None (lx_opts 0 6) lx_labels3 (Some 2001) (Some 2001) lx_state in
  snd r = inr (1%nat, [(2001, 1, true)]) /\ lstate_eqb (fst r) (fst (lx_run None (lx_opts 0 6))) = true.
Proof. vm_compute. split; reflexivity. Qed.
Example lx_span_unknown_label :
  f_linker_solve_span lx_ss lx_hs None (lx_opts 0 6) lx_labels3 (Some 1999) None lx_state = (lx_state, inl (LExn KeyError)).
Proof. vm_compute. reflexivity. Qed.
Example lx_span_reversed :
  f_linker_solve_span lx_ss lx_hs None (lx_opts 0 6) lx_labels3 (Some 2002) (Some 2000) lx_state = (lx_state, inr (0%nat, [])).
Proof. vm_compute. reflexivity. Qed.

(* ---- C08_user_exception_stamps_nothing: its hypothesis is met by a submodel whose second pass raises ---- *)
Example lx_user_raise :
  let r := lx_lrun lx_sc_raise lx_dA (lx_opts 0 6) in
  snd r = LRaise (LUser 12) /\ status (c_st (l_core (fst r))) = U3 /\
  map (fun ic => (status (c_st (snd ic)), iters (c_st (snd ic)))) (l_subs (fst r)) = [(U3, [-1; 1; -1])].
Proof. vm_compute. repeat split. Qed.

(* ---- C08_linker_errors_only_handed_down: scripted submodels and hooks do not look at errors= / catch_first_error ---- *)
Example lx_errors_hypotheses_satisfiable :
  (forall id t em cf em' cf' k v, ls_sev 3 lx_ss id t em cf k v = ls_sev 3 lx_ss id t em' cf' k v) /\
  (forall t ids em cf em' cf' k jv, ls_hpre 3 lx_hs t ids em cf k jv = ls_hpre 3 lx_hs t ids em' cf' k jv) /\
  (forall t ids em cf em' cf' k jv, ls_hafter 3 lx_hs t ids em cf k jv = ls_hafter 3 lx_hs t ids em' cf' k jv) /\
  fst (lx_run None (mkOpts 0 6 tolf 0 true ESkip false)) = fst (lx_run None (lx_opts 0 6)).
Proof. repeat split. Qed.

(* ---- C08_linker_solve_failure_containment: period 1 solves; period 2 — no room for the linker's lead — is rejected with
        IndexError: the exception surfaces, period 0 is never attempted, period 1 keeps its stamps everywhere ---- *)
Example lx_failure_containment_hypotheses_satisfiable :
  let o := lx_opts 0 6 in
  let r0 := f_linker_solve lx_ss lx_hs None o [1] lx_state in
  let r1 := f_linker_solve_t lx_ss lx_hs None o 2 (fst r0) in
  snd r0 = inr [true] /\ snd r1 = LRaise (LExn IndexError) /\
  f_linker_solve lx_ss lx_hs None o [1; 2; 0] lx_state = (fst r1, inl (LExn IndexError)) /\
  status (c_st (l_core (fst r1))) = [Unsolved; Solved; Unsolved] /\
  map (fun ic => status (c_st (snd ic))) (l_subs (fst r1)) = [[Unsolved; Solved; Unsolved]; [Unsolved; Solved; Unsolved]].
Proof. vm_compute. repeat split. Qed.
(* ... and with an iteration budget too small for period 1 under failures='raise' the fold stops there with
   NonConvergenceError, 'F' stamped at period 1 only *)
Example lx_failure_containment_nonconvergence :
  let r := f_linker_solve lx_ss lx_hs None (lx_opts 0 2) [1; 2] lx_state in
  snd r = inl (LExn NonConvergenceError) /\ status (c_st (l_core (fst r))) = [Unsolved; Failed; Unsolved].
Proof. vm_compute. split; reflexivity. Qed.

(* ---- a history: all submodels solved at period 1; then only A re-solved there with max_iter = 0: A reads 'F' / 0,
        the linker 'F' / 0, and B — unselected in the second call — keeps the '.' / 4 the first call stamped ---- *)
Example lx_history_keeps_earlier_stamps :
  let r := f_linker_history lx_ss lx_hs [(None, lx_opts 0 6, 1); (Some [0%nat], mkOpts 0 0 tolf 0 false ERaise true, 1)] lx_state [] in
  snd r = [LRet true; LRet false] /\
  (status (c_st (l_core (fst r))), iters (c_st (l_core (fst r)))) = ([Unsolved; Failed; Unsolved], [-1; 0; -1]) /\
  map (fun ic => (status (c_st (snd ic)), iters (c_st (snd ic)))) (l_subs (fst r))
    = [([Unsolved; Failed; Unsolved], [-1; 0; -1]); ([Unsolved; Solved; Unsolved], [-1; 4; -1])].
Proof. vm_compute. repeat split. Qed.

(* ---- "a linker that wraps a single model and adds no equations solves it to the same statuses, iteration counts and
        values as solving that model directly" is still FALSE of the faithful model outside the finite regime: since
        fixes 97423a0 / a0fbb5c BaseLinker.solve_t has BaseModel.solve_t's two guards, but it has no error policy ---- *)
Lemma single_model_linker_eq_model_refuted :
  (* a NaN check value under errors='raise' is SolutionError and 'E' for the model; the linker just compares it,
     iterates on and declares the period solved *)
  exists sc o, errors o = ERaise /\ min_iter o <= max_iter o /\ offset o = 0 /\ feasible lx_dA 3 1 = true /\
               snd (lx_mrun sc lx_dA o) = Raise (SolutionError None) /\ status (fst (lx_mrun sc lx_dA o)) = [Unsolved; ErrorSt; Unsolved] /\
               snd (lx_lrun sc lx_dA o) = LRet true.
Proof. exists lx_sc_nan, (lx_opts 0 6). vm_compute. repeat split; congruence. Qed.

(* the premises C08_single_model_linker_eq_model adds for "what __init__ establishes" hold of the wrapped example *)
Example lx_single_constructed_premises :
  lags (c_desc (l_core (lx_single lx_dA))) = lags lx_dA /\ leads (c_desc (l_core (lx_single lx_dA))) = leads lx_dA /\
  length (status (c_st (l_core (lx_single lx_dA)))) = length (status lx_mA).
Proof. repeat split. Qed.

(* ---- the guard premises of the *_M theorems and of C08_guard_passed_fits_every_submodel hold of the running example:
        linker lags 1 / leads 1 dominate A (0 / 0) and B (1 / 1); period 1 of 3 passes both guards, periods 0 and 2 do not ---- *)
Example lx_guard_hypotheses_satisfiable :
  min_iter (lx_opts 0 6) <= max_iter (lx_opts 0 6) /\
  linker_infeasible (c_desc (l_core lx_state)) 3 1 = false /\ linker_infeasible (c_desc (l_core lx_state)) 3 (-2) = false /\
  linker_infeasible (c_desc (l_core lx_state)) 3 0 = true /\ linker_infeasible (c_desc (l_core lx_state)) 3 (-1) = true /\
  py_pos 3 1 = Some 1%nat /\
  (forall ic, In ic (l_subs lx_state) -> (lags (c_desc (snd ic)) <= lags (c_desc (l_core lx_state)))%nat /\
                                         (leads (c_desc (snd ic)) <= leads (c_desc (l_core lx_state)))%nat) /\
  as_constructed lx_state = lx_state.
Proof.
  repeat split; try (cbn; lia); try reflexivity;
    destruct H as [<-|[<-|[]]]; cbn; lia.
Qed.

(* ---- C08_single_model_linker_solve_eq_model_solve: the regime premise holds of the wrapped example over the range [1]
        (the premises of one period are those of lx_single_hypotheses_satisfiable), and both runs return [True] ---- *)
Example lx_range_regime_satisfiable :
  regime float PrimFloat.sub PrimFloat.abs PrimFloat.ltb fisfin fzero (ls_sev 3 [(0%nat, lx_scA)]) (s_ev 3 lx_scA)
         lx_dA (lx_opts 0 6) 0%nat [] 3 [1] lx_mA /\
  snd (direct_solve float PrimFloat.sub PrimFloat.abs PrimFloat.ltb fisfin fzero (s_ev 3 lx_scA) lx_dA (lx_opts 0 6) [] [1] lx_mA) = inr [true].
Proof.
  destruct lx_single_hypotheses_satisfiable as (H1 & H2 & _ & _ & H5 & H6 & H7 & H8).
  split; [|vm_compute; reflexivity]. split; [|intros; exact I].
  exists 1%nat. split; [exact H5|]. split; [reflexivity|]. split; [reflexivity|]. split; [intros _; exact H2|].
  split; [exact H6|]. split; [exact H7|exact H8].
Qed.

(* ---- the seeding premise of the per-call theorems: with offset = 0 the seeded state is the state itself; with offset = -1
        at period 1 it is Linker.seeded (endogenous rows of the core and of A, B copied from period 0); the premises of
        C08_linker_offset_seeds / _out_of_span_rejected hold of the running example ---- *)
Example lx_seed_hypotheses_satisfiable :
  linker_seed float fzero [0%nat; 1%nat] (lx_opts 0 6) 1 lx_state = (lx_state, None) /\
  linker_seed float fzero [0%nat; 1%nat] (lx_opts_off (-1)) 1 lx_state = (Linker.seeded float fzero [0%nat; 1%nat] 1 0 lx_state, None) /\
  linker_seed float fzero [0%nat; 1%nat] (lx_opts_off (-5)) 1 lx_state = (lx_state, Some IndexError) /\
  linker_seed float fzero [0%nat; 7%nat] (lx_opts_off (-1)) 1 lx_state = (lx_state, Some KeyError) /\
  offset (lx_opts_off (-1)) <> 0 /\ 0 <= Z.of_nat 1 + offset (lx_opts_off (-1)) < 3 /\
  (forall id, In id (sel_ids float None lx_state) -> find_sub float id (l_subs lx_state) <> None) /\
  NoDup [0%nat; 1%nat].
Proof.
  repeat split; try (vm_compute; congruence).
  - intros id [<-|[<-|[]]]; vm_compute; discriminate.
  - repeat constructor; cbn; intuition discriminate.
Qed.

(* ---- fix f5ef8bd: the linker's name must not be a submodel id ---- *)
Example lx_init_name_clash :
  linker_init_M 1%nat [(0%nat, mkSub (mkSpan SList [5; 6]) 0 0); (1%nat, mkSub (mkSpan SList [5; 7]) 0 0)] None = Raise DuplicateNameError /\
  linker_init_M 1%nat [(1%nat, mkSub (mkSpan SList [5; 6]) 0 0)] (Some (mkSpan SList [5])) = Raise DuplicateNameError /\
  linker_init_M 9%nat [(0%nat, mkSub (mkSpan SList [5; 6]) 1 0); (1%nat, mkSub (mkSpan SList [5; 6]) 0 2)] None = Ret (mkSpan SList [5; 6], 1, 2).
Proof. repeat split. Qed.

(* ---- kept finding convergence|submodel-id-underscore-shadows-linker: the linker has one check variable L0, bumped by 1.0 after
        every iteration by its evaluate_t_after hook, and one static submodel (V0 = 1 at every pass).  Keyed 0 the period
        never converges (L0 keeps moving): 'F' after 5 iterations.  Keyed '_' (us_id) the submodel's check values replace the
        linker's own in get_check_values, and the period is declared solved at iteration 2 although L0 moved by 1.0 >= tol ---- *)
Definition us_core : fcomp := mkComp (mkDesc [0%nat] [0%nat] 0 0) (mkState [[0%float; 0%float; 0%float]] U3 [-1; -1; -1] []).
Definition us_sub : fcomp := mkComp (mkDesc [0%nat] [0%nat] 0 0) (mkState [[0%float; 0%float; 0%float]] U3 [-1; -1; -1] []).
Definition us_state (key : sid) : flstate := mkL us_core [(key, us_sub)] [].
Definition us_ss (key : sid) : subscripts := [(key, [(1%nat, mkPS [] (repeat [ASet 0 1%float] 5) [])])].
Definition us_hs : lscripts := [(1%nat, mkLS [] [] (repeat [LAAffine 0 0 1%float 0 0 1%float] 5) [])].
Lemma underscore_id_shadows_linker_refuted :
  let o := mkOpts 0 5 tolf 0 false ERaise true in
  let r_us := f_linker_solve_t (us_ss us_id) us_hs None o 1 (us_state us_id) in
  let r_0 := f_linker_solve_t (us_ss 0%nat) us_hs None o 1 (us_state 0%nat) in
  (* keyed '_': declared solved at iteration 2 ... *)
  snd r_us = LRet true /\ iters (c_st (l_core (fst r_us))) = [-1; 2; -1] /\
  (* ... although the linker's own check variable went from 1.0 (after iteration 1) to 2.0 (after iteration 2) *)
  vals_of (c_st (l_core (fst r_us))) = [[0%float; 2%float; 0%float]] /\
  PrimFloat.ltb (PrimFloat.abs (PrimFloat.sub 2%float 1%float)) tolf = false /\
  (* keyed by any other id: not solved *)
  snd r_0 = LRet false /\ status (c_st (l_core (fst r_0))) = [Unsolved; Failed; Unsolved] /\ iters (c_st (l_core (fst r_0))) = [-1; 5; -1].
Proof. vm_compute. repeat split. Qed.
